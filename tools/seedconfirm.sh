#!/bin/bash
# tools/seedconfirm.sh <seed dir>: confirms a seeded change in a scratch worktree of /repo HEAD:
# (1) the patch applies and the tree builds, (2) the baseline suite is still ok with it,
# (3) the demonstration fails with it and (4) passes without it.  Prints one CONFIRM line.
set -u
d="$(realpath "$1")"
wt="/tmp/vt/confirm$$"
export GOFLAGS=-mod=mod GOPROXY=off GOSUMDB=off GOTOOLCHAIN=local
mkdir -p /tmp/vt
git -C /repo worktree add -q --detach "$wt" HEAD || exit 3
trap 'git -C /repo worktree remove --force "$wt" 2>/dev/null; rm -rf "$wt"' EXIT
demo=$(ls "$d"/*_test.go 2>/dev/null | head -1)
[ -z "$demo" ] && { echo "CONFIRM $(basename $d): no *_test.go demo (standalone program?) - confirm by hand"; exit 2; }
pkg="${PKG:-}"; [ -z "$pkg" ] && pkg=$(grep -o -m1 -i 'copy \(it \)\?\(in\)\?to `\?[A-Za-z0-9/_.-]*' "$demo" | sed 's/.*to `\?//; s/`//g; s:/$::')
[ -z "$pkg" ] && { echo "CONFIRM $(basename $d): cannot find the 'copy to <dir>' comment"; exit 2; }
run=$(grep -o '^func Test[A-Za-z0-9_]*' "$demo" | sed 's/func //' | paste -sd'|')
cd "$wt"
cp "$demo" "$pkg/zz_seed_demo_test.go"
go test -vet=off -count=1 -timeout 300s -ldflags=-checklinkname=0 -run "^($run)\$" "./$pkg/" > /tmp/vt/c$$.clean 2>&1; rc_clean=$?
if ! git apply "$d/patch.diff"; then echo "CONFIRM $(basename $d): PATCH DOES NOT APPLY to HEAD"; exit 1; fi
go test -vet=off -count=1 -timeout 300s -ldflags=-checklinkname=0 -run "^($run)\$" "./$pkg/" > /tmp/vt/c$$.mut 2>&1; rc_mut=$?
rm "$pkg/zz_seed_demo_test.go"
go build -ldflags=-checklinkname=0 ./... > /tmp/vt/c$$.build 2>&1; rc_build=$?
go test -vet=off -count=1 -timeout 600s ./... 2>&1 | grep -v "no test files" > /tmp/vt/c$$.suite
bad=$(grep -v "^ok" /tmp/vt/c$$.suite | grep -v "github.com/iDigitalFlame/xmt/c2\(/cfg\)\?[ \t]" | grep -c "^FAIL[[:space:]]\|^--- FAIL\|^panic")
echo "CONFIRM $(basename $d): build=$rc_build suite_failures=$bad demo_without_patch_rc=$rc_clean demo_with_patch_rc=$rc_mut  => $([ $rc_build = 0 ] && [ $bad = 0 ] && [ $rc_clean = 0 ] && [ $rc_mut != 0 ] && echo CONFIRMED || echo NOT-CONFIRMED)"
[ "${VERBOSE:-0}" = 1 ] && { tail -5 /tmp/vt/c$$.clean; tail -8 /tmp/vt/c$$.mut; grep -v "^ok" /tmp/vt/c$$.suite | head; }
rm -f /tmp/vt/c$$.*
