#!/usr/bin/env python3
"""tools/mktables.py: prints the markdown tables of DESIGN.md section 12 (fix commits, known findings, seeded changes,
theorem counts) from the files they are recorded in."""
import glob, json, os, re, subprocess
V = os.path.dirname(os.path.dirname(os.path.abspath(__file__)))
print("### Fix commits in /repo (each `fix:`; recorded as `fixed:` in known_findings.d)\n")
print("| property | commit | what failed |\n|---|---|---|")
for p in sorted(glob.glob(os.path.join(V, "known_findings.d", "*.json"))):
    d = json.load(open(p))
    for f in d.get("fixed", []):
        m = re.match(r"fixed: property=(C\d+) ([0-9a-f]+) (.*)", f, re.S)
        if m:
            print("| %s | `%s` | %s |" % (m.group(1), m.group(2), m.group(3).replace("|", "/").replace("\n", " ")[:400]))
print("\n### Known findings (genuine defects recorded, not repaired)\n")
print("| property | key | what fails |\n|---|---|---|")
for p in sorted(glob.glob(os.path.join(V, "known_findings.d", "*.json"))):
    d = json.load(open(p))
    for f in d.get("findings", []):
        print("| %s | `%s` | %s |" % (f["property"], f["key"], f["what"].replace("|", "/").replace("\n", " ")[:500]))
print("\n### Seeded changes (independent sub-agents) and which check catches them\n")
print("| seed | property | files | needs | outcome |\n|---|---|---|---|---|")
for p in sorted(glob.glob(os.path.join(V, "seeded", "C*-m*", "meta.json"))):
    m = json.load(open(p))
    print("| %s | %s | %s | %s | %s: %s |" % (os.path.basename(os.path.dirname(p)), m.get("property"), ", ".join(m.get("files", []))[:80],
                                          str(m.get("needs", "")).replace("|", "/").replace("\n", " ")[:220], m.get("outcome"), str(m.get("detail", "")).replace("|", "/")[:260]))
print("\n### Theorems per property\n")
print("| property | theorems in Props | lines Model / Proofs |\n|---|---|---|")
for p in sorted(glob.glob(os.path.join(V, "coq", "Props", "C*.v"))):
    s = open(p).read()
    n = len(re.findall(r"^Theorem ", s, re.M))
    imp = re.findall(r"(Model|Proofs)\.([A-Za-z0-9]+)", s)
    lm = sum(len(open(os.path.join(V, "coq", a, b + ".v")).readlines()) for a, b in set(imp) if a == "Model" and os.path.exists(os.path.join(V, "coq", a, b + ".v")))
    lp = sum(len(open(os.path.join(V, "coq", a, b + ".v")).readlines()) for a, b in set(imp) if a == "Proofs" and os.path.exists(os.path.join(V, "coq", a, b + ".v")))
    print("| %s | %d | %d / %d |" % (os.path.basename(p)[:-2], n, lm, lp))
