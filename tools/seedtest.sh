#!/bin/bash
# tools/seedtest.sh <patch.diff> <Cxx> [<Cyy> ...]   [TIER=quick|thorough] [KEEP=1]
# Runs the named checks against a scratch worktree of /repo with the patch applied, from a scratch
# copy of /verif (so that neither /repo nor /verif's build output and Gen files are disturbed),
# prints each check's stdout/exit code, and removes both scratch trees.
set -u
patch="$(realpath "$1")"; shift
name="vt$$"
root="/tmp/vt/$name"
mkdir -p "$root"
cleanup() { git -C /repo worktree remove --force "$root/repo" 2>/dev/null; rm -rf "$root"; }
trap cleanup EXIT
git -C /repo worktree add -q --detach "$root/repo" HEAD || exit 3
if ! git -C "$root/repo" apply "$patch"; then echo "SEEDTEST: patch does not apply to HEAD"; exit 3; fi
rsync -a --exclude .git --exclude /build --exclude /replays --exclude /evidence /verif/ "$root/verif/"
mkdir -p "$root/verif/replays" "$root/verif/evidence"
export GOFLAGS=-mod=mod GOPROXY=off GOSUMDB=off GOTOOLCHAIN=local
if [ "${BASELINE:-0}" = 1 ]; then
  (cd "$root/repo" && go test -vet=off -count=1 ./... 2>&1 | grep -v "no test files" | grep -v "^ok" | head -20)
fi
rc_all=0
for p in "$@"; do
  echo "=== $p on $(basename "$(dirname "$patch")")/$(basename "$patch")"
  (cd "$root/verif" && VERIF_REPO="$root/repo" timeout 3000 ./check "$p" --tier "${TIER:-quick}" > "$root/out.txt" 2>&1)
  rc=$?
  grep -v "^WARNING conda" "$root/out.txt" | tail -${TAIL:-8}
  echo "=== $p exit=$rc"
  if [ -n "${SAVE:-}" ]; then mkdir -p "$SAVE"; cp "$root"/verif/replays/* "$SAVE"/ 2>/dev/null; fi
done
