CFG = dict(
    id="C18", props="Props/C18.v", harness="c18", shims=["man--c18.go"], tags="verif",
    trusted_base=[
        "the block cipher is an arbitrary function E (theorems are for ALL E); in the run the real AES/DES block function is tabulated (counter -> block) and "
        "crypto/cipher's CTR stream is compared with the model's keystream on block boundaries and counter carries",
        "the typed codec primitives (Model/Codec.v rd_*/enc_*, shared with C10) and that both real writers/readers implement them (C10's correspondence)",
        "task.Script entries are read back by a copy of c2.muxHandleScript's reading loop inside the harness (the real function executes the entries)",
        "strings longer than 200 bytes are compared with the model by length and a position-weighted checksum (the Go-side oracle compares them by SHA-1)",
    ],
    assumptions=[
        "well-formed descriptions: every field fits its Go type, strings <= MaxSlice, lists <= 2^44 entries, at most 65535 launcher paths (wf_*)",
        "decoding into a FRESH value (the zero struct), as the task handlers and man.File do",
    ],
    level_text="Seventeen theorems over the Gallina model of the server-side encoders (c2/task/v_*.go, zombie.go, filter.go, sentinel.go) and the implant-side decoders: "
               "for ALL well-formed Process/DLL/Zombie/Assembly descriptions, filters behind a pointer and as a value, launcher paths and launcher descriptions, "
               "dec(enc x ++ rest) = Ok(norm x, rest) (equal modulo the normalisation of empty filters, exact consumption), script framing round trip, CTR involution for "
               "every block function, IV and length, launcher file round trip from a buffer and from any split reader whose first delivery holds the IV; the uint16 wrap of "
               "the path count at 65536 paths is proved as a refutation witness. Tied to /repo by ~1.3k generated cases per run through the real MarshalStream/Packet and "
               "UnmarshalStream/Sentinel.Read/Write (bytes and decoded structs compared with the model inside Coq).",
    level_note="Proof is about the model; the tie to the code is differential testing (distribution in the evidence). The block cipher is abstract in the theorems. No axioms.",
)
