CFG = dict(
    id="C02", props="Props/C02.v", harness="c02", shims=["c2--c02.go"], tags="verif,tiny",
    trusted_base=[
        "data.Chunk with Limit = F accepts exactly min(F, remaining) bytes from Packet.WriteTo (F a multiple of the 16 KiB copy buffer; property C11) "
        "and com.Packet.Marshal/Unmarshal is the identity on (ID, Job, Flags, Device, payload) (property C01; asserted at run time on every fragment)",
        "the 64-bit flag word is modelled as the record {len, pos, group, low 16 bits}: each setter replaces its own field and sets bit 0 (com/flag.go; bit-level lemmas belong to C01)",
        "sort.Sort on a cluster is modelled by a stable insertion sort (indistinguishable while positions inside a group are distinct, which the generator guarantees)",
        "channel semantics of the 128-slot send queue (non-blocking select) and Go map semantics of Session.frags",
    ],
    assumptions=[
        "F > 0 and the fragment count Size()/F + 1 is at most 65535 (the uint16 Len field); packets are addressed to the receiving Session (Device = its id) and are not Multi/MultiDevice/Sv* packets",
        "group ids of concurrently open groups are distinct (the code draws them at random; a collision is outside the property's quantifier)",
        "the fragment of position 0 arrives first (forced by the SvDrop answer, recorded finding) and every fragment fits into the send queue (recorded finding)",
    ],
    level_text="Theorems over the Gallina model of Session.write/queue (sender) and receive/cluster.add/cluster.done/markSweepFrags (receiver) for ALL limits F, all payloads "
               "(polymorphic), all group ids: the split is exact (count, positions, lengths, concatenation, where empty fragments occur); every arrival order with position 0 first, "
               "interleaved with arbitrary traffic of other groups, delivers exactly the original exactly once and leaves no cluster; fewer than all fragments deliver nothing; "
               "five wake-ups without traffic remove every cluster. The model is tied to /repo by running generated histories (sizes kF+d, |d|<=60, the band F-H-1..F+1, "
               "orders, interleavings, omissions, sweeps, both directions with distinct device ids) through the real functions and through the model inside Coq.",
    level_note="Proof is about the model; the tie to the code is differential (its strength is that of the generator, distribution in the evidence). Built with -tags tiny "
               "(F = 262144); the standard 32 MiB limit is not exercised against the implementation. Trusted: Coq kernel+vm_compute, the harness and shim. No axioms.",
)
