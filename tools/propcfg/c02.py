CFG = dict(
    id="C02", props="Props/C02.v", harness="c02", shims=["c2--c02.go"], tags="verif,tiny",
    trusted_base=[
        "data.Chunk with Limit = F accepts exactly min(F, remaining) bytes from Packet.WriteTo (F a multiple of the 16 KiB copy buffer; property C11) "
        "and com.Packet.Marshal/Unmarshal is the identity on (ID, Job, Flags, Device, payload) (property C01; asserted at run time on every fragment)",
        "the 64-bit flag word is modelled as the record {len, pos, group, low 16 bits}: each setter replaces its own field and sets bit 0 (com/flag.go; bit-level lemmas belong to C01)",
        "sort.Sort on a cluster is modelled by a stable insertion sort (indistinguishable while positions inside a group are distinct, which the split guarantees: C02_split_exact)",
        "channel semantics of the 128-slot send queue (non-blocking select) and Go map semantics of Session.frags (association list with unique keys)",
        "the shim harness/overlay/c2--c02.go builds bare Sessions (no network) and calls write / receive / markSweepFrags directly; in the listen-loop histories the real (*Session).listen goroutine runs against a scripted Profile (Switch/Connect) and in-memory connections",
    ],
    assumptions=[
        "F >= PacketHeaderSize (46; every build has F >= 262144) and the fragment count Size()/F + 1 is at most 65535 (the uint16 Len field); the tag count is not negative",
        "the packet is an ordinary one for the receiving Session: Device = its id, ID >= MvRefresh (not a system packet), not a Multi container",
        "group ids of concurrently open groups are distinct (the code draws them at random; a collision is outside the property's quantifier) and the group is not open when its first fragment arrives",
        "the fragment of position 0 arrives first (forced by the SvDrop answer: recorded finding, C02_reassemble_any_order_refuted)",
        "fewer than 5 wake-ups of the client between two successive arrivals of the group (forced by markSweepFrags: recorded finding at the protocol's own cadence, C02_reassemble_unpaced_refuted; a sender that stalls for 5 wake-ups is timed out by design)",
        "every fragment fits into the send queue: guaranteed by write(false) (C02_write_refusal_exact), NOT by write(true) (recorded finding, C02_split_fits_queue_refuted)",
    ],
    level_text="Theorems over the Gallina model of Session.write/queue (sender) and receive/cluster.add/cluster.done/markSweepFrags (receiver) for ALL limits F, all payloads "
               "(polymorphic), all group ids, all histories (induction over the list of arrivals and wake-ups): the split is exact (count, positions, lengths, concatenation, "
               "where empty fragments occur) and write queues exactly the split (write(false) refuses exactly when not everything fits and then queues nothing, for every queue occupancy and fragment count); every arrival order with position 0 first, interleaved with ARBITRARY other packets and with wake-ups "
               "(fewer than 5 between two fragments of the group), makes the receiver react nothing,...,nothing,deliver(original) at the group's arrivals and leaves no cluster; fewer arrivals "
               "than fragments (any strict subset) deliver nothing; after any history five wake-ups empty the table; the client's listen loop (error counter, sweep gate) sweeps at most once between two arrivals however many connects or exchanges fail, so failed passes never cost a group. The three hypotheses the code forces are shown necessary by vm_compute witnesses. "
               "The model is tied to /repo by running generated histories (sizes kF+d around every change of the fragment count, the band F-H-1..F+1 for every tag count, "
               "orders, interleavings, omissions, wake-ups at the protocol's cadence and stalls, both directions with distinct device ids) through the real functions and through the model inside Coq.",
    level_note="Proof is about the model; the tie to the code is differential (its strength is that of the generator, distribution in the evidence). Built with -tags tiny "
               "(F = 262144); the standard 32 MiB limit is not exercised against the implementation. Concurrent writers (which produce the interleavings) and real timers are not run: "
               "interleavings and wake-ups are explicit events of the history. Trusted: Coq kernel+vm_compute, the harness and shim. No axioms.",
)
