CFG = dict(
    id="C08", props="Props/C08.v", harness="c08", shims=["c2__cfg--c09.go"], check_fn="scheck",
    trusted_base=[
        "Go's crypto/tls.X509KeyPair, crypto/x509 AppendCertsFromPEM, crypto/aes.NewCipher, wrapper.NewBlock (the CONTENTS of certificates/keys are outside the model: one observed flag `tlsok`; "
        "theorems take tlsok = true; the byte ranges handed to them are modelled and compared)",
        "Go map iteration order in ConnectWC2 is an input: the Coq term lists the headers in the order the real constructor emitted them (read back from its bytes); crypto/rand IV of WrapAES(k, nil) likewise",
        "the overlay shim c2__cfg--c09.go (VerifDump: reflection over the built profile / connector / wrapper / transform values) and harness/c09/cfgx",
        "byte strings of 65535 bytes are compared by digest (length, sum, sum of running sums), computed on both sides, instead of literally",
        "int is 64 bit (offset sums cannot wrap)",
    ],
    assumptions=[
        "`wf_setting`: arguments in their documented domains - byte strings of ANY length (clamps at 65535 / 255 are modelled), valid work hours, AES key 16/24/32 bytes with a 16 byte IV, non-empty XOR key / DNS names / "
        "header names, at most 255 headers, not all TLS blobs empty (documented build error); `wf_group`: at most one connector and one transform per group",
        "certificate / key parsing succeeds (tlsok = true) in build_pack / build_groups, as the property states",
    ],
    level_text="Eighteen theorems over the Gallina model of the public constructors (setting.go, connect.go, wrap.go, transform.go, workhours.go), Pack/AddGroup and the parser (Config.next/build/validate/Groups/Group, "
               "MarshalBinary) for ALL setting lists, ALL argument lengths (0 .. beyond the 65535/255 clamps), ALL offsets and ALL groupings: the stride of an encoded setting is its length at every offset (next_enc); "
               "Build(Pack(ss)) and Build of any AddGroup sequence are exactly the meaning of the settings (hosts, keys, wrappers in order; last sleep/jitter/weight/kill date/work hours/selector wins; connector; transform; "
               "entries by descending weight); validate iff build, and both succeed in the documented domains; Groups/Group partition ANY byte string at its separators; MarshalBinary is the source; "
               "plus four `_refuted` theorems about copies of the pinned tree's expressions (the four defects repaired by fix: commits). Tied to /repo by ~2000 (quick) / ~30k (thorough) setting lists built with the "
               "REAL constructors (every length-prefixed family x lengths {0,1,2,254,255,256,257,511,512,65534,65535} x offsets that make offset+header+low byte carry, offset sweep 0..300, random groups with every "
               "selector), the real Pack/AddGroup/Build/Validate/Groups/Group/MarshalBinary, a Go-side oracle comparing the built profile with what was supplied, and the same model functions evaluated in Coq.",
    level_note="Proof is about the model (which follows the tree after the four C08 and three C09 fix: commits); the tie to the code is differential (distribution in the evidence). "
               "Trusted: Coq kernel+vm_compute, the harness and shim, Go's TLS/x509/aes parsers. No axioms (every theorem is closed under the global context).",
)
