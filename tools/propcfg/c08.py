CFG = dict(
    id="C08", props="Props/C08.v", harness="c08", shims=["c2__cfg--c09.go"], check_fn="scheck",
    trusted_base=[],
    assumptions=[],
    level_text="",
    level_note="",
)
