CFG = dict(
    id="C11", props="Props/C11.v", harness="c11", shims=["data--c11.go"],
    trusted_base=[
        "Go's allocator returns a slice of capacity >= the requested length (the observed cap(buf) is fed to the model as the oracle; the model uses max(request, oracle))",
    ],
    assumptions=[],
    level_text="bootstrap",
    level_note="bootstrap",
)
