CFG = dict(
    id="C11", props="Props/C11.v", harness="c11", shims=["data--c11.go"],
    trusted_base=[
        "Go's allocator returns a slice of capacity >= the requested length (make / append in trySlice); the observed cap(buf) is fed to the "
        "model as the oracle and the model allocates max(request, oracle), so the theorems hold for EVERY capacity >= the request",
        "Go's growslice/make zero the new backing array (the model fills a new array with zeros; compared byte for byte through Payload)",
        "the harness' io.Writer (byte budget, then an error) and io.Reader (scripted chunks with errors) stand for arbitrary writers/readers; "
        "a reader that returns more than the 16 KiB it was offered is excluded (op_ok)",
        "the shim harness/overlay/data--c11.go (cap(buf), buf == nil, rpos getters; added with go build -overlay, not in /repo)",
        "Coq kernel + vm_compute; the Go harness and its oracle (a plain byte queue written independently of the model)",
    ],
    assumptions=[
        "op_ok: byte slices hold bytes (0..255), typed widths are 1/2/4/8, the index of a positional write is >= 0 "
        "(WriteUint8Pos(-1, x) panics in Go like any negative index: caller error, excluded), Read is given a slice (length >= 0), "
        "an io.Reader returns at most len(p) <= 16384 bytes",
        "inv: 0 <= rpos <= len(buf) <= cap(buf), a nil buffer has no backing array, the backing array holds bytes "
        "(holds for Chunk{}, Chunk{Limit: n} and NewChunk(b); preserved by every operation: C11_inv_preserved)",
        "UnmarshalStream does not look at the Limit: the Limit statements exclude it (is_unmarshal / no_unmarshal hypotheses)",
        "limit_invariant starts from a chunk within its Limit (lim_ok: true for a fresh Chunk{Limit: n}; NewChunk(b) with a later, smaller "
        "Limit is outside it until drained)",
        "ints are mathematical integers: no int overflow below 2^62 bytes of buffer (max-m-n and MaxSlice = 2^42 checks are modelled; "
        "Seek's int64 wrap is modelled)",
    ],
    level_text="Fourteen statements, closed under the global context, about the SAME Gallina functions (Model.Chunk.step/run) the correspondence run "
               "evaluates: for ALL states satisfying the representation invariant, ALL operations (Write, WriteUint8..64 and wrappers, WriteBytes/"
               "WriteString, Write*Pos, Read, Uint8..64 and wrappers, Bytes/StringVal, Seek, Truncate, Grow, Reset, Clear, WriteTo, ReadFrom, UnmarshalStream, MarshalStream) with "
               "well-formed arguments and ALL allocator capacities >= the request: every step returns (no panic, loop fuel never exhausted), "
               "preserves the invariant and the Limit bound, and is a step of a plain byte queue (qstep: reads return exactly the front of the "
               "queue and remove it, typed reads are the codec's flat reader rd_uN/rd_bytes on the queue, writes append exactly the accepted "
               "prefix, typed writes append the whole encoding or nothing, Seek/Truncate/Reset/Clear/Grow act as specified); by induction over "
               "the operation list: every history is a history of the queue, (queue ++ accepted) = (taken ++ queue'), from an empty chunk the "
               "bytes read are a prefix of the bytes accepted, the buffer never exceeds its Limit after any step, Write reports exactly the "
               "count appended and is short only with the limit error (too-large needs capacity > 2^42). Read on an empty queue is EOF (nil buffer included, fix 3f5a248). Two refutation lemmas "
               "against copies of the pre-fix definitions (WriteBytes stray byte, slide over the Limit). The model is tied to /repo by ~1500 operation "
               "sequences (up to 60 ops; after EVERY op: return value, Size, Remaining, Space, Empty, cap, nil-ness, Payload compared) plus a "
               "Go-side byte-queue oracle.",
    level_note="Proof is about the hand-written model; the tie to the code is differential (strength = generator: weighted op grammar over 11 limits, "
               "boundary grid of write sizes incl. 16383/16384/16385, regression corpus). Not modelled: ReadDeadline (same loop as ReadFrom plus "
               "deadlines), UnmarshalStream from another Chunk (aliasing), String, the heap variant chunk_heap.go, concurrent use (Chunk is not goroutine-safe). "
               "Recorded behaviours that are conservative, not violations: typed writes never fill the last byte (Available is strict); the Limit "
               "bounds Size (read + unread), so a fully read but not yet reset chunk refuses typed writes; a limited Write that would need a "
               "reallocation refuses everything; Write of an empty slice on a full "
               "limited chunk returns (0, ErrLimit).",
)
