CFG = dict(
    id="C07", props="Props/C07.v", harness="c07",
    shims=["c2--c07.go", "c2__transform--c07.go", "data__crypto--c07.go"],
    trusted_base=[
        "compress/zlib and compress/gzip (Writer then Reader return the input): Section hypotheses zlib_ok, gzip_ok of C07_profile_stack_roundtrip / C07_full_path_roundtrip; sampled by the Go-side oracle only",
        "crypto/aes: the block function fills a block with bytes (hypothesis aes_bytes; no inverse is needed, CFB only encrypts); crypto/cipher's CFB stream and cipher.StreamWriter/StreamReader are modelled as cfb_enc/cfb_dec and compared byte for byte for XOR, oracle only for AES",
        "encoding/hex and encoding/base64 streaming encoders/decoders are modelled as whole-input functions; their independence from write/read chunking is sampled, not proved",
        "the packet codec (com.Packet Marshal/Unmarshal) is property C01: hypotheses marshal_bytes, unmarshal_marshal of C07_full_path_roundtrip",
        "CBK key arithmetic (adjust, blockIndex, cipherTable, the Shuffle case analysis) is not re-derived: table bytes, shuffle offsets and the six (g,h) pairs are read from the real code through the shim data__crypto--c07.go (the g/h expressions are repeated there verbatim) and fed to the model; the theorems hold for every table, every offsets and all g,h < 8",
        "the 4096-byte staging buffer of the DNS encoder is not modelled (a name of more than 1919 encoded bytes makes the real Write fail with io.ErrShortWrite; a profile carries at most 255 bytes)",
    ],
    assumptions=[
        "payloads, keys and domains are byte strings; keys are non-empty (XOR key, AES IV); CBK block size in 16..255 (the code allows 16, 32, 64, 128)",
        "CBK step constants g, h < 8 (the code computes them mod 8); keys whose schedule panics in the real code are the recorded finding",
        "Device IDs of generated packets have a non-zero first byte (device.ID.Read rejects others: the packet codec's domain, C01)",
    ],
    level_text="Twenty theorems over the Gallina models of cfg.MultiWrapper (stack order), hex, base64, the B64 shift transform, CFB over ANY block "
               "function (XOR, AES), the CBK cipher (substitution table, nibble mix incl. overlapping pairs - all 56 (g,h) with universally quantified bytes -, "
               "pair swap, shuffle, size+1 framing with count byte, block counter, the writer's buffering) and the DNS framing (labels, 12-byte header, "
               "segments of <= 256 in packets of <= 2048, both roles): every element, every stack (induction on the list), every transform and the full "
               "writePacket/readPacket path are the identity for ALL payloads, keys, shifts, domains, random draws and - for CBK - all sequences of Write calls; "
               "the buffer pool shared by writePacket/readPacket is modelled as state: after ANY history of sends and of receives of arbitrary (cut, damaged, empty) "
               "input every pooled buffer is empty, hence every later packet still round-trips (the uncleared-Put variant is refuted). "
               "zlib, gzip, the AES block and the packet codec enter as hypotheses in the statements. The models are tied to /repo on every run: ~3850 cases "
               "(stacks of depth 0..4, 7 element kinds, 4 transform kinds, lengths around block sizes and the DNS 256/2048 limits up to 64 KiB, write/reader/consumer "
               "chunkings whole/1/7/block-1/block/block+1/random with zero-length writes) run through the real code with exact-equality oracle; the wire bytes of "
               "every stack/transform made of modelled elements, the CBK block functions and the CBK writer (same Write sequence) are recomputed by the model inside Coq; "
               "86 histories (good round trips mixed with faulty receives: DNS streams cut after complete records, wrong record length, garbage, broken zlib/hex, nothing) "
               "run on the real path with pool probes, against the pool model; 45 cases of two sends in flight through one stack after a completed send "
               "(closing wrappers above pooled compressors). A fatal error or stall inside a scenario is reported with that scenario as replay (supervisor/worker).",
    level_note="Proof is about the model; the tie to the code is differential (its strength is that of the generator, distribution in the evidence). "
               "Chunking independence is proved for CBK's own buffering only; for the stdlib stream adapters (hex, base64, cipher.StreamWriter/Reader, zlib, gzip) "
               "it is sampled. One defect repaired (DNS labels, commit facc2eb), one recorded as known finding (CBK key schedule divide by zero). No axioms.",
    partial="write/read chunking independence of the stdlib stream adapters (encoding/hex, encoding/base64, crypto/cipher StreamWriter/StreamReader, "
            "compress/*) and of the CBK reader's Read buffering is sampled by the oracle, not proved; it is proved for the CBK writer's buffering "
            "(any sequence of Write calls)",
)
