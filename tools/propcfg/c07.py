CFG = dict(
    id="C07", props="Props/C07.v", harness="c07",
    shims=["c2--c07.go", "c2__transform--c07.go", "data__crypto--c07.go"],
    trusted_base=[],
    assumptions=[],
    level_text="bootstrap",
    level_note="bootstrap",
)
