CFG = dict(
    id="C16", props="Props/C16.v", harness="c16", shims=["c2--c16.go"], tags="verif,tiny",
    harness_timeout=2400,
    trusted_base=[
        "Go channel / mutex / sync.atomic semantics (close of a closed or nil channel and send on a closed channel panic; a closed channel never blocks a receiver; recover() turns the panic of the running function into a return)",
        "the cut of Session.Close/close/listen/shutdown/Wake/queue, receiveSingle(SvShutdown), Server.listen/shutdown/Close/Remove, Listener.listen/Close, "
        "eventer.listen into atomic steps (one atomic op on the state word, one critical section of Session.lock taken as one step, one channel operation per step)",
        "state.Set/Unset are atomic read-modify-write operations (property C13, repaired in /repo by 1c00120)",
        "runtime.Stack / runtime.NumGoroutine as the goroutine monitor; the `closed` word of runtime.hchan read through unsafe (layout self-tested at start-up); TCP loopback",
    ],
    assumptions=[
        "fairness for close_returns: the goroutine the waiting call depends on is scheduled (stated as: thread 0 = client listen goroutine occurs 16 times / thread 3 = listener goroutine occurs 5 times in the continuation)",
        "reachable peer = the client can connect to the listener (reach && socket open) and performs one more exchange on its own (callsback: finite sleep); a server-side Close towards a client that never calls back stays pending (the property's 'reachable peer')",
        "one listen goroutine and one eventer goroutine per client session, one loop per server and listener, listener already registered with a running server loop (world0); Close racing Listen itself is covered by the oracle only",
        "migration (stateMoving), proxies, user Shutdown callbacks, work hours / kill date timers are not modelled",
        "Server.Close's wait (<-s.ch) and the wait for Session.lock are not proved to end (no theorem; the oracle watches them)",
    ],
    level_text="Twenty-one theorems over the Gallina interleaving model of the close paths (c2/session.go, vars.go, server.go, listener.go, types.go) for ALL schedules, ANY "
               "number of concurrent close calls and all protocol-state flags, by induction on the schedule with a counting invariant: no channel is closed twice or while nil and no send hits a closed "
               "channel (full strength: no fault is reachable); closed is final; Session.Close and Listener.Close return under the stated fairness; "
               "the closing client's last transmission carries SvShutdown, a server-side close queues it and its receipt closes the client; the server forgets the session. The thirteen defects found and repaired "
               "(double close of s.ch, spinning eventer, send on closed send/wake, notice dropped on a context cancel, Remove's send racing Server.shutdown, Close racing the server start, shutdown waiting for a listener name already taken, four around Listener.Replace / chanWake) are kept as refuted lemmas against the old step list "
               "(those outside the model's step lists only as seeded regressions). The model is tied to /repo by ~110 real teardown scenarios over TCP loopback whose abstract trace is compared with the model, and by racing groups "
               "through the real receiveSingle.",
    level_note="Proof is about the model; the tie to the code is differential over sampled real schedules. No axioms.",
    partial="goroutine scheduling, timers and sockets are only sampled by the harness; the theorems cover every interleaving of the modelled atomic steps; the waits of Server.Close and of Session.lock have no termination theorem",
)
