CFG = dict(
    id="C16", props="Props/C16.v", harness="c16", shims=["c2--c16.go"], tags="verif,tiny",
    harness_timeout=2400,
    trusted_base=[
        "Go channel / mutex / sync.atomic semantics (close of a closed channel and send on a closed channel panic; a closed channel never blocks a receiver)",
        "the cut of Session.Close/close/listen/shutdown, receiveSingle(SvShutdown), Server.listen/shutdown/Close/Remove, Listener.listen/Close, "
        "eventer.listen into atomic steps (one atomic op on the state word, one critical section of Session.lock, one channel operation per step)",
        "state.Set/Unset are atomic read-modify-write operations (property C13)",
        "runtime.Stack / runtime.NumGoroutine as the goroutine monitor; TCP loopback",
    ],
    assumptions=[
        "fairness: the client's listen goroutine and the handler goroutines are scheduled (stated as 'thread i occurs at least k times in the schedule')",
        "reachable peer = the client can connect to the listener and performs one more exchange on its own (finite sleep); socket reads return (reply, error or deadline)",
        "one listen goroutine and one eventer goroutine per client session, one loop per server and listener (ghost once-flags in the model)",
        "migration (stateMoving), proxies and Listener.Replace are not modelled",
    ],
    level_text="Theorems over the Gallina interleaving model of the close paths (c2/session.go, vars.go, server.go, listener.go, types.go) for ALL schedules and ANY "
               "number of concurrent close calls: no channel is closed twice, closed is final, close returns / waiters are released under the stated fairness, "
               "the peer is notified, the server forgets the session; the two defects found (double close of s.ch, spinning eventer goroutine) are kept as refuted "
               "lemmas against the old step list. The model is tied to /repo by real teardown scenarios over TCP loopback whose abstract trace is compared with the model.",
    level_note="Proof is about the model; the tie to the code is differential over sampled real schedules. No axioms.",
    partial="goroutine scheduling, timers and sockets are only sampled; the theorems cover every interleaving of the modelled atomic steps",
)
