"""C19 -- sleep, jitter, work hours and kill date (c2/cfg/workhours.go, (*Session).wait / listen in
c2/session.go, connectContextInner in c2/c2.go, util/rand.go)."""
import os, sys

_VERIF = os.path.dirname(os.path.dirname(os.path.dirname(os.path.abspath(__file__))))
_REPO = os.environ.get("VERIF_REPO", "/repo")


def _derive(src, dst, subs, must):
    """Derived overlay copy (DESIGN 3.4): the CURRENT /repo file with the named call patterns
    textually redirected to hook functions defined in the overlay shims (harness/overlay/c2--c19.go,
    c2__cfg--c19.go).  Nothing else changes (line numbers are kept).  A pattern that is no longer
    present (or an anchor function that disappeared) is a machinery error: exit 2."""
    try:
        text = open(src).read()
    except OSError as e:
        print("C19: cannot read %s: %s" % (src, e), file=sys.stderr)
        sys.exit(2)
    for pat, rep, least in subs:
        n = text.count(pat)
        if n < least:
            print("C19: MACHINERY: pattern %r found %d time(s) in %s, expected at least %d; the clock / random-draw / timer "
                  "injection can no longer be derived -- adapt tools/propcfg/c19.py" % (pat, n, src, least), file=sys.stderr)
            sys.exit(2)
        text = text.replace(pat, rep)
    for m in must:
        if m not in text:
            print("C19: MACHINERY: anchor %r not found in %s" % (m, src), file=sys.stderr)
            sys.exit(2)
    os.makedirs(os.path.dirname(dst), exist_ok=True)
    try:
        if open(dst).read() == text:
            return
    except OSError:
        pass
    tmp = dst + ".tmp%d" % os.getpid()
    open(tmp, "w").write(text)
    os.replace(tmp, dst)


def _extra_replace():
    d = os.path.join(_VERIF, "build", "c19", "derived")
    out = {}
    # WorkHours.Work: the one clock read
    src = os.path.join(_REPO, "c2/cfg/workhours.go")
    dst = os.path.join(d, "c2__cfg__workhours.go")
    _derive(src, dst, [("time.Now()", "verifC19Now()", 1)], ["func (w WorkHours) Work() time.Duration {"])
    out[src] = dst
    # (*Session).wait: kill-date clock, the three random draws of the jitter, the timer
    src = os.path.join(_REPO, "c2/session.go")
    dst = os.path.join(d, "c2__session.go")
    _derive(src, dst, [
        ("time.Now().After(s.kill)", "verifC19Now(s).After(s.kill)", 1),
        ("util.FastRandN(", "verifC19RandN(", 2),
        ("util.Rand.Int63n(", "verifC19Int63n(", 1),
        ("s.tick.Reset(w)", "verifC19Reset(s, w)", 2),
    ], ["func (s *Session) wait() {", "func (s *Session) listen() {"])
    out[src] = dst
    # connectContextInner: kill-date clock and the work-hours sleep before the first connect
    src = os.path.join(_REPO, "c2/c2.go")
    dst = os.path.join(d, "c2__c2.go")
    _derive(src, dst, [
        ("time.Now().After(s.kill)", "verifC19Now(s).After(s.kill)", 1),
        ("time.Sleep(v)", "verifC19Sleep(s, v)", 1),
    ], ["func connectContextInner("])
    out[src] = dst
    return out


CFG = dict(
    id="C19", props="Props/C19.v", harness="c19", shims=["c2--c19.go", "c2__cfg--c19.go"], tags="verif",
    extra_replace=_extra_replace,
    trusted_base=[
        "time.Date / Time.Sub / Time.AddDate / Time.Weekday / Time.After (Go stdlib) in a DST-free zone: the harness runs with time.Local = UTC, "
        "the model does nanosecond arithmetic on (weekday, ns of day); instants on month/year ends and leap days are in the generator",
        "util.FastRandN(n) in [0, n) and util.Rand.Int63n(n) in [0, n): the draws are inputs of the model, theorems quantify over all in-range draws; "
        "in the correspondence run the calls are redirected (derived overlay copies: only the patterns named in tools/propcfg/c19.py are rewritten) to a scripted source",
        "the derived copies also redirect `time.Now().After(s.kill)`, `s.tick.Reset(w)` (wait) and `time.Sleep(v)` (connectContextInner) to an injected clock that "
        "advances exactly by the durations the code asks to wait; real timers, scheduling and network latency are not modelled (a Connect is an instant)",
        "time.Ticker.Reset panics on a non-positive interval (observed once per run by the harness)",
        "time.Ticker under the `go 1.18` module line (asynctimerchan=1): channel buffer of one, Reset keeps a buffered tick -- modelled as `ticker`, "
        "probed once per run; the three real-time scenarios only test `not earlier than 0.8 x sleep`",
    ],
    assumptions=[
        "work-hours fields are bytes (0..255), weekday 0..6, 0 <= ns of day < 24 h; sleep is an int64 number of ns >= 1 ms; jitter a byte; "
        "draws in range (0 <= gate < 100, 0 <= d < sleep/1ms, sign in {0,1})",
        "kill-date model: time only advances in wait() (work-hours wait, sleep) and during an exchange (scripted, >= 0); context cancellation and migration are not modelled",
    ],
    level_text="Theorems over the Gallina model of WorkHours.Work/Empty/Verify, of the jitter arithmetic of (*Session).wait (int64 wrap explicit) and of the "
               "kill-date checks of wait/listen/connectContextInner for ALL rules, instants, sleeps >= 1 ms, jitter bytes, in-range draws and ALL listen-loop scripts; "
               "the model is tied to /repo by running the real Work under an injected clock over all day masks x a (start,end) grid x edge instants, the real wait() "
               "over sleeps x jitter 0..255 x scripted draws (timer hooked, no real sleeping) and real client/server sessions over TCP loopback with a counting "
               "connector and the injected clock stepped across the kill date (also: a Profile stored in s.swap, the real swap block of listen, settings read back), and evaluating the model on the same cases inside Coq.",
    level_note="Proof is about the model; the tie to the code is differential (strength = generator, distribution in the evidence). "
               "Trusted: Coq kernel+vm_compute, Go's time package in UTC, the harness and shims. No axioms.",
    partial="kill date: the listen loop is modelled with Connect as an instant of an injected clock; real timers/latency between the check and the dial are not modelled, "
            "real sessions are sampled (a few dozen scripted scenarios per run)",
)
