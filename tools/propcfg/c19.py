"""C19 -- sleep, jitter, work hours and kill date (c2/cfg/workhours.go, (*Session).wait / listen in
c2/session.go, connectContextInner in c2/c2.go, util/rand.go)."""
import os, re, sys

_VERIF = os.path.dirname(os.path.dirname(os.path.dirname(os.path.abspath(__file__))))
_REPO = os.environ.get("VERIF_REPO", "/repo")


def _fail(msg):
    """A derived copy can no longer be made.  vlib turns a non-zero exit of extra_replace into a
    broken-correspondence violation (a change of the anchored code that the injection cannot follow
    must not pass silently)."""
    print("C19: MACHINERY: " + msg + " -- adapt tools/propcfg/c19.py", file=sys.stderr)
    sys.exit(2)


# every clock read except the socket deadline computations `time.Now().Add(...)`, which must stay
# on the real clock (the exchanges are real)
_CLOCK = re.compile(r"time\.Now\(\)(?!\.Add\()")


def _derive(src, dst, subs, must, clock_in=()):
    """Derived overlay copy (DESIGN 3.4): the CURRENT /repo file with
      * EVERY `time.Now()` that is not a deadline computation redirected to verifC19Clock()
        (not a specific expression: a rewritten gate such as `time.Now().After(k)` still follows), and
      * the named call patterns redirected to hook functions of the overlay shims.
    Nothing else changes (line numbers are kept).  `clock_in` names (start anchor, end anchor)
    regions that must contain at least one redirected clock read afterwards."""
    try:
        text = open(src).read()
    except OSError as e:
        _fail("cannot read %s: %s" % (src, e))
    text = _CLOCK.sub("verifC19Clock()", text)
    for pat, rep, least in subs:
        n = text.count(pat)
        if n < least:
            _fail("pattern %r found %d time(s) in %s, expected at least %d; the random-draw / timer injection can no longer be derived" % (pat, n, src, least))
        text = text.replace(pat, rep)
    for m in must:
        if m not in text:
            _fail("anchor %r not found in %s" % (m, src))
    for a, b in clock_in:
        i = text.find(a)
        j = text.find(b, i + 1) if i >= 0 else -1
        if i < 0 or j < 0 or "verifC19Clock()" not in text[i:j]:
            _fail("no clock read left between %r and %r in %s: the kill-date / work-hours clock can no longer be injected" % (a, b, src))
    os.makedirs(os.path.dirname(dst), exist_ok=True)
    try:
        if open(dst).read() == text:
            return
    except OSError:
        pass
    tmp = dst + ".tmp%d" % os.getpid()
    open(tmp, "w").write(text)
    os.replace(tmp, dst)


def _extra_replace():
    d = os.path.join(_VERIF, "build", "c19", "derived")
    out = {}
    # WorkHours.Work: the clock read
    src = os.path.join(_REPO, "c2/cfg/workhours.go")
    dst = os.path.join(d, "c2__cfg__workhours.go")
    _derive(src, dst, [], ["func (w WorkHours) Work() time.Duration {"],
            [("func (w WorkHours) Work() time.Duration {", "func (w WorkHours) MarshalStream(")])
    out[src] = dst
    # (*Session).wait: kill-date clock, the three random draws of the jitter, the timer
    src = os.path.join(_REPO, "c2/session.go")
    dst = os.path.join(d, "c2__session.go")
    _derive(src, dst, [
        ("util.FastRandN(", "verifC19RandN(", 2),
        ("util.Rand.Int63n(", "verifC19Int63n(", 1),
        ("s.tick.Reset(w)", "verifC19Reset(s, w)", 2),
    ], ["func (s *Session) wait() {", "func (s *Session) listen() {"],
        [("func (s *Session) wait() {", "func (s *Session) Wake() {")])
    out[src] = dst
    # connectContextInner: kill-date clock and the work-hours sleep before the first connect
    src = os.path.join(_REPO, "c2/c2.go")
    dst = os.path.join(d, "c2__c2.go")
    _derive(src, dst, [
        ("time.Sleep(v)", "verifC19Sleep(s, v)", 1),
    ], ["func connectContextInner("], [("func connectContextInner(", "\nfunc LoadOrConnect(")])
    out[src] = dst
    # muxHandleInternal (MvTime kill-date update): no clock read in the unchanged code; should one appear it
    # reads the injected clock like the gates it feeds
    src = os.path.join(_REPO, "c2/mux.go")
    dst = os.path.join(d, "c2__mux.go")
    _derive(src, dst, [], ["func muxHandleInternal("])
    out[src] = dst
    return out


CFG = dict(
    id="C19", props="Props/C19.v", harness="c19", shims=["c2--c19.go", "c2__cfg--c19.go"], tags="verif",
    extra_replace=_extra_replace,
    trusted_base=[
        "time.Date / Time.Sub / Time.AddDate / Time.Weekday / Time.After (Go stdlib) in a DST-free zone: the harness runs with time.Local = UTC, "
        "the model does nanosecond arithmetic on (weekday, ns of day); instants on month/year ends and leap days are in the generator",
        "util.FastRandN(n) in [0, n) and util.Rand.Int63n(n) in [0, n): the draws are inputs of the model, theorems quantify over all in-range draws; "
        "in the correspondence run the calls are redirected (derived overlay copies: only the patterns named in tools/propcfg/c19.py are rewritten) to a scripted source",
        "the derived copies redirect EVERY `time.Now()` of workhours.go / session.go / c2.go except the socket deadline computations `time.Now().Add(..)`, and `s.tick.Reset(w)` (wait), `time.Sleep(v)` (connectContextInner), to an injected clock that "
        "advances exactly by the durations the code asks to wait; real timers, scheduling and network latency are not modelled (a Connect is an instant)",
        "time.Ticker.Reset panics on a non-positive interval (observed once per run by the harness)",
        "time.Ticker under the `go 1.18` module line (asynctimerchan=1): channel buffer of one, Reset keeps a buffered tick -- modelled as `ticker`, "
        "probed once per run; the three real-time scenarios only test `not earlier than 0.8 x sleep`",
    ],
    assumptions=[
        "work-hours fields are bytes (0..255), weekday 0..6, 0 <= ns of day < 24 h; sleep is an int64 number of ns >= 1 ms; jitter a byte; "
        "draws in range (0 <= gate < 100, 0 <= d < sleep/1ms, sign in {0,1})",
        "kill-date model: time only advances in wait() (work-hours wait, sleep) and during an exchange (scripted, >= 0); context cancellation and migration are not modelled",
    ],
    level_text="Theorems over the Gallina model of WorkHours.Work/Empty/Verify, of the jitter arithmetic of (*Session).wait (int64 wrap explicit) and of the "
               "kill-date checks of wait/listen/connectContextInner for ALL rules, instants, sleeps >= 1 ms, jitter bytes, in-range draws and ALL listen-loop scripts; "
               "the model is tied to /repo by running the real Work under an injected clock over all day masks x a (start,end) grid x edge instants, the real wait() "
               "over sleeps x jitter 0..255 x scripted draws (timer hooked, no real sleeping) and real client/server sessions over TCP loopback with a counting "
               "connector and the injected clock stepped across the kill date (also: a Profile stored in s.swap, the real swap block of listen, settings read back), and evaluating the model on the same cases inside Coq.",
    level_note="Proof is about the model; the tie to the code is differential (strength = generator, distribution in the evidence). "
               "Trusted: Coq kernel+vm_compute, Go's time package in UTC, the harness and shims. No axioms.",
    partial="kill date: the listen loop is modelled with Connect as an instant of an injected clock; real timers/latency between the check and the dial are not modelled, "
            "real sessions are sampled (a few dozen scripted scenarios per run)",
)
