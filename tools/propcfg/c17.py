"""C17 -- profile groups rotate as the selector promises (c2/cfg/group.go, tail of Config.Build)."""
import os, sys

_VERIF = os.path.dirname(os.path.dirname(os.path.dirname(os.path.abspath(__file__))))
_REPO = os.environ.get("VERIF_REPO", "/repo")


def _derive(src, dst, subs):
    """Derived overlay copy (DESIGN 3.4): the CURRENT /repo file with the named call patterns
    textually redirected to hook functions defined in the overlay shim.  Nothing else changes
    (line numbers are kept).  A pattern that is no longer present is a machinery error: exit 2."""
    try:
        text = open(src).read()
    except OSError as e:
        print("C17: cannot read %s: %s" % (src, e), file=sys.stderr)
        sys.exit(2)
    for pat, rep, least in subs:
        n = text.count(pat)
        if n < least:
            print("C17: MACHINERY: pattern %r found %d time(s) in %s, expected at least %d; the random-draw "
                  "injection for (*Group).Switch can no longer be derived -- adapt tools/propcfg/c17.py" % (pat, n, src, least),
                  file=sys.stderr)
            sys.exit(2)
        text = text.replace(pat, rep)
    os.makedirs(os.path.dirname(dst), exist_ok=True)
    try:
        if open(dst).read() == text:
            return
    except OSError:
        pass
    tmp = dst + ".tmp%d" % os.getpid()
    open(tmp, "w").write(text)
    os.replace(tmp, dst)


def _extra_replace():
    src = os.path.join(_REPO, "c2/cfg/group.go")
    dst = os.path.join(_VERIF, "build", "c17", "derived", "c2__cfg__group.go")
    # 3 calls in (*Group).Switch (two gates, one pick) + 1 in (*profile).Next
    _derive(src, dst, [("util.FastRandN(", "verifRandN(util.FastRandN, ", 4)])
    if "func (g *Group) Switch(e bool) bool {" not in open(dst).read():
        print("C17: MACHINERY: (*Group).Switch not found in %s" % src, file=sys.stderr)
        sys.exit(2)
    out = {src: dst}
    # the consumer scenarios run real client/server exchanges over loopback with the groups' real
    # wrappers and transforms; a wrapped read waits for the full read timeout (c2/vars.go, 350 ms per
    # exchange).  The derived copy only shortens that constant so that the quick tier stays in budget.
    src2 = os.path.join(_REPO, "c2/vars.go")
    dst2 = os.path.join(_VERIF, "build", "c17", "derived", "c2__vars.go")
    _derive(src2, dst2, [("readTimeout = time.Millisecond * 350", "readTimeout = time.Millisecond * 40", 1)])
    out[src2] = dst2
    return out


CFG = dict(
    id="C17", props="Props/C17.v", harness="c17", shims=["c2__cfg--c17.go", "c2--c17.go"], tags="verif",
    extra_replace=_extra_replace,
    trusted_base=[
        "sort.Sort (Go stdlib) returns a permutation sorted w.r.t. Less when Less is a strict weak order (proved for Group.Less); "
        "the order actually produced is observed and validated on every case, ties are left unspecified",
        "util.FastRandN(n) returns a value in [0, n): the draws are inputs of the model, theorems quantify over all draws in range; "
        "in the correspondence run the calls are redirected (derived overlay copy of group.go, only the pattern `util.FastRandN(` is rewritten) to a scripted source",
        "distinct *profile pointers are identified with their position in g.entries (Build allocates one profile per group)",
        "consumer scenarios: real c2.Server / Listener / Session over TCP loopback; a derived copy of c2/vars.go shortens only readTimeout (350 ms -> 40 ms); "
        "the spy Profile and the per-entry dialing connectors only forward and record",
    ],
    assumptions=["FastRandN results are in range (0 <= v < n); selector byte arbitrary (all six selectors, 0 = none, unknown bytes)"],
    level_text="Theorems over the Gallina model of (*Group).Switch / init / accessors / the weight order for ALL entry counts, ALL call histories "
               "and ALL in-range draws; the model is tied to /repo by running generated multi-group Configs through the real Build and scripted Switch/accessor "
               "histories through the real Group (derived overlay copy of group.go for the draws) and through the model inside Coq.",
    level_note="Proof is about the model; the tie to the code is differential (strength = generator, distribution in the evidence). "
               "Trusted: Coq kernel+vm_compute, sort.Sort, the harness and shim. No axioms.",
)
