CFG = dict(
    id="C05", props="Props/C05.v", harness="c05", shims=["c2--c05.go"], tags="verif,tiny",
    harness_timeout=3000,
    trusted_base=[
        "the cut of the five goroutines per client, the per-connection handler goroutines, the timers and the select races into the atomic steps of "
        "Model/Exchange.v (Task, Exchange with arbitrary batch budgets per direction, Run of any started tasker, Dup, ChannelOn/Off, Rekey, KeepAlive)",
        "component contracts taken as step semantics or hypotheses, not re-proved here: batches leave a queue in order and are delivered exactly once or lost as a "
        "whole (C02/C03), both ends hold the same key unless a swap was lost (C06), Session.handle ignores untracked ids and newJobID avoids tracked ids (C14), "
        "a packet reaches only the session of its device (C15, by construction of the state)",
        "TCP loopback, the Go scheduler and timers on a shared machine (only sampled); hash/crc32 and the harness's echo tasker as the reference for 'own result'",
    ],
    assumptions=[
        "fewer outstanding jobs / fragments per session than the 128 queue slots (the property's side condition; hypothesis l_live of the liveness theorem, kept by the harness)",
        "one operator goroutine per history (concurrent Task calls on one session are C14's known finding)",
        "a re-delivered result reaches the server while its job id is not tracked again (hypothesis l_safe; C05_stale_duplicate_hazard shows it is needed)",
        "liveness is stated for loss-free histories and fair drains (every started tasker finishes before the next exchange of its session); "
        "proxies, migration, Cancel, oneshot packets and socket errors are not modelled",
    ],
    level_text="Six theorems over the Gallina exchange machine for ALL step sequences over any number of devices (induction over histories with an invariant that places every "
               "tracked job in exactly one of: server queue, running tasker, client queue with its own result): a finished Job holds run(its client, its payload); a Job "
               "completes at most once and its result is never replaced; a client executes a job at most once and only jobs of its own session; a session is a function of "
               "the steps naming it; after a loss-free history, mu = 2|server queue| + 2|running| + |client queue| fair rounds per device finish every scheduled job. "
               "The model is tied to /repo by real Server/Listener/Session runs over TCP loopback (2-3 clients, echo tasker, fragmentation grid, channel switches, SetSleep/"
               "SetJitter, three profile stacks, natural re-keys); the operator history and the observed outcome are replayed through the same machine inside Coq.",
    level_note="Proof is about the model; the tie to the code is differential over sampled real schedules and compares final outcomes (accepted flags, multisets of "
               "results and executions), not batch boundaries. No axioms.",
    partial="real goroutine schedules, timers and sockets are only sampled; the atomic Exchange step abstracts the five goroutines per client and the select races; "
            "channel-mode teardown loses packets on the real code (known findings), so completion in channel mode is only checked up to those findings",
)
