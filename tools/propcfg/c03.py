CFG = dict(
    id="C03", props="Props/C03.v", harness="c03", shims=["c2--c03.go"], tags="verif,tiny",
    trusted_base=[
        "com.Packet Marshal/Unmarshal and MarshalStream/UnmarshalStream are executed for real in every case but are not modelled here (C01 models them); the model only computes the stream length and treats the container's Chunk as the list of packed packets",
        "the overlay shim c2--c03.go builds Session/Listener/Server/conn/proxyClient values without a network and a recording mux (messager); a pending re-key is recorded on client senders so that pick() is deterministic",
        "payload equality is length + CRC-32 of the bytes (content id in the model)",
        "queues whose fragment groups complete on the receiver are judged by the Go-side oracle only (class group-completes-in-container): reassembly is C02's model",
        "the model's own packet record (Model/Batch.v: id, job, device, flag word as a record, tags, payload length, content id); device IDs are small integers, 0 = the empty ID",
    ],
    assumptions=[
        "delivery theorems: queued items are ordinary `queueable` packets or containers as another session's next() builds them (`item_ok`: count = packets held, ordinary packets with a device, an own container holds own packets), at most fragMax packets in all; containers nested inside a queued container are not modelled; budget / carry-over / tag theorems are stated for container-free queues",
        "queued packets are `queueable`: not oneshot, job number assigned (verifyPacket's random job for Job 0 is not modelled), non-zero tags, fragments carry a count (or are SvDrop/SvRegister notices)",
        "a queued packet flagged as key material (FlagCrypt) has an empty payload: the peer's key machinery (Listener.notify -> keyCryptAndUpdate) consumes the payload of such a packet, which is C06's subject; its position, order and the rule that next() sends a picked one alone are modelled and generated",
        "Size() <= limits.Frag is NOT assumed (an oversized packet is sent alone; the budget theorem speaks about containers with more than one packet)",
        "a proxyClient queue (the proxy's queue for one of its clients) holds packets for that client's device only (Proxy.accept routes by device)",
        "every foreign device in the queue has a registered session on the receiving listener (otherwise the peer asks it to re-register and drops the packet: C15/C05 territory)",
        "the session is not in channel mode; no packet is queued concurrently with next() (the queue is a snapshot: `histories` = successive transmissions of that snapshot); the random re-key packet of pick() is outside the model",
        "the session's device ID is not empty and limits.Packets < 65536 (wf_conf)",
    ],
    level_text="Machine-checked theorems (Coq, no axioms) over the Gallina model of Session.next/pick, nextPacket, writeUnpack, mergeTags and the receiving "
               "conn.process/receive/processMultiple, for ALL send queues (any length, sizes, own/empty/foreign device IDs, keep-alives anywhere, tags, "
               "abandoned group) and ALL numbers of transmissions (induction on the number of pending packets; progress lemma = termination): what the "
               "peer's per-packet processing observes over the whole drain is the queue without keep-alives and without the leading run of the abandoned "
               "group, same order, each once, id/job/device/flags/payload intact; the carried-over packet is peek and opens the next transmission; every "
               "container with more than one packet respects the Size and count budget; tags are preserved as a set; the only receiver error is the empty "
               "container produced by a keep-alive-only queue (recorded as an observation). The proxying case has its own model of proxyClient.pick/next "
               "(`pc_next`, the smaller copy of Session.next over the same nextPacket) and of the client's receive: the same delivery theorem is proved for it, "
               "including that polls after the queue has drained yield keep-alives only, and `pc_next` is proved equal to `session_next` up to the merged tags "
               "where both apply. A receiver that hosts a Proxy (`recv_host`: real Proxy.accept routing) has the delivery theorem with per-device routing "
               "(each sub-packet reaches the host's handlers or the queue of the proxied client it names, in order). The theorems are about the very definitions (`drain`, `session_next`, `recv_tx`, `pc_drain`, `pc_next`, `recv_client`, `hdrain`, `recv_host`) "
               "that `check` evaluates on every generated queue.",
    level_note="Proof is about the model; the tie to the code is differential: generated queues are drained through the real next(), Marshal/Unmarshal and "
               "conn.process, and the model is evaluated on the same queues inside Coq (its strength is that of the generator, distribution in the evidence). "
               "Built with -tags tiny (Frag = 262144, Packets = 32); the model and all theorems take both as parameters; the standard build "
               "(32 MiB / 256) is not exercised by the harness.",
)
