CFG = dict(
    id="C03", props="Props/C03.v", harness="c03", shims=["c2--c03.go"], tags="verif,tiny",
    trusted_base=[
        "com.Packet Marshal/Unmarshal and MarshalStream/UnmarshalStream are executed for real in every case but are not modelled here (C01 models them); the model only computes the stream length",
        "the overlay shim c2--c03.go builds Session/Listener/Server/conn values without a network and a recording mux (messager); a pending re-key is recorded on client senders so that pick() is deterministic",
        "payload equality is length + CRC-32 of the bytes",
    ],
    assumptions=[
        "queued packets are `sendable`: not themselves containers (FlagMulti/FlagMultiDevice) or oneshot, job number assigned, non-zero tags, fragments carry a count; Size() <= limits.Frag is needed only for the budget theorem",
        "every foreign device in the queue has a registered session on the receiving listener",
        "the session is not in channel mode; no packet is queued concurrently with next()",
    ],
    level_text="Theorems over the Gallina model of Session.next/pick, nextPacket, writeUnpack, mergeTags and the receiving conn.process/receive/"
               "processMultiple for ALL send queues and any number of transmissions: what the peer's per-packet processing observes is the queue "
               "without keep-alives (and without the leading run of the abandoned group), same order, each once, fields intact; the carried-over "
               "packet opens the next transmission; every container respects the size and count budget; tags are preserved as a set. The model is "
               "tied to /repo by draining generated queues through the real next(), Marshal/Unmarshal and conn.process and evaluating the model on the same queues inside Coq.",
    level_note="Proof is about the model; the tie to the code is differential (its strength is that of the generator, distribution in the evidence). "
               "Built with -tags tiny (Frag = 262144, Packets = 32); the model takes both as parameters. No axioms.",
)
