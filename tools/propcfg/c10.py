CFG = dict(
    id="C10", props="Props/C10.v", harness="c10", shims=[], check_fn="ccheck",
    coq_targets=["Model/CodecCases.vo"],
    trusted_base=[
        "floats are carried as IEEE bit patterns (math.Float32bits/Float64bits in the harness); the unsafe pointer casts float32ToInt etc. are not modelled",
        "the two WRITERS are one function in the model (enc_seq): that both real writers emit exactly these bytes is established by the correspondence run, not by a theorem",
        "io.ReadFull and the io.Reader contract (a Read returns 1..len(p) bytes or an error; (0,nil) reads are excluded by `no_empty`)",
    ],
    assumptions=["byte strings <= MaxSlice, string lists <= 2^44 entries (wfv)", "underlying readers never return (0, nil) and never return data together with an error"],
    level_text="Seven theorems over the Gallina model of data.Chunk's typed reader, data.NewReader's stream reader and the shared encoding: round trip for every value "
               "sequence (flat, and stream for EVERY split into non-empty short reads), agreement of the two readers on ALL byte strings, every proper prefix of an encoding "
               "is an error (never a fabricated value), reads are prefix-determined. Tied to /repo by ~5k model cases (~7.7k evaluations) per run: both real writers (bytes identical, "
               "and equal to the model's by length+checksum), all four writer x reader pairings, both real readers on full, truncated (every offset for short encodings, also "
               "as sub-slices with spare capacity) and forged inputs.",
    level_note="Proof is about the model; correspondence is differential testing (distribution in the evidence). Writers are compared with the model only by the run. No axioms.",
)
