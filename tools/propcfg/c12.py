CFG = dict(
    id="C12", props="Props/C12.v", harness="c12", shims=["c2--c12.go", "data--c12.go", "device--c12.go"], tags="verif",
    trusted_base=[], assumptions=[], level_text="in progress", level_note="in progress",
)
