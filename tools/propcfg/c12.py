CFG = dict(
    id="C12", props="Props/C12.v", harness="c12", shims=["c2--c12.go", "data--c12.go", "device--c12.go"], tags="verif",
    trusted_base=[
        "Model/Codec.v + Proofs/Codec.v (shared, C10): the typed codec primitives enc_*/rd_*/srd_* and their round-trip / "
        "stream-agreement lemmas; C12 instantiates its readers with exactly these primitives",
        "the stream model: an io.Reader is the list of chunks its successive Read calls return, each call returns at least one byte "
        "(no (0, nil) reads) and EOF arrives alone, not together with the last bytes; io.ReadFull and data.NewReader are modelled on top of it",
        "harness shims (c2--c12.go, data--c12.go, device--c12.go): Sessions built without a network (client: no parent; server side: a bare "
        "Listener and a job table), unexported settings/keys/proxy fields set and read directly, a stub Profile that only marshals; "
        "writeDeviceInfo / readDeviceInfo / defaultClientMux / Session.handle are the real functions",
        "time.Time is modelled as (Unix seconds, nanoseconds) with IsZero = (-62135596800, 0); time.Unix(v, 0) and Time.Unix() are trusted to be inverse on int64 seconds",
        "Proxy.IsActive, Session.IsClient/IsActive are modelled as two booleans; the profile's MarshalBinary as an opaque byte string",
    ],
    assumptions=[
        "sender settings are arbitrary values of their Go types (jitter uint8, sleep int64, kill date any time.Time, work hours any five bytes or nil); "
        "device details: strings up to MaxSlice bytes, at most 255 interfaces and 255 addresses per interface (the counts are one byte on the wire), "
        "a device ID / session ID whose first byte is not zero (ID.Read refuses the empty ID)",
        "hello, migrate, refresh and proxy messages are written by an ACTIVE CLIENT session (writeProxyData writes nothing at all otherwise, while the reader always expects the count byte)",
        "'unchanged' is stated at the wire's resolution: the kill date in whole seconds with the zero Time and Unix second 0 both meaning none; an Empty() work-hours value and nil both mean none; "
        "for settings already of that form (all a session can hold after any synchronisation) the four values are proved identical",
        "SetDuration transmits the server's resulting jitter AND sleep (not its arguments): 'takes effect = apply_order' is proved for it under the hypothesis that the two views agreed on "
        "jitter and sleep before and the jitter is a percentage; exact application of in-domain values (jitter 0..100, sleep > 0) is proved without that hypothesis",
    ],
    level_text="41 theorems over the Gallina model of writeDeviceInfo/readDeviceInfo (six kinds), the Machine/Network/Address/WorkHours/KeyPair codecs, the server setters "
               "SetDuration/SetKillDate/SetWorkHours and task.Duration/KillDate/WorkHours, the client MvTime handler and handleInfoResult, for ALL setting values: every kind written by the "
               "writer's field list is read back by the reader's field list (two separate Go functions) from a packet and from a stream over EVERY split into non-empty short reads, leaving "
               "exactly the trailing bytes; the stream reader equals the packet reader on every input; settings/identity/key material arrive field by field (kill date at one-second resolution); "
               "an ordered change makes the client apply_order(client, order) with the clamps spelled out, in-domain values are applied exactly, the exchange completes, and after the echo the "
               "server's view equals the client's; the attached proxy is state: after any history of NewProxy/Replace/Close/MvProxy operations every kind carries exactly the current record's "
               "name, bind address and profile bytes; every writeDeviceInfo call site of c2 (table re-read from the sources on every run) writes the kind its consumer reads, SvResync announces the kind of exactly the body it carries, and after any Script the server's view is the client's; after a migration hand-off (MigrateProfile, pipe, LoadContext, MvMigrate result; driven in-process on every run) Session.ID = Device.ID = the migrated ID on the new client and in the server's view, and no key rotation starts while the session is Moving, so the hand-off's key material is the client's at confirmation for every history of idle exchanges in the window; the server's proxy list survives the Migrate result; a Script reports every successful synchronising step whatever its final error. The model is tied to /repo on every run: ~3 700 (quick) generated sessions/orders over the boundary grid go through the real functions "
               "(bytes, receiver state, proxy list, unread remainder; payload, client and server state) and through the model inside Coq.",
    level_note="Proof is about the model; the tie to the code is differential (strength = the generator's, distribution in the evidence). Two defects found this way are repaired in /repo "
               "(KeyPair.Unmarshal short reads: 793ff50; task.Duration jitter clamp: ab1cb28); the theorem C12_keypair_single_read_refuted keeps the old reader's failure. "
               "Trusted: Coq kernel+vm_compute, the shared codec model, the stream model (no empty reads), the harness shims. No axioms.",
)
