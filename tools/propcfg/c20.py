CFG = dict(
    id="C20", props="Props/C20.v", harness="c20", shims=["device__winapi--c20.go"],
    trusted_base=[
        "Go's []rune(string) conversion (UTF-8 decoder) and unicode/utf16, hash/fnv used as reference oracles",
        "registry values are modelled as little-endian byte pairs (amd64); the unsafe cast itself is not modelled, only its index arithmetic",
    ],
    assumptions=["runes are arbitrary int32 values; UTF-16 units arbitrary uint16 values"],
    level_text="Ten theorems over the Gallina model of utf16Encode/UTF16EncodeStd/UTF16Decode/FnvHash/Entry.To* for ALL rune and unit "
               "sequences (standard encoding + one terminator, NUL rejection, decode∘encode = id, decoding stops at the first NUL, registry reads in bounds, "
               "FNV-1 recurrence); the model is tied to /repo by running ~13k generated cases (exhaustive over rune classes up to length 3/4) through the "
               "real functions and through the model inside Coq, plus unicode/utf16 and hash/fnv as Go-side oracles.",
    level_note="Proof is about the model; the tie to the code is differential (its strength is that of the generator, distribution in the evidence). "
               "Trusted: Coq kernel+vm_compute, Go's []rune(string), the harness. No axioms.",
)
