CFG = dict(
    id="C09", props="Props/C09.v", harness="c09", shims=["c2__cfg--c09.go"],
    trusted_base=[
        "Go's crypto/tls.X509KeyPair, crypto/x509 AppendCertsFromPEM, crypto/aes.NewCipher (the CONTENTS of certificates/keys are outside the model: one observed flag `tlsok` per config; "
        "the slicing that extracts the blobs is modelled)",
        "int is 64 bit (the offset sums of Config.next - at most 8 + 3*65535 + 255*512 beyond the current offset - cannot wrap for inputs that fit in memory)",
        "the overlay shim c2__cfg--c09.go (reads Config.next and the fields of the built profile through reflection) and harness/c09/cfgx (recover() + 10 s watchdog runner)",
        "String() and MarshalJSON() are modelled by their index skeleton (every c[...] / c[a:b] expression and the loop structure), not by the text they produce",
    ],
    assumptions=[
        "inputs are byte strings (`bytes c`: every element in [0,256)) of any length",
        "certificate / key parsing is treated as succeeding (tlsok = true) in the validate-iff-build theorem, as the property states; the no-panic theorems hold for both values of tlsok",
    ],
    level_text="Fifteen theorems over the Gallina model of Config.next/validate/build/Validate/Build/Groups/Group/String/MarshalJSON/MarshalBinary (c2/cfg/convert.go, config.go, z_json.go, group.go) "
               "for ALL byte strings, offsets and group numbers: next is total inside the config, -1 outside, and strictly progresses; no entry point panics (every Go index/slice expression is an explicit "
               "Panic-producing primitive) or exhausts its loop fuel (= termination); Groups and Group always return a value; validate accepts iff build accepts (certificate/key parsing aside); "
               "plus three `_refuted` theorems about copies of the pinned tree's expressions (the three defects repaired by fix: commits). The model is tied to /repo by running ~7400 (quick) / ~170k "
               "(thorough) byte strings (exhaustive short strings over the tag alphabet, every truncation and length-field change of valid configs from every constructor, splices, random) through the "
               "real entry points under recover()+watchdog and through the same model functions inside Coq (0 disagreements required).",
    level_note="Proof is about the model (which follows the tree after the three C09 and four C08 fix: commits); the tie to the code is differential (distribution in the evidence). "
               "Trusted: Coq kernel+vm_compute, the harness and shim, Go's TLS/x509/aes parsers. No axioms (every theorem is closed under the global context).",
)
