CFG = dict(
    id="C06", props="Props/C06.v", harness="c06", shims=["c2--c06.go", "data--c06.go"], tags="verif",
    trusted_base=[
        "ECDH commutativity dh a (pub b) = dh b (pub a) of crypto/elliptic P-521 (ScalarMult/ScalarBaseMult): the ONLY hypothesis of the agreement "
        "theorems, visible in every statement; checked at run time on every generated pair against crypto/ecdh (oracle key ecdh-contract), never proved",
        "big.Int.Bytes() returns the big-endian value without leading zero bytes (modelled as: dh returns a byte list of ANY length)",
        "the cut of Session.session(), connectContextInner, Listener.talk and handle() into the events Hello / HelloReply / RekeySend / DataSend / "
        "BatchSend / RekeyRecv / ReplyRecv / WriteFail / ReplyLost / Forget / Reregister / ChanStart / ChanUp / ChanDown / ChanTick / ChanEnd follows the Go source by hand; one client, one server, "
        "non-channel exchanges, one exchange at a time (the code serialises them in Session.listen)",
        "crypto/cipher.xorBytes (linked by subtle.XorOp) is the byte-wise XOR of the shorter of its arguments (sampled, not proved)",
        "a re-key announcement decrypted with a different key does not parse as a P-521 point (the model leaves the server share unchanged; "
        "observed on every such case, probability of the contrary is negligible)",
        "the in-memory net.Conn of the harness (write fails / reply dropped before or after the server handled the request) stands for the network",
    ],
    assumptions=[
        "private keys are arbitrary values (model input); payloads arbitrary byte lists; histories arbitrary event lists",
        "agreement theorems carry the side condition `safe`: no reply is lost while a key announcement is unacknowledged (keysNext pending, or the "
        "lost reply is the SvComplete with the server key); those three history shapes are refuted witnesses and known findings",
        "single device per connection: proxy / multi-device containers are outside the model; channel mode is modelled one Packet at a time, "
        "the harness runs the real channel loops of both ends (incl. handle()/conn.start) on an in-memory duplex connection; channels end by a dropped connection only",
    ],
    level_text="30 theorems over the Gallina model of subtle.XorOp / Chunk.KeyCrypt, KeyPair.fillShared and the key state machine of both ends "
               "(keyNextSync, keyCheckSync, keyCheckRevert, keySessionGenerate, keySessionSync, keyListenerInit, keyCryptAndUpdate, the per-connection key copy): "
               "the cipher is an involution and keeps the length for ALL buffers and ALL keys; a short ECDH secret keeps the tail of the previous share and "
               "that is harmless while previous shares are equal; for ALL histories (induction over the event list: handshakes, re-keys, traffic, failed writes, "
               "harmless reply losses, server restarts, re-registrations, ECDH outputs of any length) both ends hold the same share and keysNext = nil whenever "
               "the client is idle and registered; a failed write reverts; a pending pair is never replaced before it is swapped or cancelled; keyNextSync announces no pair while the Session is being migrated; payloads round-trip under agreement; the text form of a key (String/Parse) restores its bytes; pick() never draws a re-key for a client inside a channel and every payload exchanged inside a channel decrypts to the original (conn.keys = both shares, for all histories). Four fault shapes violate the property on the "
               "real code (refuted in Coq, reproduced by the harness on every run, known findings); a fourth (re-key merged into a Multi container), the Server generating its key pair concurrently with the first hellos, and a further one (re-key inside a channel, found by the oracle-only channel scenario) were repaired. "
               "The model is tied to /repo by ~2800 cases per run: real XorOp/KeyCrypt, real P-521 KeyPairs incl. forced short secrets, and scripted histories "
               "through the real listen()/session()/handle() with injected faults, each evaluated by the model inside Coq.",
    level_note="Proof is about the model; the tie to the code is differential (distribution in the evidence). Trusted: Coq kernel+vm_compute, ECDH commutativity "
               "(section hypothesis), the harness and its in-memory connection, the hand-made cut into events. No axioms.",
)
