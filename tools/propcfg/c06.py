CFG = dict(
    id="C06", props="Props/C06.v", harness="c06", shims=["c2--c06.go", "data--c06.go"], tags="verif",
    trusted_base=[], assumptions=[], level_text="stub", level_note="stub",
)
