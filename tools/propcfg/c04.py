CFG = dict(
    id="C04", props="Props/C04.v", harness="c04", shims=["c2--c04.go"], tags="verif",
    trusted_base=[
        "stdlib decoders behind the wrappers/transforms (encoding/hex, encoding/base64, compress/zlib, compress/gzip, crypto/cipher CFB, crypto/elliptic) are not modelled: "
        "they are only exercised by the harness on hostile input",
        "allocation is observed as the runtime.MemStats.TotalAlloc delta of each call in a child process under RLIMIT_AS = 3 GiB; "
        "unsafe.Sizeof of the element types is re-measured by the harness every run and compared with the model constants",
        "io.Reader sources without short reads (bytes.Reader) for the stream-reader decoders; short reads are C10's subject",
    ],
    assumptions=["input bytes are arbitrary values in 0..255 (bytes_ok); amd64 (int = 64 bit, MaxSlice = 2^42)"],
    level_text="placeholder",
    level_note="placeholder",
)
