CFG = dict(
    id="C04", props="Props/C04.v", harness="c04", shims=["c2--c04.go"], tags="verif",
    trusted_base=[
        "stdlib decoders behind the wrappers/transforms (encoding/hex, encoding/base64, compress/zlib, compress/gzip, crypto/cipher CFB, "
        "crypto/ecdh) are not modelled: the harness exercises them on hostile input through the real connection handler; for the base64 "
        "transform their contract (an error, or at most DecodedLen(len p) bytes, no panic) is a hypothesis of C04_b64_shift and the observed "
        "answer is an input of every correspondence case",
        "allocation of the implementation is the runtime.MemStats.TotalAlloc delta of the single call, taken in a child process (one goroutine, "
        "RLIMIT_AS = 3 GiB so that a terabyte make() kills the child, not the check); rule: at most 128*|input| + 1 MiB, for a whole connection "
        "plus what a valid minimal exchange costs under the same wrapper/transform (measured cold in the same child), smallest of three runs",
        "model allocation = bytes requested from make/append before the input justifies them; the amortised cost of one append step of a "
        "[]string (112 bytes: growslice doubling, then a quarter plus 192, size-class rounding) and unsafe.Sizeof of the element types "
        "(amd64) are constants of the model; model and implementation are compared by allocation CLASS (below / above the rule) with a "
        "factor-two dead zone, not byte for byte",
        "the connection handler is driven on a real c2.Server value with a Listener built like Server.ListenContext builds it minus the socket "
        "and accept goroutine (in-memory net.Conn, events processed synchronously by the real event.process); recover() in the child catches "
        "what the handler goroutine of a real server would die from",
        "io.Reader sources without short reads (bytes.Reader) for the stream-reader decoders; short reads are C10's subject",
    ],
    assumptions=[
        "input bytes are arbitrary values in 0..255 (bytes_ok); amd64 (int = 64 bit, MaxSlice = 2^42, maxAlloc = 2^48)",
        "C04_b64_shift: encoding/base64 answers an error or at most len(p)/4*3 bytes and does not panic",
        "C04_json_wellformed_any_client_strings: escape.JSON returns a JSON string literal (is_jstr); C04_json_wellformed: the leaves keep "
        "their contracts (sess_okb), which the correspondence run evaluates on the leaves of every real Session it renders",
    ],
    level_text="Theorems over the Gallina model (Model/Decoders.v: total functions returning Ok/Err/Panic plus an allocation count; every index and "
               "slice expression of the Go code goes through bound-checked primitives) for ALL byte strings: no decoder panics (DNS transform "
               "decodePacket(s)/Read, ReadStringList and Bytes over a Chunk and over the stream reader, Packet.Unmarshal and UnmarshalStream, the "
               "seventeen c2/task/result decoders as instances of one counted-list combinator, Machine/Network/proxy data/readDeviceInfo, base64 "
               "shift decode, receive()'s Multi container walk over bytes with nested containers and fragment dispatch) and each allocates at most "
               "K*|input| + C with explicit constants (uniformly at most 128*|input| + 1 MiB, the rule the harness applies to the "
               "implementation); the model loops never run out of fuel (termination of decodePacket(s), the list loops, the container walk); "
               "the text Session.JSON writes is exactly one JSON value whenever its leaves keep their contracts, in particular for ALL "
               "client-supplied strings given that escape.JSON returns a string literal. The statements are about the tree after five fix: "
               "commits; the pinned-tree definitions are kept and refuted by concrete witnesses. The model is tied to /repo by running ~11k generated cases (every "
               "truncation and single-byte mutation of count/length fields of valid messages, exhaustive short strings, random bytes) through "
               "the real decoders in a child process and through the same Gallina definitions inside Coq (outcome class, digest of the decoded "
               "value, allocation class). The whole listener path (handle -> readPacket -> transform/wrapper -> Unmarshal -> talk/talkSub -> "
               "readDeviceInfo/resolve/process -> receive (Multi, Frag) -> event handlers, and the JSON view of every Session created) is "
               "exercised oracle-only on ~8k hostile connections over 13 wrapper/transform profiles, before and after registration.",
    level_note="Proof is about the model; the tie to the code is differential (its strength is that of the generator, distribution in the evidence). "
               "NOT modelled (oracle-only through the real handler): processMultiple/talkSub, tag resolution, key exchange, the "
               "CBK/XOR/AES/hex/zlib wrappers; the JSON grammar jvalk is a hand-written transcription of RFC 8259 (the real output is also checked "
               "with encoding/json.Valid on every Session a hostile input created). Two known findings: the "
               "stream reader allocates what a length prefix says (not reachable from a listener), and a compressing wrapper inflates before any "
               "size check (up to 1032:1). Trusted: Coq kernel+vm_compute, the harness and its allocation measurement, the stdlib decoders. No axioms.",
)
