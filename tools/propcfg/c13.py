import json, os, re


def _witness():
    """Called by vlib.generic_check (as the `extra_replace` hook: after the Coq build, before the harness
    is built and run; the case directory already exists).  Reads the atomic shapes atomics2v translated
    from the c2/state.go under check (coq/Gen/StateAtomics.v) and evaluates INSIDE Coq, on those generated
    terms, the three-step witness schedule of Model/Interleave.v ([T0.load; T1 to completion; T0.rest]) for
    Set||Set, Set||Unset and SetLast||Set, and searches (find_bad) a schedule of the translated SetChannel
    against the translated ChannelCanStop that breaks the channel protocol invariant.  The result is written to build/c13_run/witness.json; the harness
    attaches it to the replay of a lost update seen by the stress run and to the evidence.  Adds no overlay
    file (returns {})."""
    import vlib
    casedir = os.path.join(vlib.BUILD, "c13_run")
    lock = None
    info = {"source": os.path.join(vlib.REPO, "c2", "state.go"), "translator": "tools/atomics2v -> coq/Gen/StateAtomics.v"}
    try:
        lock = vlib.Lock(".coq.lock")        # another check may regenerate Gen/*.v from another tree: hold the build lock throughout
        lock.__enter__()
        vlib.run_generators()
        vlib.sh("timeout 300 make Gen/StateAtomics.vo 2>&1", cwd=vlib.COQ, timeout=330)
        gen = open(os.path.join(vlib.COQ, "Gen", "StateAtomics.v")).read()
        info["shapes"] = {m.group(1): {"shape": m.group(2), "atomic_calls": m.group(3)} for m in
                          re.finditer(r"Definition gen_(set|unset|setlast) : mutator := Mutator (\w+) \[(.*)\]\.", gen)}
        nr = re.findall(r"\(\* (\w+): not recognised: (.*?) \*\)", gen)
        if nr:
            info["not_recognised"] = dict(nr)
        info["all_linearisable"] = bool(info["shapes"]) and all(
            (v["shape"] == "CasLoop" and re.fullmatch(r"ALoad; ACas .*", v["atomic_calls"])) or
            (v["shape"] == "AtomicRMW" and re.fullmatch(r"A(Or|And) .*", v["atomic_calls"])) for v in info["shapes"].values())
        wd = os.path.join(vlib.BUILD, "c13_witness")
        os.makedirs(wd, exist_ok=True)
        pairs = [("Set(1) || Set(2), initial word 0", "(gc (MSet 1)) (gc (MSet 2)) 0"),
                 ("Set(1) || Unset(2), initial word 2", "(gc (MSet 1)) (gc (MUnset 2)) 2"),
                 ("SetLast(7) || Set(1), initial word 0", "(gc (MSetLast 7)) (gc (MSet 1)) 0")]
        src = "From XMT Require Import Base.Prelude Model.State Model.Interleave Gen.StateAtomics.\n" \
              "Definition gc := to_call gen_set gen_unset gen_setlast.\n" \
              "Definition show (r : witness_result) := (wr_final r, wr_done r, wr_serial01 r, wr_serial10 r, wr_lost r).\n" + \
              "".join("Eval vm_compute in (show (lost_update_witness %s)).\n" % t for _, t in pairs)
        src += "Definition showp (o : option protocol_witness) := match o with None => None | Some w => " \
               "Some (pw_request w, pw_word0 w, pw_sched w, pw_word w, pw_setchannel w, pw_canstop w, pw_next_poll w) end.\n" \
               "Eval vm_compute in (showp (protocol_counterexample gen_set gen_unset gen_channelcanstop gen_setchannel)).\n" \
               "Eval vm_compute in (prog_in gen_channelcanstop && prog_in gen_channelcanstart && prog_in (gen_setchannel true) && prog_in (gen_setchannel false)).\n"
        open(os.path.join(wd, "witness.v"), "w").write(src)
        rc, out = vlib.sh(["coqc", "-Q", vlib.COQ, "XMT", "witness.v"], cwd=wd, timeout=120)
        info["compound"] = {m.group(1): m.group(2) for m in re.finditer(r"Definition gen_(tag|channelcanstop|channelcanstart) : prog := (.*)\.", gen)}
        m = re.search(r"Definition gen_setchannel \(e : bool\) : prog :=\s*if e then (.*)\s*else (.*)\.", gen)
        if m:
            info["compound"]["setchannel(true)"], info["compound"]["setchannel(false)"] = m.group(1).strip(), m.group(2).strip()
        flat = " ".join(out.split()).replace("%nat", "")
        pm = re.search(r"= Some \((true|false), (-?\d+), \[([0-9; ]*)\], (-?\d+), (Some true|Some false|None), (Some true|Some false|None), (Some true|Some false|None)\)", flat)
        ob = lambda t: None if t == "None" else t == "Some true"
        if pm:
            sched = [int(x) for x in pm.group(3).split(";") if x.strip()]
            info["protocol_witness"] = {
                "what": "a schedule of the TRANSLATED SetChannel (thread 0) and ChannelCanStop (thread 1), one atomic call per slot, reaching a configuration "
                        "where the channel protocol invariant (Model/Interleave.v protocol_ok) fails; found by exhaustive search inside Coq (find_bad)",
                "request": "SetChannel(%s)" % pm.group(1), "initial_word": int(pm.group(2)), "schedule_thread_ids": sched,
                "word_reached": int(pm.group(4)), "setchannel_answer": ob(pm.group(5)), "channelcanstop_answer": ob(pm.group(6)),
                "answer_of_one_more_poll": ob(pm.group(7))}
            info["model_breaks_protocol"] = True
        elif rc == 0 and re.search(r"= None : option", flat):
            info["model_breaks_protocol"] = False
        pi = re.findall(r"= (true|false) : bool", flat)
        if pi:
            info["compound_recognised"] = pi[-1] == "true"
        rows = re.findall(r"=\s*\((-?\d+),\s*(true|false),\s*(-?\d+),\s*(-?\d+),\s*(true|false)\)", " ".join(out.split()))
        if rc == 0 and len(rows) == len(pairs):
            info["witness_schedule"] = {
                "thread_ids": [0, 1, 1, 1, 1, 0, 0, 0, 0],
                "meaning": "thread 0 executes its first atomic call (the load); thread 1 runs until it has returned; thread 0 executes the rest "
                           "(surplus slots let a retry loop finish, a returned thread stutters); evaluated with vm_compute on the generated terms"}
            info["witness"] = [{"calls": n, "final_word": int(r[0]), "both_returned": r[1] == "true",
                                "word_if_call0_then_call1": int(r[2]), "word_if_call1_then_call0": int(r[3]),
                                "update_lost": r[4] == "true"} for (n, _), r in zip(pairs, rows)]
            info["model_loses_update"] = any(w["update_lost"] for w in info["witness"])
        else:
            info["witness_error"] = out[-600:]
    except Exception as e:                                        # never let the hook break the check
        info["witness_error"] = repr(e)
    finally:
        try:
            if lock is not None:
                lock.__exit__()
        except Exception:
            pass
    try:
        json.dump(info, open(os.path.join(casedir, "witness.json"), "w"), indent=1)
    except OSError:
        pass
    return {}


CFG = dict(
    id="C13", props="Props/C13.v", harness="c13", shims=["c2--c13.go"], tags="verif",
    extra_replace=_witness,
    trusted_base=[
        "tools/atomics2v (Go, go/parser + go/ast): reads c2/state.go on every run and emits coq/Gen/StateAtomics.v (the sync/atomic calls of Set/Unset/SetLast, "
        "their value expressions, the control shape LoadStore/CasLoop/AtomicRMW/Unknown, the state* constants); anything it does not recognise becomes Unknown, "
        "for which the concurrent theorems do not compile",
        "the semantics given to one sync/atomic call in Model/Interleave.v (Load/Store/CompareAndSwap/Or/And are sequentially consistent single steps on one word); "
        "Go's memory model for sync/atomic is trusted, not modelled",
        "the compound calls are covered concurrently only for ONE SetChannel caller against ONE ChannelCanStop (or ChannelCanStart) poll; two concurrent SetChannel callers, "
        "two pollers, or Tag against Tag are outside the theorems; plain getters racing with writers read one atomic snapshot per load",
        "bugtrack.Enabled is taken as false by the translator (the `bugs` build only adds loads for logging)",
    ],
    assumptions=[
        "state words are arbitrary uint32 values, arguments arbitrary uint32 (Set/Unset) / uint16 (SetLast) values; the half-independence theorems take flag arguments below 2^16",
        "a thread executes one mutator call; schedules are arbitrary finite lists of thread ids (any length, any order, unfair ones included); complete = every call has returned",
    ],
    level_text="39 theorems. Over the Gallina model of c2/state.go for ALL words: Set/Unset keep the group half, SetLast keeps the flag half and sets the group; the complete truth table "
               "of every predicate over all 2^16 flag states (vm_compute over the whole finite domain, lifted to all 2^32 words by independence lemmas): closed implies not ready, "
               "not receivable, closing; the channel request protocol and single consumption of the 'updated' notice. Over the interleaving semantics, instantiated with the atomic "
               "shape TRANSLATED on every run from the current state.go: no_lost_update (for every list of concurrent Set/Unset/SetLast calls and every complete schedule the final "
               "word is the fold of ALL calls in the order of their successful compare-and-swap steps; by induction on the schedule), no call is ever half applied, a flag set by some "
               "call and cleared by none is set at the end, the halves stay independent concurrently, complete schedules exist; and the refutation of the same statement for the "
               "load-then-store shape of the pinned tree. The compound methods (Tag, ChannelCanStop, ChannelCanStart, SetChannel) are ALSO translated on every run, into decision "
               "trees over their atomic calls in source order; proved: run alone each is the method of the sequential model (all words), and for EVERY interleaving of one SetChannel(e) "
               "with one ChannelCanStop poll on a running channel (all words, all schedules: exhaustive exploration of the 64 words made of protocol bits by vm_compute, sound for all "
               "schedules by induction, lifted to all 2^32 words by a simulation lemma): SetChannel answers as alone, the poller never acts on a notice with the value of another request "
               "(the value is published before the notice), the request is never lost and its notice is consumed once; likewise ChannelCanStart; refuted for the swapped write order. "
               "Outside state.go: the word is also driven through the connHost methods of *Session and *proxyClient and through Session.close (model ops, differential + oracle), "
               "and atomics2v reads from every file of c2 that no value-receiver method writes the word and that every statement list dropping the request also drops its notice. "
               "The sequential model is tied to /repo by running every flag state through every method of the real type; the concurrent "
               "theorems are tied by the translator, by the theorem that the translated commit functions ARE Set/Unset/SetLast of the sequential model, and by a goroutine stress run.",
    level_note="Proof is about the model and about the translated atomic shape; the sequential tie is exhaustive on the flag half (65536 rows) and sampled on the group half. "
               "Trusted: Coq kernel+vm_compute, the translator, sync/atomic semantics, the harness. No axioms.",
    partial="real goroutine schedules are only sampled by the stress run; the theorem covers every interleaving of the modelled atomic steps",
)
