CFG = dict(
    id="C13", props="Props/C13.v", harness="c13", shims=["c2--c13.go"], tags="verif",
    trusted_base=[
        "tools/atomics2v (Go, go/parser + go/ast): reads c2/state.go on every run and emits coq/Gen/StateAtomics.v (the sync/atomic calls of Set/Unset/SetLast, "
        "their value expressions, the control shape LoadStore/CasLoop/AtomicRMW/Unknown, the state* constants); anything it does not recognise becomes Unknown",
        "the semantics given to one sync/atomic call in Model/Interleave.v (Load/Store/CompareAndSwap/Or/And are sequentially consistent single steps on one word); "
        "Go's memory model for sync/atomic is trusted, not modelled",
        "the getters are modelled sequentially (every load of one call sees the same word): a getter racing with a mutator is outside the theorems",
    ],
    assumptions=[
        "state words are arbitrary uint32 values, arguments arbitrary uint32 (Set/Unset) / uint16 (SetLast) values; the symbolic half-independence theorems take flag arguments below 2^16",
        "a thread executes one mutator call; schedules are arbitrary finite lists of thread ids, complete = every thread has returned",
    ],
    level_text="Theorems over the Gallina model of c2/state.go for ALL words: Set/Unset keep the group half, SetLast keeps the flag half and sets the group; the complete truth table "
               "of every predicate over all 2^16 flag states (vm_compute over the whole finite domain, lifted to all 2^32 words by independence lemmas): closed implies not ready, "
               "not receivable, closing; the channel request protocol and single consumption of the 'updated' notice; and no_lost_update: for every list of concurrent Set/Unset/SetLast "
               "calls, instantiated from the atomic shape TRANSLATED from the current state.go, and every complete schedule, the final word is the fold of the calls in some "
               "linearisation order. The sequential model is tied to /repo by running every flag state through every method of the real type; the concurrent theorem is tied by the translator.",
    level_note="Proof is about the model and about the translated atomic shape; the sequential tie is exhaustive on the flag half (65536 rows) and sampled on the group half. "
               "Trusted: Coq kernel+vm_compute, the translator, sync/atomic semantics, the harness. No axioms.",
    partial="real goroutine schedules are only sampled by the stress run; the theorem covers every interleaving of the modelled atomic steps",
)
