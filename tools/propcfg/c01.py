CFG = dict(
    id="C01", props="Props/C01.v", harness="c01", shims=[],
    trusted_base=[
        "io.ReadFull / io.Reader contract as modelled by read_full/read1 of Model/Codec.v (a Read delivers at most the requested bytes of the next chunk; (0, io.EOF) at the end)",
        "bytes.Buffer, data.NewWriter/NewReader plumbing used by the harness; Go's append/copy",
        "the Go allocator returns slices with cap >= request (Chunk.grow is not modelled byte by byte here: C11 does that); the payload loop of readBody is modelled at the level of Read calls (each asks for min(announced length still owed, 16384) bytes)",
        "the chunking io.Reader of the harness (harness/c01 chunkReader) implements exactly read1 of the model: a Read never crosses a chunk boundary",
    ],
    assumptions=[
        "Unmarshal/UnmarshalStream into a zero Packet; the marshalled packet may have its read cursor anywhere in [0, Size()] (15 cursor states generated)",
        "well-formed packet (wf): id/job/flags in range, device id of 32 bytes with a non-zero first byte, at most 32768 non-zero 32-bit tags, payload shorter than 2^63 (stream form, wf_stream: at most MaxSlice = 2^42)",
        "the underlying reader returns non-empty short reads (no_empty) and ends with (0, EOF), with its last bytes + EOF, or with a failing Read; a (0, nil) read is compared with the model in the differential run but is outside the theorems",
        "flag theorems: ALL integers f as the word (no range needed), all 16-bit values 0 <= n < 65536",
    ],
    level_text="43 theorems over the Gallina model of com.Packet Marshal/Unmarshal, MarshalStream/UnmarshalStream, Size and the com.Flag word, by induction, for ALL "
               "well-formed packets and EVERY split of the byte stream into non-empty short reads: Marshal is total and has length 46 + length bytes + 4*tags + payload; "
               "Marshal rewinds and writes the whole buffer from EVERY read-cursor position of the payload Chunk (marshal (set_rpos k p) = marshal p; MarshalStream writes the unread part); "
               "Unmarshal over (Marshal p ++ rest) returns exactly p (rewound) and leaves exactly rest (exact consumption), hence concatenated packets parse one after another "
               "(packets_concat, induction over the list), the encoding is prefix-free and a truncated wire encoding never yields a packet; the same round trip for readers that deliver their last bytes together with io.EOF or fail after the packet (read-by-read simulation of the plain reader, wire and nested form); round trip, exact consumption, concatenation and prefix-freeness also for the nested stream form through the flat Chunk reader and through "
               "data.NewReader over short reads, whose two readers are proved to agree on every input including malformed ones; bit-level (Z.testbit) proofs that "
               "SetLen/SetPosition/SetGroup store their value, keep the other two 16-bit fields and change the low 16 bits only by setting FlagFrag, that Set/Unset of a "
               "16-bit mask never touch the fragment fields, and Clear's behaviour as coded (fields zero; frag bit cleared on a fragment word, SET on a word without it). "
               "The model is tied to /repo by ~4600 generated cases per quick run (plus ~2900 oracle-only evaluations, among them the real testing/iotest readers) (boundary grid of payload lengths 0,1,2,254..257,65534..65537,100000 x tag counts "
               "0,1,2,255,256, all chunkings, trailing data, concatenations, 15 read-cursor states each followed by a second packet, truncations at every offset, every class byte, forged 2^32/2^63 lengths, flag setters) "
               "run through the real functions and through the model inside Coq, plus the round-trip/independence oracle evaluated on the implementation.",
    level_note="Proof is about the model; the tie to the code is differential (its strength is that of the generator, distribution in the evidence). "
               "Payloads of 2^32 bytes and more are only exercised on the reader side with forged headers. "
               "Trusted: Coq kernel+vm_compute, the harness and its chunking reader. No axioms.",
)
