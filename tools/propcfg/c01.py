CFG = dict(
    id="C01", props="Props/C01.v", harness="c01", shims=[],
    trusted_base=[
        "io.ReadFull / io.Reader contract as modelled by read_full/read1 of Model/Codec.v (a Read delivers at most the requested bytes of the next chunk; (0, io.EOF) at the end)",
        "bytes.Buffer, data.NewWriter/NewReader plumbing used by the harness; Go's append/copy",
        "the Go allocator returns slices with cap >= request (Chunk.grow is not modelled byte by byte here: C11 does that); the payload loop of readBody is modelled at the level of Read calls",
    ],
    assumptions=[
        "packets are fresh values (Unmarshal into a zero Packet; rpos = 0 when marshalled)",
        "well-formed packet: device id of 32 bytes with a non-zero first byte, at most 32768 non-zero tags, payload shorter than 2^63 (stream form: at most MaxSlice)",
        "the underlying reader returns non-empty short reads (a (0, nil) read is compared with the model but is outside the theorem)",
    ],
    level_text="placeholder",
    level_note="Proof is about the model; the tie to the code is differential (its strength is that of the generator, distribution in the evidence). "
               "Trusted: Coq kernel+vm_compute, the harness. No axioms.",
)
