CFG = dict(
    id="C15", props="Props/C15.v", harness="c15", shims=["c2--c15.go"], tags="verif,tiny",
    trusted_base=[
        "std++ gmap (axiom-free) for the session table and the proxy's client table",
        "the harness observes a session being 'touched' through Session.RemoteAddr(), its key material through keys.Public, its queue through the "
        "send channel, handler delivery through the public Server.New / Session.Receive / Server.Shutdown callbacks run by the real Server.listen loop",
        "Server, Listener, Proxy and Session values are constructed by the shim without sockets; Listener.talk/talkSub, Server.Session/Sessions/Remove, "
        "Session.Send, Proxy.talk/talkSub/accept are the real functions; Channel routing is driven through the real conn.channelRead -> conn.resolve(tags, true) / "
        "conn.stop on a fake read-only net.Conn (channelWrite not started), Session.chn is read by the shim",
        "forwarding is driven through the real Proxy.talk -> notify -> Session.write -> Session.next on a client-side Session and the real Listener.talk "
        "(Marshal/Unmarshal in between), built with -tags verif,tiny (limits.Frag = 262144)",
        "key material used by the harness is never a valid curve point (KeyPair.Sync fails, IsSynced stays false): receiveSingle's keySessionSync therefore "
        "always reads the packet's key into keys.Public, which is what the model does for SvComplete+FlagCrypt",
    ],
    assumptions=[
        "C15_hello_registers (a well-formed hello of an unregistered device registers it) assumes ID.Hash injective on the registered IDs plus the new one; "
        "C15_collision_refuted shows the bare statement false with a real colliding pair (the structural known finding). No other theorem has a no-collision hypothesis",
        "queues hold fewer than limits.Packets small packets (Session.next hands over the whole queue); not modelled: fragments, oneshot packets, Multi inside Multi, "
        "channels (clientSet/clientClear), SvShutdown traffic, the proxy flag, Server.Remove(id, true)",
        "'the connection serves device d' is read as: the incoming packet names d (top level or sub-packet) or lists hash(d) as a tag; tags are 32-bit hashes on the wire, "
        "so a tag cannot tell colliding devices apart",
    ],
    level_text="Theorems over the Gallina model of ID.Hash (exact), the hash-keyed table, Listener.talk/talkSub, conn.resolve/processMultiple, receive's ID check, "
               "Server.Session/Sessions/Remove/send and Proxy.accept/talk/talkSub, for ALL tables satisfying the table invariant (every reachable table does: induction over "
               "all histories of register/traffic/send/lookup/remove), ALL packets, batch compositions and tag lists, ALL sets of IDs including colliding ones: every effect "
               "(address/last-seen update, key update, handler call, tag fetch) happens in the session whose ID is the device the (sub-)packet names; a non-hello packet of an "
               "unregistered device gets a re-registration request and changes nothing; outbound packets name a device the incoming packet named or tagged; Server.Session "
               "returns the device's own session or nothing (and finds every registered device); Remove forgets; the same for the proxy tables; with Channels, over all "
               "histories of Channel packets with any tag list (the empty one included) a session is routed only into the Channel of a host whose LAST tag list names it, "
               "and a queued packet lands in its device's own queue or in that host's queue; a proxied client's packet forwarded by its proxy host, whole or cut into "
               "fragments by Session.write, names the client in every piece and is handled only in the client's session; conn.process / receive for every combination "
               "of FlagMulti, FlagMultiDevice, FlagFrag, FlagProxy, count, device and body fire a handler only in the session of the device handled. Registration itself is proved "
               "under hash-injectivity and refuted without it with a real colliding pair (constant checked by vm_compute and against ID.Hash on every run). The code as it "
               "was before the four fix: commits is the chk=false instance of the same definitions; its misbehaviour is stated as C15_old_code_refuted. "
               "The model is tied to /repo by generated histories run through the real functions and through the model inside Coq.",
    level_note="Proof is about the model; the tie to the code is differential (strength = the generator's, distribution in the evidence). The tables being keyed "
               "by a 32-bit hash remains a structural defect: a second device with a colliding ID can never register (known findings, reproduced every run with pairs "
               "found by birthday search from the seed).",
)
