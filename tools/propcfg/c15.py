CFG = dict(
    id="C15", props="Props/C15.v", harness="c15", shims=["c2--c15.go"],
    trusted_base=[
        "std++ gmap (axiom-free) for the session table",
        "the harness observes a session being 'touched' through Session.RemoteAddr(), its key material through keys.Public, "
        "handler delivery through the public Server.New / Session.Receive / Server.Shutdown callbacks run by the real Server.listen loop",
        "Server, Listener, Proxy and Session values are constructed by the shim without sockets; talk/talkSub/accept are the real functions",
    ],
    assumptions=[
        "dispatch / unknown-device / outbound theorems assume ID.Hash is injective on the registered IDs plus the IDs the packet names "
        "(the refutation theorem shows the statement is false without it; the real hash collides after ~1.5e5 random IDs)",
        "queues hold fewer than limits.Packets small packets (Session.next hands over the whole queue); no fragments, oneshot packets, channels, SvShutdown traffic",
    ],
    level_text="Theorems over the Gallina model of ID.Hash, the hash-keyed table, Listener.talk/talkSub, conn.resolve/processMultiple, receive's ID check, "
               "Server.Session/Sessions/Remove and Proxy.accept/talk/talkSub for ALL tables, packets, batches, tag lists and histories: a packet only has "
               "effects in the session of the device it names, an unknown device gets a re-registration request and nothing else happens, outbound packets only "
               "reach a connection that named their device (all under hash-injectivity on the IDs involved), the repaired Server.Session and Proxy.accept return/"
               "use the named device's entry or nothing unconditionally, and an explicit refutation with two real colliding IDs when injectivity is dropped. "
               "The model is tied to /repo by generated histories run through the real functions and through the model inside Coq.",
    level_note="Proof is about the model; the tie to the code is differential (strength = the generator's, distribution in the evidence). The table being keyed "
               "by a 32-bit hash is a structural defect recorded as known findings (reproduced every run with a colliding pair found by birthday search).",
)
