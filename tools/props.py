"""Per-property configuration of the checks: one module tools/propcfg/cXX.py per property, each
defining CFG (a dict for vlib.generic_check, or with a 'custom' callable)."""
import glob, importlib.util, os

PROPS = {}
NOT_APPLICABLE = {}
_d = os.path.join(os.path.dirname(os.path.abspath(__file__)), "propcfg")
for _p in sorted(glob.glob(os.path.join(_d, "c*.py"))):
    _spec = importlib.util.spec_from_file_location("propcfg_" + os.path.basename(_p)[:-3], _p)
    _m = importlib.util.module_from_spec(_spec)
    _spec.loader.exec_module(_m)
    if getattr(_m, "ENABLED", True):
        PROPS[_m.CFG["id"]] = _m.CFG
