#!/usr/bin/env python3
"""Refreshes the generated tables of DESIGN.md section 12.3 (between the TABLES markers)."""
import os, re, subprocess
V = os.path.dirname(os.path.dirname(os.path.abspath(__file__)))
t = subprocess.run(["python3", os.path.join(V, "tools", "mktables.py")], stdout=subprocess.PIPE).stdout.decode()
p = os.path.join(V, "DESIGN.md")
s = open(p).read()
s = re.sub(r"<!-- TABLES-BEGIN -->.*?<!-- TABLES-END -->", lambda m: "<!-- TABLES-BEGIN -->\n" + t + "\n<!-- TABLES-END -->", s, flags=re.S)
open(p, "w").write(s)
