#!/usr/bin/env python3
"""tools/seedpromote.py <cand name> <prop> <outcome> <detail...>: moves seeded/cand/<name> to seeded/<name> and records
what was run (confirmation in a scratch worktree, the check run against the patched tree) in its meta.json."""
import json, os, shutil, sys, subprocess
V = os.path.dirname(os.path.dirname(os.path.abspath(__file__)))
name, prop, outcome = sys.argv[1:4]
detail = " ".join(sys.argv[4:])
src = os.path.join(V, "seeded", "cand", name)
dst = os.path.join(V, "seeded", name)
if os.path.isdir(src):
    if os.path.isdir(dst):
        shutil.rmtree(dst)
    shutil.move(src, dst)
mp = os.path.join(dst, "meta.json")
m = json.load(open(mp)) if os.path.exists(mp) else {}
head = subprocess.run(["git", "-C", "/repo", "rev-parse", "--short", "HEAD"], stdout=subprocess.PIPE).stdout.decode().strip()
m.update({
    "property": prop,
    "origin": "independent sub-agent given only the property text and a scratch worktree of /repo",
    "confirmed": "tools/seedconfirm.sh seeded/%s (scratch worktree of /repo %s): patch applies, tree builds, baseline suite ok, demo fails with the patch and passes without it" % (name, head),
    "ran": "tools/seedtest.sh seeded/%s/patch.diff %s (scratch worktree + scratch copy of /verif, quick tier)" % (name, prop),
    "outcome": outcome, "detail": detail,
})
json.dump(m, open(mp, "w"), indent=1)
print(name, outcome)
