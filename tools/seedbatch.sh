#!/bin/bash
# tools/seedbatch.sh <cand dir root> <Cxx> ...: confirm + test every candidate <root>/<Cxx>-m* ; logs under /tmp/seedlogs
mkdir -p /tmp/seedlogs
root="$1"; shift
for p in "$@"; do
  for d in "$root"/$p-m*; do
    n=$(basename $d)
    { /verif/tools/seedconfirm.sh $d; /verif/tools/seedtest.sh $d/patch.diff $p; } > /tmp/seedlogs/$n.log 2>&1
    echo "$n: $(grep -o 'CONFIRMED\|NOT-CONFIRMED' /tmp/seedlogs/$n.log | head -1) exit=$(grep -o 'exit=[0-9]*' /tmp/seedlogs/$n.log | tail -1) $(grep -c '^VIOLATION' /tmp/seedlogs/$n.log) violation lines"
  done
done
