// atomics2v reads the CURRENT c2/state.go and writes coq/Gen/StateAtomics.v: for the three
// mutators of the state word (Set, Unset, SetLast) the sequence of sync/atomic calls they make,
// the value expressions of those calls in the expression language of Model/Interleave.v, and the
// control shape around them (LoadStore / CasLoop / AtomicRMW / Unknown); plus the state* bit
// constants.  The C13 lost-update theorem (Proofs/Interleave.v, Props/C13.v) is proved about these terms, so a
// change of the Go source changes what is proved (or breaks the proof) on the next run.
//
// It also translates the COMPOUND methods Tag, ChannelCanStop, ChannelCanStart and SetChannel(e)
// (e = true and e = false) into decision trees over their atomic calls, in source order, with the
// getters they call inlined (type prog of Model/Interleave.v: PRet / PTest mask / PCall set arg);
// the concurrent channel-protocol theorems are about those terms.
//
// The translator is deliberately narrow: whatever it does not recognise becomes `Unknown`, for
// which no theorem applies.  It exits non-zero only when the file cannot be read or parsed.
package main

import (
	"bytes"
	"flag"
	"fmt"
	"go/ast"
	"go/parser"
	"go/token"
	"os"
	"sort"
	"strconv"
	"strings"
)

// ---------------------------------------------------------------- symbolic values

type sym struct {
	coq   string // term of type expr
	width int    // 16, 32, or 0 for an untyped constant
	cur   bool   // mentions the loaded value
	isCur bool   // is exactly the loaded value
	konst *uint64
}

type fail struct{ why string }

func bail(f string, a ...interface{}) { panic(fail{fmt.Sprintf(f, a...)}) }

type fn struct {
	recv     string
	param    string
	pwidth   int
	consts   map[string]uint64
	env      map[string]sym
	ops      []string // Coq terms of type aop, in execution order
	loads    int
	stores   int
	rmws     int
	casLoop  bool
	atomicPk string // local name of the sync/atomic import
}

func widthOf(t ast.Expr) int {
	if id, ok := t.(*ast.Ident); ok {
		switch id.Name {
		case "uint32":
			return 32
		case "uint16":
			return 16
		}
	}
	return -1
}

func mask(w int) uint64 { return (uint64(1) << uint(w)) - 1 }

// isPtr reports whether e is (*uint32)(recv)
func (f *fn) isPtr(e ast.Expr) bool {
	c, ok := e.(*ast.CallExpr)
	if !ok || len(c.Args) != 1 {
		return false
	}
	p, ok := c.Fun.(*ast.ParenExpr)
	if !ok {
		return false
	}
	st, ok := p.X.(*ast.StarExpr)
	if !ok || widthOf(st.X) != 32 {
		return false
	}
	id, ok := c.Args[0].(*ast.Ident)
	return ok && id.Name == f.recv
}

// atomicCall returns the name of the sync/atomic function called by e ("" if none)
func (f *fn) atomicCall(e ast.Expr) (string, *ast.CallExpr) {
	c, ok := e.(*ast.CallExpr)
	if !ok {
		return "", nil
	}
	s, ok := c.Fun.(*ast.SelectorExpr)
	if !ok {
		return "", nil
	}
	id, ok := s.X.(*ast.Ident)
	if !ok || id.Name != f.atomicPk {
		return "", nil
	}
	return s.Sel.Name, c
}

func unify(a, b sym, op string) int {
	switch {
	case a.width == b.width:
		return a.width
	case a.width == 0:
		return b.width
	case b.width == 0:
		return a.width
	}
	bail("operands of %s have different widths (%d, %d)", op, a.width, b.width)
	return 0
}

func (f *fn) ev(e ast.Expr) sym {
	switch x := e.(type) {
	case *ast.ParenExpr:
		return f.ev(x.X)
	case *ast.BasicLit:
		if x.Kind != token.INT {
			bail("literal %s", x.Value)
		}
		v, err := strconv.ParseUint(x.Value, 0, 64)
		if err != nil {
			bail("literal %s", x.Value)
		}
		return sym{coq: fmt.Sprintf("(EConst %d)", v), konst: &v}
	case *ast.Ident:
		if x.Name == f.param {
			return sym{coq: "EArg", width: f.pwidth}
		}
		if s, ok := f.env[x.Name]; ok {
			return s
		}
		if v, ok := f.consts[x.Name]; ok {
			return sym{coq: fmt.Sprintf("(EConst %d)", v), width: 32, konst: &v}
		}
		bail("unknown identifier %s", x.Name)
	case *ast.UnaryExpr:
		if x.Op != token.XOR {
			bail("unary %s", x.Op)
		}
		a := f.ev(x.X)
		if a.width == 0 {
			bail("complement of an untyped constant")
		}
		return sym{coq: fmt.Sprintf("(EAndNot (EConst %d) %s)", mask(a.width), a.coq), width: a.width, cur: a.cur}
	case *ast.BinaryExpr:
		switch x.Op {
		case token.OR, token.AND, token.AND_NOT:
			a, b := f.ev(x.X), f.ev(x.Y)
			w := unify(a, b, x.Op.String())
			c := map[token.Token]string{token.OR: "EOr", token.AND: "EAnd", token.AND_NOT: "EAndNot"}[x.Op]
			return sym{coq: fmt.Sprintf("(%s %s %s)", c, a.coq, b.coq), width: w, cur: a.cur || b.cur}
		case token.SHL, token.SHR:
			a, k := f.ev(x.X), f.ev(x.Y)
			if k.konst == nil || *k.konst > 63 {
				bail("shift by a non-constant")
			}
			if a.width == 0 {
				bail("shift of an untyped constant")
			}
			if x.Op == token.SHR {
				return sym{coq: fmt.Sprintf("(EShr %s %d)", a.coq, *k.konst), width: a.width, cur: a.cur}
			}
			wrap := map[int]string{16: "EU16", 32: "EU32"}[a.width]
			return sym{coq: fmt.Sprintf("(%s (EShl %s %d))", wrap, a.coq, *k.konst), width: a.width, cur: a.cur}
		}
		bail("binary %s", x.Op)
	case *ast.CallExpr:
		if w := widthOf(x.Fun); w > 0 && len(x.Args) == 1 { // conversion uint16(..) / uint32(..)
			a := f.ev(x.Args[0])
			wrap := map[int]string{16: "EU16", 32: "EU32"}[w]
			return sym{coq: fmt.Sprintf("(%s %s)", wrap, a.coq), width: w, cur: a.cur}
		}
		if name, c := f.atomicCall(x); name == "LoadUint32" {
			if len(c.Args) != 1 || !f.isPtr(c.Args[0]) {
				bail("atomic load of something that is not the state word")
			}
			f.loads++
			if f.loads > 1 {
				bail("more than one atomic load per attempt")
			}
			f.ops = append(f.ops, "ALoad")
			return sym{coq: "ECur", width: 32, cur: true, isCur: true}
		}
		bail("call of %s inside a value expression", exprString(x.Fun))
	}
	bail("expression %T", e)
	return sym{}
}

func exprString(e ast.Expr) string {
	switch x := e.(type) {
	case *ast.Ident:
		return x.Name
	case *ast.SelectorExpr:
		return exprString(x.X) + "." + x.Sel.Name
	}
	return fmt.Sprintf("%T", e)
}

// value32 evaluates a call argument that must be a uint32 value
func (f *fn) value32(e ast.Expr) sym {
	s := f.ev(e)
	if s.width != 32 && s.width != 0 {
		bail("stored value is not a uint32")
	}
	return s
}

func (f *fn) assign(s *ast.AssignStmt) {
	if len(s.Lhs) != 1 || len(s.Rhs) != 1 || (s.Tok != token.DEFINE && s.Tok != token.ASSIGN) {
		bail("assignment form")
	}
	id, ok := s.Lhs[0].(*ast.Ident)
	if !ok || id.Name == f.recv || id.Name == f.param {
		bail("assignment target")
	}
	f.env[id.Name] = f.ev(s.Rhs[0])
}

// casOf: e is atomic.CompareAndSwapUint32((*uint32)(recv), <loaded value>, new)
func (f *fn) casOf(e ast.Expr) (sym, bool) {
	name, c := f.atomicCall(e)
	if name != "CompareAndSwapUint32" {
		return sym{}, false
	}
	if len(c.Args) != 3 || !f.isPtr(c.Args[0]) {
		bail("compare-and-swap of something that is not the state word")
	}
	old := f.ev(c.Args[1])
	if !old.isCur {
		bail("compare-and-swap does not compare with the loaded value")
	}
	return f.value32(c.Args[2]), true
}

func isExit(b *ast.BlockStmt, last bool) bool {
	if len(b.List) != 1 {
		return false
	}
	switch x := b.List[0].(type) {
	case *ast.ReturnStmt:
		return len(x.Results) == 0
	case *ast.BranchStmt:
		return x.Tok == token.BREAK && x.Label == nil && last
	}
	return false
}

// loop: for { [locals]; if cas(p, o, new) { return } }   (or `{ break }` when the loop is the last statement)
func (f *fn) loop(s *ast.ForStmt, last bool) {
	if s.Init != nil || s.Cond != nil || s.Post != nil {
		bail("for statement with a header")
	}
	if len(f.ops) != 0 {
		bail("atomic calls before the retry loop")
	}
	n := len(s.Body.List)
	if n < 1 {
		bail("empty loop")
	}
	for _, st := range s.Body.List[:n-1] {
		a, ok := st.(*ast.AssignStmt)
		if !ok {
			bail("statement %T inside the retry loop", st)
		}
		f.assign(a)
	}
	ifs, ok := s.Body.List[n-1].(*ast.IfStmt)
	if !ok || ifs.Init != nil || ifs.Else != nil || !isExit(ifs.Body, last) {
		bail("retry loop does not end in `if cas { return }`")
	}
	nv, ok := f.casOf(ifs.Cond)
	if !ok {
		bail("retry loop condition is not a compare-and-swap")
	}
	if f.loads != 1 {
		bail("retry loop without a load")
	}
	f.ops = append(f.ops, "ACas "+nv.coq)
	f.casLoop = true
}

func (f *fn) body(b *ast.BlockStmt) {
	for i, st := range b.List {
		last := i == len(b.List)-1 || (i == len(b.List)-2 && isBareReturn(b.List[i+1]))
		if f.casLoop {
			if isBareReturn(st) {
				continue
			}
			bail("statements after the retry loop")
		}
		switch x := st.(type) {
		case *ast.AssignStmt:
			f.assign(x)
		case *ast.ReturnStmt:
			if len(x.Results) != 0 || i != len(b.List)-1 {
				bail("return")
			}
		case *ast.ForStmt:
			f.loop(x, last)
		case *ast.ExprStmt:
			name, c := f.atomicCall(x.X)
			switch name {
			case "StoreUint32":
				if len(c.Args) != 2 || !f.isPtr(c.Args[0]) {
					bail("atomic store to something that is not the state word")
				}
				v := f.value32(c.Args[1])
				f.ops = append(f.ops, "AStore "+v.coq)
				f.stores++
			case "OrUint32", "AndUint32":
				if len(c.Args) != 2 || !f.isPtr(c.Args[0]) {
					bail("atomic %s on something that is not the state word", name)
				}
				v := f.value32(c.Args[1])
				if v.cur {
					bail("read-modify-write operand depends on an earlier load")
				}
				f.ops = append(f.ops, map[string]string{"OrUint32": "AOr ", "AndUint32": "AAnd "}[name]+v.coq)
				f.rmws++
			case "CompareAndSwapUint32":
				bail("compare-and-swap whose result is ignored (no retry)")
			default:
				bail("statement calls %s", exprString(callFun(x.X)))
			}
		default:
			bail("statement %T", st)
		}
	}
}

func callFun(e ast.Expr) ast.Expr {
	if c, ok := e.(*ast.CallExpr); ok {
		return c.Fun
	}
	return e
}

func isBareReturn(s ast.Stmt) bool {
	r, ok := s.(*ast.ReturnStmt)
	return ok && len(r.Results) == 0
}

type result struct {
	shape string
	ops   []string
	width int
	note  string
}

func translate(d *ast.FuncDecl, atomicPk string, consts map[string]uint64) (r result) {
	r = result{shape: "Unknown", width: 0}
	defer func() {
		if x := recover(); x != nil {
			if fl, ok := x.(fail); ok {
				r.shape, r.ops, r.note = "Unknown", nil, fl.why
				return
			}
			panic(x)
		}
	}()
	if d.Recv == nil || len(d.Recv.List) != 1 || len(d.Recv.List[0].Names) != 1 {
		bail("receiver")
	}
	if d.Type.Params == nil || len(d.Type.Params.List) != 1 || len(d.Type.Params.List[0].Names) != 1 {
		bail("expected exactly one parameter")
	}
	if d.Type.Results != nil && len(d.Type.Results.List) != 0 {
		bail("mutator returns a value")
	}
	p := d.Type.Params.List[0]
	w := widthOf(p.Type)
	if w < 0 {
		bail("parameter type")
	}
	r.width = w
	f := &fn{recv: d.Recv.List[0].Names[0].Name, param: p.Names[0].Name, pwidth: w, consts: consts,
		env: map[string]sym{}, atomicPk: atomicPk}
	if d.Body == nil {
		bail("no body")
	}
	f.body(d.Body)
	r.ops = f.ops
	switch {
	case f.casLoop && f.stores == 0 && f.rmws == 0:
		r.shape = "CasLoop"
	case !f.casLoop && f.rmws == 1 && f.stores == 0 && f.loads == 0:
		r.shape = "AtomicRMW"
	case !f.casLoop && f.rmws == 0 && f.stores >= 1:
		r.shape = "LoadStore"
	default:
		r.shape, r.note = "Unknown", "mixture of atomic calls"
	}
	return r
}

// ---------------------------------------------------------------- constants (1 << iota blocks)

func constEval(e ast.Expr, iota uint64, known map[string]uint64) (uint64, bool) {
	switch x := e.(type) {
	case *ast.ParenExpr:
		return constEval(x.X, iota, known)
	case *ast.BasicLit:
		if x.Kind == token.INT {
			v, err := strconv.ParseUint(x.Value, 0, 64)
			return v, err == nil
		}
	case *ast.Ident:
		if x.Name == "iota" {
			return iota, true
		}
		v, ok := known[x.Name]
		return v, ok
	case *ast.BinaryExpr:
		a, ok1 := constEval(x.X, iota, known)
		b, ok2 := constEval(x.Y, iota, known)
		if !ok1 || !ok2 {
			return 0, false
		}
		switch x.Op {
		case token.SHL:
			if b < 64 {
				return a << b, true
			}
		case token.OR:
			return a | b, true
		case token.ADD:
			return a + b, true
		}
	}
	return 0, false
}

func collectConsts(file *ast.File) (names []string, vals map[string]uint64) {
	vals = map[string]uint64{}
	for _, d := range file.Decls {
		g, ok := d.(*ast.GenDecl)
		if !ok || g.Tok != token.CONST {
			continue
		}
		var lastExpr ast.Expr
		for i, sp := range g.Specs {
			vs := sp.(*ast.ValueSpec)
			if len(vs.Names) != 1 {
				lastExpr = nil
				continue
			}
			if len(vs.Values) == 1 {
				lastExpr = vs.Values[0]
			} else if len(vs.Values) != 0 {
				lastExpr = nil
			}
			if lastExpr == nil {
				continue
			}
			if v, ok := constEval(lastExpr, uint64(i), vals); ok && v <= 0xFFFFFFFF {
				vals[vs.Names[0].Name] = v
				names = append(names, vs.Names[0].Name)
			}
		}
	}
	return
}

// ---------------------------------------------------------------- compound methods -> prog

type ctr struct {
	found    map[string]*ast.FuncDecl
	consts   map[string]uint64
	atomicPk string
	depth    int
}

type cenv struct {
	recv      string
	boolParam string
	boolVal   bool
}

func recvName(d *ast.FuncDecl) string {
	if d.Recv == nil || len(d.Recv.List) != 1 || len(d.Recv.List[0].Names) != 1 {
		bail("receiver of %s", d.Name.Name)
	}
	return d.Recv.List[0].Names[0].Name
}

// constMask evaluates a constant uint32 expression made of the state* constants, literals, | and <<
func (c *ctr) constMask(e ast.Expr) uint64 {
	v, ok := constEval(e, 0, c.consts)
	if !ok || v > 0xFFFFFFFF {
		bail("mask is not a constant")
	}
	return v
}

// isLoad reports whether e is atomic.LoadUint32((*uint32)(recv))
func (c *ctr) isLoad(e ast.Expr, ev cenv) bool {
	f := &fn{recv: ev.recv, atomicPk: c.atomicPk}
	name, call := f.atomicCall(e)
	return name == "LoadUint32" && len(call.Args) == 1 && f.isPtr(call.Args[0])
}

// maskTest recognises  load & mask  (either operand order)
func (c *ctr) maskTest(e ast.Expr, ev cenv) (uint64, bool) {
	for {
		p, ok := e.(*ast.ParenExpr)
		if !ok {
			break
		}
		e = p.X
	}
	b, ok := e.(*ast.BinaryExpr)
	if !ok || b.Op != token.AND {
		return 0, false
	}
	if c.isLoad(b.X, ev) {
		return c.constMask(b.Y), true
	}
	if c.isLoad(b.Y, ev) {
		return c.constMask(b.X), true
	}
	return 0, false
}

func isZero(e ast.Expr) bool {
	l, ok := e.(*ast.BasicLit)
	return ok && l.Kind == token.INT && (l.Value == "0" || l.Value == "0x0")
}

// cond translates a boolean expression with short-circuit evaluation; kt / kf build what follows
func (c *ctr) cond(e ast.Expr, ev cenv, kt, kf func() string) string {
	switch x := e.(type) {
	case *ast.ParenExpr:
		return c.cond(x.X, ev, kt, kf)
	case *ast.UnaryExpr:
		if x.Op == token.NOT {
			return c.cond(x.X, ev, kf, kt)
		}
		bail("unary %s in a condition", x.Op)
	case *ast.Ident:
		switch {
		case x.Name == "true":
			return kt()
		case x.Name == "false":
			return kf()
		case ev.boolParam != "" && x.Name == ev.boolParam:
			if ev.boolVal {
				return kt()
			}
			return kf()
		}
		bail("identifier %s in a condition", x.Name)
	case *ast.SelectorExpr:
		// bugtrack.Enabled: constant false outside the `bugs` build
		if id, ok := x.X.(*ast.Ident); ok && id.Name == "bugtrack" && x.Sel.Name == "Enabled" {
			return kf()
		}
		bail("selector %s in a condition", exprString(x))
	case *ast.BinaryExpr:
		switch x.Op {
		case token.LOR:
			return c.cond(x.X, ev, kt, func() string { return c.cond(x.Y, ev, kt, kf) })
		case token.LAND:
			return c.cond(x.X, ev, func() string { return c.cond(x.Y, ev, kt, kf) }, kf)
		case token.NEQ, token.EQL:
			var m uint64
			var ok bool
			if isZero(x.Y) {
				m, ok = c.maskTest(x.X, ev)
			} else if isZero(x.X) {
				m, ok = c.maskTest(x.Y, ev)
			}
			if !ok {
				bail("comparison that is not `load & mask != 0`")
			}
			if x.Op == token.NEQ {
				return fmt.Sprintf("(PTest %d %s %s)", m, kt(), kf())
			}
			return fmt.Sprintf("(PTest %d %s %s)", m, kf(), kt())
		}
		bail("binary %s in a condition", x.Op)
	case *ast.CallExpr:
		// recv.Getter(): inline its body
		sel, ok := x.Fun.(*ast.SelectorExpr)
		if !ok || len(x.Args) != 0 {
			bail("call of %s in a condition", exprString(x.Fun))
		}
		id, ok := sel.X.(*ast.Ident)
		if !ok || id.Name != ev.recv {
			bail("call of %s in a condition", exprString(x.Fun))
		}
		d, ok := c.found[sel.Sel.Name]
		if !ok || d.Body == nil {
			bail("unknown method %s", sel.Sel.Name)
		}
		if d.Type.Params != nil && len(d.Type.Params.List) != 0 {
			bail("getter %s takes parameters", sel.Sel.Name)
		}
		c.depth++
		if c.depth > 8 {
			bail("calls nested too deeply")
		}
		r := c.stmts(d.Body.List, cenv{recv: recvName(d)}, func(b bool) string {
			if b {
				return kt()
			}
			return kf()
		}, func() string { bail("getter %s does not return", sel.Sel.Name); return "" })
		c.depth--
		return r
	}
	bail("condition %T", e)
	return ""
}

// stmts translates a statement list; kret builds what follows `return <bool>`, kfall what follows the end of the list
func (c *ctr) stmts(list []ast.Stmt, ev cenv, kret func(bool) string, kfall func() string) string {
	if len(list) == 0 {
		return kfall()
	}
	rest := func() string { return c.stmts(list[1:], ev, kret, kfall) }
	switch x := list[0].(type) {
	case *ast.IfStmt:
		if x.Init != nil {
			bail("if with an init statement")
		}
		then := func() string { return c.stmts(x.Body.List, ev, kret, rest) }
		els := rest
		if x.Else != nil {
			switch e := x.Else.(type) {
			case *ast.BlockStmt:
				els = func() string { return c.stmts(e.List, ev, kret, rest) }
			case *ast.IfStmt:
				els = func() string { return c.stmts([]ast.Stmt{e}, ev, kret, rest) }
			default:
				bail("else %T", x.Else)
			}
		}
		return c.cond(x.Cond, ev, then, els)
	case *ast.ReturnStmt:
		if len(x.Results) != 1 {
			bail("return without exactly one value")
		}
		return c.cond(x.Results[0], ev, func() string { return kret(true) }, func() string { return kret(false) })
	case *ast.ExprStmt:
		call, ok := x.X.(*ast.CallExpr)
		if !ok {
			bail("statement %T", x.X)
		}
		sel, ok := call.Fun.(*ast.SelectorExpr)
		if !ok {
			bail("statement calls %s", exprString(call.Fun))
		}
		id, ok := sel.X.(*ast.Ident)
		if ok && id.Name == "bugtrack" { // bugtrack.Track(...): only reached under bugtrack.Enabled
			bail("bugtrack call outside `if bugtrack.Enabled`")
		}
		if !ok || id.Name != ev.recv || len(call.Args) != 1 || (sel.Sel.Name != "Set" && sel.Sel.Name != "Unset") {
			bail("statement calls %s", exprString(call.Fun))
		}
		return fmt.Sprintf("(PCall %t %d %s)", sel.Sel.Name == "Set", c.constMask(call.Args[0]), rest())
	}
	bail("statement %T", list[0])
	return ""
}

// compound translates one bool-returning method; param = "" or the name of its bool parameter fixed to val
func (c *ctr) compound(name string, val bool) (term, note string) {
	defer func() {
		if x := recover(); x != nil {
			if fl, ok := x.(fail); ok {
				term, note = "PUnknown", fl.why
				return
			}
			panic(x)
		}
	}()
	d, ok := c.found[name]
	if !ok || d.Body == nil {
		bail("method not found")
	}
	ev := cenv{recv: recvName(d)}
	if d.Type.Params != nil && len(d.Type.Params.List) > 0 {
		p := d.Type.Params.List
		if len(p) != 1 || len(p[0].Names) != 1 {
			bail("parameters")
		}
		if id, ok := p[0].Type.(*ast.Ident); !ok || id.Name != "bool" {
			bail("parameter type")
		}
		ev.boolParam, ev.boolVal = p[0].Names[0].Name, val
	}
	if d.Type.Results == nil || len(d.Type.Results.List) != 1 {
		bail("result")
	}
	c.depth = 0
	return c.stmts(d.Body.List, ev, func(b bool) string { return fmt.Sprintf("(PRet %t)", b) },
		func() string { bail("control reaches the end without a return"); return "" }), ""
}

// ---------------------------------------------------------------- call sites in the rest of c2

var stateWriters = map[string]bool{"Set": true, "Unset": true, "SetLast": true, "SetChannel": true, "Tag": true, "ChannelCanStop": true}

// stateCall recognises  <x>.state.<M>(args)  and returns M and the call
func stateCall(e ast.Expr) (string, *ast.CallExpr) {
	c, ok := e.(*ast.CallExpr)
	if !ok {
		return "", nil
	}
	m, ok := c.Fun.(*ast.SelectorExpr)
	if !ok {
		return "", nil
	}
	st, ok := m.X.(*ast.SelectorExpr)
	if !ok || st.Sel.Name != "state" {
		return "", nil
	}
	return m.Sel.Name, c
}

type site struct {
	where        string
	clears, sets uint64
}

// scanDir walks every non-test file of the package directory: methods with a VALUE receiver that
// write the state word of their receiver (the write lands in a copy), and for every statement list
// the flags it clears / sets directly through <x>.state.Unset / Set with constant arguments.
func scanDir(dir string, consts map[string]uint64) (valueRecv []string, sites, closeSites []site, err error) {
	fset := token.NewFileSet()
	pkgs, err := parser.ParseDir(fset, dir, func(fi os.FileInfo) bool {
		return !strings.HasSuffix(fi.Name(), "_test.go") && fi.Name() != "state.go" && !strings.HasPrefix(fi.Name(), "zz_verif_")
	}, 0)
	if err != nil {
		return nil, nil, nil, err
	}
	var names []string
	for n := range pkgs {
		names = append(names, n)
	}
	sort.Strings(names)
	for _, pn := range names {
		var files []string
		for fn := range pkgs[pn].Files {
			files = append(files, fn)
		}
		sort.Strings(files)
		for _, fn := range files {
			for _, d := range pkgs[pn].Files[fn].Decls {
				fd, ok := d.(*ast.FuncDecl)
				if !ok || fd.Body == nil {
					continue
				}
				recvName, recvType, ptr := "", "", false
				if fd.Recv != nil && len(fd.Recv.List) == 1 {
					t := fd.Recv.List[0].Type
					if st, ok := t.(*ast.StarExpr); ok {
						ptr, t = true, st.X
					}
					if id, ok := t.(*ast.Ident); ok {
						recvType = id.Name
					}
					if len(fd.Recv.List[0].Names) == 1 {
						recvName = fd.Recv.List[0].Names[0].Name
					}
				}
				fname := fd.Name.Name
				if recvType != "" {
					fname = recvType + "." + fname
				}
				// (i) value receiver writing its own state word
				if recvType != "" && !ptr && recvName != "" {
					ast.Inspect(fd.Body, func(n ast.Node) bool {
						if m, c := stateCall(asExpr(n)); c != nil && stateWriters[m] {
							if id, ok := c.Fun.(*ast.SelectorExpr).X.(*ast.SelectorExpr).X.(*ast.Ident); ok && id.Name == recvName {
								valueRecv = append(valueRecv, fmt.Sprintf("%s (%s:%d) calls state.%s on a copy", fname, filepathBase(fn), fset.Position(c.Pos()).Line, m))
							}
						}
						return true
					})
				}
				// (ii) flags cleared / set per statement list
				ast.Inspect(fd.Body, func(n ast.Node) bool {
					var list []ast.Stmt
					switch b := n.(type) {
					case *ast.BlockStmt:
						list = b.List
					case *ast.CaseClause:
						list = b.Body
					case *ast.CommClause:
						list = b.Body
					default:
						return true
					}
					st := site{}
					line := 0
					for _, x := range list {
						var exprs []ast.Expr
						switch y := x.(type) {
						case *ast.ExprStmt:
							exprs = append(exprs, y.X)
						case *ast.IfStmt:
							if es, ok := y.Init.(*ast.ExprStmt); ok {
								exprs = append(exprs, es.X)
							}
						case *ast.SwitchStmt:
							if es, ok := y.Init.(*ast.ExprStmt); ok {
								exprs = append(exprs, es.X)
							}
						}
						for _, e := range exprs {
							m, c := stateCall(e)
							if c == nil || (m != "Set" && m != "Unset") || len(c.Args) != 1 {
								continue
							}
							v, ok := constEval(c.Args[0], 0, consts)
							if !ok {
								continue
							}
							if line == 0 {
								line = fset.Position(c.Pos()).Line
							}
							if m == "Set" {
								st.sets |= v
							} else {
								st.clears |= v
							}
						}
					}
					if st.clears != 0 {
						st.where = fmt.Sprintf("%s %s:%d", fname, filepathBase(fn), line)
						sites = append(sites, st)
						if fname == "Session.close" {
							closeSites = append(closeSites, st)
						}
					}
					return true
				})
			}
		}
	}
	return
}

func asExpr(n ast.Node) ast.Expr {
	if e, ok := n.(ast.Expr); ok {
		return e
	}
	return nil
}

func filepathBase(p string) string {
	if i := strings.LastIndexByte(p, '/'); i >= 0 {
		return p[i+1:]
	}
	return p
}

// ---------------------------------------------------------------- main

func main() {
	in := flag.String("in", "/repo/c2/state.go", "state.go")
	outp := flag.String("out", "", "coq/Gen/StateAtomics.v")
	flag.Parse()
	fset := token.NewFileSet()
	file, err := parser.ParseFile(fset, *in, nil, 0)
	if err != nil {
		fmt.Fprintf(os.Stderr, "atomics2v: %s can no longer be parsed: %v\n", *in, err)
		os.Exit(1)
	}
	atomicPk := ""
	for _, im := range file.Imports {
		if im.Path.Value == `"sync/atomic"` {
			atomicPk = "atomic"
			if im.Name != nil {
				atomicPk = im.Name.Name
			}
		}
	}
	names, consts := collectConsts(file)
	want := []string{"Set", "Unset", "SetLast"}
	found := map[string]*ast.FuncDecl{}
	for _, d := range file.Decls {
		fd, ok := d.(*ast.FuncDecl)
		if !ok || fd.Recv == nil || len(fd.Recv.List) != 1 {
			continue
		}
		st, ok := fd.Recv.List[0].Type.(*ast.StarExpr)
		if !ok {
			continue
		}
		if id, ok := st.X.(*ast.Ident); !ok || id.Name != "state" {
			continue
		}
		found[fd.Name.Name] = fd
	}
	var b bytes.Buffer
	b.WriteString("(* GENERATED on every run by tools/atomics2v from c2/state.go of the tree under check -- do not edit.\n")
	b.WriteString("   The atomic shape of the three mutators of the state word, the compound methods, and the state bit constants. *)\n")
	b.WriteString("From XMT Require Import Base.Prelude Model.Interleave.\n\n")
	for _, n := range want {
		lower := strings.ToLower(n)
		fd, ok := found[n]
		r := result{shape: "Unknown", note: "method not found"}
		if ok {
			if atomicPk == "" {
				r.note = "sync/atomic is not imported"
			} else {
				r = translate(fd, atomicPk, consts)
			}
		}
		if r.note != "" {
			fmt.Fprintf(&b, "(* %s: not recognised: %s *)\n", n, strings.NewReplacer("(*", "( *", "*)", "* )").Replace(r.note))
		}
		fmt.Fprintf(&b, "Definition gen_%s : mutator := Mutator %s [%s].\n", lower, r.shape, strings.Join(r.ops, "; "))
		fmt.Fprintf(&b, "Definition gen_%s_argbits : Z := %d.\n\n", lower, r.width)
		fmt.Fprintf(os.Stderr, "atomics2v: %-7s %-9s [%s]%s\n", n, r.shape, strings.Join(r.ops, "; "), map[bool]string{true: "  (" + r.note + ")", false: ""}[r.note != ""])
	}
	// compound methods
	c := &ctr{found: found, consts: consts, atomicPk: atomicPk}
	b.WriteString("(* the compound methods as decision trees over their atomic calls (getters and e inlined) *)\n")
	emit := func(def, name string, val bool) string {
		t, note := "PUnknown", "sync/atomic is not imported"
		if atomicPk != "" {
			t, note = c.compound(name, val)
		}
		if note != "" {
			fmt.Fprintf(&b, "(* %s: not recognised: %s *)\n", def, strings.NewReplacer("(*", "( *", "*)", "* )").Replace(note))
		}
		fmt.Fprintf(os.Stderr, "atomics2v: %-22s %s%s\n", def, t, map[bool]string{true: "  (" + note + ")", false: ""}[note != ""])
		return t
	}
	fmt.Fprintf(&b, "Definition gen_tag : prog := %s.\n", emit("Tag", "Tag", false))
	fmt.Fprintf(&b, "Definition gen_channelcanstop : prog := %s.\n", emit("ChannelCanStop", "ChannelCanStop", false))
	fmt.Fprintf(&b, "Definition gen_channelcanstart : prog := %s.\n", emit("ChannelCanStart", "ChannelCanStart", false))
	on, off := emit("SetChannel(true)", "SetChannel", true), emit("SetChannel(false)", "SetChannel", false)
	fmt.Fprintf(&b, "Definition gen_setchannel (e : bool) : prog :=\n  if e then %s\n  else %s.\n\n", on, off)
	// the rest of the package: value receivers writing the word, flags cleared per statement list
	dir := *in
	if i := strings.LastIndexByte(dir, '/'); i >= 0 {
		dir = dir[:i]
	} else {
		dir = "."
	}
	vr, sites, closeSites, derr := scanDir(dir, consts)
	if derr != nil {
		fmt.Fprintf(os.Stderr, "atomics2v: %s can no longer be parsed: %v\n", dir, derr)
		os.Exit(1)
	}
	b.WriteString("(* methods outside state.go with a VALUE receiver that write the state word of their receiver (the write is lost) *)\n")
	for _, x := range vr {
		fmt.Fprintf(&b, "(* %s *)\n", strings.NewReplacer("(*", "( *", "*)", "* )").Replace(x))
		fmt.Fprintf(os.Stderr, "atomics2v: VALUE RECEIVER %s\n", x)
	}
	fmt.Fprintf(&b, "Definition gen_value_receiver_writers : Z := %d.\n\n", len(vr))
	wr := func(name string, l []site) {
		var items []string
		for _, x := range l {
			fmt.Fprintf(&b, "(* %s: clears %d sets %d *)\n", x.where, x.clears, x.sets)
			items = append(items, fmt.Sprintf("(%d, %d)", x.clears, x.sets))
		}
		fmt.Fprintf(&b, "Definition %s : list (Z * Z) := [%s].\n\n", name, strings.Join(items, "; "))
	}
	b.WriteString("(* every statement list outside state.go that clears flags through <x>.state.Unset: (flags cleared, flags set) *)\n")
	wr("gen_state_sites", sites)
	b.WriteString("(* the statement lists of Session.close among them *)\n")
	wr("gen_session_close_sites", closeSites)
	b.WriteString("(* constants of c2/state.go in declaration order *)\n")
	var vs []string
	for _, n := range names {
		if !strings.HasPrefix(n, "state") {
			continue
		}
		fmt.Fprintf(&b, "Definition gen_%s : Z := %d.\n", n, consts[n])
		vs = append(vs, fmt.Sprintf("gen_%s", n))
	}
	fmt.Fprintf(&b, "Definition gen_state_bits : list Z := [%s].\n", strings.Join(vs, "; "))
	if *outp == "" {
		os.Stdout.Write(b.Bytes())
		return
	}
	if old, err := os.ReadFile(*outp); err == nil && bytes.Equal(old, b.Bytes()) {
		return
	}
	tmp := fmt.Sprintf("%s.tmp%d", *outp, os.Getpid())
	if err := os.WriteFile(tmp, b.Bytes(), 0o644); err != nil {
		fmt.Fprintf(os.Stderr, "atomics2v: %v\n", err)
		os.Exit(1)
	}
	if err := os.Rename(tmp, *outp); err != nil {
		fmt.Fprintf(os.Stderr, "atomics2v: %v\n", err)
		os.Exit(1)
	}
}
