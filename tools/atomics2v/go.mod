module atomics2v

go 1.18
