#!/usr/bin/env python3
"""Orchestrator shared by every property check (see DESIGN.md section 2).

A check = (1) regenerate Gen/*.v from /repo, (2) full .vo build of the Coq development and of
this property's theorem file, (3) audit (forbidden tokens, Print Assumptions), (4) build the Go
harness against /repo's working tree with the verif overlay, (5) run it: implementation outputs
+ Go-side oracle -> cases_*.v, (6) evaluate the Gallina model on the same cases inside Coq
(vm_compute) and list disagreements, (7) decide, write evidence.
"""
import fcntl, glob, hashlib, json, os, re, shutil, subprocess, sys, time

VERIF = os.path.dirname(os.path.dirname(os.path.abspath(__file__)))
REPO = os.environ.get("VERIF_REPO", "/repo")
COQ = os.path.join(VERIF, "coq")
BUILD = os.path.join(VERIF, "build")
HARNESS = os.path.join(VERIF, "harness")
GOENV = dict(os.environ, GOFLAGS="-mod=mod", GOPROXY="off", GOSUMDB="off", GOTOOLCHAIN="local",
             CGO_ENABLED="0", GOCACHE=os.environ.get("GOCACHE", "/root/.cache/go-build"))

FORBIDDEN = re.compile(r"\b(Admitted|admit|Axiom|Axioms|Parameter|Parameters|Conjecture|Conjectures|Abort All|"
                       r"Unset Guard Checking|Unset Positivity Checking|Unset Universe Checking|bypass_check|"
                       r"type-in-type|impredicative-set|Admit Obligations)\b")

# stdlib axioms a theorem may depend on if (and only if) the property's entry names them
STD_AXIOMS = {"functional_extensionality_dep", "proof_irrelevance", "classic", "JMeq_eq", "eq_rect_eq",
              "propositional_extensionality", "constructive_definite_description"}

KERNEL_TB = [
    "Coq 8.16.1 kernel incl. its vm_compute reduction machine (no native_compute); coqc full .vo build (no -vos/-vok)",
    "hand-written Gallina model of the anchored Go functions (coq/Model/*.v), tied to /repo only by the per-run differential run",
    "Go harness + in-package shims added through `go build -overlay` (tag verif); tools/vlib.py orchestrator",
    "Go toolchain 1.23.5, recover()-based panic capture",
]


def log(*a):
    print(*a, file=sys.stderr, flush=True)


def sh(cmd, cwd=None, timeout=600, env=None):
    try:
        p = subprocess.run(cmd, cwd=cwd, shell=isinstance(cmd, str), stdout=subprocess.PIPE, stderr=subprocess.STDOUT,
                           timeout=timeout, env=env)
        return p.returncode, p.stdout.decode("utf-8", "replace")
    except subprocess.TimeoutExpired as e:
        return 124, (e.stdout or b"").decode("utf-8", "replace") + "\nTIMEOUT"


class Lock:
    def __init__(self, name):
        os.makedirs(BUILD, exist_ok=True)
        self.path = os.path.join(BUILD, name)

    def __enter__(self):
        self.f = open(self.path, "w")
        fcntl.flock(self.f, fcntl.LOCK_EX)

    def __exit__(self, *a):
        fcntl.flock(self.f, fcntl.LOCK_UN)
        self.f.close()


def write_if_changed(path, content):
    try:
        if open(path).read() == content:
            return False
    except FileNotFoundError:
        pass
    os.makedirs(os.path.dirname(path), exist_ok=True)
    tmp = path + ".tmp%d" % os.getpid()
    open(tmp, "w").write(content)
    os.replace(tmp, path)
    return True


# ------------------------------------------------------------------ Coq build

def coq_files():
    fs = []
    for d in ("Base", "Gen", "Model", "Proofs", "Props", "Tie"):
        fs += sorted(glob.glob(os.path.join(COQ, d, "*.v")))
    return [os.path.relpath(f, COQ) for f in fs]


def coq_project():
    body = "-Q . XMT\n-arg -w -arg -notation-overridden,-deprecated-hint-without-locality,-deprecated-instance-without-locality,-deprecated-syntactic-definition\n" \
           + "\n".join(coq_files()) + "\n"
    changed = write_if_changed(os.path.join(COQ, "_CoqProject"), body)
    if changed or not os.path.exists(os.path.join(COQ, "Makefile")):
        rc, out = sh("coq_makefile -f _CoqProject -o Makefile", cwd=COQ)
        if rc != 0:
            raise RuntimeError("coq_makefile failed: " + out)


def run_generators():
    """Regenerate coq/Gen/*.v from /repo (translated pieces, DESIGN 3.2)."""
    gen = os.path.join(VERIF, "tools", "gen_all.sh")
    if os.path.exists(gen):
        rc, out = sh(["bash", gen], cwd=VERIF, timeout=300, env=GOENV)
        if rc != 0:
            return False, out
    return True, ""


def coq_build(targets, timeout=1500):
    """Full .vo build (make -k so that an unrelated broken file does not mask this property);
    returns (ok, log) for the given targets."""
    with Lock(".coq.lock"):
        ok, out = run_generators()
        if not ok:
            return False, "generator failed:\n" + out
        coq_project()
        if not targets:       # setup: everything, continuing past a broken file
            rc, out = sh("timeout %d make -k -j16 2>&1" % timeout, cwd=COQ, timeout=timeout + 30)
            return rc == 0, out
        # a check builds only what its property file depends on, so that a broken proof of
        # another property cannot mask (or delay) this one
        rc, out = sh("timeout %d make -j%s %s 2>&1" % (timeout, os.environ.get("VERIF_JOBS", "16") or "16", " ".join(targets)), cwd=COQ, timeout=timeout + 30)
        return rc == 0, out


def audit_sources():
    """Forbidden tokens anywhere in the development (comments included: keep them out of comments too)."""
    hits = []
    for f in coq_files():
        for i, line in enumerate(open(os.path.join(COQ, f), errors="replace"), 1):
            if FORBIDDEN.search(line):
                hits.append("%s:%d: %s" % (f, i, line.strip()[:120]))
    return hits


def theorem_report(props_file, allowed_axioms=()):
    """Compile the property file on its own and pair each Theorem with its Print Assumptions output."""
    src = open(os.path.join(COQ, props_file)).read()
    thms = re.findall(r"^Theorem\s+([A-Za-z0-9_']+)", src, re.M)
    printed = re.findall(r"^Print Assumptions\s+([A-Za-z0-9_']+)\.", src, re.M)
    rc, out = sh("timeout 900 coqc -Q . XMT %s 2>&1" % props_file, cwd=COQ, timeout=930)
    rep = {"file": props_file, "theorems": thms, "compile_ok": rc == 0, "axioms": {}, "closed": [], "problems": []}
    if rc != 0:
        rep["problems"].append("coqc failed: " + out[-1500:])
        return rep
    # split output into one block per Print Assumptions, in order
    blocks = re.split(r"(?=Closed under the global context|Axioms:)", out)
    blocks = [b for b in blocks if b.startswith("Closed under") or b.startswith("Axioms:")]
    if len(blocks) != len(printed):
        rep["problems"].append("Print Assumptions blocks %d != commands %d" % (len(blocks), len(printed)))
    for name, b in zip(printed, blocks):
        if b.startswith("Closed under"):
            rep["closed"].append(name)
        else:
            ax = re.findall(r"^([A-Za-z0-9_.']+)\s*:", b, re.M)
            rep["axioms"][name] = ax
            bad = [a for a in ax if a.split(".")[-1] not in allowed_axioms]
            if bad:
                rep["problems"].append("%s depends on axioms not named in its trusted base: %s" % (name, bad))
    for t in thms:
        if t not in printed:
            rep["problems"].append("theorem %s has no Print Assumptions" % t)
    return rep


# ------------------------------------------------------------------ harness

def overlay_target(shim):
    """harness/overlay/<pkg path with / written __>--<tag>.go  is ADDED to /repo/<pkg path>/zz_verif_<tag>.go
    (a path that never exists in /repo), e.g. c2__cfg--c08.go -> /repo/c2/cfg/zz_verif_c08.go."""
    base = shim[:-3]
    pkg, tag = base.split("--", 1)
    return os.path.join(REPO, pkg.replace("__", "/"), "zz_verif_%s.go" % tag)


def build_harness(name, shims, tags="verif", extra_replace=None, timeout=600):
    """go build the harness ./<name> against /repo's working tree.  shims: overlay files to add."""
    odir = os.path.join(BUILD, name)
    os.makedirs(os.path.join(BUILD, "bin"), exist_ok=True)
    os.makedirs(odir, exist_ok=True)
    rep = {}
    for s in shims:
        rep[overlay_target(s)] = os.path.join(HARNESS, "overlay", s)
    for k, v in (extra_replace or {}).items():
        rep[k] = v
    ov = os.path.join(odir, "overlay.json")
    json.dump({"Replace": rep}, open(ov, "w"))
    shutil.copy(os.path.join(REPO, "go.sum"), os.path.join(HARNESS, "go.sum"))
    binp = os.path.join(BUILD, "bin", name)
    cmd = ["go", "build", "-tags", tags, "-overlay", ov, "-ldflags=-checklinkname=0", "-o", binp]
    if os.path.realpath(REPO) != "/repo":
        # a tree other than /repo (scratch copy with a seeded change): same module file with the replace redirected
        mf = os.path.join(odir, "go.mod")
        open(mf, "w").write(open(os.path.join(HARNESS, "go.mod")).read().replace("=> /repo", "=> " + os.path.realpath(REPO)))
        shutil.copy(os.path.join(REPO, "go.sum"), os.path.join(odir, "go.sum"))
        cmd += ["-modfile", mf]
    cmd += ["./" + name]
    rc, out = sh(cmd, cwd=HARNESS, timeout=timeout, env=GOENV)
    return rc == 0, out, binp


def run_cases(casedir, jobs=None, timeout=1200):
    """Evaluate every cases_*.v with coqc (vm_compute inside); returns {shard: [bad indices]} and errors."""
    shards = sorted(glob.glob(os.path.join(casedir, "cases_*.v")))
    if not shards:
        return {}, []
    jobs = jobs or int(os.environ.get("VERIF_JOBS", "16") or "16")
    procs, res, errs = [], {}, []
    pending = list(shards)
    running = []
    t0 = time.time()
    while pending or running:
        while pending and len(running) < jobs:
            s = pending.pop(0)
            p = subprocess.Popen(["coqc", "-Q", COQ, "XMT", "-w", "-all", os.path.basename(s)], cwd=casedir,
                                 stdout=subprocess.PIPE, stderr=subprocess.STDOUT)
            running.append((s, p))
        for s, p in list(running):
            if p.poll() is not None:
                out = p.stdout.read().decode("utf-8", "replace")
                running.remove((s, p))
                flat = " ".join(out.split())
                m = re.search(r"bad = \[(.*?)\]\s*: list Z", flat)
                if p.returncode != 0 or not m:
                    errs.append("%s: coqc rc=%s: %s" % (os.path.basename(s), p.returncode, out[-800:]))
                else:
                    body = m.group(1).strip()
                    res[os.path.basename(s)] = [int(x.strip().strip("()")) for x in body.split(";")] if body else []
        if time.time() - t0 > timeout:
            for s, p in running:
                p.kill()
                errs.append("%s: timeout" % os.path.basename(s))
            break
        time.sleep(0.05)
    for f in glob.glob(os.path.join(casedir, "cases_*.vo")) + glob.glob(os.path.join(casedir, "cases_*.glob")) + \
            glob.glob(os.path.join(casedir, ".cases_*.aux")) + glob.glob(os.path.join(casedir, "cases_*.vok")) + \
            glob.glob(os.path.join(casedir, "cases_*.vos")):
        try:
            os.remove(f)
        except OSError:
            pass
    return res, errs


# ------------------------------------------------------------------ findings

def load_findings():
    """known_findings.d/Cxx.json files: {"findings": [{"property","key","what"}], "fixed": ["fixed: property=... <commit> ..."]}"""
    out = {"findings": [], "fixed": []}
    for p in sorted(glob.glob(os.path.join(VERIF, "known_findings.d", "*.json"))):
        d = json.load(open(p))
        out["findings"] += d.get("findings", [])
        out["fixed"] += d.get("fixed", [])
    return out


def finding_for(prop, key, findings):
    for f in findings["findings"]:
        if f["property"] == prop and f["key"] == key:
            return f
    return None


# ------------------------------------------------------------------ the generic check

def write_replay(prop, tag, obj):
    d = os.path.join(VERIF, "replays")
    os.makedirs(d, exist_ok=True)
    blob = json.dumps(obj, indent=1, sort_keys=True, default=str)
    h = hashlib.sha1(blob.encode()).hexdigest()[:10]
    p = os.path.join(d, "%s-%s-%s.json" % (prop, re.sub(r"[^A-Za-z0-9_.-]", "_", tag)[:40], h))
    open(p, "w").write(blob)
    return p


def generic_check(cfg, argv):
    """cfg keys: id, props (Props/Cxx.v), coq_targets (extra .vo), harness, shims, tags, allowed_axioms,
    trusted_base (list), assumptions (list), level ('proof'), partial (str|None), harness_timeout,
    extra_replace (callable -> dict), extra_args (list)"""
    t0 = time.time()
    prop = cfg["id"]
    tier = os.environ.get("VERIF_TIER", "quick")
    replay = None
    args = list(argv)
    while args:
        a = args.pop(0)
        if a == "--tier":
            tier = args.pop(0)
        elif a == "--replay":
            replay = args.pop(0)
    seed = int(os.environ.get("VERIF_SEED", "1") or "1")
    violations = []      # (tag, replay_obj, no_failing_input)
    known_lines = []
    notes = []
    machinery = []

    # 1-2: Coq
    props_vo = cfg["props"][:-2] + ".vo"
    tie = "Tie/%s.v" % prop          # optional: equates the model's literals with Gen/Consts.v (regenerated from /repo)
    tie_targets = [tie[:-2] + ".vo"] if os.path.exists(os.path.join(COQ, tie)) else []
    ok, out = coq_build([props_vo] + tie_targets + cfg.get("coq_targets", []))
    hits = audit_sources()
    rep = {"theorems": [], "closed": [], "axioms": {}, "problems": [], "compile_ok": False}
    proof_broken = None
    if not ok:
        m = re.findall(r'File "\./([^"]+)", line (\d+)', out)
        proof_broken = {"what": "the Coq development for %s no longer builds" % prop, "where": m[-1] if m else None,
                        "log_tail": out[-2500:]}
        # still count theorems for the evidence
        src = open(os.path.join(COQ, cfg["props"])).read()
        rep["theorems"] = re.findall(r"^Theorem\s+([A-Za-z0-9_']+)", src, re.M)
    else:
        rep = theorem_report(cfg["props"], cfg.get("allowed_axioms", ()))
    if hits:
        machinery.append("forbidden tokens in the development: " + "; ".join(hits[:5]))
    if rep["problems"]:
        machinery.append("; ".join(rep["problems"]))

    # 3-5: harness
    casedir = os.path.join(BUILD, prop.lower() + "_run")
    shutil.rmtree(casedir, ignore_errors=True)
    os.makedirs(casedir)
    meta = {"evaluations": 0, "distinct_nontrivial": 0, "rule": "", "samples": [], "distribution": {},
            "oracle_failures": [], "shards": [], "notes": [], "extra": {}}
    harness_broken = None
    extra_rep, derive_err = None, None
    if cfg.get("extra_replace"):
        # derived overlay copies (clock / random-draw injection): a call pattern that is no longer in the
        # source means the tie cannot be established on this tree - that is a broken correspondence
        # (VIOLATION ... no-failing-input-found), not a machinery error
        import io, contextlib
        buf = io.StringIO()
        try:
            with contextlib.redirect_stderr(buf):
                extra_rep = cfg["extra_replace"]()
        except SystemExit:
            derive_err = buf.getvalue() or "the derived overlay copy could not be produced"
        except Exception as e:            # noqa
            derive_err = "%s: %s" % (type(e).__name__, e)
    if derive_err:
        hok, hout, binp = False, derive_err, None
    else:
        hok, hout, binp = build_harness(cfg["harness"], cfg.get("shims", []), cfg.get("tags", "verif"), extra_rep)
    if not hok and derive_err:
        harness_broken = {"what": "the injection overlay can no longer be derived from the source under check (a call the harness redirects - "
                                  "time.Now(), util.FastRandN(...), a timer - was rewritten): the model can no longer be tied to this code",
                          "log_tail": derive_err[-2500:]}
    elif not hok:
        harness_broken = {"what": "the harness no longer builds against /repo (a shim names something that changed)",
                          "log_tail": hout[-2500:]}
    else:
        cmd = [binp, "-seed", str(seed), "-tier", tier, "-out", casedir] + cfg.get("extra_args", [])
        if replay:
            cmd += ["-replay", replay]
        rc, rout = sh(cmd, cwd=casedir, timeout=cfg.get("harness_timeout", 900 if tier == "quick" else 7200), env=GOENV)
        if rc != 0 or not os.path.exists(os.path.join(casedir, "meta.json")):
            harness_broken = {"what": "the harness run failed (exit %s)" % rc, "log_tail": rout[-3000:]}
        else:
            meta = json.load(open(os.path.join(casedir, "meta.json")))

    # 6: model side
    bad, errs = ({}, [])
    mismatches = []
    if not harness_broken:
        bad, errs = run_cases(casedir, timeout=1200 if tier == "quick" else 5400)
        if errs:
            machinery.append("model evaluation failed: " + " | ".join(errs)[:1500])
        nb = sum(len(v) for v in bad.values())
        if nb:
            want = {(s, k) for s, ks in bad.items() for k in ks}
            for line in open(os.path.join(casedir, "cases.jsonl")):
                r = json.loads(line)
                if (r["shard"], r["k"]) in want:
                    mismatches.append(r)
                    if len(mismatches) >= 25:
                        break

    # 7: decide
    findings = load_findings()
    unlisted = []
    seen_known = set()
    for f in (meta.get("oracle_failures") or []):
        kf = finding_for(prop, f.get("key", ""), findings)
        if kf:
            if kf["key"] not in seen_known:
                seen_known.add(kf["key"])
                known_lines.append("KNOWN-FINDING: property=%s %s" % (prop, kf["what"]))
        else:
            unlisted.append(f)
    by_key = {}
    for f in unlisted:
        by_key.setdefault(f.get("key", "?"), f)
    for k, f in list(by_key.items())[:5]:
        violations.append((k, {"property": prop, "kind": "oracle failure on the implementation", "what": f["what"],
                               "input": f["case"], "seed": seed, "tier": tier,
                               "rerun": "VERIF_SEED=%d ./check %s --tier %s" % (seed, prop, tier)}, False))
    if mismatches and not unlisted:
        violations.append(("correspondence", {
            "property": prop, "kind": "model/implementation disagreement", "no_failing_input_found": True,
            "what": "the implementation's output differs from the Gallina model (%s, function `%s`) on %d generated case(s); "
                    "the Go-side oracle holds on all of them, so no input violating the property itself was found" %
                    (cfg["props"], cfg.get("check_fn", "check"), sum(len(v) for v in bad.values())),
            "correspondence": "harness/%s vs coq/Model (cases_*.v, `bad_cases check cases`)" % cfg["harness"],
            "first_cases": mismatches[:5], "seed": seed, "tier": tier}, True))
    elif mismatches:
        notes.append("%d model/implementation disagreements (first: %s)" % (sum(len(v) for v in bad.values()),
                                                                           json.dumps(mismatches[0].get("desc"))[:300]))
    if proof_broken and not unlisted:
        violations.append(("proof", dict(proof_broken, property=prop, no_failing_input_found=True,
                                         theorems=rep["theorems"]), True))
    if harness_broken and not proof_broken:
        violations.append(("harness", dict(harness_broken, property=prop, no_failing_input_found=True), True))

    for line in known_lines:
        print(line)
    vcount = 0
    for tag, obj, nofail in violations:
        p = write_replay(prop, tag, obj)
        vcount += 1
        print("VIOLATION property=%s replay=%s%s" % (prop, p, " no-failing-input-found" if nofail else ""))

    n_thm = len(rep["theorems"])
    discharged = 0 if proof_broken else len([t for t in rep["theorems"] if t in rep["closed"] or
                                             (t in rep["axioms"] and all(a.split(".")[-1] in cfg.get("allowed_axioms", ())
                                                                         for a in rep["axioms"][t]))])
    cov = {
        "obligations": n_thm, "discharged": discharged,
        "checker_cmd": "cd coq && coq_makefile -f _CoqProject -o Makefile && make -j16 && coqc -Q . XMT %s" % cfg["props"],
        "trusted_base": KERNEL_TB + cfg.get("trusted_base", []),
        "theorems": rep["theorems"], "axioms_reported": rep["axioms"] or "none: every theorem is `Closed under the global context`",
        "evaluations": meta.get("evaluations", 0), "distinct_nontrivial": meta.get("distinct_nontrivial", 0),
        "rule": meta.get("rule", ""), "samples": meta.get("samples", [])[:12],
        "traces_validated_against_impl": meta.get("evaluations", 0),
        "model_impl_disagreements": sum(len(v) for v in bad.values()),
        "oracle_failures": len(meta.get("oracle_failures") or []),
        "known_findings_seen": sorted(seen_known),
        "input_distribution": meta.get("distribution", {}),
        "model_shards": len(meta.get("shards") or []),
        "notes": notes + meta.get("notes", []) + machinery,
        "extra": meta.get("extra", {}),
    }
    if cfg.get("partial"):
        cov["partial"] = cfg["partial"]
    ev = {"property_id": prop, "tier": tier, "seed": seed, "level": cfg.get("level", "proof"), "coverage": cov,
          "assumptions": cfg.get("assumptions", []), "wall_s": round(time.time() - t0, 2), "violations": vcount}
    if tier == "thorough" and cfg.get("coqchk", True) and not proof_broken:
        ev["coverage"]["coqchk"] = run_coqchk(cfg["props"])
        ev["wall_s"] = round(time.time() - t0, 2)
    os.makedirs(os.path.join(VERIF, "evidence"), exist_ok=True)
    json.dump(ev, open(os.path.join(VERIF, "evidence", prop + ".json"), "w"), indent=1, default=str)
    log("[%s] tier=%s seed=%d theorems=%d/%d cases=%d distinct_nontrivial=%d mismatches=%d oracle_failures=%d known=%d wall=%.1fs" % (
        prop, tier, seed, discharged, n_thm, cov["evaluations"], cov["distinct_nontrivial"], cov["model_impl_disagreements"],
        cov["oracle_failures"], len(seen_known), time.time() - t0))
    if vcount:
        return 1
    if machinery:
        for m in machinery:
            log("MACHINERY: " + m)
        return 2
    return 0


def run_coqchk(props_file):
    mod = "XMT." + props_file[:-2].replace("/", ".")
    with Lock(".coq.lock"):
        rc, out = sh("timeout 3000 coqchk -silent -o -Q . XMT %s 2>&1" % mod, cwd=COQ, timeout=3100)
    tail = out[-3000:]
    return {"cmd": "coqchk -silent -o -Q . XMT " + mod, "rc": rc, "output_tail": tail}
