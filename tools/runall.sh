#!/bin/bash
# tools/runall.sh [tier] [props...]: every check in sequence; one summary line each.
cd "$(dirname "$0")/.."
tier="${1:-quick}"; shift
props="$*"; [ -z "$props" ] && props="$(python3 -c "import sys; sys.path.insert(0,'tools'); import props; print(' '.join(sorted(props.PROPS)))")"
for p in $props; do
  s=$(date +%s)
  out=$(timeout 3600 ./check "$p" --tier "$tier" 2>&1); rc=$?
  e=$(( $(date +%s) - s ))
  echo "$p exit=$rc wall=${e}s $(echo "$out" | grep -c '^VIOLATION') violations, $(echo "$out" | grep -c '^KNOWN-FINDING') known | $(echo "$out" | grep '^\[' | tail -1)"
  echo "$out" | grep '^VIOLATION\|MACHINERY' | head -5
done
