#!/bin/bash
# tools/gen_all.sh -- regenerates coq/Gen/*.v from the tree under check (DESIGN.md 3.2).
# Run by tools/vlib.py (under the Coq build lock) before every Coq build.
# Rules for every generator listed here: rewrite the output ONLY when its content changes (so
# that make does not rebuild dependants needlessly), and return non-zero with a message on
# stderr/stdout when the source it translates can no longer be read or parsed.
# To add a generator: define a function below and add one `run <name>` line at the end.
set -u
VERIF="$(cd "$(dirname "${BASH_SOURCE[0]}")/.." && pwd)"
REPO="${VERIF_REPO:-/repo}"
export GOFLAGS=-mod=mod GOPROXY=off GOSUMDB=off GOTOOLCHAIN=local CGO_ENABLED=0
mkdir -p "$VERIF/build/bin" "$VERIF/coq/Gen"
rc=0
run() { "$@" || { echo "gen_all.sh: generator '$1' failed" >&2; rc=1; }; }

# C13: atomic shape of state.Set/Unset/SetLast and the state* bits -> coq/Gen/StateAtomics.v
gen_state_atomics() {
  local src="$VERIF/tools/atomics2v" bin="$VERIF/build/bin/atomics2v"
  if [ ! -x "$bin" ] || [ "$src/main.go" -nt "$bin" ]; then
    (cd "$src" && timeout 120 go build -o "$bin.tmp$$" . && mv -f "$bin.tmp$$" "$bin") || {
      echo "atomics2v: the translator itself does not build" >&2; return 1; }
  fi
  timeout 60 "$bin" -in "$REPO/c2/state.go" -out "$VERIF/coq/Gen/StateAtomics.v"
}

# all properties: every integer constant of the packages the models depend on -> coq/Gen/Consts.v
# (coq/Gen/ConstsTie.v equates the literals used in the models with these definitions)
gen_consts() {
  local src="$VERIF/tools/consts2v" bin="$VERIF/build/bin/consts2v"
  if [ ! -x "$bin" ] || [ "$src/main.go" -nt "$bin" ]; then
    (cd "$src" && timeout 120 go build -o "$bin.tmp$$" . && mv -f "$bin.tmp$$" "$bin") || {
      echo "consts2v: the translator itself does not build" >&2; return 1; }
  fi
  timeout 60 "$bin" -repo "$REPO" -out "$VERIF/coq/Gen/Consts.v"
}

run gen_state_atomics
run gen_consts

exit $rc
