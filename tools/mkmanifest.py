#!/usr/bin/env python3
"""Regenerates /verif/MANIFEST.json from tools/props.py (single source of truth)."""
import json, os, sys
sys.path.insert(0, os.path.dirname(os.path.abspath(__file__)))
import props

VERIF = os.path.dirname(os.path.dirname(os.path.abspath(__file__)))
ALL = [json.loads(l)["id"] for l in open(os.path.join(VERIF, "properties.jsonl"))]

READY = set(open(os.path.join(VERIF, "tools", "ready.txt")).read().split())   # properties whose check is finished and passes
checks = []
for pid in ALL:
    c = props.PROPS.get(pid)
    if not c or pid not in READY:
        continue
    checks.append({
        "property_id": pid,
        "quick_cmd": "./check %s --tier quick" % pid,
        "thorough_cmd": "./check %s --tier thorough" % pid,
        "evidence_file": "/verif/evidence/%s.json" % pid,
        "replay_cmd_template": "./check %s --replay {path}" % pid,
        "engine": "rocq-proof+correspondence",
        "level_claimed": {"category": c.get("level", "proof"), "text": c["level_text"], "design_ref": "DESIGN.md section 5, " + pid},
        "level_note": c["level_note"],
        "technique": c.get("technique", "machine-checked proof in Rocq (Coq 8.16.1) over a hand-written Gallina model + per-run differential correspondence with the Go implementation"),
    })
na = [{"property_id": pid, "reason": props.NOT_APPLICABLE.get(pid, "check not built yet in this revision; planned as described in DESIGN.md section 5")}
      for pid in ALL if pid not in props.PROPS or pid not in READY]
m = {
    "version": 1,
    "setup_cmd": "./setup.sh",
    "hooks": {
        "guard": "verif",
        "enable": "go build -tags verif -overlay build/<harness>/overlay.json -ldflags=-checklinkname=0 (in-package shim files are ADDED through the overlay; nothing guarded is committed to /repo)",
        "baseline_off_cmd": "cd /repo && GOFLAGS=-mod=mod GOPROXY=off GOSUMDB=off go test -json -vet=off -count=1 -timeout 25m ./...",
        "source_commits": [],
        "add_only": True,
    },
    "engines": [{
        "name": "rocq-proof+correspondence", "path": "/verif/coq, /verif/harness, /verif/tools/vlib.py",
        "serves_properties": [c["property_id"] for c in checks],
        "kind_free_text": "Gallina models (coq/Model), lemmas (coq/Proofs), property theorems closed by `exact` with Print Assumptions (coq/Props); "
                          "per-run differential correspondence: the Go harness runs /repo's working tree and writes cases_*.v that Coq evaluates with vm_compute against the same model",
    }],
    "checks": checks,
    "not_applicable": na,
    "notes": "Exit codes: 0 = held, 1 = VIOLATION line printed, 2 = machinery error. known_findings.d/Cxx.json list recorded defects and fixed: entries (never written at run time). DESIGN.md section 12 describes the framework as built; notes/Cxx.md is the per-property report.",
}
json.dump(m, open(os.path.join(VERIF, "MANIFEST.json"), "w"), indent=1)
print("MANIFEST.json: %d checks, %d not claimed" % (len(checks), len(na)))
