module consts2v

go 1.18
