// consts2v reads the CURRENT tree under check and writes coq/Gen/Consts.v: every package-level
// integer constant of the packages the models depend on, evaluated by go/types (so iota, shifts,
// typed conversions and references to other constants of the same package are resolved exactly
// as the compiler resolves them), once per build-tag set that changes them.
//
// Imports are satisfied by empty stand-in packages (plus a stand-in `time` holding the Duration
// unit constants) and type errors are ignored: a constant whose
// value depends on another package is simply not emitted (none of the ones we tie does), and a
// constant that disappears from the source disappears from Consts.v, which breaks
// coq/Gen/ConstsTie.v (the file that equates the model's literals with these definitions).
package main

import (
	"flag"
	"fmt"
	"go/ast"
	"go/build"
	"go/constant"
	"go/parser"
	"go/token"
	"go/types"
	"os"
	"path/filepath"
	"sort"
	"strings"
)

type fakeImporter struct {
	pkgs map[string]*types.Package
}

func (f *fakeImporter) Import(path string) (*types.Package, error) {
	if p, ok := f.pkgs[path]; ok {
		return p, nil
	}
	if path == "time" { // the Duration unit constants are the only stdlib constants XMT's constants are built from
		p := types.NewPackage("time", "time")
		d := types.NewNamed(types.NewTypeName(token.NoPos, p, "Duration", nil), types.Typ[types.Int64], nil)
		p.Scope().Insert(d.Obj())
		v := int64(1)
		for _, u := range []struct {
			n string
			m int64
		}{{"Nanosecond", 1}, {"Microsecond", 1000}, {"Millisecond", 1000}, {"Second", 1000}, {"Minute", 60}, {"Hour", 60}} {
			v *= u.m
			p.Scope().Insert(types.NewConst(token.NoPos, p, u.n, d, constant.MakeInt64(v)))
		}
		p.MarkComplete()
		f.pkgs[path] = p
		return p, nil
	}
	name := path[strings.LastIndex(path, "/")+1:]
	p := types.NewPackage(path, name)
	p.MarkComplete()
	f.pkgs[path] = p
	return p, nil
}

type unit struct {
	dir    string // relative to the repo root
	prefix string // Coq name prefix
	tags   []string
}

func main() {
	repo := flag.String("repo", "/repo", "tree under check")
	out := flag.String("out", "", "output .v file")
	flag.Parse()
	units := []unit{
		{"com", "com", nil},
		{"com/limits", "limits", nil},
		{"com/limits", "limits_tiny", []string{"tiny"}},
		{"data", "data", nil},
		{"data/crypto", "crypto", nil},
		{"device", "device", nil},
		{"c2", "c2", nil},
		{"c2/cfg", "cfg", nil},
		{"c2/task", "task", nil},
		{"c2/task/result", "result", nil},
		{"c2/transform", "transform", nil},
		{"c2/wrapper", "wrapper", nil},
		{"cmd/filter", "filter", nil},
		{"man", "man", nil},
		{"device/winapi", "winapi", nil},
		{"device/regedit", "regedit", nil},
	}
	var b strings.Builder
	b.WriteString("(* GENERATED on every run by tools/consts2v (go/parser + go/types) from the tree under check -- do not edit.\n")
	b.WriteString("   Every package-level integer constant of the listed packages; name = <unit>_<Go name>. *)\n")
	b.WriteString("From Coq Require Import ZArith.\nLocal Open Scope Z_scope.\n\n")
	fset := token.NewFileSet()
	total := 0
	for _, u := range units {
		ctx := build.Default
		ctx.GOOS, ctx.GOARCH = "linux", "amd64"
		ctx.BuildTags = u.tags
		ctx.CgoEnabled = false
		dir := filepath.Join(*repo, u.dir)
		ents, err := os.ReadDir(dir)
		if err != nil {
			fmt.Fprintf(os.Stderr, "consts2v: %v\n", err)
			os.Exit(1)
		}
		var files []*ast.File
		for _, e := range ents {
			n := e.Name()
			if e.IsDir() || !strings.HasSuffix(n, ".go") || strings.HasSuffix(n, "_test.go") || strings.HasPrefix(n, "zz_verif_") {
				continue
			}
			if ok, _ := ctx.MatchFile(dir, n); !ok {
				continue
			}
			f, err := parser.ParseFile(fset, filepath.Join(dir, n), nil, 0)
			if err != nil {
				fmt.Fprintf(os.Stderr, "consts2v: %v\n", err)
				os.Exit(1)
			}
			files = append(files, f)
		}
		if len(files) == 0 {
			fmt.Fprintf(os.Stderr, "consts2v: no Go files selected in %s (tags %v)\n", dir, u.tags)
			os.Exit(1)
		}
		conf := types.Config{
			Importer:                 &fakeImporter{pkgs: map[string]*types.Package{}},
			Error:                    func(error) {},
			DisableUnusedImportCheck: true,
			FakeImportC:              true,
		}
		pkg, _ := conf.Check(u.dir, fset, files, nil)
		if pkg == nil {
			fmt.Fprintf(os.Stderr, "consts2v: cannot type-check %s\n", dir)
			os.Exit(1)
		}
		sc := pkg.Scope()
		names := sc.Names()
		sort.Strings(names)
		fmt.Fprintf(&b, "(* %s  tags=%v *)\n", u.dir, u.tags)
		n := 0
		for _, name := range names {
			c, ok := sc.Lookup(name).(*types.Const)
			if !ok || name == "_" {
				continue
			}
			v := c.Val()
			if v.Kind() != constant.Int {
				if v.Kind() == constant.Float { // e.g. untyped 1e3: emit only if integral
					if iv := constant.ToInt(v); iv.Kind() == constant.Int {
						v = iv
					} else {
						continue
					}
				} else {
					continue
				}
			}
			s := v.ExactString()
			if strings.HasPrefix(s, "-") {
				s = "(" + s + ")"
			}
			fmt.Fprintf(&b, "Definition %s_%s : Z := %s.\n", u.prefix, name, s)
			n++
		}
		if n == 0 {
			fmt.Fprintf(&b, "(* no integer constants *)\n")
		}
		b.WriteString("\n")
		total += n
	}
	if total < 100 {
		fmt.Fprintf(os.Stderr, "consts2v: only %d constants found - the tree no longer looks like XMT\n", total)
		os.Exit(1)
	}
	txt := b.String()
	if old, err := os.ReadFile(*out); err == nil && string(old) == txt {
		return
	}
	if err := os.WriteFile(*out+".tmp", []byte(txt), 0o644); err != nil {
		fmt.Fprintln(os.Stderr, err)
		os.Exit(1)
	}
	os.Rename(*out+".tmp", *out)
}
