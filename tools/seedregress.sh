#!/bin/bash
# tools/seedregress.sh [lanes]: re-runs EVERY seeded change under seeded/C??-m* against the check that is
# recorded as catching it (its own property's, or the neighbour named in "detected-by-Cyy"), each in a
# scratch worktree of /repo + scratch copy of /verif (tools/seedtest.sh), and writes one line per change
# to seeded/REGRESSION.txt: <name> <check> <exit> <first VIOLATION key | NOT-CAUGHT | does-not-apply>.
cd "$(dirname "$0")/.."
lanes="${1:-6}"
mkdir -p /tmp/seedregress
one() {
  d="$1"; n=$(basename "$d")
  chk=$(python3 -c "
import json,re,sys
m=json.load(open('$d/meta.json')); o=m.get('outcome','')
r=re.match(r'detected-by-(C\d\d)',o)
print(r.group(1) if r else m.get('property','${n%%-*}'))")
  log=/tmp/seedregress/$n.log
  VERIF_JOBS=3 tools/seedtest.sh "$d/patch.diff" "$chk" > "$log" 2>&1
  if grep -q "patch does not apply" "$log"; then echo "$n $chk - does-not-apply"; return; fi
  rc=$(grep -o 'exit=[0-9]*' "$log" | tail -1 | cut -d= -f2)
  key=$(grep -m1 '^VIOLATION' "$log" | sed -e 's#.*replays/##' -e 's#\.json##')
  [ -z "$key" ] && key="NOT-CAUGHT"
  echo "$n $chk $rc $key"
}
export -f one
# deterministic shuffle (a run that is cut short is a random sample); names already in all.txt are skipped
touch /tmp/seedregress/all.txt
ls -d seeded/C??-m* | sort -V | shuf --random-source=<(yes 42) | while read d; do
  grep -q "^$(basename "$d") " /tmp/seedregress/all.txt || echo "$d"; done |
  xargs -P "$lanes" -I{} bash -c 'one {}' | tee -a /tmp/seedregress/all.txt
sort -V /tmp/seedregress/all.txt > seeded/REGRESSION.txt
echo "total $(wc -l < seeded/REGRESSION.txt), not caught $(grep -c 'NOT-CAUGHT' seeded/REGRESSION.txt), do not apply $(grep -c 'does-not-apply' seeded/REGRESSION.txt)"
