(* Props/C04.v -- property theorems for C04 (placeholder while the pipeline is brought up). *)
From XMT Require Import Base.Prelude Model.Codec Model.Decoders.
