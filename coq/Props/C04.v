(* Props/C04.v -- property theorems for C04: no bytes from the network can crash a listener or
   make it allocate out of proportion to the bytes received; the same for the server-side
   decoders of client-supplied result payloads.
   Only statements; every proof is `exact <lemma>`; Print Assumptions under each.

   `run d bs` is the model of decoder d of the CURRENT tree on the byte string bs (the same
   definition the correspondence run evaluates on every generated case); its result is an
   outcome (Ok digest | Err code | Panic: a Go run-time panic, produced by every index and slice
   expression of the modelled code through idx/slice) and `alloc`, the bytes requested from
   make/append before the input justifies them.  All statements are for ALL byte strings. *)
From XMT Require Import Base.Prelude Model.Codec Model.Decoders Proofs.Decoders.
From Coq Require String.
Import String.StringSyntax.

(* ---- no decoder panics -------------------------------------------------------------- *)
(* DNS transform, string lists and byte strings over a Chunk and over the stream reader, the
   packet reader (wire and stream form), the seventeen result decoders, Machine / Network /
   proxy data / readDeviceInfo *)
Theorem C04_no_panic :
  forall d bs, bytes_ok bs = true -> outcome (run d bs) <> Panic.
Proof. exact run_no_panic. Qed.
Print Assumptions C04_no_panic.

(* ---- allocation is linear in the input, with explicit constants ------------------------
   K: dns 1, string list 112 (the amortised cost of append per entry), result decoders 112,
   machine/network/devinfo 1, everything else 0;  C: packets 4*65535 (the tag slice), network
   16320, proxy data 14280, devinfo 30600, everything else 0.
   chunk_backed excludes the two stream-reader decoders (known finding stream-bytes-alloc). *)
Theorem C04_alloc_linear :
  forall d bs, bytes_ok bs = true -> chunk_backed d = true ->
  alloc (run d bs) <= K_of d * len bs + C_of d.
Proof. exact run_alloc_linear. Qed.
Print Assumptions C04_alloc_linear.

(* the rule the harness applies to the implementation on every case: 128*|input| + 1 MiB *)
Theorem C04_alloc_proportional :
  forall d bs, bytes_ok bs = true -> chunk_backed d = true ->
  alloc (run d bs) <= 128 * len bs + 1048576.
Proof. exact run_alloc_proportional. Qed.
Print Assumptions C04_alloc_proportional.

(* ---- the DNS transform in detail (fix d9f26ba) ----------------------------------------- *)
Theorem C04_dns_no_panic :
  forall bs, bytes_ok bs = true -> outcome (dns_read true bs) <> Panic.
Proof. exact dns_read_no_panic. Qed.
Print Assumptions C04_dns_no_panic.

(* the bytes handed to the writer never exceed the bytes received *)
Theorem C04_dns_output_le_input :
  forall bs, bytes_ok bs = true -> alloc (dns_read true bs) <= len bs.
Proof. exact dns_read_alloc_linear. Qed.
Print Assumptions C04_dns_output_le_input.

(* the pinned tree panicked: before b[12], in the label walk, at the answer length, at the
   record length and at the data slice *)
Theorem C04_dns_pinned_refuted :
  outcome (dns_read false [0]) = Panic /\
  outcome (dns_read false [0;0;0;0;0;1;0;0;0;0;0;0;1;97]) = Panic /\
  outcome (dns_read false [0;0;0;0;0;0;0;1;0;0;0;0; 0;0;0;0;0;0;0;0;0;0]) = Panic /\
  outcome (dns_read false [0;0;0;0;0;0;0;0;0;0;0;1; 192;12;0;10;0;1;0]) = Panic /\
  outcome (dns_read false [0;0;0;0;0;0;0;0;0;0;0;1; 192;12;0;10;0;1;0;0;0;0;0;9;1]) = Panic.
Proof.
  exact (conj dns_pinned_refuted_header (conj dns_pinned_refuted_label (conj dns_pinned_refuted_answer
         dns_pinned_refuted_record))).
Qed.
Print Assumptions C04_dns_pinned_refuted.

(* ---- string lists (fix 05faa5c) and counted result decoders (fix bd34833) ---------------- *)
Theorem C04_string_list :
  forall bs, outcome (strlist_flat true bs) <> Panic /\ alloc (strlist_flat true bs) <= 112 * len bs.
Proof. exact strlist_flat_spec. Qed.
Print Assumptions C04_string_list.

Theorem C04_string_list_pinned_refuted :
  outcome (run_pinned DStrListC [7;64;0;0;0;0;0;0;0]) = Panic /\
  alloc (run_pinned DStrListC [5;0;32;0;0]) = 33554432.
Proof. exact strlist_pinned_refuted. Qed.
Print Assumptions C04_string_list_pinned_refuted.

Theorem C04_result_decoders :
  forall d bs, outcome (result_dec true d bs) <> Panic /\ alloc (result_dec true d bs) <= 112 * len bs.
Proof. exact result_dec_spec. Qed.
Print Assumptions C04_result_decoders.

(* the count is compared with the bytes that remain BEFORE make(): whatever the element type *)
Theorem C04_counted_list :
  forall c esz fs r, 0 <= esz ->
  outcome (counted true c esz fs r) <> Panic /\ alloc (counted true c esz fs r) <= esz * len r.
Proof. exact counted_spec. Qed.
Print Assumptions C04_counted_list.

Theorem C04_result_pinned_refuted :
  alloc (run_pinned (DResult RLs) [255;255;255;255]) = 68719476720 /\
  alloc (run_pinned (DResult RWindowList) [0;16;0;0]) = 50331648 /\
  alloc (run_pinned (DResult RUserLogins) [255;255]) = 6815640 /\
  outcome (run_pinned (DResult RMounts) [7;64;0;0;0;0;0;0;0]) = Panic.
Proof. exact result_pinned_refuted. Qed.
Print Assumptions C04_result_pinned_refuted.

(* ---- packets and registration data --------------------------------------------------------- *)
Theorem C04_packet_readers :
  forall bs, bytes_ok bs = true ->
  (outcome (packet_wire bs) <> Panic /\ alloc (packet_wire bs) <= 4 * 65535) /\
  (outcome (packet_stream bs) <> Panic /\ alloc (packet_stream bs) <= 4 * 65535).
Proof. intros bs H. exact (conj (packet_wire_spec bs H) (packet_stream_spec bs H)). Qed.
Print Assumptions C04_packet_readers.

Theorem C04_registration_data :
  forall t bs, bytes_ok bs = true ->
  outcome (devinfo t bs) <> Panic /\ alloc (devinfo t bs) <= len bs + 30600.
Proof. exact devinfo_spec. Qed.
Print Assumptions C04_registration_data.

(* ---- base64 transform: the contract of encoding/base64 is a hypothesis --------------------- *)
(* dec = what base64.StdEncoding.Decode answers for p (observed by the harness on every case) *)
Theorem C04_b64_shift :
  forall shift dec p,
  dec <> Panic -> (forall d, dec = Ok d -> len d <= len p / 4 * 3) ->
  outcome (b64_read shift dec p) <> Panic /\ alloc (b64_read shift dec p) <= len p.
Proof. exact b64_read_spec. Qed.
Print Assumptions C04_b64_shift.

(* ---- receive(): Multi container walk over bytes, nested containers, fragment dispatch -------
   the input is the stream form of a Packet; receive(s, l, &p) on the Session of device `self`.
   K = 2 (a tag count of up to 65535 is paid for by at most 32768 tags read), C = two unpaid tag
   slices (the top packet's, and the one sub-packet on which the walk fails).
   `clob`: sub-packets are windows into the container's buffer and a completing fragment group is
   appended in place, so the not yet decoded rest of a container can change under the walk; the
   statements hold for EVERY such change that keeps bytes bytes and the length (clob_ok).  The
   correspondence run evaluates the instance no_clob (receive_bytes = receive_bytes_c no_clob). *)
Theorem C04_receive_containers :
  forall clob, clob_ok clob -> forall self bs, bytes_ok bs = true ->
  outcome (receive_bytes_c clob self bs) <> Panic /\ alloc (receive_bytes_c clob self bs) <= 2 * len bs + 2 * (4 * 65535).
Proof. exact receive_bytes_spec. Qed.
Print Assumptions C04_receive_containers.

(* ---- ALL sequences of Packets handed to receive() on one Session ----------------------------
   any flags, fragment positions (also >= the length), lengths (0, 1, 65535 ...), group ids, empty or
   not, duplicates, any order, interleaved groups: Session.frags is carried from Packet to Packet
   (cluster.add counts empty parts, cluster.done indexes data[0] only behind its length check);
   no step panics and the model's fuel is never exhausted.  st_wf [] holds (st_wf_nil). *)
Theorem C04_fragment_sequences_no_panic :
  forall clob, clob_ok clob -> forall self ps, Forall (fun p => bytes_ok (p_body p) = true) ps ->
  outcome (recv_packets clob self [] ps) <> Panic /\ outcome (recv_packets clob self [] ps) <> Err EFuel.
Proof.
  intros clob Hc self ps H.
  exact (conj (recv_packets_no_panic clob Hc self ps [] st_wf_nil H) (recv_packets_fuel clob Hc self ps [] st_wf_nil H)).
Qed.
Print Assumptions C04_fragment_sequences_no_panic.

(* the same with the Packets given as bytes (stream forms one behind the other) *)
Theorem C04_receive_sequence :
  forall clob, clob_ok clob -> forall self bs, bytes_ok bs = true ->
  outcome (receive_seq_c clob self bs) <> Panic /\ alloc (receive_seq_c clob self bs) <= 2 * len bs + 4 * 65535 /\
  outcome (receive_seq_c clob self bs) <> Err EFuel.
Proof.
  intros clob Hc self bs H.
  exact (conj (proj1 (receive_seq_spec clob Hc self bs H)) (conj (proj2 (receive_seq_spec clob Hc self bs H)) (receive_seq_fuel clob Hc self bs H))).
Qed.
Print Assumptions C04_receive_sequence.

(* Listener.talk and Listener.talkSub build the server-side Session with the same state as far as
   receive() and the fragment dispatch are concerned (an empty Session.frags), so everything proved
   for a directly registered device holds for one registered through a peer's container *)
Theorem C04_session_constructors_agree :
  session_of_talkSub = session_of_talk /\
  forall clob self bs, receive_seqf_c clob self bs = receive_seq_c clob self bs.
Proof. exact (conj (proj1 session_constructors_agree) receive_seqf_is_receive_seq). Qed.
Print Assumptions C04_session_constructors_agree.

(* what the length check at the top of cluster.done is there for: without it (cl_done_g false) the
   cluster left behind by two EMPTY parts of a group of two reaches data[0] of an empty slice *)
Theorem C04_frag_done_guard_needed :
  let e0 := Build_packet 192 7 (2 * 281474976710656 + 0 * 4294967296 + 8 * 65536 + 1) 0 [] [] [65] in
  let e1 := Build_packet 192 7 (2 * 281474976710656 + 1 * 4294967296 + 8 * 65536 + 1) 0 [] [] [65] in
  exists c1 c2, cl_add (Build_clus 0 0 []) e0 = Ok c1 /\ cl_add c1 e1 = Ok c2 /\
                cl_done_g true c2 = Ok None /\ cl_done_g false c2 = Panic.
Proof. exact frag_done_guard_needed. Qed.
Print Assumptions C04_frag_done_guard_needed.

(* ---- termination: the fuel of the model loops is never exhausted ----------------------------
   (decodePacket's label walk and decodePackets advance, list loops consume a byte per entry,
   every sub-packet of a container takes at least 46 bytes of its parent's body) *)
Theorem C04_loops_terminate :
  forall self bs, bytes_ok bs = true ->
  outcome (dns_read true bs) <> Err EFuel /\
  outcome (strlist_flat true bs) <> Err EFuel /\
  outcome (receive_bytes self bs) <> Err EFuel.
Proof. intros self bs H. exact (conj (dns_read_fuel bs H) (conj (strlist_flat_fuel bs) (receive_bytes_fuel no_clob no_clob_ok self bs H))). Qed.
Print Assumptions C04_loops_terminate.

Theorem C04_counted_list_terminates :
  forall c esz fs r, fs <> [] -> outcome (counted true c esz fs r) <> Err EFuel.
Proof. exact counted_fuel. Qed.
Print Assumptions C04_counted_list_terminates.

(* ---- the JSON view an operator gets of a Session --------------------------------------------
   session_json f is the text Session.JSON writes, as a function of the leaves f (what
   ID.String, util.Uitoa, escape.JSON, Time.Format ... returned; the correspondence run compares it
   byte for byte with the real output and evaluates sess_okb on the real leaves).  json_wf t: t is
   exactly one JSON value (objects, arrays, strings, integers, booleans; byte-level grammar
   jvalk of Proofs/Decoders.v). *)
Theorem C04_json_wellformed :
  forall f, sess_okb f = true -> json_wf (session_json f).
Proof. exact session_json_wf. Qed.
Print Assumptions C04_json_wellformed.

(* whatever strings the client supplied (user, hostname, version, interface names, proxy names
   and addresses, and the address it connected from): they only enter through escape.JSON, whose
   contract (it returns a JSON string literal) is the hypothesis *)
Theorem C04_json_wellformed_any_client_strings :
  forall (escape : list Z -> list Z), (forall s, is_jstr (escape s) = true) ->
  forall f user host ver via names proxies, sess_okb f = true ->
  json_wf (session_json (with_client_strings escape f user host ver via names proxies)).
Proof. exact session_json_wf_any_strings. Qed.
Print Assumptions C04_json_wellformed_any_client_strings.

(* ---- the known finding stream-bytes-alloc: the stream reader -------------------------------
   FULL statement (false on the tree):
     forall bs, bytes_ok bs = true -> alloc (run DBytesS bs) <= 128 * len bs + 1048576
   refuted by the five bytes 05 02 00 00 00 (32 MiB); what does hold: it never panics (part of
   C04_no_panic, after fix 05faa5c also for the string list) and never asks for more than MaxSlice. *)
Theorem C04_stream_bytes_alloc_refuted :
  exists bs, bytes_ok bs = true /\ alloc (run DBytesS bs) > 128 * len bs + 1048576.
Proof. exact stream_alloc_refuted_thr. Qed.
Print Assumptions C04_stream_bytes_alloc_refuted.

Theorem C04_stream_bytes_alloc_partial :
  forall bs, alloc (run DBytesS bs) <= MaxSlice.
Proof. exact stream_bytes_alloc_partial. Qed.
Print Assumptions C04_stream_bytes_alloc_partial.

(* ---- non-vacuity: the hypotheses are satisfiable and the decoders really decode ------------ *)
(* a DNS answer carrying "hi!" decodes to it; a two-element listing decodes; both allocate *)
Example C04_nonvacuous :
  bytes_ok [18;52;132;128;0;1;0;0;0;0;0;1; 1;97;0;0;1;0;1; 192;12;0;10;0;1;0;0;0;0;0;3;104;105;33] = true /\
  run DDns [18;52;132;128;0;1;0;0;0;0;0;1; 1;97;0;0;1;0;1; 192;12;0;10;0;1;0;0;0;0;0;3;104;105;33]
    = (Ok [104;105;33], 3) /\
  run (DResult RFuncRemapList) [0;0;0;2; 0;0;0;1; 0;0;0;0;0;0;0;2; 0;0;0;0;0;0;0;3;
                                         0;0;0;4; 0;0;0;0;0;0;0;5; 0;0;0;0;0;0;0;6]
    = (Ok [2; 0], 48) /\
  outcome (run (DResult RFuncRemapList) [0;0;0;200; 1;2;3]) = Err ErrUnexpectedEOF /\
  (* the first of three fragments of group 5 opens a cluster in Session.frags *)
  outcome (receive_bytes
    [65;66;67;68;69;70;71;72;73;74;75;76;77;78;79;80;81;82;83;84;85;86;87;88;89;90;91;92;93;94;95;96]
    [192;0;1;0;0;0;3;0;0;0;5;0;1;65;66;67;68;69;70;71;72;73;74;75;76;77;78;79;80;81;82;83;84;85;86;87;
     88;89;90;91;92;93;94;95;96;1;4;1;8;15;22]) = Ok [1] /\
  (* leaves that keep their contract exist (one interface with two addresses, work hours, a proxy) *)
  sess_okb (Build_sess (lit "4142") (lit "7") false (lit "41424344") (lit """a\""b""") (lit """h""") (lit """v""") (lit "x64")
     (lit """Linux""") true (lit "") false (lit "4242") (lit "1")
     [Build_netdev (lit """eth0""") (lit "00:aa") [lit "10.0.0.1"; lit "::1"]]
     (lit "2026-10-01T00:00:00Z") (lit "2026-10-01T00:00:01Z") (lit """tcp""") (lit "30000000000") (lit "10") (lit "")
     (Some (Build_workh (lit "9") (lit "0") (lit "17") (lit "30") (lit "SMTWRFS"))) (Some (lit """verif""")) None
     [(lit """p""", lit """127.0.0.1:80""")]) = true.
Proof. repeat split; vm_compute; reflexivity. Qed.
