(* Props/C13.v -- property theorems for C13 (the session state word, c2/state.go).
   Only statements; every proof is `exact <lemma>`; Print Assumptions under each.

   Sequential part: Model/State.v (the methods of `state`, tied to the code by the exhaustive
   run of harness/c13).  Concurrent part: Model/Interleave.v (threads of atomic steps sharing one
   word, schedules = arbitrary lists of thread ids) instantiated with the atomic shape that
   tools/atomics2v TRANSLATED from the c2/state.go of the tree under check (Gen/StateAtomics.v;
   gen_call c = the thread executing the call c of Set / Unset / SetLast). *)
From Coq Require Import Permutation.
From XMT Require Import Base.Prelude Model.State Model.Interleave Gen.StateAtomics Proofs.State Proofs.Interleave.

(* ---- the two halves are independent (sequentially, every word, every argument) ---------- *)
Theorem C13_set_keeps_group :
  forall w v, half_ok v -> st_last (st_set w v) = st_last w.
Proof. exact set_keeps_group. Qed.
Print Assumptions C13_set_keeps_group.

Theorem C13_unset_keeps_group :
  forall w v, half_ok v -> st_last (st_unset w v) = st_last w.
Proof. exact unset_keeps_group. Qed.
Print Assumptions C13_unset_keeps_group.

Theorem C13_setlast_keeps_flags :
  forall w g, st_flags (st_setlast w g) = st_flags w.
Proof. exact setlast_keeps_flags. Qed.
Print Assumptions C13_setlast_keeps_flags.

Theorem C13_setlast_sets :
  forall w g, half_ok g -> st_last (st_setlast w g) = g.
Proof. exact setlast_sets. Qed.
Print Assumptions C13_setlast_sets.

(* Set / Unset of a single flag change that bit and no other bit of the word (either half) *)
Theorem C13_set_bit_exact :
  forall w n i, 0 <= n -> Z.testbit (st_set w (2 ^ n)) i = Z.testbit w i || (i =? n).
Proof. exact set_bit_spec. Qed.
Print Assumptions C13_set_bit_exact.

Theorem C13_unset_bit_exact :
  forall w n i, 0 <= n -> Z.testbit (st_unset w (2 ^ n)) i = Z.testbit w i && negb (i =? n).
Proof. exact unset_bit_spec. Qed.
Print Assumptions C13_unset_bit_exact.

(* the flag half of Set / Unset with ANY argument is the bitwise or / and-not of the flag halves *)
Theorem C13_set_flags :
  forall w v, st_flags (st_set w v) = Z.lor (st_flags w) (st_flags v).
Proof. exact set_flags. Qed.
Print Assumptions C13_set_flags.

Theorem C13_unset_flags :
  forall w v, st_flags (st_unset w v) = Z.ldiff (st_flags w) (st_flags v).
Proof. exact unset_flags. Qed.
Print Assumptions C13_unset_flags.

(* ---- the truth table: every predicate, every one of the 2^32 words ---------------------- *)
(* table_ok w: each of the 21 bool-valued methods, as the code computes it (mask, compare, early
   exits), equals its specification in terms of the bits of w; see Model/State.v.  Proved by
   computation over all 2^16 flag states and lifted to every word by the independence lemmas. *)
Theorem C13_truth_table :
  forall w, table_ok w = true.
Proof. exact truth_table. Qed.
Print Assumptions C13_truth_table.

(* closed dominates: a closed session is never ready, never receivable, always closing (and shut
   down, with all three queues closed), cannot start a channel, and ChannelCanStop answers true
   without writing *)
Theorem C13_closed_dominates :
  forall w, st_closed w = true ->
    st_ready w = false /\ st_can_recv w = false /\ st_closing w = true /\ st_shutdown w = true /\
    st_send_closed w = true /\ st_recv_closed w = true /\ st_wake_closed w = true /\
    st_channel_can_start w = false /\ st_channel_can_stop w = (true, w).
Proof. exact closed_dominates. Qed.
Print Assumptions C13_closed_dominates.

(* ---- the channel request protocol --------------------------------------------------------- *)
(* SetChannel(e) answers whether the request differs from the standing one (request_differs: on
   while no request stands; off while a request stands OR while a proxy-induced channel runs --
   the one case where the request differs from the running MODE rather than from the request bit);
   an equal request changes nothing; a differing one makes bit 9 equal to e, raises bit 10 (the
   'updated' notice) and leaves every other bit of the word alone. *)
Theorem C13_channel_protocol :
  forall e w,
    let '(r, w') := st_set_channel e w in
    r = request_differs e w /\
    (r = false -> w' = w) /\
    (r = true -> forall i, 0 <= i ->
       Z.testbit w' i = if i =? 9 then e else if i =? 10 then true else Z.testbit w i).
Proof. exact channel_protocol. Qed.
Print Assumptions C13_channel_protocol.

(* the 'updated' notice is consumed exactly once *)
Theorem C13_updated_consumed_once :
  forall w, st_closing w = false -> st_channel w = true -> st_channel_updated w = true ->
    let '(r1, w1) := st_channel_can_stop w in
    let '(r2, w2) := st_channel_can_stop w1 in
    r1 = negb (st_channel_value w) /\
    (forall i, 0 <= i -> Z.testbit w1 i = if i =? 10 then false else Z.testbit w i) /\
    st_channel_updated w1 = false /\
    r2 = false /\ w2 = w1.
Proof. exact updated_consumed_once. Qed.
Print Assumptions C13_updated_consumed_once.

Theorem C13_can_stop_without_notice_is_pure :
  forall w, st_closing w = true \/ st_channel w = false \/ st_channel_updated w = false ->
    snd (st_channel_can_stop w) = w.
Proof. exact can_stop_without_notice. Qed.
Print Assumptions C13_can_stop_without_notice_is_pure.

Theorem C13_tag_once :
  forall w,
    let '(r1, w1) := st_tag w in
    r1 = st_seen w /\
    (forall i, 0 <= i -> Z.testbit w1 i = if i =? 12 then false else Z.testbit w i) /\
    st_tag w1 = (false, w1).
Proof. exact tag_once. Qed.
Print Assumptions C13_tag_once.

(* ---- the tie of the translated atomics to the sequential model ------------------------------ *)
(* the three translated mutators are linearisable (CAS retry loop or one read-modify-write call),
   the function each applies at its commit point is Set / Unset / SetLast of Model/State.v, and
   the state bits of the code are the bits of the model.  These three statements stop compiling
   when c2/state.go changes shape. *)
Theorem C13_translated_mutators_linearisable :
  linearisable gen_set = true /\ linearisable gen_unset = true /\ linearisable gen_setlast = true.
Proof. exact gen_linearisable. Qed.
Print Assumptions C13_translated_mutators_linearisable.

Theorem C13_translated_mutators_meaning :
  forall w v, commit_fn gen_set v w = st_set w v /\ commit_fn gen_unset v w = st_unset w v /\
              commit_fn gen_setlast v w = st_setlast w v.
Proof. exact (fun w v => conj (gen_set_commit w v) (conj (gen_unset_commit w v) (gen_setlast_commit w v))). Qed.
Print Assumptions C13_translated_mutators_meaning.

Theorem C13_translated_constants :
  gen_state_bits = state_bits.
Proof. exact gen_state_bits_agree. Qed.
Print Assumptions C13_translated_constants.

(* ---- no lost update ---------------------------------------------------------------------------- *)
(* For EVERY list of concurrent calls cs (thread i executes call i: Set v, Unset v or SetLast g,
   any arguments), every initial word and EVERY schedule (any list of thread ids, any length; a
   failed compare-and-swap goes back to the load) after which all calls have returned: the word is
   the result of ALL the calls, each applied in one piece, in some order -- the order of their
   successful compare-and-swap steps. *)
Theorem C13_no_lost_update :
  forall (cs : list mcall) (w0 : Z) (sched : list nat),
    all_done (run_sched (init w0 (map gen_call cs)) sched) = true ->
    exists order, Permutation order (seq 0 (length cs)) /\
                  fst (run_sched (init w0 (map gen_call cs)) sched) = apply_mcalls cs order w0.
Proof. exact no_lost_update. Qed.
Print Assumptions C13_no_lost_update.

(* ... and at every intermediate point of every schedule the word is the result of exactly the
   calls that have returned (no call is ever half applied) *)
Theorem C13_no_partial_update :
  forall (cs : list mcall) (w0 : Z) (sched : list nat),
    exists lin, NoDup lin /\
      fst (run_sched (init w0 (map gen_call cs)) sched) = apply_mcalls cs lin w0 /\
      forall i t, nth_error (snd (run_sched (init w0 (map gen_call cs)) sched)) i = Some t ->
                  finished t = inb i lin.
Proof. exact no_partial_update. Qed.
Print Assumptions C13_no_partial_update.

(* complete schedules exist for every list of calls (the hypothesis of the theorems is satisfiable) *)
Theorem C13_complete_schedule_exists :
  forall (cs : list mcall) (w0 : Z),
    all_done (run_sched (init w0 (map gen_call cs)) (serial_sched (length cs))) = true.
Proof. exact complete_schedule_exists. Qed.
Print Assumptions C13_complete_schedule_exists.

(* a flag set by some call and cleared by none is set at the end, under every interleaving *)
Theorem C13_set_bit_survives :
  forall (cs : list mcall) (w0 : Z) (sched : list nat) (k : Z),
    all_done (run_sched (init w0 (map gen_call cs)) sched) = true ->
    0 <= k < 16 ->
    (exists c, In c cs /\ sets_bit k c = true) -> (forall c, In c cs -> clears_bit k c = false) ->
    Z.testbit (fst (run_sched (init w0 (map gen_call cs)) sched)) k = true.
Proof. exact set_bit_survives. Qed.
Print Assumptions C13_set_bit_survives.

(* a flag cleared by some call and set by none is clear at the end *)
Theorem C13_cleared_bit_stays_clear :
  forall (cs : list mcall) (w0 : Z) (sched : list nat) (k : Z),
    all_done (run_sched (init w0 (map gen_call cs)) sched) = true ->
    0 <= k < 16 ->
    (exists c, In c cs /\ clears_bit k c = true) -> (forall c, In c cs -> sets_bit k c = false) ->
    Z.testbit (fst (run_sched (init w0 (map gen_call cs)) sched)) k = false.
Proof. exact cleared_bit_stays_clear. Qed.
Print Assumptions C13_cleared_bit_stays_clear.

(* the halves stay independent under concurrency: the flag half is what the flag calls alone give
   (in the linearisation order), the group half is the argument of the SetLast linearised last
   (the initial group when there is none) *)
Theorem C13_halves_independent_concurrently :
  forall (cs : list mcall) (w0 : Z) (sched : list nat),
    all_done (run_sched (init w0 (map gen_call cs)) sched) = true ->
    (forall c, In c cs -> arg_in_half c) ->
    exists order, Permutation order (seq 0 (length cs)) /\
      st_flags (fst (run_sched (init w0 (map gen_call cs)) sched)) = st_flags (apply_flag_calls cs order w0) /\
      st_last (fst (run_sched (init w0 (map gen_call cs)) sched)) = last_group cs order (st_last w0).
Proof. exact halves_independent_concurrently. Qed.
Print Assumptions C13_halves_independent_concurrently.

Theorem C13_concurrent_flag_calls_keep_group :
  forall (cs : list mcall) (w0 : Z) (sched : list nat),
    all_done (run_sched (init w0 (map gen_call cs)) sched) = true ->
    (forall c, In c cs -> arg_in_half c) -> (forall c, In c cs -> is_flag_call c = true) ->
    st_last (fst (run_sched (init w0 (map gen_call cs)) sched)) = st_last w0.
Proof. exact flag_calls_keep_group. Qed.
Print Assumptions C13_concurrent_flag_calls_keep_group.

Theorem C13_concurrent_setlast_calls_keep_flags :
  forall (cs : list mcall) (w0 : Z) (sched : list nat),
    all_done (run_sched (init w0 (map gen_call cs)) sched) = true ->
    (forall c, In c cs -> is_flag_call c = false) ->
    st_flags (fst (run_sched (init w0 (map gen_call cs)) sched)) = st_flags w0.
Proof. exact setlast_calls_keep_flags. Qed.
Print Assumptions C13_concurrent_setlast_calls_keep_flags.

Theorem C13_concurrent_word_ok :
  forall (cs : list mcall) (w0 : Z) (sched : list nat),
    all_done (run_sched (init w0 (map gen_call cs)) sched) = true ->
    word_ok w0 -> (forall c, In c cs -> match c with MSet v => word_ok v | _ => True end) ->
    word_ok (fst (run_sched (init w0 (map gen_call cs)) sched)).
Proof. exact concurrent_word_ok. Qed.
Print Assumptions C13_concurrent_word_ok.

(* ---- the channel request protocol under concurrency ---------------------------------------------- *)
(* tools/atomics2v also translates the compound methods (Tag, ChannelCanStop, ChannelCanStart,
   SetChannel(true/false)) into decision trees over their atomic calls, in source order, getters
   inlined (type prog: PRet / PTest mask / PCall set arg; Gen/StateAtomics.v).  A thread executes one
   atomic call per scheduling slot; the Set/Unset calls inside run as their translated shape. *)

(* run alone, each translated compound method IS the method of the sequential model (answer and
   word) -- for every word *)
Theorem C13_translated_compound_meaning :
  forall w,
    run_prog gen_set gen_unset gen_tag w = (Some (fst (st_tag w)), snd (st_tag w)) /\
    run_prog gen_set gen_unset gen_channelcanstop w = (Some (fst (st_channel_can_stop w)), snd (st_channel_can_stop w)) /\
    run_prog gen_set gen_unset gen_channelcanstart w = (Some (st_channel_can_start w), w) /\
    forall e, run_prog gen_set gen_unset (gen_setchannel e) w = (Some (fst (st_set_channel e w)), snd (st_set_channel e w)).
Proof.
  exact (fun w => conj (gen_tag_meaning w) (conj (gen_channelcanstop_meaning w)
                 (conj (gen_channelcanstart_meaning w) (fun e => gen_setchannel_meaning e w)))).
Qed.
Print Assumptions C13_translated_compound_meaning.

(* One SetChannel(e) call (thread 0) against one ChannelCanStop poll (thread 1) while a channel is
   running, EVERY word, EVERY schedule (any list of thread ids).  In every configuration reached:
   1. SetChannel answers whether the request differs from the standing one, exactly as alone;
   2. the poller answers "stop" only because of an OFF request -- this one, or an earlier one whose
      notice was still pending in w0: a notice is never acted on with the value of another request
      (SetChannel publishes the value BEFORE the notice; the order of its two writes is what this
      clause is about, see the refuted variant below);
   3. once both returned and the request differed: the standing request is e; if the notice is gone
      the poller consumed it and answered for e; if it is pending the next poll consumes exactly it
      and answers for e.  So the request is never lost and its notice is consumed once. *)
Theorem C13_channel_protocol_concurrent :
  forall (e : bool) (w0 : Z) (sched : list nat),
    chan_active w0 = true ->
    let c := prun gen_set gen_unset (pinit w0 (gen_setchannel e) gen_channelcanstop) sched in
    (forall rs, pret (pc_a c) = Some rs -> rs = request_differs e w0) /\
    (pret (pc_b c) = Some true -> e = false \/ (st_channel_updated w0 = true /\ st_channel_value w0 = false)) /\
    (pret (pc_a c) = Some true -> forall rp, pret (pc_b c) = Some rp ->
       st_channel_value (pc_word c) = e /\
       (st_channel_updated (pc_word c) = false -> rp = negb e) /\
       (st_channel_updated (pc_word c) = true ->
          exists w2, st_channel_can_stop (pc_word c) = (negb e, w2) /\
                     st_channel_updated w2 = false /\ st_channel_value w2 = e)).
Proof. exact channel_protocol_concurrent. Qed.
Print Assumptions C13_channel_protocol_concurrent.

(* the same as ONE boolean invariant of every reachable configuration (the form the check evaluates
   when it searches a failing schedule) *)
Theorem C13_channel_protocol_invariant :
  forall (e : bool) (w0 : Z) (sched : list nat),
    protocol_ok gen_set gen_unset gen_channelcanstop e w0
                (prun gen_set gen_unset (pinit w0 (gen_setchannel e) gen_channelcanstop) sched) = true.
Proof. exact gen_protocol_ok. Qed.
Print Assumptions C13_channel_protocol_invariant.

(* SetChannel(e) against ChannelCanStart, every word, every schedule: the poll never writes and
   answers for the word before the request or for the word after it *)
Theorem C13_channel_can_start_concurrent :
  forall (e : bool) (w0 : Z) (sched : list nat),
    let c := prun gen_set gen_unset (pinit w0 (gen_setchannel e) gen_channelcanstart) sched in
    (forall r, pret (pc_b c) = Some r ->
       r = st_channel_can_start w0 \/
       r = negb (st_closed w0) && (st_channel w0 || (if request_differs e w0 then e else st_channel_value w0))) /\
    (forall rs r, pret (pc_a c) = Some rs -> pret (pc_b c) = Some r ->
       rs = request_differs e w0 /\ st_channel_value (pc_word c) = (if rs then e else st_channel_value w0) /\
       st_channel_updated (pc_word c) = (rs || st_channel_updated w0)).
Proof. exact channel_can_start_concurrent. Qed.
Print Assumptions C13_channel_can_start_concurrent.

(* REFUTED for a SetChannel that raises the notice BEFORE it changes the standing request (same
   final word on one thread): OFF request on Ready|Channel|ChannelValue -- the poller consumes the
   notice, reads the old request, answers "no stop"; the notice is gone, the request is lost ... *)
Theorem C13_swapped_publish_order_loses_request_refuted :
  exists w0 sched,
    let c := prun cas_set cas_unset (pinit w0 (swapped_setchannel false) ref_channelcanstop) sched in
    chan_active w0 = true /\ st_channel_updated w0 = false /\
    pret (pc_a c) = Some true /\ pret (pc_b c) = Some false /\
    st_channel_updated (pc_word c) = false /\ st_channel_value (pc_word c) = false /\
    fst (run_prog cas_set cas_unset ref_channelcanstop (pc_word c)) = Some false /\
    protocol_ok cas_set cas_unset ref_channelcanstop false w0 c = false.
Proof. exact swapped_order_loses_request. Qed.
Print Assumptions C13_swapped_publish_order_loses_request_refuted.

(* ... and an ON request on Ready|Channel makes the poller answer "stop" *)
Theorem C13_swapped_publish_order_stops_on_request_refuted :
  exists w0 sched,
    let c := prun cas_set cas_unset (pinit w0 (swapped_setchannel true) ref_channelcanstop) sched in
    chan_active w0 = true /\ st_channel_updated w0 = false /\
    pret (pc_b c) = Some true /\
    protocol_ok cas_set cas_unset ref_channelcanstop true w0 c = false.
Proof. exact swapped_order_stops_on_request. Qed.
Print Assumptions C13_swapped_publish_order_stops_on_request_refuted.

(* ---- the word as the rest of c2 uses it ---------------------------------------------------------- *)
(* Session.close (either branch that the model covers) drops the request, its notice and the channel
   mode: no notice outlives its request *)
Theorem C13_close_drops_request :
  forall server w, st_closing w = false ->
    let w' := st_close server w in
    st_channel w' = false /\ st_channel_value w' = false /\ st_channel_updated w' = false.
Proof. exact close_drops_request. Qed.
Print Assumptions C13_close_drops_request.

(* any clear of (at least) ChannelValue | ChannelUpdated | Channel: afterwards a channel started by
   the peer (Set Channel, possibly after other flag sets that do not raise a notice) is not stopped
   by a stale notice -- the first ChannelCanStop answers "no stop" and writes nothing *)
Theorem C13_no_stale_notice_after_teardown :
  forall m w, Z.land m teardown_mask = teardown_mask ->
    let w1 := st_unset w m in
    st_channel w1 = false /\ st_channel_value w1 = false /\ st_channel_updated w1 = false /\
    (forall s, Z.testbit s 10 = false -> let w2 := st_set (st_set w1 s) stateChannel in
               st_closing w2 = false -> st_channel_can_stop w2 = (false, w2)).
Proof. exact no_stale_notice_after_teardown. Qed.
Print Assumptions C13_no_stale_notice_after_teardown.

(* read from the CURRENT source of package c2 by atomics2v (every non-test file but state.go):
   - no method with a value receiver writes the state word of its receiver (the write would land in a
     copy: proxyClient / Session forward stateSet, stateUnset, ... to their state field);
   - every statement list that clears ChannelValue through <x>.state.Unset clears ChannelUpdated and
     Channel with it (gen_state_sites: flags cleared, flags set per statement list);
   - Session.close has two such lists, both clearing all three (the masks of st_close). *)
Theorem C13_no_value_receiver_writes_the_word :
  gen_value_receiver_writers = 0.
Proof. exact gen_no_value_receiver_writers. Qed.
Print Assumptions C13_no_value_receiver_writes_the_word.

Theorem C13_call_sites_drop_notice_with_request :
  forallb site_ok gen_state_sites = true /\
  (2 <=? Z.of_nat (length gen_session_close_sites)) &&
  forallb (fun cs => Z.land (fst cs) teardown_mask =? teardown_mask) gen_session_close_sites = true.
Proof. exact (conj gen_sites_drop_notice_with_request gen_close_sites_teardown). Qed.
Print Assumptions C13_call_sites_drop_notice_with_request.

Theorem C13_no_notice_outlives_its_request :
  forall cs w, In cs gen_state_sites -> Z.land (fst cs) stateChannelValue <> 0 ->
    let w1 := st_unset w (fst cs) in
    st_channel_value w1 = false /\ st_channel_updated w1 = false /\
    (forall s, Z.testbit s 10 = false -> let w2 := st_set (st_set w1 s) stateChannel in
               st_closing w2 = false -> st_channel_can_stop w2 = (false, w2)).
Proof. exact no_notice_outlives_its_request. Qed.
Print Assumptions C13_no_notice_outlives_its_request.

(* ---- regression: the load-then-store shape of the pinned tree LOSES updates -------------------- *)
(* FULL STATEMENT THAT WAS FALSE before the repair (no_lost_update with old_call, the shapes
   atomics2v read from the pinned c2/state.go, in place of gen_call).  Refuted by the schedule
   [T0.load; T1.load; T1.store; T0.store] on Set(1) || Set(2) from the word 0: both calls returned,
   the word is the result of no order of the calls, and flag 2 (set by one call, cleared by none)
   is clear. *)
Theorem C13_old_shape_lost_update_refuted :
  exists (cs : list mcall) (w0 : Z) (sched : list nat),
    let cf := run_sched (init w0 (map old_call cs)) sched in
    all_done cf = true /\
    (forall order, Permutation order (seq 0 (length cs)) -> fst cf <> apply_mcalls cs order w0) /\
    exists k c, 0 <= k < 16 /\ In c cs /\ sets_bit k c = true /\
                (forall c', In c' cs -> clears_bit k c' = false) /\ Z.testbit (fst cf) k = false.
Proof. exact lost_update_refuted. Qed.
Print Assumptions C13_old_shape_lost_update_refuted.

(* the same schedule with SetLast(7) || Set(1): the group update wiped out the flag *)
Theorem C13_old_shape_halves_not_independent_refuted :
  exists (cs : list mcall) (w0 : Z) (sched : list nat),
    let cf := run_sched (init w0 (map old_call cs)) sched in
    all_done cf = true /\ (forall c, In c cs -> arg_in_half c) /\
    (forall order, Permutation order (seq 0 (length cs)) ->
                   st_flags (fst cf) <> st_flags (apply_flag_calls cs order w0)).
Proof. exact lost_update_refuted_setlast. Qed.
Print Assumptions C13_old_shape_halves_not_independent_refuted.

(* ---- non-vacuity -------------------------------------------------------------------------------- *)
(* four concurrent calls on a word with both halves in use, under a schedule with a failed
   compare-and-swap (thread 0 loads, thread 1 commits, thread 0's CAS fails and retries): all
   calls return and the final word carries every update: flag 1 set, flag 4 cleared, flag 2 set,
   group 0xBEEF, the untouched flag 8 kept, the old group 0x1234 replaced. *)
Example C13_nonvacuous :
  let cs := [MSet 1; MUnset 4; MSetLast 48879; MSet 2] in
  let sched := [0; 1; 1; 0; 2; 2; 3; 3; 0; 0]%nat in
  let cf := run_sched (init (mk_word 4660 12) (map gen_call cs)) sched in
  all_done cf = true /\ fst cf = mk_word 48879 11 /\
  fst cf = apply_mcalls cs [1; 2; 3; 0]%nat (mk_word 4660 12) /\
  st_closed (mk_word 4660 12) = true /\ st_ready (mk_word 4660 14) = false /\
  st_set_channel true 256 = (true, 1792) /\ st_channel_can_stop 1792 = (false, 768).
Proof. vm_compute. repeat split. Qed.

(* SetChannel(false) against a poll on Ready|Channel|ChannelValue, the poll falling between the two
   writes of SetChannel: it sees no notice and answers "no stop"; both return, the notice is pending,
   and the next poll consumes it and answers "stop" *)
Example C13_nonvacuous_protocol :
  let c := prun gen_set gen_unset (pinit 770 (gen_setchannel false) gen_channelcanstop)
                [0; 0; 0; 0; 0; 1; 1; 1; 1; 1; 0; 0]%nat in
  chan_active 770 = true /\ pret (pc_a c) = Some true /\ pret (pc_b c) = Some false /\
  pc_word c = 1282 /\ st_channel_can_stop 1282 = (true, 258) /\ st_channel_can_stop 258 = (false, 258).
Proof. vm_compute. repeat split. Qed.
