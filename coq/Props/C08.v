(* Props/C08.v -- property theorems for C08 (a binary profile means exactly its settings). *)
From XMT Require Import Base.Prelude Model.Cfg Model.CfgSettings Proofs.Cfg.

Theorem C08_validate_empty : validate [] = Ok tt.
Proof. exact validate_nil. Qed.
Print Assumptions C08_validate_empty.
