(* Props/C08.v -- property theorems for C08: a binary profile built from settings means exactly
   those settings.
   Constructor side: Model/CfgSettings.v (`setting` mirrors every public constructor of c2/cfg with
   its clamping; `enc` = the bytes Bytes() appends, `pack` = Pack, `pack_groups` = AddGroup ...;
   `interp_step` / `interp_group` / `interp_groups` = the MEANING of a setting list: the profile record
   a reader of the documentation expects).  Parser side: Model/Cfg.v (next / build / validate /
   groups / group / marshal, the same definitions the correspondence run evaluates).
   `wf_setting` = the argument is in its documented domain (byte strings are byte strings, work hours
   are valid, an AES key is 16/24/32 bytes with a 16 byte IV, XOR key / DNS names / header names are not
   empty, at most 255 headers); `wf_group` = that for every setting and at most one connector and one
   transform.  All lengths (hosts, keys, certificates, URLs ... from 0 to beyond the 65535 / 255 clamps),
   all offsets (`pre` is arbitrary), all groupings are covered: the statements are universally quantified. *)
From XMT Require Import Base.Prelude Model.Cfg Model.CfgSettings Proofs.Cfg Proofs.CfgSettings Proofs.CfgGroups Proofs.CfgRegress.

(* the stride of an encoded setting is its length, wherever it sits in the config (this is the
   statement the `i + 3 + lo | hi<<8` precedence defect falsified) *)
Theorem C08_next_enc : forall pre s post, wf_setting s = true -> enc s <> [] ->
  exists r, next (pre ++ enc s ++ post) (len pre) = Ok r
            /\ fixn (pre ++ enc s ++ post) (len pre) r = len pre + len (enc s)
            /\ (post <> [] -> r = len pre + len (enc s)).
Proof. exact next_enc. Qed.
Print Assumptions C08_next_enc.

(* one encoded setting, anywhere in a config: stride, not a separator, and build's step reads back its meaning *)
Theorem C08_setting_roundtrip : forall s, wf_setting s = true -> enc s <> [] -> setting_ok s.
Proof. exact all_settings_ok. Qed.
Print Assumptions C08_setting_roundtrip.

(* a nil Setting (Host(""), Sleep(<= 0), Weight(0), KeyPin(empty key)) contributes nothing *)
Theorem C08_nil_setting : forall s st, enc s = [] -> interp_step s st = st.
Proof. exact interp_nil. Qed.
Print Assumptions C08_nil_setting.

(* one group: Build(Pack(ss...)) is the profile the settings mean (certificate / key parsing succeeding) *)
Theorem C08_build_pack : forall ss, wf_group ss = true -> pack ss <> [] ->
  build true (pack ss) = Ok (0, [fst (interp_group ss)]).
Proof. exact build_pack. Qed.
Print Assumptions C08_build_pack.

(* any grouping through AddGroup: groups that pack to nothing are skipped, one remaining group is a plain
   profile, otherwise the last non-zero selector and the entries sorted by descending weight (stable) *)
Theorem C08_build_groups : forall gs, wf_groups gs = true -> build true (pack_groups gs) = Ok (interp_groups gs).
Proof. exact build_groups. Qed.
Print Assumptions C08_build_groups.

(* hosts, pinned keys and the wrapper stack are exactly the supplied ones, in the supplied order *)
Theorem C08_lists_in_order : forall ss,
  p_hosts (fst (interp_group ss)) = flat_map host_of ss /\
  p_keys (fst (interp_group ss)) = flat_map key_of ss /\
  p_wraps (fst (interp_group ss)) = flat_map wrap_of ss.
Proof. exact group_lists. Qed.
Print Assumptions C08_lists_in_order.

(* sleep, jitter, weight, kill date, work hours, selector: the last setting of the kind wins *)
Theorem C08_last_wins : forall ss p z,
  let r := run ss (p, z) in
  p_sleep (fst r) = fold_left (fun a s => sleep_step s a) ss (p_sleep p) /\
  p_jitter (fst r) = fold_left (fun a s => jitter_step s a) ss (p_jitter p) /\
  p_weight (fst r) = fold_left (fun a s => weight_step s a) ss (p_weight p) /\
  (p_kds (fst r), p_kill (fst r)) = fold_left (fun a s => kill_step s a) ss (p_kds p, p_kill p) /\
  p_work (fst r) = fold_left (fun a s => work_step s a) ss (p_work p) /\
  snd r = fold_left (fun a s => sel_step s a) ss z.
Proof. exact run_scalars. Qed.
Print Assumptions C08_last_wins.

(* what the constructors pack is a byte string, so every theorem of C09 applies to it *)
Theorem C08_packed_is_bytes : forall gs, wf_groups gs = true -> bytes (pack_groups gs).
Proof. exact pack_groups_bytes. Qed.
Print Assumptions C08_packed_is_bytes.

(* validation succeeds exactly when building succeeds (certificate / key contents aside) ... *)
Theorem C08_validate_iff_build : forall gs, wf_groups gs = true ->
  (validate (pack_groups gs) = Ok tt <-> exists r, build true (pack_groups gs) = Ok r).
Proof. exact validate_iff_build_pack. Qed.
Print Assumptions C08_validate_iff_build.

(* ... and for settings in their documented domains both succeed *)
Theorem C08_validate_pack : forall gs, wf_groups gs = true -> validate (pack_groups gs) = Ok tt.
Proof. exact validate_pack. Qed.
Print Assumptions C08_validate_pack.

(* group extraction partitions the bytes at the separators (for ALL byte strings, packed or not):
   there are Groups() pieces, Group(k) is the k-th, and joined by the separator byte they are the config *)
Theorem C08_groups_partition : forall c, bytes c -> c <> [] ->
  let ps := pieces (S (length c)) c 0 0 in
  groups c = Ok (len ps)
  /\ (forall k, 0 <= k < len ps -> group c k = Ok (nth (Z.to_nat k) ps []))
  /\ join_sep ps = c.
Proof. exact groups_partition_all. Qed.
Print Assumptions C08_groups_partition.

(* the profile hands back the identical bytes: whenever something was built, MarshalBinary is the source,
   and it is never anything else *)
Theorem C08_marshal_is_source : forall tlsok c g e, build tlsok c = Ok (g, e) -> e <> [] -> marshal tlsok c = Ok c.
Proof. exact marshal_is_source. Qed.
Print Assumptions C08_marshal_is_source.
Theorem C08_marshal_only_source : forall tlsok c c', marshal tlsok c = Ok c' -> c' = c.
Proof. exact marshal_only_source. Qed.
Print Assumptions C08_marshal_only_source.
Theorem C08_marshal_pack : forall gs, wf_groups gs = true -> filter keep gs <> [] ->
  marshal true (pack_groups gs) = Ok (pack_groups gs).
Proof. exact marshal_pack. Qed.
Print Assumptions C08_marshal_pack.

(* regressions: the statements above were FALSE for the expressions of the pinned tree (copies of the old
   definitions in Proofs/CfgRegress.v); each was repaired by its own fix: commit *)
Theorem C08_old_stride_refuted : exists i hi lo, 0 <= i /\ 0 <= hi < 256 /\ 0 <= lo < 256 /\
  old_stride16 i 3 hi lo <> i + 3 + w16 hi lo.
Proof. exact old_stride16_refuted. Qed.
Print Assumptions C08_old_stride_refuted.
Theorem C08_old_tlscerts_refuted : exists pem key, old_tlscerts_key pem key = Panic.
Proof. exact old_tlscerts_refuted. Qed.
Print Assumptions C08_old_tlscerts_refuted.
Theorem C08_old_dns_refuted : exists x n i, x = 1 /\ i = 2 /\ n = 10 /\ old_dns_guard x n i = true.
Proof. exact old_dns_refuted. Qed.
Print Assumptions C08_old_dns_refuted.
Theorem C08_old_tlsca_refuted : old_tlsca_guard (len (enc (STLSExCA 0 []))) 0 = true
  /\ exists r, build true (enc (STLSExCA 0 [])) = Ok r.
Proof. exact old_tlsca_refuted. Qed.
Print Assumptions C08_old_tlsca_refuted.

(* non-vacuity: the inputs that failed on the pinned tree are in the domain of the theorems *)
Example C08_nonvacuous_host_carry :
  let ss := [SSleep 1000000000; SJitter 1; SHost (pat 511 97 0)] in
  wf_group ss = true /\ len (pack ss) = 525 /\
  (exists p, build true (pack ss) = Ok (0, [p]) /\ p_hosts p = [pat 511 97 0] /\ p_sleep p = 1000000000 /\ p_jitter p = 1).
Proof. vm_compute. repeat split. eexists. repeat split. Qed.
Example C08_nonvacuous_groups :
  let gs := [[SHost [111; 110; 101]; SBit 195; SWeight 10; SBit 172]; [SHost []]; [SHost [116; 119; 111]; SDNS [[97; 46; 99]]; STLSExCA 0 []; SWeight 40]] in
  wf_groups gs = true /\ groups (pack_groups gs) = Ok 3 /\
  (exists p q, build true (pack_groups gs) = Ok (172, [p; q]) /\ p_weight p = 40 /\ p_weight q = 10).
Proof. vm_compute. repeat split. do 2 eexists. repeat split. Qed.
