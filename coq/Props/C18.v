(* Props/C18.v -- property theorems for C18 (task, filter and launcher descriptions).
   Only statements; every proof is `exact <lemma>`; Print Assumptions under each.

   enc_T follows the server-only MarshalStream code, dec_T the implant-side UnmarshalStream code
   (decoding into a fresh struct: the zero value).  `rest` is whatever follows the description
   in the buffer: getting it back untouched is "decoding consumes exactly the encoded bytes". *)
From XMT Require Import Base.Prelude Model.Codec Model.Tasks Proofs.Tasks.

Theorem C18_process_roundtrip :
  forall p rest, wf_process p -> dec_process zero_process (enc_process p ++ rest) = Ok (norm_process p, rest).
Proof. exact process_roundtrip. Qed.
Print Assumptions C18_process_roundtrip.

Theorem C18_dll_roundtrip :
  forall d rest, wf_dll d -> dec_dll zero_dll (enc_dll d ++ rest) = Ok (norm_dll d, rest).
Proof. exact dll_roundtrip. Qed.
Print Assumptions C18_dll_roundtrip.

Theorem C18_zombie_roundtrip :
  forall z rest, wf_zombie z -> dec_zombie zero_zombie (enc_zombie z ++ rest) = Ok (norm_zombie z, rest).
Proof. exact zombie_roundtrip. Qed.
Print Assumptions C18_zombie_roundtrip.

Theorem C18_assembly_roundtrip :
  forall a rest, wf_asm a -> dec_asm zero_asm (enc_asm a ++ rest) = Ok (norm_asm a, rest).
Proof. exact asm_roundtrip. Qed.
Print Assumptions C18_assembly_roundtrip.

(* a filter behind a pointer (task structs): nil and empty filters both come back as nil *)
Theorem C18_filter_ptr_roundtrip :
  forall o rest, wf_filter_opt o -> dec_filter_ptr None (enc_filter o ++ rest) = Ok (norm_filter_ptr o, rest).
Proof. exact dec_filter_ptr_enc. Qed.
Print Assumptions C18_filter_ptr_roundtrip.

(* a filter value (Sentinel, taskElevate): an empty filter comes back as the zero filter *)
Theorem C18_filter_val_roundtrip :
  forall f rest, wf_filter f -> dec_filter_val zero_filter (enc_filter (Some f) ++ rest) = Ok (norm_filter_val f, rest).
Proof. exact dec_filter_val_enc. Qed.
Print Assumptions C18_filter_val_roundtrip.

(* normalisation only ever touches empty filters *)
Theorem C18_norm_only_empty :
  forall f, filter_empty f = false -> norm_filter_ptr (Some f) = Some f /\ norm_filter_val f = f.
Proof. exact norm_nonempty. Qed.
Print Assumptions C18_norm_only_empty.

(* script framing: flag byte and (task id, payload) entries, read until the end of the packet *)
Theorem C18_script_roundtrip :
  forall f es, is_u8 f -> Forall wf_entry es -> dec_script (enc_script f es) = Ok (f, es).
Proof. exact script_roundtrip. Qed.
Print Assumptions C18_script_roundtrip.

Theorem C18_launcher_path_roundtrip :
  forall p rest, wf_spath p -> dec_spath (enc_spath p ++ rest) = Ok (norm_spath p, rest).
Proof. exact spath_roundtrip. Qed.
Print Assumptions C18_launcher_path_roundtrip.

(* the plain launcher description, for up to 65535 paths *)
Theorem C18_sentinel_roundtrip :
  forall x rest, wf_sentinel x -> dec_sentinel zero_sentinel (enc_sentinel x ++ rest) = Ok (norm_sentinel x, rest).
Proof. exact sentinel_roundtrip. Qed.
Print Assumptions C18_sentinel_roundtrip.

(* the CTR stream is an involution for EVERY block function, IV and length *)
Theorem C18_ctr_roundtrip :
  forall (E : list Z -> list Z) iv x, ctr_xor E iv (ctr_xor E iv x) = x.
Proof. exact ctr_roundtrip. Qed.
Print Assumptions C18_ctr_roundtrip.

(* ... and it is not the identity by accident: with a block function that returns blocks of the
   IV's size every byte meets a keystream byte *)
Theorem C18_ctr_covers :
  forall (E : list Z -> list Z) iv x, (0 < length iv)%nat -> (forall c, length (E c) = length iv) ->
  (length x <= length (keystream E (ctr_blocks iv x) iv))%nat.
Proof. exact ctr_covers. Qed.
Print Assumptions C18_ctr_covers.

(* the encrypted launcher file, for every block function and IV *)
Theorem C18_launcher_file_roundtrip :
  forall (E : list Z -> list Z) iv x, wf_sentinel x ->
  read_file E (len iv) zero_sentinel (write_file E iv x) = Ok (norm_sentinel x, []).
Proof. exact file_roundtrip. Qed.
Print Assumptions C18_launcher_file_roundtrip.

(* ... also when the file arrives in pieces, provided the first delivery holds the whole IV
   (Sentinel.Read fetches the IV with a single Read call) *)
Theorem C18_launcher_file_split_reader :
  forall (E : list Z -> list Z) iv x c cs, wf_sentinel x ->
  concat (c :: cs) = write_file E iv x -> len iv <= len c ->
  read_file_src E (len iv) zero_sentinel (c :: cs) = Ok (norm_sentinel x, []).
Proof. exact file_src_roundtrip. Qed.
Print Assumptions C18_launcher_file_split_reader.

(* exact consumption, in one statement for every description type decoded by UnmarshalStream
   into a fresh value: what follows the encoding is handed back untouched *)
Theorem C18_exact_consumption :
  forall d rest, wf_desc d -> (forall f es, d <> DScript f es) ->
  dec_desc (zero_of d) (enc_desc d ++ rest) = Ok (norm_desc d, rest).
Proof. exact desc_roundtrip. Qed.
Print Assumptions C18_exact_consumption.

(* the bound 65535 in C18_sentinel_roundtrip is sharp: the path count is written as a wrapped
   uint16, so 65536 paths are persisted as "no paths" followed by 65535 undecoded paths *)
Theorem C18_sentinel_count_wraps_refuted :
  forall x, wf_filter (s_filter x) -> len (s_paths x) = 65536 ->
  dec_sentinel zero_sentinel (enc_sentinel x) =
  Ok (mkSentinel (norm_filter_val (s_filter x)) [], concat (map enc_spath (take 65535 (s_paths x)))).
Proof. exact sentinel_count_wraps. Qed.
Print Assumptions C18_sentinel_count_wraps_refuted.

(* normalisation is idempotent: what the implant decoded re-encodes to the same description *)
Theorem C18_norm_idempotent :
  forall o, norm_filter_ptr (norm_filter_ptr o) = norm_filter_ptr o.
Proof. exact norm_filter_ptr_idem. Qed.
Print Assumptions C18_norm_idempotent.

(* non-vacuity: a process description with arguments, a non-empty filter and a negative
   timeout, and a launcher description with one path of each kind, are well-formed and make
   the round trip (computed) *)
Definition ex_filter : filter := mkFilter 1234 true 2 1 [[97]] [[98; 99]; []].
Definition ex_process : process :=
  mkProcess [[47; 98; 105; 110]; [45; 99]] [47] [[65; 61; 49]] true 8 (-5) true [117] [] [112] (Some ex_filter) [1; 2; 3].
Definition ex_sentinel : sentinel :=
  mkSentinel ex_filter [mkSpath 0 [42] []; mkSpath 1 [100] []; mkSpath 2 [97] []; mkSpath 3 [104] [[120]]; mkSpath 4 [122] [[97]; [98]]].
Example C18_nonvacuous :
  wf_process ex_process /\ wf_sentinel ex_sentinel /\
  dec_process zero_process (enc_process ex_process ++ [7; 7]) = Ok (ex_process, [7; 7]) /\
  dec_sentinel zero_sentinel (enc_sentinel ex_sentinel ++ [9]) = Ok (ex_sentinel, [9]) /\
  enc_process ex_process <> enc_process zero_process.
Proof. exact nonvacuous_witness. Qed.
