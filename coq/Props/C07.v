(* Props/C07.v -- bootstrap *)
From XMT Require Import Base.Prelude Model.Cbk Model.Dns Model.Wrappers.
Theorem C07_bootstrap : True. Proof. exact I. Qed.
Print Assumptions C07_bootstrap.
