(* Props/C07.v -- property theorems for C07 (every wrapper stack and transform is lossless).
   Only statements; every proof is `exact <lemma>`; Print Assumptions under each.
   zlib, gzip, the AES block function and the packet codec (property C01) are not modelled here:
   they are universally quantified in the statements together with the hypothesis used. *)
From XMT Require Import Base.Prelude Model.Cbk Model.Dns Model.Wrappers
  Proofs.Wrappers Proofs.Cbk Proofs.Dns Proofs.WrapperStack.

(* ---- the stack: for ALL stacks of lossless wrappers, in the order MultiWrapper composes ------ *)
Theorem C07_stack_roundtrip :
  forall ws, Forall lossless ws ->
  forall x, bytes x -> bytes (wrap_stack ws x) /\ unwrap_stack ws (wrap_stack ws x) = Ok x.
Proof. exact stack_roundtrip. Qed.
Print Assumptions C07_stack_roundtrip.

(* ---- the elements ----------------------------------------------------------------------------- *)
Theorem C07_hex_roundtrip : forall x, bytes x -> bytes (hex_enc x) /\ hex_dec (hex_enc x) = Ok x.
Proof. exact hex_roundtrip. Qed.
Print Assumptions C07_hex_roundtrip.

Theorem C07_b64_roundtrip : forall x, bytes x -> bytes (b64_enc x) /\ b64_dec (b64_enc x) = Ok x.
Proof. exact b64_roundtrip. Qed.
Print Assumptions C07_b64_roundtrip.

Theorem C07_b64shift_roundtrip :
  forall shift x, bytes x -> bytes (b64t_enc shift x) /\ b64t_dec shift (b64t_enc shift x) = Ok x.
Proof. exact b64shift_roundtrip. Qed.
Print Assumptions C07_b64shift_roundtrip.

(* CFB over EVERY block function, every non-empty IV, every length (partial last block included) *)
Theorem C07_cfb_roundtrip :
  forall (E : list Z -> list Z) iv x, iv <> [] -> cfb_dec E iv (cfb_enc E iv x) = x.
Proof. exact cfb_roundtrip. Qed.
Print Assumptions C07_cfb_roundtrip.

Theorem C07_xor_roundtrip : forall key x, key <> [] -> xor_dec key (xor_enc key x) = x.
Proof. exact xor_roundtrip. Qed.
Print Assumptions C07_xor_roundtrip.

(* ---- CBK -------------------------------------------------------------------------------------- *)
(* the nibble mix applied twice is the identity for all 56 pairs g <> h < 8, overlapping pairs included *)
Theorem C07_cbk_mix_involutive :
  forall g h b, (g < 8)%nat -> (h < 8)%nat -> g <> h -> bytes b -> (9 <= length b)%nat ->
  mix2 g h (mix2 g h b) = b.
Proof. exact mix2_involutive. Qed.
Print Assumptions C07_cbk_mix_involutive.

(* Decrypt(Encrypt(b)) = b for every shuffle offsets, every six step pairs below 8, every block of
   at least 16 bytes (sizes 16, 32, 64, 128 in the code) *)
Theorem C07_cbk_block_roundtrip :
  forall offs steps b, Forall valid_step steps -> bytes b -> (16 <= length b)%nat ->
  blk_decrypt offs steps (blk_encrypt offs steps b) = b.
Proof. exact cbk_block_roundtrip. Qed.
Print Assumptions C07_cbk_block_roundtrip.

(* readInput undoes flushOutput on the size+1 buffer, for every table as well *)
Theorem C07_cbk_buf_roundtrip :
  forall offs (k : kconst) buf, Forall valid_step (snd k) -> bytes buf -> (16 <= length buf)%nat ->
  dec_buf offs k (enc_buf offs k buf) = buf.
Proof. exact cbk_buf_roundtrip. Qed.
Print Assumptions C07_cbk_buf_roundtrip.

(* the stream with its size+1 framing and count byte: every payload length (empty, multiples of the
   block size, partial last block), every block size 16..255, constants varying with the block number *)
Theorem C07_cbk_stream_roundtrip :
  forall (sz : nat) offs (consts : nat -> kconst),
  (16 <= sz)%nat -> (sz <= 255)%nat -> (forall k, Forall valid_step (snd (consts k))) ->
  forall x, bytes x -> cbk_dec sz offs consts (cbk_enc sz offs consts x) = Ok x.
Proof. exact cbk_stream_roundtrip. Qed.
Print Assumptions C07_cbk_stream_roundtrip.

(* write chunking: whatever the sequence of Write calls (zero-length ones included), after Close
   the sink holds the encoding of the concatenation *)
Theorem C07_cbk_write_chunks :
  forall (sz : nat) offs (consts : nat -> kconst), (0 < sz)%nat ->
  forall ws, cbk_run sz offs consts ws = cbk_enc sz offs consts (concat ws).
Proof. exact cbk_write_chunks. Qed.
Print Assumptions C07_cbk_write_chunks.

(* ---- DNS -------------------------------------------------------------------------------------- *)
(* for EVERY domain (any bytes, dots anywhere, labels of any length), both roles, every random
   draw and every payload (with the encoder as repaired by commit facc2eb) *)
Theorem C07_dns_roundtrip :
  forall server domain rnd x, dns_decode (dns_encode server domain rnd x) = Ok x.
Proof. exact dns_roundtrip. Qed.
Print Assumptions C07_dns_roundtrip.

(* the encoder as it was: lossless exactly on the legal domains (labels of 1..63 bytes) ... *)
Theorem C07_dns_roundtrip_old_legal :
  forall server domain rnd x, legal_domain domain ->
  dns_decode (dns_encode_with server (dns_labels_old domain) rnd x) = Ok x.
Proof. exact dns_roundtrip_old_legal. Qed.
Print Assumptions C07_dns_roundtrip_old_legal.

(* ... and not beyond (regression witness: "example.com." with the payload "hello") *)
Theorem C07_dns_old_bad_label_refuted :
  exists d x, dns_decode (dns_encode_with false (dns_labels_old d) (fun _ _ => 0) x) <> Ok x.
Proof. exact dns_roundtrip_bad_label_refuted. Qed.
Print Assumptions C07_dns_old_bad_label_refuted.

(* ---- every profile ---------------------------------------------------------------------------- *)
(* any stack over {hex, base64, zlib, gzip, XOR(key), AES(key, iv), CBK(size, constants)} *)
Theorem C07_profile_stack_roundtrip :
  forall (zlib_enc gzip_enc : list Z -> list Z) (zlib_dec gzip_dec : list Z -> res (list Z)),
  lossless {| w_enc := zlib_enc; w_dec := zlib_dec |} ->
  lossless {| w_enc := gzip_enc; w_dec := gzip_dec |} ->
  forall aes : list Z -> list Z -> list Z, (forall key, block_fn_bytes (aes key)) ->
  forall es, Forall welem_ok es -> forall x, bytes x ->
  unwrap_stack (map (welem_w zlib_enc gzip_enc zlib_dec gzip_dec aes) es)
    (wrap_stack (map (welem_w zlib_enc gzip_enc zlib_dec gzip_dec aes) es) x) = Ok x.
Proof. exact profile_stack_roundtrip. Qed.
Print Assumptions C07_profile_stack_roundtrip.

(* any transform: none, B64 with any shift, DNS with any domain list, pick and random draws *)
Theorem C07_transform_roundtrip :
  forall t x w, bytes x -> tr_sends t x w -> tr_dec t w = Ok x.
Proof. exact transform_roundtrip. Qed.
Print Assumptions C07_transform_roundtrip.

(* the full send path followed by the full receive path is the identity on packets, given a packet
   codec that round-trips (property C01) *)
Theorem C07_full_path_roundtrip :
  forall (zlib_enc gzip_enc : list Z -> list Z) (zlib_dec gzip_dec : list Z -> res (list Z)),
  lossless {| w_enc := zlib_enc; w_dec := zlib_dec |} ->
  lossless {| w_enc := gzip_enc; w_dec := gzip_dec |} ->
  forall aes : list Z -> list Z -> list Z, (forall key, block_fn_bytes (aes key)) ->
  forall (packet : Type) (marshal : packet -> list Z) (unmarshal : list Z -> res packet),
  (forall p, bytes (marshal p)) -> (forall p, unmarshal (marshal p) = Ok p) ->
  forall es t p w, Forall welem_ok es ->
  path_sends packet marshal (map (welem_w zlib_enc gzip_enc zlib_dec gzip_dec aes) es) t p w ->
  path_recv packet unmarshal (map (welem_w zlib_enc gzip_enc zlib_dec gzip_dec aes) es) t w = Ok p.
Proof. exact full_path_roundtrip. Qed.
Print Assumptions C07_full_path_roundtrip.

(* ---- histories: the buffer pool of c2/vars.go as state ------------------------------------------- *)
(* after ANY sequence of writePacket calls and of readPacket calls on ARBITRARY input (cut streams,
   garbage, nothing), whichever pooled buffers sync.Pool hands out, every buffer in the pool is empty:
   every return path of the two functions gives its buffers back cleared *)
Theorem C07_pool_invariant :
  forall (packet : Type) (marshal : packet -> list Z) (unmarshal : list Z -> res packet) ws t
         (h : list (event packet)) p,
  pool_inv p -> pool_inv (run packet marshal unmarshal ws t h p).
Proof. exact pool_invariant. Qed.
Print Assumptions C07_pool_invariant.

(* hence a packet sent after any such history is read back identically *)
Theorem C07_history_roundtrip :
  forall (zlib_enc gzip_enc : list Z -> list Z) (zlib_dec gzip_dec : list Z -> res (list Z)),
  lossless {| w_enc := zlib_enc; w_dec := zlib_dec |} ->
  lossless {| w_enc := gzip_enc; w_dec := gzip_dec |} ->
  forall aes : list Z -> list Z -> list Z, (forall key, block_fn_bytes (aes key)) ->
  forall (packet : Type) (marshal : packet -> list Z) (unmarshal : list Z -> res packet),
  (forall p, bytes (marshal p)) -> (forall p, unmarshal (marshal p) = Ok p) ->
  forall es t (h : list (event packet)), Forall welem_ok es ->
  forall enc, (forall x, tr_sends t x (enc x)) ->
  forall pick pick1 pick2 n,
  let ws := map (welem_w zlib_enc gzip_enc zlib_dec gzip_dec aes) es in
  let p := run packet marshal unmarshal ws t h [] in
  let sent := write_packet packet marshal ws t enc pick p n in
  snd sent <> [] ->
  snd (read_packet packet unmarshal ws t true pick1 pick2 (fst sent) (snd sent)) = Ok n.
Proof. exact history_roundtrip. Qed.
Print Assumptions C07_history_roundtrip.

(* the clearing is what the property rests on: with the transform's error path putting its output
   buffer back uncleared, [DNS stream cut after a complete record; ordinary round trip] fails *)
Theorem C07_uncleared_put_refuted :
  let '(p1, st1, _) := nc_read [] nc_cut in
  st1 = RTransform /\ pool_clean p1 = false /\
  let '(p2, w) := write_packet (list Z) (fun p => p) [] (TDns false nc_dom) (tr_enc0 (TDns false nc_dom)) 0 p1 [1; 2; 3] in
  snd (nc_read p2 w) <> Ok [1; 2; 3].
Proof. exact unclear_put_breaks_later_roundtrip. Qed.
Print Assumptions C07_uncleared_put_refuted.

(* ---- non-vacuity: a concrete stack hex / XOR(3-byte key) / CBK-16 / base64 with overlapping step
        pairs (|g-h| = 1), a 21-byte payload (42 bytes at the CBK layer: two full blocks and a
        partial one), the DNS transform with a trailing-dot domain: the hypotheses hold, the wire is
        not the payload, and the receive path returns it ---- *)
Definition nv_consts (k : nat) : kconst :=
  ([3; 250; 7; 11; 13; 17; 19; 23; 29; 31; 37; 41; 43; 47; 53; 59],
   [(0, 1); (1, 0); (3, 4); (7, 6); (5, 5); (2, 7)]%nat).
Definition nv_offs : list Z := [9; 8; 7; 6; 5; 4; 3; 2; 1; 0; 255; 254; 253; 252; 251; 250; 249].
Definition nv_stack : list welem := [WHex; WXor [1; 2; 3]; WCbk 16 nv_offs nv_consts; WB64].
Definition nv_ws : list wrapper :=
  map (welem_w (fun x => x) (fun x => x) (fun x => Ok x) (fun x => Ok x) (fun _ b => b)) nv_stack.
Definition nv_payload : list Z := [0; 255; 16; 32; 7; 9; 200; 100; 50; 25; 12; 6; 3; 1; 128; 64; 77; 88; 99; 11; 22].
Definition nv_wire : list Z :=
  dns_encode true [101; 120; 46; 99; 111; 109; 46] (fun k f => k + f) (wrap_stack nv_ws nv_payload).

Example C07_nonvacuous :
  Forall welem_ok nv_stack /\ bytes nv_payload /\
  len (wrap_stack nv_ws nv_payload) = 68 /\
  path_sends (list Z) (fun p => p) nv_ws (TDns true [[101; 120; 46; 99; 111; 109; 46]]) nv_payload nv_wire /\
  path_recv (list Z) (fun w => Ok w) nv_ws (TDns true [[101; 120; 46; 99; 111; 109; 46]]) nv_wire = Ok nv_payload.
Proof.
  split.
  { repeat constructor; cbn; try lia; try discriminate. }
  split.
  { repeat constructor; lia. }
  split; [vm_compute; reflexivity|]. split.
  - unfold path_sends, tr_sends. exists [101; 120; 46; 99; 111; 109; 46], (fun k f => k + f).
    split; [left; reflexivity | reflexivity].
  - vm_compute. reflexivity.
Qed.
