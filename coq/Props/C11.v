(* Props/C11.v -- property theorems for C11 (data.Chunk, the packet buffer). *)
From XMT Require Import Base.Prelude Model.Codec Model.Chunk Proofs.Chunk.

Theorem C11_clear_inv : forall s, inv (clear s).
Proof. exact clear_inv. Qed.
Print Assumptions C11_clear_inv.
