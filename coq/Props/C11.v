(* Props/C11.v -- property theorems for C11: data.Chunk, the packet buffer, behaves like a FIFO byte
   queue, never panics, never exceeds its Limit and reports exactly how many bytes it accepted.

   All statements are about Model.Chunk.step / run -- the functions `check` evaluates against the
   real data.Chunk in the correspondence run -- for ALL states satisfying the representation
   invariant, ALL operations with well-formed arguments (op_ok: byte slices hold bytes, widths are
   1/2/4/8, a positional index is not negative, a reader returns at most the 16 KiB it was offered)
   and ALL allocator answers (the oracle: the model allocates max(request, oracle), i.e. any
   capacity >= the request).  The specification is Model.Chunk.qstep: one step of a plain byte
   queue (q = unread bytes, p = retained read bytes that Seek can re-expose). *)
From XMT Require Import Base.Prelude Model.Codec Model.Chunk Proofs.Chunk.

(* refinement, invariant, limit and totality of one step in one statement *)
Theorem C11_step_refines_queue : forall s o orc, inv s -> op_ok o ->
  exists s' r, step s o orc = Ok (s', r) /\
    (inv s' /\ limit s' = limit s /\ (lim_ok s -> is_unmarshal o = false -> lim_ok s')) /\
    qstep (limit s) (past s) (abs s) o r (past s') (abs s').
Proof. exact step_refines. Qed.
Print Assumptions C11_step_refines_queue.

Theorem C11_inv_preserved : forall s o orc s' r, inv s -> op_ok o ->
  step s o orc = Ok (s', r) -> inv s' /\ limit s' = limit s.
Proof. exact inv_preserved. Qed.
Print Assumptions C11_inv_preserved.

(* no operation panics (and none fails with a model-only error): every step returns *)
Theorem C11_no_panic : forall s o orc, inv s -> op_ok o -> exists s' r, step s o orc = Ok (s', r).
Proof. exact no_panic. Qed.
Print Assumptions C11_no_panic.

Theorem C11_no_panic_history : forall l s, inv s -> ops_ok l ->
  exists s' rs, run s l = Ok (s', rs) /\ inv s'.
Proof. exact no_panic_run. Qed.
Print Assumptions C11_no_panic_history.

(* every history of the implementation is a history of the byte queue *)
Theorem C11_chunk_refines_queue : forall l s, inv s -> ops_ok l ->
  exists s' rs, run s l = Ok (s', rs) /\
    (inv s' /\ limit s' = limit s /\ (lim_ok s -> no_unmarshal l -> lim_ok s')) /\ length rs = length l /\
    qsteps (limit s) (past s) (abs s) (history l rs) (past s') (abs s').
Proof. exact run_refines. Qed.
Print Assumptions C11_chunk_refines_queue.

(* FIFO: along writes and reads, (queue before ++ everything accepted) = (everything taken from the
   front ++ queue after); with raw reads only, what was taken is what the readers received *)
Theorem C11_fifo_history : forall l s s' rs, inv s -> ops_ok l -> rw_ops l -> run s l = Ok (s', rs) ->
  exists t, abs s ++ accepted_all (history l rs) = t ++ abs s' /\
            (raw_ops l -> t = delivered_all (history l rs)).
Proof. exact fifo_history. Qed.
Print Assumptions C11_fifo_history.

(* from an empty chunk: the bytes read are a prefix of the bytes accepted, the rest is still queued *)
Theorem C11_read_is_prefix_of_accepted : forall l s s' rs,
  inv s -> abs s = [] -> ops_ok l -> rw_ops l -> raw_ops l -> run s l = Ok (s', rs) ->
  accepted_all (history l rs) = delivered_all (history l rs) ++ abs s'.
Proof. exact fifo_fresh. Qed.
Print Assumptions C11_read_is_prefix_of_accepted.

(* with a Limit the buffer never holds more than the Limit, after every step of every history
   (UnmarshalStream replaces the buffer by what the stream holds without looking at the Limit:
   it is not one of the writes the Limit governs and is excluded here) *)
Theorem C11_limit_invariant : forall l1 l2 s s' rs, inv s -> lim_ok s -> ops_ok (l1 ++ l2) -> no_unmarshal l1 ->
  run s (l1 ++ l2) = Ok (s', rs) ->
  exists s1 r1, run s l1 = Ok (s1, r1) /\ limit s1 = limit s /\ (0 < limit s -> blen s1 <= limit s).
Proof. exact limit_invariant. Qed.
Print Assumptions C11_limit_invariant.

(* Write reports exactly the number of bytes appended; it is short only with the limit error (or
   too-large, which needs a capacity beyond MaxSlice); an error on a non-empty slice means short *)
Theorem C11_write_reports_exact : forall s b orc, inv s -> byte_list b ->
  exists s' n e, step s (OWrite b) orc = Ok (s', RNE n e) /\
    0 <= n <= len b /\ abs s' = abs s ++ take n b /\
    (e = 0 \/ (e = ErrLimit /\ 0 < limit s) \/ (e = ErrTooLarge /\ MaxSlice < cap s + len b)) /\
    (e = 0 -> n = len b) /\ (n < len b -> e <> 0) /\ (e <> 0 -> b <> [] -> n < len b) /\
    (lim_ok s -> 0 < limit s -> blen s' <= limit s).
Proof. exact write_reports_exact. Qed.
Print Assumptions C11_write_reports_exact.

(* a typed write is all or nothing (true since fix 4f382ba) *)
Theorem C11_typed_write_atomic : forall s o orc s' e, inv s -> op_ok o ->
  (exists w v, o = OWriteFixed w v) \/ (exists b, o = OWriteBytes b) ->
  step s o orc = Ok (s', RErr e) ->
  (e <> 0 -> abs s' = abs s) /\ (e = 0 -> abs s' = abs s ++ accepted o (RErr 0)).
Proof. exact typed_write_atomic. Qed.
Print Assumptions C11_typed_write_atomic.

(* regression: the two defects that were repaired, against copies of the old definitions *)
Theorem C11_writebytes_stray_refuted_before_fix :
  exists s b o s' e, inv s /\ byte_list b /\ write_bytes_old s b o = Ok (s', e) /\ e = ErrLimit /\
    abs s' = [0] /\ abs s = [].
Proof. exact writebytes_stray_refuted. Qed.
Print Assumptions C11_writebytes_stray_refuted_before_fix.

Theorem C11_slide_limit_refuted_before_fix :
  exists s1 s2 s3 d, write (init_state 8 None) (gen 1 8) 0 = Ok (s1, (8, 0)) /\
    read s1 1 = Ok (s2, (d, 0)) /\ inv s2 /\ lim_ok s2 /\
    write_old s2 (gen 1 2) 0 = Ok (s3, (2, 0)) /\ limit s3 = 8 /\ blen s3 = 9.
Proof. exact slide_limit_refuted. Qed.
Print Assumptions C11_slide_limit_refuted_before_fix.

(* non-vacuity: a concrete history under Limit 8 satisfies every hypothesis above, and its result *)
Example C11_nonvacuous_hypotheses : inv (init_state 8 None) /\ lim_ok (init_state 8 None) /\ ops_ok demo_ops.
Proof. exact demo_ok. Qed.
Print Assumptions C11_nonvacuous_hypotheses.

Example C11_nonvacuous_run :
  exists s', run (init_state 8 None) demo_ops =
      Ok (s', [RNE 6 0; RData [1;2;3;4] 0; RNE 2 ErrLimit; RVal 1286 0; RData [7;8] 0; RData [] EOF;
               RErr 0; RErr 0; RVal 513 0; RData [42;43] 0; RNE 2 ErrLimit]) /\
    abs s' = [9;9] /\ blen s' = 8 /\ limit s' = 8.
Proof. exact demo_run. Qed.
Print Assumptions C11_nonvacuous_run.
