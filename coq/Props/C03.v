(* Props/C03.v -- property theorems for C03 (batching queued packets loses, duplicates or
   reorders nothing).  Only statements; every proof is `exact <lemma>`; Print Assumptions under
   each.  The functions are those of Model/Batch.v that `check` evaluates on every generated
   queue: session_next (Session.next / pick / nextPacket / writeUnpack / mergeTags),
   recv_tx (conn.process / receive / processMultiple), drain (next() until nothing is pending).

   Reading aid:
     wf_conf c        the session has a non-empty device ID and limits.Packets < 65536
     queueable p      p is something a session queues: not itself a container or oneshot packet,
                      a fragment carries its count, job number assigned, valid tags
     all_reg reg i q  every foreign device in q has a session on the receiving listener
     direct i p       what the peer does with p when p arrives on its own at the session of its
                      device (the list of packets handed to receiveSingle / the fragment table)
     abandon i l q    q without the leading run of packets of the abandoned group l (state.Last)
     untag_d          forgets the tags of a delivered packet (the peer clears the tags of packed
                      packets; ID, job, device, flags, payload length and content id are kept) *)
From XMT Require Import Base.Prelude Model.Batch Proofs.Batch.

(* ---- drain_delivers_queue ---------------------------------------------------------------
   For ALL queues and however many transmissions the drain takes: the concatenation, over the
   successive transmissions, of what the receiver's unpacking hands to its per-packet processing
   is exactly what it would have seen had every queued packet arrived on its own, in queue order,
   each once.  Keep-alives contribute nothing (direct i p = [] for them), the abandoned group is
   skipped.  No size hypothesis: an oversized packet is sent on its own. *)
Theorem C03_drain_delivers_queue :
  forall c reg last q,
    wf_conf c -> Forall (fun p => queueable p = true) q -> all_reg reg (c_own c) q ->
    map untag_d (deliveries (drain c reg (mkS q None last))) =
    flat_map (direct (c_own c)) (abandon (c_own c) last q).
Proof. exact drain_delivers_queue. Qed.
Print Assumptions C03_drain_delivers_queue.

(* The same in the literal form of the property: when the queue holds keep-alives and ordinary
   data packets (`plain`: not the SvComplete notice, fragments carry a count >= 2), the delivered
   sequence IS the queued sequence without the keep-alives, each packet delivered to the session
   of its device with id, job, device, flags, length and content intact. *)
Theorem C03_drain_delivers_plain :
  forall c reg last q,
    wf_conf c ->
    Forall (fun p => queueable p = true /\ (is_nop p = true \/ plain p = true)) q ->
    all_reg reg (c_own c) q ->
    map untag_d (deliveries (drain c reg (mkS q None last))) =
    map (to_own (c_own c)) (filter (fun p => negb (is_nop p)) (abandon (c_own c) last q)).
Proof. exact drain_delivers_plain. Qed.
Print Assumptions C03_drain_delivers_plain.

(* Queues that hold CONTAINERS as well (Proxy.notify re-queues the batch of a proxied client whole on
   the parent Session; writeUnpack splices such a batch into the next transmission, whichever of
   FlagMulti / FlagMultiDevice it carries): the delivered sequence is the flattening of the queue.
   item_ok: an ordinary queueable packet (own, or for a registered device) or a container that counts
   the packets it holds, all of them ordinary packets with a device (an own container holds own
   packets; the packets of a foreign one are ours or for registered devices).  The count bound is
   fragMax: the 16-bit packet count of a container. *)
Theorem C03_drain_delivers_containers :
  forall c reg last q,
    wf_conf c -> Forall (fun p => item_ok reg (c_own c) p = true) q -> len (flatten q) <= FRAG_MAX ->
    map untag_d (deliveries (drain c reg (mkS q None last))) =
    flat_map (direct (c_own c)) (flatten (abandon (c_own c) last q)).
Proof. exact drain_delivers_items. Qed.
Print Assumptions C03_drain_delivers_containers.

(* a non-keep-alive ordinary packet on its own is handed over unchanged *)
Theorem C03_direct_plain_is_identity :
  forall i p, i <> 0 -> queueable p = true -> plain p = true -> is_nop p = false ->
    direct i p = [to_own i p].
Proof. exact direct_plain. Qed.
Print Assumptions C03_direct_plain_is_identity.

(* ---- carry_over_never_lost ---------------------------------------------------------------
   From ANY state: the packet that did not fit the budget becomes peek, it is one of the pending
   packets, and it is the first packet of the next transmission (tags aside: next() replaces the
   tags of the packet it picks when a proxy is active). *)
Theorem C03_carry_over_never_lost :
  forall c st tx st' k,
    wf_conf c -> Forall (fun p => queueable p = true) (pending st) ->
    session_next c st = (Some tx, st') -> s_peek st' = Some k ->
    In k (pending st) /\
    exists tx' st'', session_next c st' = (Some tx', st'') /\
      exists v, first_packet tx' = Some v /\ untag v = untag (norm (c_own c) k).
Proof. exact carry_over_q. Qed.
Print Assumptions C03_carry_over_never_lost.

(* ---- batch_within_budget -------------------------------------------------------------------
   From ANY state: a container with more than one packet has total Size() <= limits.Frag, at most
   limits.Packets packets, and its Len field is the number of packets in it. *)
Theorem C03_batch_within_budget :
  forall c st o st',
    wf_conf c -> Forall (fun p => queueable p = true) (pending st) ->
    session_next c st = (Some (TMulti o), st') -> 1 < len (c_in o) ->
    sum_size (c_in o) <= c_frag c /\ len (c_in o) <= c_packets c /\ f_len (c_fl o) = len (c_in o).
Proof. exact session_next_budget. Qed.
Print Assumptions C03_batch_within_budget.

(* ... in particular for every transmission of every drain *)
Theorem C03_drain_batches_within_budget :
  forall c reg last q s o,
    wf_conf c -> Forall (fun p => queueable p = true) q -> all_reg reg (c_own c) q ->
    In s (drain c reg (mkS q None last)) -> st_tx s = TMulti o -> 1 < len (c_in o) ->
    sum_size (c_in o) <= c_frag c /\ len (c_in o) <= c_packets c /\ f_len (c_fl o) = len (c_in o).
Proof. exact drain_batches_within_budget. Qed.
Print Assumptions C03_drain_batches_within_budget.

(* ---- progress / termination ------------------------------------------------------------------
   Every transmission from a state with something pending consumes at least one packet; what
   remains pending is a proper suffix of what was pending (nothing is re-queued or reordered). *)
Theorem C03_progress :
  forall c reg st tx st',
    wf_conf c -> Forall (fun p => queueable p = true) (pending st) -> all_reg reg (c_own c) (pending st) ->
    session_next c st = (Some tx, st') -> pending st <> [] ->
    (length (pending st') < length (pending st))%nat /\
    exists pre, pre <> [] /\ pending st = pre ++ pending st'.
Proof. exact progress_q. Qed.
Print Assumptions C03_progress.

(* Hence the fuel of `drain` (number of queued packets + 1) never runs out: more fuel gives the
   same drain, every step is a call of next() on a suffix of the queue that makes progress, and
   after the last step nothing is pending. *)
Theorem C03_drain_terminates :
  forall c reg lg q,
    wf_conf c -> Forall (fun p => queueable p = true) q -> all_reg reg (c_own c) q ->
    (forall extra, drain_fuel c reg (S (length q) + extra) (mkS q None lg) = drain c reg (mkS q None lg)) /\
    (forall s, In s (drain c reg (mkS q None lg)) ->
       exists st0 pre, q = pre ++ pending st0 /\ session_next c st0 = (Some (st_tx s), st_after s) /\
                       (pending st0 <> [] -> (length (pending (st_after s)) < length (pending st0))%nat)) /\
    (forall s0, drain c reg (mkS q None lg) = [] \/
                pending (st_after (last (drain c reg (mkS q None lg)) s0)) = []).
Proof. exact drain_terminates. Qed.
Print Assumptions C03_drain_terminates.

(* ---- tags ---------------------------------------------------------------------------------------
   mergeTags returns exactly the union of its arguments (Go iterates a map: order unspecified,
   duplicates removed), and the tags of a transmission are exactly the tags next() started from
   (those of the packet picked first, or the proxy's) together with the tags of every packet in it. *)
Theorem C03_tags_preserved_as_set :
  forall a b y, In y (merge_tags a b) <-> In y a \/ In y b.
Proof. exact merge_tags_in. Qed.
Print Assumptions C03_tags_preserved_as_set.

Theorem C03_transmission_tags :
  forall c reg st tx st',
    wf_conf c -> Forall (fun p => queueable p = true) (pending st) -> all_reg reg (c_own c) (pending st) ->
    session_next c st = (Some tx, st') ->
    forall y, In y (tx_tags tx) <->
              In y (first_tags c st) \/ exists v, In v (tx_packets tx) /\ In y (p_tags v).
Proof. exact session_next_tags. Qed.
Print Assumptions C03_transmission_tags.

(* ---- abandoned_group_skipped ------------------------------------------------------------------
   What next() leaves out because the peer abandoned group l is exactly the leading run of packets
   of group l.  Exceptions, as in the code: a lone packet of our own is sent regardless; a picked
   packet of our own that carries key material (FlagCrypt) is sent alone regardless and leaves the
   group abandoned for the call after it.  With l = 0 nothing is left out. *)
Theorem C03_abandoned_group_skipped :
  forall i l q,
    abandon i l q =
    match q with
    | [] => []
    | n :: r =>
      if is_nil r && is_own i n then q
      else if f_crypt (p_fl n) && is_own i n then n :: abandon i l r
      else if 0 <? l then dropwhile (in_group l) q else q
    end.
Proof. exact abandon_spec. Qed.
Print Assumptions C03_abandoned_group_skipped.

Theorem C03_nothing_abandoned_without_request :
  forall i q, abandon i 0 q = q.
Proof. exact abandon_zero. Qed.
Print Assumptions C03_nothing_abandoned_without_request.

(* ---- the keep-alive-only queue (observation, not a violation) -----------------------------------
   A queue of at least two keep-alives of our own yields a container with Len = 0 which the peer
   rejects with ErrInvalidPacketCount; nothing is delivered, which is what the property asks for. *)
Theorem C03_keepalive_only_queue_rejected :
  forall c reg q,
    wf_conf c -> 2 <= c_packets c -> (2 <= length q)%nat ->
    Forall (fun p => own_nop (c_own c) p = true) q ->
    exists o st', session_next c (mkS q None 0) = (Some (TMulti o), st') /\
      f_len (c_fl o) = 0 /\ c_in o = [] /\ recv_tx reg (c_own c) (TMulti o) = ([], E_COUNT).
Proof. exact all_nop_rejected. Qed.
Print Assumptions C03_keepalive_only_queue_rejected.

(* ... and that is the only error the receiver can report during a drain *)
Theorem C03_drain_errors_only_empty_container :
  forall c reg last q s,
    wf_conf c -> Forall (fun p => queueable p = true) q -> all_reg reg (c_own c) q ->
    In s (drain c reg (mkS q None last)) ->
    st_err s = 0 \/
    (st_err s = E_COUNT /\ st_dlv s = [] /\ exists o, st_tx s = TMulti o /\ c_in o = []).
Proof. exact drain_errors. Qed.
Print Assumptions C03_drain_errors_only_empty_container.

(* ---- the proxying case: the queue a Proxy holds for one of its clients ------------------------------
   c2/proxy.go proxyClient.pick / next (pc_next) is a second, smaller copy of Session.pick / next
   over the same nextPacket; the client's side is receive(s, nil, n) (recv_client).  Every packet in
   such a queue is for the client's device (Proxy.accept routes by device).  pc_drain polls until
   nothing is pending and then `extra` more times, as a client does on every sleep interval. *)
Theorem C03_proxy_drain_delivers_queue :
  forall c extra q,
    wf_conf c -> Forall (fun p => queueable p = true) q ->
    Forall (fun p => is_own (c_own c) p = true) q ->
    map untag_d (deliveries (pc_drain c extra (mkS q None 0))) = flat_map (direct (c_own c)) q.
Proof. exact pc_drain_delivers_queue. Qed.
Print Assumptions C03_proxy_drain_delivers_queue.

Theorem C03_proxy_drain_delivers_containers :
  forall c extra q,
    wf_conf c -> Forall (fun p => item_ok noreg (c_own c) p = true) q -> len (flatten q) <= FRAG_MAX ->
    map untag_d (deliveries (pc_drain c extra (mkS q None 0))) = flat_map (direct (c_own c)) (flatten q).
Proof. exact pc_drain_delivers_items. Qed.
Print Assumptions C03_proxy_drain_delivers_containers.

Theorem C03_proxy_drain_delivers_plain :
  forall c extra q,
    wf_conf c ->
    Forall (fun p => queueable p = true /\ (is_nop p = true \/ plain p = true)) q ->
    Forall (fun p => is_own (c_own c) p = true) q ->
    map untag_d (deliveries (pc_drain c extra (mkS q None 0))) =
    map (to_own (c_own c)) (filter (fun p => negb (is_nop p)) q).
Proof. exact pc_drain_delivers_plain. Qed.
Print Assumptions C03_proxy_drain_delivers_plain.

(* once nothing is pending, every further poll yields keep-alives only, delivers nothing and leaves
   nothing pending (no packet is handed out twice) *)
Theorem C03_proxy_idle_polls_only_keepalives :
  forall c n st s,
    wf_conf c -> pending st = [] -> In s (pc_polls c n st) ->
    st_dlv s = [] /\ (forall p, In p (tx_packets (st_tx s)) -> is_nop p = true) /\ pending (st_after s) = [].
Proof. exact pc_idle_polls_only_keepalives. Qed.
Print Assumptions C03_proxy_idle_polls_only_keepalives.

(* the carried-over packet is peek, opens the next transmission, and the slot then holds nothing
   but a packet carried over from the rest of the queue *)
Theorem C03_proxy_carry_over_never_lost :
  forall c st tx st' k,
    wf_conf c -> Forall (fun p => packable p = true) (pending st) ->
    pc_next c st = (Some tx, st') -> s_peek st' = Some k ->
    In k (pending st) /\
    exists tx' st'', pc_next c st' = (Some tx', st'') /\
      (exists v, first_packet tx' = Some v /\ untag v = untag (norm (c_own c) k)) /\
      (forall k', s_peek st'' = Some k' -> In k' (s_q st')).
Proof. exact pc_carry_over. Qed.
Print Assumptions C03_proxy_carry_over_never_lost.

(* proxyClient.next is Session.next without proxy tags, key-material rule, abandoned group and
   mergeTags: same packets consumed and left, same transmission up to the merged tags *)
Theorem C03_proxy_next_is_session_next :
  forall c st,
    c_ptags c = None -> s_last st = 0 ->
    (forall n0 q, pending st = n0 :: q -> q <> [] -> f_crypt (p_fl n0) && is_own (c_own c) n0 = false) ->
    snd (session_next c st) = snd (pc_next c st) /\
    match fst (pc_next c st), fst (session_next c st) with
    | Some x, Some y => y = x \/ y = tx_set_tags x (merge_tags (tx_tags x) (first_tags c st))
    | None, None => True
    | _, _ => False
    end.
Proof. exact session_next_is_pc_next. Qed.
Print Assumptions C03_proxy_next_is_session_next.

(* ---- the receiver hosts a Proxy ---------------------------------------------------------------------
   receive(s, nil, n) on a client Session with an active Proxy (recv_host; prox = its proxied clients):
   direct_h prox i p = the host's own handlers for a packet of the host, the QUEUE of the proxied
   client p names otherwise.  Delivered, over the whole drain: every queued packet, in order, each once,
   at the destination its Device names - runs of consecutive packets for the same device included. *)
Theorem C03_host_drain_delivers_queue :
  forall c prox last q,
    wf_conf c -> Forall (fun p => queueable p = true) q -> all_reg prox (c_own c) q ->
    map untag_d (deliveries (hdrain c prox (mkS q None last))) =
    flat_map (direct_h prox (c_own c)) (abandon (c_own c) last q).
Proof. exact hdrain_delivers_queue. Qed.
Print Assumptions C03_host_drain_delivers_queue.

Theorem C03_host_routes_by_device :
  forall c prox last q d,
    wf_conf c -> Forall (fun p => queueable p = true) q -> all_reg prox (c_own c) q ->
    In d (deliveries (hdrain c prox (mkS q None last))) -> d_sid d = p_dev (d_pkt d).
Proof. exact hdrain_routes_by_device. Qed.
Print Assumptions C03_host_routes_by_device.

(* ---- non-vacuity ---------------------------------------------------------------------------------
   F = 256 KiB, Packets = 32, own device 1, device 2 registered.  Queue: a large own packet, a
   keep-alive, a tagged packet for device 2, a small packet with an empty device ID, a large own
   packet, a small own packet carrying key material (flag word 256 = FlagCrypt), a small own packet.
   Five transmissions: [p1] (the keep-alive is elided, p2 does not fit and is carried over), a
   multi-device container [p2; p3], [p4] which did not fit either (p5 is carried over in turn), [p5] alone
   because it is the picked packet and carries key material, [p6]. *)
Definition ex_conf : conf := mkConf 262144 32 1 false None.
Definition ex_reg (d : Z) : bool := d =? 2.
Definition ex_queue : list packet :=
  [ pk 7 1 1 0 [] 200000 11; keepalive 1 []; pk 8 2 2 0 [5] 100000 12; pk 9 3 0 0 [] 10 13; pk 10 4 1 0 [] 262090 14;
    pk 11 5 1 256 [] 0 0; pk 12 6 1 0 [] 30 16 ].

Example C03_nonvacuous :
  wf_conf ex_conf /\
  Forall (fun p => queueable p = true /\ (is_nop p = true \/ plain p = true)) ex_queue /\
  all_reg ex_reg (c_own ex_conf) ex_queue /\
  length (drain ex_conf ex_reg (mkS ex_queue None 0)) = 5%nat /\
  map (fun s => s_peek (st_after s)) (drain ex_conf ex_reg (mkS ex_queue None 0)) =
    [Some (pk 8 2 2 0 [5] 100000 12); Some (pk 10 4 1 0 [] 262090 14); Some (pk 11 5 1 256 [] 0 0); None; None] /\
  map (fun s => len (tx_packets (st_tx s))) (drain ex_conf ex_reg (mkS ex_queue None 0)) = [1; 2; 1; 1; 1] /\
  map untag_d (deliveries (drain ex_conf ex_reg (mkS ex_queue None 0))) =
    [ dl 1 7 1 1 0 [] 200000 11; dl 2 8 2 2 0 [] 100000 12; dl 1 9 3 1 0 [] 10 13; dl 1 10 4 1 0 [] 262090 14;
      dl 1 11 5 1 256 [] 0 0; dl 1 12 6 1 0 [] 30 16 ].
Proof.
  split; [vm_compute; split; [discriminate|reflexivity]|].
  split; [repeat (constructor; [vm_compute; split; [reflexivity|auto]|]); constructor|].
  split; [repeat (constructor; [vm_compute; auto|]); constructor|].
  repeat split; vm_compute; reflexivity.
Qed.

(* the proxy's queue: two packets that cannot share a transmission, the carried-over one is the
   last one queued; 2 polls drain it, 2 more polls yield keep-alives; each packet delivered once *)
Example C03_proxy_nonvacuous :
  let q := [ pk 80 500 1 0 [] 132096 21; pk 81 501 1 0 [] 132096 22 ] in
  Forall (fun p => queueable p = true /\ (is_nop p = true \/ plain p = true)) q /\
  Forall (fun p => is_own (c_own ex_conf) p = true) q /\
  map (fun s => s_peek (st_after s)) (pc_drain ex_conf 2 (mkS q None 0)) =
    [Some (pk 81 501 1 0 [] 132096 22); None; None; None] /\
  map untag_d (deliveries (pc_drain ex_conf 2 (mkS q None 0))) =
    [ dl 1 80 500 1 0 [] 132096 21; dl 1 81 501 1 0 [] 132096 22 ].
Proof.
  cbv zeta.
  split; [repeat (constructor; [vm_compute; split; [reflexivity|auto]|]); constructor|].
  split; [repeat (constructor; [vm_compute; reflexivity|]); constructor|].
  split; vm_compute; reflexivity.
Qed.

(* a proxying Session: its own packet, then the batch of client 2 re-queued whole (FlagMulti |
   FlagProxy | FlagFrag, count 2 = flag word 562949953421319); device 2 is registered.  One
   multi-device transmission delivers A to session 1 and X1, X2 to session 2, in order. *)
Example C03_containers_nonvacuous :
  let q := [ pk 8 11 1 0 [] 1 31; pkc 0 0 2 562949953421319 [] 97 [ pk 8 21 2 0 [] 2 32; pk 8 22 2 0 [] 2 33 ] ] in
  Forall (fun p => item_ok ex_reg (c_own ex_conf) p = true) q /\ len (flatten q) <= FRAG_MAX /\
  map (fun s => len (tx_packets (st_tx s))) (drain ex_conf ex_reg (mkS q None 0)) = [3] /\
  map untag_d (deliveries (drain ex_conf ex_reg (mkS q None 0))) =
    [ dl 1 8 11 1 0 [] 1 31; dl 2 8 21 2 0 [] 2 32; dl 2 8 22 2 0 [] 2 33 ].
Proof.
  cbv zeta. split; [repeat (constructor; [vm_compute; reflexivity|]); constructor|].
  split; [vm_compute; discriminate|]. split; vm_compute; reflexivity.
Qed.

(* host 1 with proxied client 2, queue [S1; S2; H3; S4] (S = device 2): one multi-device batch; the
   host's handlers see H3, the queue of client 2 gets S1, S2, S4 in order *)
Example C03_host_nonvacuous :
  let q := [ pk 8 1 2 0 [] 3 41; pk 9 2 2 0 [] 3 42; pk 10 3 1 0 [] 3 43; pk 11 4 2 0 [] 3 44 ] in
  Forall (fun p => queueable p = true) q /\ all_reg ex_reg (c_own ex_conf) q /\
  map untag_d (deliveries (hdrain ex_conf ex_reg (mkS q None 0))) =
    [ dl 2 8 1 2 0 [] 3 41; dl 2 9 2 2 0 [] 3 42; dl 1 10 3 1 0 [] 3 43; dl 2 11 4 2 0 [] 3 44 ].
Proof.
  cbv zeta. split; [repeat (constructor; [vm_compute; reflexivity|]); constructor|].
  split; [repeat (constructor; [vm_compute; auto|]); constructor|]. vm_compute. reflexivity.
Qed.
