(* Props/C03.v -- stub *)
From XMT Require Import Base.Prelude Model.Batch Proofs.Batch.
Theorem C03_stub : True. Proof. exact stub_true. Qed.
Print Assumptions C03_stub.
