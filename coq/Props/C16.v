(* Props/C16.v -- closing always terminates cleanly on both sides, from any state, repeatedly.

   Setting of every theorem: the step list of the repaired tree ([New]), a registered client /
   server pair with its five service goroutines ([pool0]: client listen, client eventer, server
   loop, listener, the handler for delivered shutdown notices), ANY list [calls] of close calls
   ([entry]: Session.Close on either end, context cancel, Server.Remove, extra handlers for
   SvShutdown packets a peer sends on its own, Listener.Close, Server.Close, in any number),
   ANY schedule [sched] (list of thread indices of any length), all protocol-state flags of
   [world0] (Packets() on either side, channel mode, server reachable, client calls back).
   A call "issued later" is a thread the schedule does not pick until later, so "from any
   reachable state" is covered by quantifying over all schedules. *)
From Coq Require Import List Lia Bool Arith.
From XMT Require Import Base.Prelude Model.Close Proofs.Close.
Import ListNotations.
Local Open Scope nat_scope.

(* ---- channels_closed_once ---------------------------------------------------------------- *)
(* no interleaving of any number of close calls reaches a fault: no channel is closed twice or
   while nil, no send hits a closed channel (=> no run-time panic of the modelled steps) *)
Theorem C16_channels_closed_once :
  forall cpk spk chm rch cbk calls sched,
    forallb entry calls = true ->
    faulted (run New sched (pool0 calls) (world0 cpk spk chm rch cbk)) = false.
Proof. exact channels_closed_once. Qed.
Print Assumptions C16_channels_closed_once.

(* the state bits and the channels agree in every reachable state *)
Theorem C16_flags_match_channels :
  forall cpk spk chm rch cbk calls sched pool w,
    forallb entry calls = true ->
    run New sched (pool0 calls) (world0 cpk spk chm rch cbk) = Running pool w ->
    sess_ok (cli w) = true /\ sess_ok (srv w) = true.
Proof. exact flags_match_channels. Qed.
Print Assumptions C16_flags_match_channels.

(* ---- closed_is_final: any step list, any state, any pool, any schedule -------------------- *)
Theorem C16_closed_is_final :
  forall m sched pool w pool' w', run m sched pool w = Running pool' w' -> world_le w w' = true.
Proof. exact closed_is_final. Qed.
Print Assumptions C16_closed_is_final.

(* ---- close_returns ------------------------------------------------------------------------ *)
(* Session.Close on the client waits for s.ch.  In any reachable state in which some thread
   stands in Close after Set(stateClosing) (CC3, CC4 or the wait CC5), every continuation in
   which the listen goroutine (thread 0) gets 16 steps ends with s.ch closed, so the waiting
   call returns at its next step -- and for ever after (closed_is_final).  Fairness assumption:
   "thread 0 occurs 16 times"; the listen goroutine is never blocked while Closing is set. *)
Theorem C16_close_returns_client :
  forall cpk spk chm rch cbk calls s0 pool w j q s1 pool' w',
    forallb entry calls = true ->
    run New s0 (pool0 calls) (world0 cpk spk chm rch cbk) = Running pool w ->
    nth_error pool j = Some q -> at_cc35 q = true ->
    16 <= count_occ_nat 0 s1 ->
    run New s1 pool w = Running pool' w' ->
    is_closed (done (cli w')) = true /\ exec New CC5 w' = Step w' PDone.
Proof. exact close_returns_client. Qed.
Print Assumptions C16_close_returns_client.

(* Listener.Close waits for l.ch: released once the listener goroutine (thread 3) got 5 steps.
   The calls range over [entry], which contains Listener.Replace to an address that can be bound
   ([LR0 true]) and to one that cannot ([LR0 false]; the failed Replace runs Close itself, with
   stateReplacing left set and the socket nil): every history of Replace(ok) / Replace(fails) /
   Close / Server.Close in any order, number and interleaving.  The accept loop tests Closing
   BEFORE "socket nil and being replaced: nap and retry" -- with the two guards swapped
   [listener_step] is false (the loop naps for ever after a failed Replace). *)
Theorem C16_close_returns_listener :
  forall cpk spk chm rch cbk calls s0 pool w j q s1 pool' w' r,
    forallb entry calls = true ->
    run New s0 (pool0 calls) (world0 cpk spk chm rch cbk) = Running pool w ->
    nth_error pool j = Some q -> at_lc24 q = true ->
    5 <= count_occ_nat 3 s1 ->
    run New s1 pool w = Running pool' w' ->
    is_closed (l_done w') = true /\ exec New (LC4 r) w' = Step w' (ret_pc r).
Proof. exact close_returns_listener. Qed.
Print Assumptions C16_close_returns_listener.

(* Server.Close / a cancelled Server context with ANY number n of Listeners (delListener holds 16
   names): the repaired shutdown finishes under the fair round-robin schedule, it is never
   stuck (while it has not finished some thread can step) and every step lowers a measure, so
   it finishes under every schedule that keeps picking a thread that can step. *)
Theorem C16_server_close_returns_n :
  forall n, ns_fin (ns_run New (ns_fair n) (ns_init n)) = true.
Proof. exact server_close_returns_n. Qed.
Print Assumptions C16_server_close_returns_n.

Theorem C16_server_close_never_stuck :
  forall s, ns_fin s = false -> exists t, In t (ns_threads (length (ns_ls s))) /\ ns_step New t s <> None.
Proof. exact ns_no_deadlock. Qed.
Print Assumptions C16_server_close_never_stuck.

Theorem C16_server_close_steps_bounded :
  forall m t s s', ns_step m t s = Some s' -> ns_mu s' < ns_mu s /\ length (ns_ls s') = length (ns_ls s).
Proof. exact ns_step_mu. Qed.
Print Assumptions C16_server_close_steps_bounded.

(* ---- peer_notified ------------------------------------------------------------------------- *)
(* a closed client whose server was reachable has sent SvShutdown in its last transmission *)
Theorem C16_peer_notified_client :
  forall cpk spk chm rch cbk calls sched pool w,
    forallb entry calls = true ->
    run New sched (pool0 calls) (world0 cpk spk chm rch cbk) = Running pool w ->
    closed (cli w) = true -> reachable w = true -> sent_shut w = true.
Proof. exact peer_notified_client. Qed.
Print Assumptions C16_peer_notified_client.

(* a server-side Close queues the notice ... *)
Theorem C16_server_close_queues_notice :
  forall m r w,
    exec m (SC2 r) w = Step (put Srv (set_peek true (srv w)) w) (SC3 r) /\
    peek (srv (put Srv (set_peek true (srv w)) w)) = true.
Proof. exact server_close_queues_notice. Qed.
Print Assumptions C16_server_close_queues_notice.

(* ... the next exchange of a reachable client that calls back delivers it (hypothesis "the
   peer performs one more exchange" = callsback && reachable) ... *)
Theorem C16_notice_is_delivered :
  forall w, Closing (cli w) = false -> ctxdone w = false -> callsback w = true -> reachable w = true ->
    peek (srv w) = true -> exec New CL0 w = Step (put Srv (set_peek false (srv w)) w) CR0.
Proof. exact notice_is_delivered. Qed.
Print Assumptions C16_notice_is_delivered.

(* ... and its receipt closes the client: four steps of the listen goroutine later, whatever
   the other threads do in between, the client is closing *)
Theorem C16_receipt_closes_client :
  forall sched pool w pool' w',
    nth_error pool 0 = Some CR0 -> 4 <= count_occ_nat 0 sched ->
    run New sched pool w = Running pool' w' -> Closing (cli w') = true.
Proof. exact receipt_closes_client. Qed.
Print Assumptions C16_receipt_closes_client.

(* ---- server_forgets ------------------------------------------------------------------------- *)
(* a closed server-side session is unlisted once the removal requests its shutdown queued have
   been taken by the (running) server loop *)
Theorem C16_server_forgets :
  forall cpk spk chm rch cbk calls sched pool w,
    forallb entry calls = true ->
    run New sched (pool0 calls) (world0 cpk spk chm rch cbk) = Running pool w ->
    closed (srv w) = true -> sctx_done w = false -> delq w = 0 -> cnt at_sd12_srv pool = 0 ->
    listed w = false.
Proof. exact server_forgets. Qed.
Print Assumptions C16_server_forgets.

(* ---- regression: the step list of the tree before the repairs ------------------------------ *)
Theorem C16_double_close_ch_refuted :
  run Old sched_double_close (pool0 [SH0 false; SH0 false]) w_reg = Faulted (DoubleClose NDone) 6.
Proof. exact double_close_ch_refuted. Qed.
Print Assumptions C16_double_close_ch_refuted.

Theorem C16_double_close_ch_repaired :
  faulted (run New sched_double_close (pool0 [SH0 false; SH0 false]) w_reg) = false.
Proof. exact double_close_ch_repaired. Qed.
Print Assumptions C16_double_close_ch_repaired.

Theorem C16_eventer_spins_old :
  forall w, ctxdone w = false -> is_closed (mux (cli w)) = true ->
    exec Old CE0 w = Step w CE0 /\ exec New CE0 w = Step w PDone.
Proof. exact eventer_spins_old. Qed.
Print Assumptions C16_eventer_spins_old.

Theorem C16_send_on_closed_refuted :
  run Old sched_send_closed (pool0 [SH0 false; SH0 false]) w_reg = Faulted (SendOnClosed NSend) 5.
Proof. exact send_on_closed_refuted. Qed.
Print Assumptions C16_send_on_closed_refuted.

Theorem C16_final_notice_lost_refuted :
  notice_lost (run Old sched_notice_lost (pool0 [CC0 true; CX]) w_reg) = true /\
  notice_lost (run New sched_notice_lost (pool0 [CC0 true; CX]) w_reg) = false.
Proof. exact (conj final_notice_lost_refuted final_notice_repaired). Qed.
Print Assumptions C16_final_notice_lost_refuted.

(* Server.Remove's IsActive test, the whole Server.shutdown, then Remove's send (7 threads) *)
Theorem C16_remove_race_refuted :
  run Old sched_remove_race (pool0 [SH0 false; SV0]) (world0 false false false true false)
  = Faulted (SendOnClosed NDelS) 5 /\
  faulted (run New sched_remove_race (pool0 [SH0 false; SV0]) (world0 false false false true false)) = false.
Proof. exact (conj remove_race_refuted remove_race_repaired). Qed.
Print Assumptions C16_remove_race_refuted.

(* after Replace(fails); Replace(ok); Close in this order: all three returned, l.ch closed *)
Theorem C16_replace_history_example :
  match model_run New false false false true false [[21]; [20]; [10]]%Z with
  | Running pool w => forallb quiescent_pc (skipn (length service) pool) && is_closed (l_done w) && negb (l_repl w) && negb (l_nil w)
  | Faulted _ _ => false
  end = true.
Proof. exact replace_history_example. Qed.
Print Assumptions C16_replace_history_example.

(* 17 Listeners, the old shutdown: 16 names fill delListener, the 17th Listener blocks sending,
   shutdown waits for it without taking a name: nobody can move; the repaired one is not stuck *)
Theorem C16_many_listeners_refuted :
  ns_stuck Old (ns_run Old sched_many_listeners (ns_init 17)) = true /\
  ns_stuck New (ns_run New sched_many_listeners (ns_init 17)) = false.
Proof. exact many_listeners_refuted. Qed.
Print Assumptions C16_many_listeners_refuted.

(* ---- non-vacuity --------------------------------------------------------------------------- *)
(* three concurrent calls (client Close, server-side Close, context cancel) on a registered
   pair under the fair round-robin schedule: every call returns, both ends are closed and
   released, the notice went out, the server forgot the session, the client's goroutines ended *)
Example C16_nonvacuous_three_threads :
  all_done (model_run New false false false true true [[1; 4; 3]]%Z) = true.
Proof. exact nonvacuous_three_threads. Qed.
