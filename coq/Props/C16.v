From XMT Require Import Base.Prelude Model.Close Proofs.Close.
Theorem C16_placeholder : chan_eqb Open Open = true.
Proof. exact placeholder_c16. Qed.
Print Assumptions C16_placeholder.
