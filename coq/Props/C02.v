(* Props/C02.v -- property theorems for C02 (being written). *)
From XMT Require Import Base.Prelude Model.Frag Proofs.Frag.
Theorem C02_placeholder : True.
Proof. exact placeholder_true. Qed.
Print Assumptions C02_placeholder.
