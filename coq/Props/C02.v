(* Props/C02.v -- property C02: fragmented packets reassemble to exactly the original, for every
   size, every arrival order, interleaved groups; a group with a missing fragment delivers nothing;
   a completed group leaves no residue.

   All statements are about Model.Frag (split / write: Session.write + queue; recv / run: receive(),
   cluster.add, cluster.done; sweep: markSweepFrags) -- the definitions `Model.Frag.check` evaluates
   against the implementation on every run.  They hold for ALL limits F, payload types and payloads,
   group ids, histories (lists of packet arrivals and wake-ups) -- induction, no bounds.

   Hypotheses that the code forces (each has a `_refuted` witness below, and a recorded finding):
     - the fragment of position 0 arrives first            (receive(): unknown group, Position > 0 => SvDrop)
     - fewer than fragMaxMisses wake-ups between two successive arrivals of the group (markSweepFrags)
     - every fragment fits into the send queue              (queue(): non-blocking send)
   and HeaderSize <= F (every build has F >= 262144). *)
From Coq Require Import Permutation.
From XMT Require Import Base.Prelude Model.Frag Proofs.Frag.

(* ---- the sender: the split is exact ------------------------------------------------------------ *)
(* count = Size/F + 1; fragment i carries position i (mkfrag: u16 i), the announced count, the id,
   job, device and group, no tags, and exactly the bytes [i*F, (i+1)*F) of the payload (so at most F);
   the payloads concatenate to the original; fragment i is empty iff the payload ends at or before
   i*F; the count is never too small *)
Theorem C02_split_exact : forall (A : Type) (F g : Z) (n : packet A), 0 < F -> 0 <= p_tags n ->
  len (split F g n) = nfrag F n /\
  (forall i, 0 <= i < nfrag F n ->
     nth_error (split F g n) (Z.to_nat i) = Some (mkfrag n g (nfrag F n) i (take F (drop (i * F) (p_data n))))) /\
  concat (map p_data (split F g n)) = p_data n /\
  Forall (fun f => len (p_data f) <= F /\ p_id f = p_id n /\ p_job f = p_job n /\ p_dev f = p_dev n /\
                   p_tags f = 0 /\ f_group (p_flags f) = g /\ f_len (p_flags f) = u16 (nfrag F n) /\
                   has_frag (p_flags f) = true) (split F g n) /\
  (forall i, 0 <= i -> (is_nil (take F (drop (i * F) (p_data n))) = true <-> len (p_data n) <= i * F)) /\
  (len (p_data n) + F - 1) / F <= nfrag F n.
Proof. exact thm_split_exact. Qed.
Print Assumptions C02_split_exact.

(* write() queues exactly the (stamped) split whenever the queue has room for all of it *)
Theorem C02_write_queues_split : forall (A : Type) (F cap : Z) (w : bool) (local qlen g : Z) (n : packet A),
  0 < F -> 0 <= p_tags n -> F < size n ->
  (w = true \/ qlen + (nfrag F n - 1) < cap) -> nfrag F n <= cap - qlen ->
  write F cap w local qlen g n = (0, map (stamp local) (split F g n)).
Proof. exact thm_write_queues_split. Qed.
Print Assumptions C02_write_queues_split.

(* write(false, ...) -- Session.Write and Session.Task -- for EVERY occupancy of the queue and every
   fragment count: refused (ErrFullBuffer, nothing queued) exactly when not everything fits, otherwise
   nil and everything is queued.  (The single-packet path wants two free slots.) *)
Theorem C02_write_refusal_exact : forall (A : Type) (F cap local qlen g : Z) (n : packet A), 0 < F -> 0 <= p_tags n ->
  (size n <= F ->
     (cap <= qlen + 1 -> write F cap false local qlen g n = (ErrFullBuffer, [])) /\
     (qlen + 1 < cap -> write F cap false local qlen g n = (0, [stamp local n]))) /\
  (F < size n ->
     (cap - qlen < nfrag F n -> write F cap false local qlen g n = (ErrFullBuffer, [])) /\
     (nfrag F n <= cap - qlen -> write F cap false local qlen g n = (0, map (stamp local) (split F g n)))).
Proof. exact thm_write_refusal_exact. Qed.
Print Assumptions C02_write_refusal_exact.

Theorem C02_write_false_all_or_nothing : forall (A : Type) (F cap local qlen g : Z) (n : packet A), 0 < F -> 0 <= p_tags n ->
  (fst (write F cap false local qlen g n) = 0 ->
     snd (write F cap false local qlen g n) = map (stamp local) (if size n <=? F then [n] else split F g n)) /\
  (fst (write F cap false local qlen g n) <> 0 ->
     fst (write F cap false local qlen g n) = ErrFullBuffer /\ snd (write F cap false local qlen g n) = []).
Proof. exact thm_write_false_all_or_nothing. Qed.
Print Assumptions C02_write_false_all_or_nothing.

(* write(true, ...) has no such rule; the full statement without the room hypothesis:
     forall ..., write F cap true local qlen g n = (0, l) -> l = map (stamp local) (split F g n)
   is false of the model (= the code): *)
Theorem C02_split_fits_queue_refuted : exists (F cap local qlen g : Z) (n : packet Z),
  0 < F /\ F < size n /\ qlen + nfrag F n > cap /\
  fst (write F cap true local qlen g n) = 0 /\ len (snd (write F cap true local qlen g n)) < nfrag F n /\
  fst (write F cap false local qlen g n) = ErrFullBuffer.
Proof. exact thm_split_fits_queue_refuted. Qed.
Print Assumptions C02_split_fits_queue_refuted.

(* ---- the receiver ---------------------------------------------------------------------------------
   evs is ANY history of the receiving Session: arrivals of arbitrary packets (other groups, other
   kinds, malformed) and wake-ups, in any interleaving; the arrivals that carry group g are, in some
   order with position 0 first, exactly the fragments of n.  Then the receiver's reaction to those
   arrivals is: nothing, ..., nothing, deliver (the original: id, job, device, payload, flag bits
   with FlagFrag cleared) -- exactly once, at the last fragment -- and the group is absent from the
   table afterwards. *)
Theorem C02_reassemble_any_order : forall (A : Type) (F g self : Z) (n : packet A) (evs : list (ev A)) (st0 : state A),
  HeaderSize <= F -> 0 <= p_tags n -> F < size n -> nfrag F n <= 65535 -> addressed self n ->
  NoDup (map fst st0) -> lookup g st0 = None ->
  Permutation (own_pkts g evs) (split F g n) ->
  hd_error (own_pkts g evs) = hd_error (split F g n) ->
  paced g evs = true ->
  own_outs g evs (snd (run self st0 evs)) = repeat ONone (Z.to_nat (nfrag F n - 1)) ++ [ODeliver (reassembled n)] /\
  lookup g (fst (run self st0 evs)) = None.
Proof. exact thm_reassemble_any_order. Qed.
Print Assumptions C02_reassemble_any_order.

Theorem C02_no_residue : forall (A : Type) (F g self : Z) (n : packet A) (evs : list (ev A)),
  HeaderSize <= F -> 0 <= p_tags n -> F < size n -> nfrag F n <= 65535 -> addressed self n ->
  Permutation (own_pkts g evs) (split F g n) ->
  hd_error (own_pkts g evs) = hd_error (split F g n) ->
  paced g evs = true ->
  ~ In g (map fst (fst (run self [] evs))).
Proof. exact thm_no_residue. Qed.
Print Assumptions C02_no_residue.

(* the same when the fragments differ in their low flag bits: xb j are ARBITRARY bits OR-ed onto fragment j
   on its way (session()/channelWrite set FlagChannel / FlagChannelEnd on whatever goes out next, a proxy sets
   FlagProxy); only the Multi bit is excluded.  cluster.add (Packet.Belongs: both flag words non-zero, same ID,
   Job and group) accepts them all; the original comes out with the bits of its non-empty fragments merged *)
Theorem C02_reassemble_any_order_hop_flags : forall (A : Type) (F g self : Z) (n : packet A) (xb : nat -> Z) (evs : list (ev A)) (st0 : state A),
  HeaderSize <= F -> 0 <= p_tags n -> F < size n -> nfrag F n <= 65535 -> addressed self n ->
  (forall j, Z.testbit (xb j) 1 = false) ->
  NoDup (map fst st0) -> lookup g st0 = None ->
  Permutation (own_pkts g evs) (hop xb (split F g n)) ->
  hd_error (own_pkts g evs) = hd_error (hop xb (split F g n)) ->
  paced g evs = true ->
  own_outs g evs (snd (run self st0 evs)) =
    repeat ONone (Z.to_nat (nfrag F n - 1)) ++ [ODeliver (delivered_of (hop xb (split F g n)) n)] /\
  lookup g (fst (run self st0 evs)) = None.
Proof. exact thm_reassemble_hop_flags. Qed.
Print Assumptions C02_reassemble_any_order_hop_flags.

(* non-vacuity: FlagChannel on fragment 1, FlagChannelEnd on the empty fragment 2 *)
Theorem C02_hop_flags_nonvacuous :
  (forall j, Z.testbit (ExH.xb j) 1 = false) /\
  map (fun f => f_bits (p_flags f)) (hop ExH.xb (split Ex.F Ex.gA Ex.nA)) = [5; 21; 37] /\
  Permutation (own_pkts Ex.gA ExH.evs) (hop ExH.xb (split Ex.F Ex.gA Ex.nA)) /\
  hd_error (own_pkts Ex.gA ExH.evs) = hd_error (hop ExH.xb (split Ex.F Ex.gA Ex.nA)) /\ paced Ex.gA ExH.evs = true /\
  f_bits (p_flags (delivered_of (hop ExH.xb (split Ex.F Ex.gA Ex.nA)) Ex.nA)) = 20 /\
  own_outs Ex.gA ExH.evs (snd (run 1 [] ExH.evs)) =
    [ONone; ONone; ODeliver (delivered_of (hop ExH.xb (split Ex.F Ex.gA Ex.nA)) Ex.nA)].
Proof. exact ExH.ok. Qed.
Print Assumptions C02_hop_flags_nonvacuous.

(* the full statement (no `hd_error` hypothesis) is false of the model (= the code): *)
Theorem C02_reassemble_any_order_refuted : exists (F g self : Z) (n : packet Z) (evs : list (ev Z)),
  HeaderSize <= F /\ 0 <= p_tags n /\ F < size n /\ nfrag F n <= 65535 /\ addressed self n /\
  Permutation (own_pkts g evs) (split F g n) /\ paced g evs = true /\
  forallb (fun o => negb (is_deliver o)) (snd (run self [] evs)) = true.
Proof. exact thm_reassemble_pos0_refuted. Qed.
Print Assumptions C02_reassemble_any_order_refuted.

(* and so is the statement without pacing (five wake-ups between two fragments, identity order): *)
Theorem C02_reassemble_unpaced_refuted : exists (F g self : Z) (n : packet Z) (evs : list (ev Z)),
  HeaderSize <= F /\ 0 <= p_tags n /\ F < size n /\ nfrag F n <= 65535 /\ addressed self n /\
  own_pkts g evs = split F g n /\ paced g evs = false /\
  forallb (fun o => negb (is_deliver o)) (own_outs g evs (snd (run self [] evs))) = true.
Proof. exact thm_reassemble_pacing_refuted. Qed.
Print Assumptions C02_reassemble_unpaced_refuted.

(* and the statement for limits below the header size (no build has one) *)
Theorem C02_reassemble_tiny_limit_refuted : exists (F g self : Z) (n : packet Z),
  0 < F < HeaderSize /\ F < size n /\ addressed self n /\
  forallb (fun o => negb (is_deliver o)) (snd (run self [] (map EvPkt (split F g n)))) = true.
Proof. exact thm_tiny_limit_refuted. Qed.
Print Assumptions C02_reassemble_tiny_limit_refuted.

(* fewer arrivals of the group than fragments (in any order, with anything in between, whatever the
   pacing): nothing is delivered at any of them *)
Theorem C02_missing_delivers_nothing : forall (A : Type) (F g self : Z) (n : packet A) (evs : list (ev A)) (st0 : state A),
  0 < F -> 0 <= p_tags n -> F < size n -> nfrag F n <= 65535 ->
  lookup g st0 = None ->
  Forall (fun p => In p (split F g n)) (own_pkts g evs) ->
  len (own_pkts g evs) < nfrag F n ->
  Forall (fun o => is_deliver o = false) (own_outs g evs (snd (run self st0 evs))).
Proof. exact thm_missing_delivers_nothing. Qed.
Print Assumptions C02_missing_delivers_nothing.

(* "some fragment never arrives": any duplicate-free strict subset of the fragments *)
Theorem C02_strict_subset_delivers_nothing : forall (A : Type) (F g self : Z) (n : packet A) (evs : list (ev A)) (st0 : state A),
  0 < F -> 0 <= p_tags n -> F < size n -> nfrag F n <= 65535 ->
  lookup g st0 = None ->
  NoDup (own_pkts g evs) -> incl (own_pkts g evs) (split F g n) ->
  (exists f, In f (split F g n) /\ ~ In f (own_pkts g evs)) ->
  Forall (fun o => is_deliver o = false) (own_outs g evs (snd (run self st0 evs))).
Proof. exact thm_strict_subset_delivers_nothing. Qed.
Print Assumptions C02_strict_subset_delivers_nothing.

(* ---- the sweep ------------------------------------------------------------------------------------- *)
(* after ANY history, five wake-ups without traffic leave no reassembly state at all *)
Theorem C02_sweep_removes_stale : forall (A : Type) (self : Z) (evs : list (ev A)),
  Nat.iter 5 sweep (fst (run self [] evs)) = [].
Proof. exact thm_sweep_from_empty. Qed.
Print Assumptions C02_sweep_removes_stale.

Theorem C02_sweep_removes_stale_from : forall (A : Type) (self : Z) (evs : list (ev A)) (st0 : state A),
  counters_ok st0 -> Nat.iter 5 sweep (fst (run self st0 evs)) = [].
Proof. exact thm_sweep_removes_stale. Qed.
Print Assumptions C02_sweep_removes_stale_from.

(* one wake-up, exactly: for EVERY group id (0 and 65535 included) the cluster is kept with its counter
   decremented, or removed when its own counter reaches 0; ids that were absent stay absent *)
Theorem C02_sweep_removes_exactly : forall (A : Type) (st : state A), NoDup (map fst st) -> forall g,
  lookup g (sweep st) =
  match lookup g st with
  | Some c => if u8 (c_c c - 1) =? 0 then None
              else Some (mkCluster (c_max c) (c_e c) (u8 (c_c c - 1)) (c_data c))
  | None => None
  end.
Proof. exact thm_sweep_removes_exactly. Qed.
Print Assumptions C02_sweep_removes_exactly.

Theorem C02_sweep_keys_exactly : forall (A : Type) (st : state A), NoDup (map fst st) -> forall g,
  In g (map fst (sweep st)) <-> exists c, lookup g st = Some c /\ u8 (c_c c - 1) <> 0.
Proof. exact thm_sweep_keys_exactly. Qed.
Print Assumptions C02_sweep_keys_exactly.

(* one wake-up decrements the counter of a cluster and removes it exactly when the counter is used up *)
Theorem C02_sweep_counts_down : forall (A : Type) (g : Z) (st : state A) (c : cluster A),
  NoDup (map fst st) -> lookup g st = Some c ->
  (2 <= c_c c <= 256 -> lookup g (sweep st) = Some (mkCluster (c_max c) (c_e c) (c_c c - 1) (c_data c))) /\
  (c_c c = 1 -> lookup g (sweep st) = None).
Proof. exact thm_sweep_counts_down. Qed.
Print Assumptions C02_sweep_counts_down.

(* ---- the client's listen loop: failed passes are not misses -------------------------------------------
   listen_sim is the loop's error counter and sweep gate (`if s.errors == 0 { markSweepFrags() }`, the
   counter as the previous pass left it; Switch => errors--; refused connect / failed exchange => errors++;
   completed exchange => 0; the loop ends above maxErrors); listen_evs is the receiver-side history it
   produces from a list of passes (refused | lost | packet).  `check` runs the REAL listen loop through
   scripted passes and compares reactions, the counter after every pass, the end of the loop and the table. *)

(* without switches, two sweeps never happen without an arrival in between, however many passes fail *)
Theorem C02_listen_sweeps_sparse : forall (A : Type) (self : Z) (ws : list (lwake A)) (errs : Z) (st : state A),
  no_switch ws = true -> 0 <= errs <= 6 -> sparse false (listen_evs self errs st ws) = true.
Proof. exact thm_listen_sweeps_sparse. Qed.
Print Assumptions C02_listen_sweeps_sparse.

(* such a history is paced for every group that sees fewer than 4 foreign arrivals between two of its own *)
Theorem C02_sparse_paced : forall (A : Type) (g : Z) (evs : list (ev A)),
  sparse false evs = true -> fgap g evs = true -> paced g evs = true.
Proof. exact thm_sparse_paced. Qed.
Print Assumptions C02_sparse_paced.

(* reassemble_any_order through the loop: ANY passes (any number of refused connects and lost exchanges
   anywhere, as long as the loop itself goes on so that the fragments do arrive), arrivals of g = the
   fragments in some order with position 0 first, fewer than 4 foreign exchanges between two of them *)
Theorem C02_listen_failed_wakeups_free : forall (A : Type) (F g self : Z) (n : packet A) (ws : list (lwake A)) (errs : Z) (st0 : state A),
  HeaderSize <= F -> 0 <= p_tags n -> F < size n -> nfrag F n <= 65535 -> addressed self n ->
  NoDup (map fst st0) -> lookup g st0 = None ->
  no_switch ws = true -> 0 <= errs <= 6 ->
  Permutation (own_pkts g (listen_evs self errs st0 ws)) (split F g n) ->
  hd_error (own_pkts g (listen_evs self errs st0 ws)) = hd_error (split F g n) ->
  fgap g (listen_evs self errs st0 ws) = true ->
  own_outs g (listen_evs self errs st0 ws) (snd (run self st0 (listen_evs self errs st0 ws))) =
    repeat ONone (Z.to_nat (nfrag F n - 1)) ++ [ODeliver (reassembled n)] /\
  lookup g (fst (run self st0 (listen_evs self errs st0 ws))) = None.
Proof. exact thm_listen_failed_wakeups_free. Qed.
Print Assumptions C02_listen_failed_wakeups_free.

(* non-vacuity: fragment 0, six refused connects, fragment 2, five lost exchanges, fragment 1: three sweeps in
   all, the counter runs 0 1..6 0 1..5 0, the packet is delivered; one more failure of either kind ends the loop *)
Theorem C02_listen_nonvacuous :
  (no_switch ExL.ws_ok = true /\
   listen_sim 1 0 [] ExL.ws_ok =
     ([EvSweep; Ex.a 0; EvSweep; Ex.a 2; EvSweep; Ex.a 1], [0; 1; 2; 3; 4; 5; 6; 0; 1; 2; 3; 4; 5; 0], false) /\
   fgap Ex.gA (listen_evs 1 0 [] ExL.ws_ok) = true /\
   run 1 [] (listen_evs 1 0 [] ExL.ws_ok) = ([], [ONone; ONone; ONone; ONone; ONone; ODeliver (reassembled Ex.nA)])) /\
  (snd (listen_sim 1 0 [] [ExL.pk 0; ExL.rf; ExL.rf; ExL.rf; ExL.rf; ExL.rf; ExL.rf; ExL.rf; ExL.pk 1]) = true /\
   snd (listen_sim 1 0 [] [ExL.pk 0; ExL.ls; ExL.ls; ExL.ls; ExL.ls; ExL.ls; ExL.ls; ExL.pk 1]) = true /\
   listen_sim 1 0 [] [ExL.pk 0; LRefused true; ExL.pk 1] = ([EvSweep; Ex.a 0; EvSweep], [0; 255], true)).
Proof. exact (conj ExL.listen_ok ExL.listen_ends). Qed.
Print Assumptions C02_listen_nonvacuous.

(* ---- two facts that justify the shape of the model ----------------------------------------------------- *)
(* the fuel of recv is never exhausted *)
Theorem C02_recv_fuel_enough : forall (A : Type) (self : Z) (st : state A) (p : packet A),
  snd (recv self st p) <> OErr ErrOutOfFuel.
Proof. exact (@recv_fuel_enough). Qed.
Print Assumptions C02_recv_fuel_enough.

(* the Add loop of cluster.done (packet by packet) is the filter + concatenation used by cl_done *)
Theorem C02_join_is_add_loop : forall (A : Type) (tl : list (packet A)) (n : packet A),
  fold_left padd tl n = join n tl.
Proof. exact (@join_is_fold_padd). Qed.
Print Assumptions C02_join_is_add_loop.

(* ---- non-vacuity: F = 60, a 100-byte packet = fragments of 60, 40 and 0 bytes; they arrive as
   position 0, 2 (the empty one), 1, interleaved with the two fragments of another group and three
   wake-ups; every hypothesis of C02_reassemble_any_order holds and the computed outcome is the
   predicted one (both packets delivered once, empty table) *)
Example C02_nonvacuous :
  (HeaderSize <= Ex.F /\ 0 <= p_tags Ex.nA /\ Ex.F < size Ex.nA /\ nfrag Ex.F Ex.nA = 3 /\ addressed 1 Ex.nA /\
   map (fun f => len (p_data f)) (split Ex.F Ex.gA Ex.nA) = [60; 40; 0] /\
   Permutation (own_pkts Ex.gA Ex.evs_ok) (split Ex.F Ex.gA Ex.nA) /\
   own_pkts Ex.gA Ex.evs_ok <> split Ex.F Ex.gA Ex.nA /\
   hd_error (own_pkts Ex.gA Ex.evs_ok) = hd_error (split Ex.F Ex.gA Ex.nA) /\ paced Ex.gA Ex.evs_ok = true) /\
  run 1 [] Ex.evs_ok =
    ([], [ONone; ONone; ONone; ONone; ONone; ODeliver (reassembled Ex.nB); ONone; ODeliver (reassembled Ex.nA)]).
Proof. exact thm_nonvacuous. Qed.
Print Assumptions C02_nonvacuous.
