(* Props/C19.v -- property theorems for C19 (sleep, jitter, work hours, kill date).
   Only statements; every proof is `exact <lemma>`; Print Assumptions under each.
   Model: Model/Sched.v (the same definitions the correspondence run evaluates).  Durations and
   instants are nanoseconds, the zone is DST-free (UTC). *)
From XMT Require Import Base.Prelude Model.Sched Proofs.Sched.

(* ---------------------------------------------------------------- work hours *)

(* For every rule (any five bytes), weekday and instant of the day, when the rule's end is not
   before its start (or it has no end): Work() = 0 ("go") exactly when the day is enabled and
   start <= time of day <= end.  start_ns / no_end / end_ns read the fields the way the code does
   (made explicit by the four lemmas below). *)
Theorem C19_work_zero_iff_in_window :
  forall w wd ns, rule_bytes w -> 0 <= ns < day_ns -> ~ end_before_start w ->
    (work w wd ns = 0 <-> in_window w wd ns).
Proof. exact work_zero_iff_in_window. Qed.
Print Assumptions C19_work_zero_iff_in_window.

(* The same for the rules Verify accepts, in terms of the plain fields: hours <= 23, minutes <= 59,
   end 0:00 = "no end". *)
Theorem C19_work_zero_iff_in_window_verified :
  forall w wd ns, rule_bytes w -> verify w = 0 -> 0 <= ns < day_ns ->
    ((r_eh w = 0 /\ r_em w = 0) \/ hm (r_sh w) (r_sm w) <= hm (r_eh w) (r_em w)) ->
    (work w wd ns = 0 <->
     day_enabled w wd /\ hm (r_sh w) (r_sm w) <= ns /\
     ((r_eh w = 0 /\ r_em w = 0) \/ ns <= hm (r_eh w) (r_em w))).
Proof. exact work_zero_iff_in_window_verified. Qed.
Print Assumptions C19_work_zero_iff_in_window_verified.

(* "wait" is always a positive duration of at most a day -- for EVERY rule, also end < start *)
Theorem C19_work_wait_bounds :
  forall w wd ns, rule_bytes w -> 0 <= ns < day_ns -> work w wd ns <> 0 -> 0 < work w wd ns <= day_ns.
Proof. exact work_wait_bounds. Qed.
Print Assumptions C19_work_wait_bounds.

(* out-of-range fields as Work() reads them: start hour > 23 or start minute > 60 = midnight,
   minute 60 = the next full hour, end hour > 23 or end minute > 60 = no end *)
Theorem C19_work_out_of_range_fields :
  forall w,
    (23 < r_sh w \/ 60 < r_sm w -> start_ns w = 0) /\
    (r_sh w <= 23 -> r_sm w = 60 -> start_ns w = (r_sh w + 1) * 60 * min_ns) /\
    (23 < r_eh w \/ 60 < r_em w -> no_end w = true) /\
    (r_eh w <= 23 -> r_em w = 60 -> 0 <= r_eh w -> no_end w = false /\ end_ns w = (r_eh w + 1) * 60 * min_ns).
Proof.
  intros w. exact (conj (start_out_of_range w) (conj (start_minute_60 w) (conj (end_out_of_range w) (end_minute_60 w)))).
Qed.
Print Assumptions C19_work_out_of_range_fields.

Theorem C19_verify_accepts_exactly_in_range :
  forall w, rule_bytes w -> (verify w = 0 <-> r_sh w <= 23 /\ r_sm w <= 59 /\ r_eh w <= 23 /\ r_em w <= 59).
Proof. exact verify_ok_iff. Qed.
Print Assumptions C19_verify_accepts_exactly_in_range.

Theorem C19_empty_rule_never_waits :
  forall w wd ns, empty w = true -> work w wd ns = 0.
Proof. exact empty_never_waits. Qed.
Print Assumptions C19_empty_rule_never_waits.

(* the work-hours loop of wait() (`for w := Work(); w > 0; w = Work()`, sleeping w each time) ends:
   from ANY instant, for every rule whose start is before 24:00, within the 16 passes the model
   allows (10 suffice) the client stands at an instant where Work() = 0.  The only other rules are
   those with start 23:60 (rejected by Verify), which never let the client work. *)
Theorem C19_work_hours_wait_ends :
  forall w now, rule_bytes w -> start_ns w < day_ns -> work_at w (work_loop 16 w now) = 0.
Proof. exact work_loop_settles. Qed.
Print Assumptions C19_work_hours_wait_ends.

Theorem C19_start_24h_never_works :
  forall w, rule_bytes w ->
    (start_ns w < day_ns \/ (r_sh w = 23 /\ r_sm w = 60)) /\
    (r_sh w = 23 -> r_sm w = 60 -> forall wd ns, 0 <= ns < day_ns -> 0 < work w wd ns).
Proof.
  intros w Hb. exact (conj (start_before_24h w Hb) (fun H1 H2 wd ns Hns => start_24h_never_works w wd ns Hb Hns H1 H2)).
Qed.
Print Assumptions C19_start_24h_never_works.

(* ---------------------------------------------------------------- jitter *)

(* jitter 0 (and any byte above 100): the delay is exactly the sleep, whatever the draws *)
Theorem C19_jitter_zero_exact :
  forall sleep jitter gate d sign,
    jitter = 0 \/ 100 < jitter -> jitter_delay sleep jitter gate d sign = sleep.
Proof. exact (jitter_zero_exact_gen impl_le0). Qed.
Print Assumptions C19_jitter_zero_exact.

(* every sleep from 1 ms up to the largest int64, every jitter byte, every gate/sign draw, every
   amount in the range wait() asks Int63n for: 0 < delay <= 2*sleep, i.e. |delay - sleep| <= sleep.
   The int64 wrap of `w += d*1ms` (possible above 2^62 ns) is in the model. *)
Theorem C19_jitter_bounds :
  forall sleep jitter gate d sign,
    ms <= sleep < two63 -> 0 <= d < jitter_range sleep ->
    0 < jitter_delay sleep jitter gate d sign <= 2 * sleep.
Proof.
  intros sleep jitter gate d sign Hs Hd.
  exact (jitter_bounds_gen impl_le0 sleep jitter gate d sign Hs Hd (or_introl eq_refl)).
Qed.
Print Assumptions C19_jitter_bounds.

(* regression documentation: the original guard `w == 0` (before fix commit 8fee366) let the delay be
   the minimum int64 when sleep + d*1ms = 2^63; everywhere else the bound held already *)
Theorem C19_jitter_original_guard_refuted :
  exists sleep jitter gate d sign,
    ms <= sleep < two63 /\ 0 <= jitter <= 255 /\ 0 <= gate < 100 /\ 0 <= d < jitter_range sleep /\ 0 <= sign < 2 /\
    jitter_delay_gen false sleep jitter gate d sign = - two63.
Proof. exact jitter_old_refuted. Qed.
Print Assumptions C19_jitter_original_guard_refuted.

Theorem C19_jitter_original_guard_partial :
  forall sleep jitter gate d sign,
    ms <= sleep < two63 -> 0 <= d < jitter_range sleep -> sleep + d * ms <> two63 ->
    0 < jitter_delay_gen false sleep jitter gate d sign <= 2 * sleep.
Proof.
  intros sleep jitter gate d sign Hs Hd Hn.
  exact (jitter_bounds_gen false sleep jitter gate d sign Hs Hd (or_intror (or_intror Hn))).
Qed.
Print Assumptions C19_jitter_original_guard_partial.

(* ---------------------------------------------------------------- kill date *)

(* Full statement (properties.jsonl): "a client never opens a connection after its kill date":
     forall c script t0 e, In e (client impl_recheck c script t0) -> kill_passed c (fst e) = false.
   The code violates it by design of the close handshake: the Connect that delivers the
   shutdown notice is made after the date.  Witness: *)
Theorem C19_no_connect_after_kill_refuted :
  exists c script t0 t, In (t, true) (client impl_recheck c script t0) /\ kill_passed c t = true.
Proof. exact no_connect_after_kill_refuted. Qed.
Print Assumptions C19_no_connect_after_kill_refuted.

(* What holds, for ALL configurations, start instants and listen-loop scripts (delays, exchange
   durations, Connect failures, Close() calls): no ordinary exchange is ever started after the
   kill date; at most ONE Connect is made after it, it is the shutdown notice, and it is the
   client's last Connect. *)
Theorem C19_no_connect_after_kill_partial :
  forall c script t0,
    (forall e, In e (client impl_recheck c script t0) -> snd e = false -> kill_passed c (fst e) = false) /\
    (forall e, In e (client impl_recheck c script t0) -> kill_passed c (fst e) = true -> snd e = true) /\
    count_after_kill c (client impl_recheck c script t0) <= 1.
Proof.
  intros c script t0.
  exact (conj (client_exchange_not_after_kill c script t0)
        (conj (client_after_kill_is_notice c script t0) (client_after_kill_le_1 c script t0))).
Qed.
Print Assumptions C19_no_connect_after_kill_partial.

Theorem C19_shutdown_notice_is_last_connect :
  forall rc c script now cl errors a e b,
    listen rc c script now cl errors = a ++ e :: b -> snd e = true -> b = [].
Proof. exact listen_notice_is_last. Qed.
Print Assumptions C19_shutdown_notice_is_last_connect.

(* a wait() that hands control back to the connect loop, not closing, does so at an instant that is
   not after the kill date *)
Theorem C19_no_exchange_started_after_kill_check :
  forall c dl now cl now',
    wait_step impl_recheck c dl now cl = (now', false) -> kill_passed c now' = false.
Proof. exact wait_not_closing_not_after_kill. Qed.
Print Assumptions C19_no_exchange_started_after_kill_check.

(* connectContextInner: the first Connect is never made after the kill date (the work-hours
   sleep comes before the test) *)
Theorem C19_no_initial_connect_after_kill :
  forall c now t, initial_connect c now = Some t -> kill_passed c t = false.
Proof. exact initial_not_after_kill. Qed.
Print Assumptions C19_no_initial_connect_after_kill.

(* the spawn path (LoadContext with job id 0): the parent's device-info block replaces the kill date
   before the gate; the first Connect is never made after the kill date IN FORCE (the inherited
   one), whatever the Profile says *)
Theorem C19_no_spawn_connect_after_effective_kill :
  forall c inh now t, spawn_connect c inh now = Some t -> kill_passed (absorb_kill c inh) t = false.
Proof. exact spawn_not_after_effective_kill. Qed.
Print Assumptions C19_no_spawn_connect_after_effective_kill.

Theorem C19_spawn_gate_uses_inherited_kill :
  forall c inh now,
  spawn_connect c inh now = match inh with Some k => if k <? now then None else Some now | None => Some now end.
Proof. exact spawn_gate_is_inherited. Qed.
Print Assumptions C19_spawn_gate_uses_inherited_kill.

(* the runtime kill-date update (MvTime): every value but 0 is STORED, also one that has already
   passed; the next wait() then returns to the contact loop only at instants not after it, and when
   the value has passed it sets closing at once (no further ordinary exchange) *)
Theorem C19_kill_update_is_stored_and_obeyed :
  forall c u dl now now', u <> 0 ->
  kill_update u = Some ((u - epoch0_unix) * 1000000000) /\
  (wait_step impl_recheck (with_kill c (kill_update u)) dl now false = (now', false) ->
   now' <= (u - epoch0_unix) * 1000000000).
Proof.
  intros c u dl now now' Hu. exact (conj (kill_update_stores u Hu) (kill_update_then_wait c u dl now now' Hu)).
Qed.
Print Assumptions C19_kill_update_is_stored_and_obeyed.

Theorem C19_kill_update_already_passed_closes :
  forall c u dl now, u <> 0 -> (u - epoch0_unix) * 1000000000 < now -> k_work c = None ->
  wait_step impl_recheck (with_kill c (kill_update u)) dl now false = (now, true).
Proof. exact kill_update_passed_closes. Qed.
Print Assumptions C19_kill_update_already_passed_closes.

(* regression documentation: the original wait() (before fix commit 9e0f24a: kill date tested only BEFORE the sleep) also
   started an ordinary exchange after the date -- two Connects after it; and never more than two
   when time does not run backwards *)
Theorem C19_original_wait_exchange_after_kill_refuted :
  exists c script t0 t, In (t, false) (client false c script t0) /\ kill_passed c t = true /\
                        count_after_kill c (client false c script t0) = 2.
Proof. exact old_exchange_after_kill_refuted. Qed.
Print Assumptions C19_original_wait_exchange_after_kill_refuted.

Theorem C19_original_wait_connects_after_kill_le_2 :
  forall c script t0, cfg_ok c -> script_ok script -> count_after_kill c (client false c script t0) <= 2.
Proof. exact old_client_after_kill_le_2. Qed.
Print Assumptions C19_original_wait_connects_after_kill_le_2.

(* ---------------------------------------------------------------- Profile swap *)
(* the settings update of the swap block of listen: after the swap the values in force are the
   Profile's wherever the Profile sets them (sleep > 0, jitter 0..100 -- 0 INCLUDED --, a kill date,
   work hours, an Empty rule clearing them), the old ones elsewhere *)
Theorem C19_swap_takes_profile_values :
  forall old p,
  (0 < p_sleep p -> s_sleep (swap_settings old p) = p_sleep p) /\
  (p_sleep p <= 0 -> s_sleep (swap_settings old p) = s_sleep old) /\
  (0 <= p_jitter p <= 100 -> s_jitter (swap_settings old p) = p_jitter p) /\
  (p_jitter p < 0 \/ 100 < p_jitter p -> s_jitter (swap_settings old p) = s_jitter old) /\
  (forall k, p_kill p = Some k -> s_kill (swap_settings old p) = k) /\
  (p_kill p = None -> s_kill (swap_settings old p) = s_kill old) /\
  (forall w, p_work p = Some w -> empty w = false -> s_work (swap_settings old p) = Some w) /\
  (forall w, p_work p = Some w -> empty w = true -> s_work (swap_settings old p) = None) /\
  (p_work p = None -> s_work (swap_settings old p) = s_work old).
Proof. exact swap_takes_profile_values. Qed.
Print Assumptions C19_swap_takes_profile_values.

(* a Profile with jitter 0 and sleep d > 0: whatever the client ran with before, every delay
   wait() computes after the swap is exactly d, for all draws *)
Theorem C19_swap_jitter0_delay_exact :
  forall old p gate d sign,
    p_jitter p = 0 -> 0 < p_sleep p -> delay_with (swap_settings old p) gate d sign = p_sleep p.
Proof. exact swap_jitter0_delay_exact. Qed.
Print Assumptions C19_swap_jitter0_delay_exact.

Theorem C19_swap_jitter0_in_force_delay_exact :
  forall old p gate d sign,
    s_jitter (swap_settings old p) = 0 ->
    delay_with (swap_settings old p) gate d sign = s_sleep (swap_settings old p).
Proof. exact swap_jitter0_in_force_delay_exact. Qed.
Print Assumptions C19_swap_jitter0_in_force_delay_exact.

(* ---------------------------------------------------------------- the sleep ticker *)
(* the EFFECTIVE delay: s.tick is a Ticker with a one-slot buffer (the module is `go 1.18`); a tick
   that fired during a long contact is still in the buffer when wait() is entered and Reset does not
   remove it.  Because wait() drains the channel before Reset, the receive that ends the sleep
   happens exactly w after wait() armed the timer, whatever state the ticker was in *)
Theorem C19_effective_delay_is_the_computed_delay :
  forall t now w, 0 <= w -> wait_wakes impl_drain t now w = now + w.
Proof. exact wait_drain_exact. Qed.
Print Assumptions C19_effective_delay_is_the_computed_delay.

(* regression documentation: without the drain loop a contact longer than the period makes the
   next wait() return at once *)
Theorem C19_without_drain_stale_tick_ends_the_sleep :
  forall t now w, 0 < t_period t -> t_next t <= now -> wait_wakes false t now w = now.
Proof. exact wait_no_drain_stale. Qed.
Print Assumptions C19_without_drain_stale_tick_ends_the_sleep.

(* ---------------------------------------------------------------- non-vacuity *)
(* Monday-Friday 9:00-17:00: "go" on Tuesday 10:00, "wait 1 h" on Tuesday 8:00, "wait until
   midnight" on a Sunday, "wait until 9:00 tomorrow" at 17:00:00.000000001 *)
Example C19_nonvacuous_work :
  let w := mkRule 62 9 0 17 0 in
  rule_bytes w /\ ~ end_before_start w /\ verify w = 0 /\
  work w 2 (10 * 60 * min_ns) = 0 /\ in_window w 2 (10 * 60 * min_ns) /\
  work w 2 (8 * 60 * min_ns) = 60 * min_ns /\
  work w 0 (10 * 60 * min_ns) = 14 * 60 * min_ns /\
  work w 2 (17 * 60 * min_ns + 1) = 16 * 60 * min_ns - 1.
Proof.
  cbv zeta. unfold rule_bytes, is_b, end_before_start, in_window, day_enabled. vm_compute.
  repeat split; try congruence; try (intros [? ?]; congruence); try (right; right; reflexivity).
Qed.

(* 1 s sleep, jitter 50: gate 49 passes, +250 ms; gate 50 does not *)
Example C19_nonvacuous_jitter :
  jitter_delay 1000000000 50 49 250 0 = 1250000000 /\ jitter_delay 1000000000 50 49 250 1 = 750000000 /\
  jitter_delay 1000000000 50 50 250 0 = 1000000000 /\ jitter_range 1000000000 = 1000.
Proof. vm_compute. repeat split; reflexivity. Qed.

(* the representative kill-date scenario: three Connects before the date, then only the notice *)
Example C19_nonvacuous_kill :
  client impl_recheck sc_cfg sc_script sc_t0 =
    [(208800000000000, false); (208800060000000, false); (208800120000000, false); (208800180000000, true)]
  /\ count_after_kill sc_cfg (client impl_recheck sc_cfg sc_script sc_t0) = 1.
Proof. vm_compute. split; reflexivity. Qed.

(* jitter 100 / 40 ms client, Profile {sleep 40 ms, jitter 0}: the delay is 40 ms (it was 79 ms) *)
Example C19_nonvacuous_swap :
  let old := mkS 40000000 100 None None in
  let p := mkP 40000000 0 None None in
  delay_with old 0 39 0 = 79000000 /\ swap_settings old p = mkS 40000000 0 None None /\
  delay_with (swap_settings old p) 0 39 0 = 40000000.
Proof. vm_compute. repeat split; reflexivity. Qed.
