(* Props/C15.v -- placeholder while the proofs are being written. *)
From XMT Require Import Base.Prelude Model.Table.
