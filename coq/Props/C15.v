(* Props/C15.v -- property theorems for C15 (packets are only ever processed in the session of the
   device they name).  Only statements; every proof is `exact <lemma>`; Print Assumptions under each.

   Vocabulary (Model/Table.v, Proofs/Table.v):
   - hash is device.ID.Hash; a table maps a 32-bit hash to a session; wf t: every entry under key k
     holds a session whose ID hashes to k, is not empty, and whose queue only holds packets naming
     that ID (the invariant of every table reachable from the empty one);
   - step a t o = (t', e, r): one operation (Listener.talk on a single packet / a same-device batch /
     a multi-device batch with a tag list, Listener.talkSub, a send through Server.Session, a
     lookup, Server.Remove, Server.Sessions) with its effects e and its answer r; run is a history;
   - effects: ETouch sid pdev (address / last-seen of session sid updated on behalf of a packet
     naming pdev), ERekey sid pdev k (key material overwritten), EHandle sid pdev job (handler /
     Receive callback fired), EFetch sid tag (a tag drained sid's queue), ENew, EDrop;
   - op_names o: the devices the incoming packet names (top level and sub-packets), op_tags o: its tags.
   No theorem below has a no-collision hypothesis except C15_hello_registers, whose bare form
   is refuted by a real pair of colliding IDs (C15_collision_refuted). *)
From stdpp Require Import gmap.
From XMT Require Import Base.Prelude Model.Table Proofs.Table.

(* ---- the invariant, over all histories ------------------------------------------------ *)
Theorem C15_history_invariant :
  forall ops a t t' l, wf t -> run a t ops = (t', l) -> wf t'.
Proof. exact history_wf. Qed.
Print Assumptions C15_history_invariant.

(* ---- dispatch: whatever is done, is done in the session of the device the packet names ---- *)
(* every step of every history, every set of registered IDs (colliding or not), every batch
   composition and tag list: each effect satisfies eff_ok, i.e.
     ETouch/ERekey/EHandle sid pdev: sid = pdev and pdev is named by the incoming packet;
     EFetch sid tag: hash sid = tag and the tag is listed; ENew sid: sid is named. *)
Theorem C15_dispatch_own_session :
  forall ops a t t' l, wf t -> run a t ops = (t', l) ->
  Forall2 (fun o er => Forall (eff_ok (op_names o) (op_tags o)) er.1) ops l.
Proof. exact dispatch_own_session. Qed.
Print Assumptions C15_dispatch_own_session.

Theorem C15_handled_in_own_session :
  forall a t o t' e r sid pdev job, wf t -> step a t o = (t', e, r) ->
  In (EHandle sid pdev job) e -> sid = pdev /\ In pdev (op_names o).
Proof. exact handled_in_own_session. Qed.
Print Assumptions C15_handled_in_own_session.

(* the same for every kind of effect (address / last-seen update, key update, tag fetch, new session) *)
Theorem C15_step_effects_own :
  forall a t o t' e r x, wf t -> step a t o = (t', e, r) -> In x e -> eff_ok (op_names o) (op_tags o) x.
Proof. exact step_effect. Qed.
Print Assumptions C15_step_effects_own.

(* ---- an unknown device: re-registration request, never delivery ---------------------------- *)
(* unknown = no session with this ID is registered, whatever sits under its hash *)
Theorem C15_unknown_gets_register :
  forall a t p, id_empty (p_dev p) = false -> server_session t (p_dev p) = None -> (p_pid p =? SvHello) = false ->
  talk a t p = (t, [], ARegister (p_dev p)).
Proof. exact unknown_gets_register_talk. Qed.
Print Assumptions C15_unknown_gets_register.

Theorem C15_unknown_gets_register_sub :
  forall a t n o, id_empty (l_dev n) = false -> server_session t (l_dev n) = None -> (l_pid n =? SvHello) = false ->
  talk_sub a t n o = (t, [], ASub None 0 (Some (l_dev n)) []).
Proof. exact unknown_gets_register_talk_sub. Qed.
Print Assumptions C15_unknown_gets_register_sub.

(* inside a multi-device batch the sub-packet of an unknown device contributes exactly the
   request naming it; the rest of the batch is processed from the unchanged table *)
Theorem C15_unknown_gets_register_in_batch :
  forall a hk t v r acc e h,
  id_empty (l_dev v) = false -> server_session t (l_dev v) = None -> (l_pid v =? SvHello) = false ->
  t !! hk = Some h -> s_id h <> l_dev v ->
  process_multiple true a hk t (v :: r) acc e =
  process_multiple true a hk t r (acc ++ [(l_dev v, SvRegister, 0)]) e.
Proof. exact unknown_gets_register_in_batch. Qed.
Print Assumptions C15_unknown_gets_register_in_batch.

(* the answers of every step of every history: a re-registration request names the packet's
   device, outbound packets name a device the packet named or tagged, lookups and sends go to the
   device asked for (ans_ok) *)
Theorem C15_history_answers :
  forall ops a t t' l, wf t -> run a t ops = (t', l) -> Forall2 (fun o er => ans_ok o er.2) ops l.
Proof. exact history_answers. Qed.
Print Assumptions C15_history_answers.

(* ---- lookups ------------------------------------------------------------------------------ *)
Theorem C15_lookup_own_or_none : forall t d s, server_session t d = Some s -> s_id s = d.
Proof. exact lookup_own_or_none. Qed.
Print Assumptions C15_lookup_own_or_none.

Theorem C15_lookup_finds_registered :
  forall t k s, wf t -> t !! k = Some s -> server_session t (s_id s) = Some s.
Proof. exact server_session_complete. Qed.
Print Assumptions C15_lookup_finds_registered.

(* ---- outbound packets ------------------------------------------------------------------------ *)
Theorem C15_outbound_own_conn :
  forall a t p t' e k l, wf t -> talk a t p = (t', e, AReply k l) -> Forall (out_ok (names p) (p_tags p)) l.
Proof. exact outbound_own_conn. Qed.
Print Assumptions C15_outbound_own_conn.

Theorem C15_outbound_own_conn_sub :
  forall a t n o t' e k q reg l, wf t -> talk_sub a t n o = (t', e, ASub k q reg l) ->
  Forall (fun x => o_dev x = l_dev n) l /\ (forall d, reg = Some d -> d = l_dev n) /\ (forall d, k = Some d -> d = l_dev n).
Proof. exact outbound_own_conn_sub. Qed.
Print Assumptions C15_outbound_own_conn_sub.

(* ---- removal ----------------------------------------------------------------------------------- *)
Theorem C15_remove_forgets : forall t d, server_session (server_remove t d).1 d = None.
Proof. exact remove_forgets. Qed.
Print Assumptions C15_remove_forgets.

Theorem C15_remove_keeps_other_keys : forall t d k, k <> hash d -> (server_remove t d).1 !! k = t !! k.
Proof. exact remove_keeps_other_keys. Qed.
Print Assumptions C15_remove_keeps_other_keys.

(* ---- registration: the one place that still needs "no collision" ---------------------------- *)
(* full statement (false): forall t d, wf t -> d not registered -> d's well-formed hello registers d.
   Honest variant: under injectivity of the hash on the registered IDs plus d. *)
Theorem C15_hello_registers :
  forall a t d j tags t' e r,
  wf t -> id_empty d = false -> hash_injective_on (fun x => registered t x \/ x = d) -> ~ registered t d ->
  talk a t (Single (Leaf d SvHello j BHello) tags) = (t', e, r) ->
  (exists s, server_session t' d = Some s) /\ In (ENew d) e.
Proof. exact hello_registers. Qed.
Print Assumptions C15_hello_registers.

(* the witness is a real pair of IDs with equal device.ID.Hash (checked here by vm_compute and on
   every run against the real function) *)
Theorem C15_real_collision : hash idA = 827974963 /\ hash idB = 827974963 /\ idA <> idB.
Proof. exact real_collision. Qed.
Print Assumptions C15_real_collision.

Theorem C15_collision_refuted :
  ~ (forall a t d j tags t' e r, wf t -> id_empty d = false -> ~ registered t d ->
       talk a t (Single (Leaf d SvHello j BHello) tags) = (t', e, r) ->
       exists s, server_session t' d = Some s).
Proof. exact collision_refuted. Qed.
Print Assumptions C15_collision_refuted.

(* in general: while the slot of d's hash is held by another device, every packet naming d is
   answered by a re-registration request (an empty hello by the malformed-packet error) and
   changes nothing: d can never register, and nothing of the other device is touched *)
Theorem C15_second_device_cannot_register :
  forall a t d s p, t !! hash d = Some s -> s_id s <> d -> id_empty d = false -> p_dev p = d ->
  talk a t p = (t, [], if p_empty p && (p_pid p =? SvHello) then AErr EMalformed else ARegister d).
Proof. exact collider_cannot_register. Qed.
Print Assumptions C15_second_device_cannot_register.

(* ---- the proxy ------------------------------------------------------------------------------------ *)
Theorem C15_proxy_accept_own :
  forall x n x', pwf (x_clients x) -> proxy_accept x n = (x', true) ->
  exists c, x_clients x !! hash (l_dev n) = Some c /\ c_id c = l_dev n.
Proof. exact proxy_accept_own. Qed.
Print Assumptions C15_proxy_accept_own.

Theorem C15_proxy_accept_refuses_other :
  forall x n, (forall c, x_clients x !! hash (l_dev n) = Some c -> c_id c <> l_dev n) -> proxy_accept x n = (x, false).
Proof. exact proxy_accept_refuses. Qed.
Print Assumptions C15_proxy_accept_refuses_other.

Theorem C15_proxy_unknown_gets_register :
  forall x n tags, id_empty (l_dev n) = false ->
  (forall c, x_clients x !! hash (l_dev n) = Some c -> c_id c <> l_dev n) -> (l_pid n =? SvHello) = false ->
  proxy_talk x n tags = (x, ARegister (l_dev n)) /\
  forall o, proxy_talk_sub x n o = (x, ASub None 0 (Some (l_dev n)) []).
Proof. exact proxy_unknown_gets_register. Qed.
Print Assumptions C15_proxy_unknown_gets_register.

(* all proxy histories: the client table stays well formed; every answer hands out only packets
   naming the packet's device (or a tagged one), forwards upstream only the packet itself, and
   accept queues only on the entry of the named device (pans_ok) *)
Theorem C15_proxy_history :
  forall ops x x' l, pwf (x_clients x) -> prun x ops = (x', l) ->
  pwf (x_clients x') /\ Forall2 (fun o s => pans_ok o s.1.1 s.1.2 s.2) ops l.
Proof. exact proxy_history. Qed.
Print Assumptions C15_proxy_history.

(* ---- Channels: the tag routing a connection keeps (conn.subs / Session.chn) ------------------- *)
(* routes_current w: a session's outbound queue is redirected only into the Channel of a host that
   runs one and whose conn.subs holds the session's key.  All histories of hello / Channel start /
   Channel packets with ANY tag list (empty, shorter, re-added, unknown, own, colliding) / Channel
   end / sends / polls keep it. *)
Theorem C15_channel_routes_current :
  forall ops w, routes_current w -> routes_current (crun w ops).
Proof. exact crun_routes_current. Qed.
Print Assumptions C15_channel_routes_current.

(* one Channel packet (conn.resolve(tags, true)): conn.subs becomes exactly the marked keys of THIS
   list; afterwards a session is routed to this host only if its key is a registered tag of THIS
   list, every such tag that is free (or already this host's) is routed to it, and routes to other
   hosts are at most withdrawn, never created *)
Theorem C15_channel_packet_routes_last_tags :
  forall w hk hid tags w', chan_resolve w hk hid tags = (w', true) -> routes_current w ->
  routes_current w' /\
  w_subs w' !! hk = Some (mark_tags (w_tbl w) hid tags []).1 /\
  (forall k, w_route w' !! k = Some hk -> In k tags /\ tag_valid (w_tbl w) hid k = true) /\
  (forall k, In k tags -> tag_valid (w_tbl w) hid k = true ->
             w_route w !! k = None \/ w_route w !! k = Some hk -> w_route w' !! k = Some hk) /\
  (forall k h, h <> hk -> w_route w' !! k = Some h -> w_route w !! k = Some h).
Proof. exact chan_resolve_spec. Qed.
Print Assumptions C15_channel_packet_routes_last_tags.

(* the EMPTY list is not a no-op: everything previously tagged is withdrawn *)
Theorem C15_channel_empty_list_withdraws :
  forall w hk hid, routes_current w ->
  exists w', chan_resolve w hk hid [] = (w', true) /\ routes_current w' /\
             w_subs w' !! hk = Some [] /\ forall k, w_route w' !! k <> Some hk.
Proof. exact chan_resolve_empty. Qed.
Print Assumptions C15_channel_empty_list_withdraws.

(* hence outbound_own_conn with Channels: a packet queued for d lands in d's own queue or in the
   queue of the host whose running Channel CURRENTLY tags d, and in no other queue *)
Theorem C15_channel_send_lands :
  forall w d pid job, routes_current w ->
  exists q, (q = hash d \/ (w_route w !! hash d = Some q /\ exists l, w_subs w !! q = Some l /\ In (hash d) l)) /\
            forall k, k <> q -> w_tbl (cstep w (KSend d pid job)).1 !! k = w_tbl w !! k.
Proof. exact send_lands. Qed.
Print Assumptions C15_channel_send_lands.

(* non-vacuity: A tags C (C's packet lands in A's queue), then A sends no tags (C's next packet lands in C's own queue) *)
Example C15_channel_nonvacuous :
  csnapshot (crun cw0 chan_demo) =
    [ (152284485, idC, 0, [(idC, 209, 13)]); (827974963, idA, 0, [(idC, 208, 12)]) ] /\
  csnapshot (crun cw0 (firstn 7 chan_demo)) =
    [ (152284485, idC, 827974963, []); (827974963, idA, 0, [(idC, 208, 12)]) ].
Proof. exact chan_demo_run. Qed.
Print Assumptions C15_channel_nonvacuous.

(* ---- Forwarding: a proxied client's packets (Proxy.notify -> Session.write -> next -> Listener) ---- *)
(* whatever Session sid writes for a packet naming dev -- whole, or cut into fragments when its size
   is above limits.Frag -- every queued piece names dev (not sid) *)
Theorem C15_forward_write_keeps_device :
  forall F sid dev pid job size w, In w (session_write F sid dev pid job size) ->
  wp_dev w = dev /\ wp_pid w = pid /\ wp_job w = job.
Proof. exact session_write_dev. Qed.
Print Assumptions C15_forward_write_keeps_device.

(* all histories of hellos / packets of any size handed to A's Proxy / A sending its queue, from the
   state in which A registered: every effect upstream (handler call, address or key update) happens in
   the session whose ID is the device on whose behalf it happens, and that device is one that handed
   the packet to the Proxy *)
Theorem C15_forward_history :
  forall F A ops w w' es N, frun F A w ops = (w', es) -> wf (fw_tbl w) ->
  Forall (fun x => In (wp_dev x) N) (fw_q w) ->
  wf (fw_tbl w') /\ Forall (Forall (eff_ok (N ++ fops_devs ops) [])) es.
Proof. exact frun_spec. Qed.
Print Assumptions C15_forward_history.

Theorem C15_forwarded_handled_in_own_session :
  forall F A ops w' es e sid pdev job,
  frun F A (fw0 A) ops = (w', es) -> In e es -> In (EHandle sid pdev job) e ->
  sid = pdev /\ In pdev (fops_devs ops).
Proof. exact forwarded_handled_in_own_session. Qed.
Print Assumptions C15_forwarded_handled_in_own_session.

(* non-vacuity: C behind A's Proxy, limits.Frag = 100: a packet of size 40 goes whole, one of size 250 in
   3 fragments naming C; both are handled in C's session *)
Example C15_forward_nonvacuous :
  (let '(w, es) := frun 100 idA (fw0 idA) (firstn 4 fwd_demo) in (fw_q w, es)) =
    ([WP idC 192 6 0 0; WP idC 193 7 0 3; WP idC 193 7 1 3; WP idC 193 7 2 3],
     [[]; [ETouch idC idC; ENew idC; ETouch idC idC]; []; []]) /\
  (frun 100 idA (fw0 idA) fwd_demo).2 =
    [[]; [ETouch idC idC; ENew idC; ETouch idC idC]; []; []; [ETouch idC idC; EHandle idC idC 6; EHandle idC idC 7]].
Proof. exact fwd_demo_run. Qed.
Print Assumptions C15_forward_nonvacuous.

(* ---- the Proxy drops a client entry only for that client's own shutdown ----------------------- *)
(* every Proxy step (talk / talkSub with ANY packet ID incl. SvShutdown, SvDrop, SvResync, naming
   registered, unregistered or colliding devices; accept): an entry that is gone afterwards was the
   entry of the device the packet names, and the packet was that device's SvShutdown *)
Theorem C15_proxy_prunes_only_named :
  forall x o x' r k c,
  pstep x o = (x', r) -> pwf (x_clients x) -> x_clients x !! k = Some c -> x_clients x' !! k = None ->
  pop_accept o = false /\ l_pid (pop_leaf o) = SvShutdown /\ c_id c = l_dev (pop_leaf o) /\ k = hash (l_dev (pop_leaf o)).
Proof. exact proxy_prunes_only_named. Qed.
Print Assumptions C15_proxy_prunes_only_named.

(* ---- packets written without a Device ------------------------------------------------------------ *)
(* they land where a packet naming d lands (d's queue, or the queue of the host whose Channel currently
   tags d), and whatever a Channel connection sends next carries the device it was QUEUED with: picking
   a packet up from a relay's queue never relabels it *)
Theorem C15_deviceless_send_lands :
  forall w d lbl pid job, routes_current w ->
  exists q, (q = hash d \/ (w_route w !! hash d = Some q /\ exists l, w_subs w !! q = Some l /\ In (hash d) l)) /\
            forall k, k <> q -> w_tbl (cstep w (KSendAs d lbl pid job)).1 !! k = w_tbl w !! k.
Proof. exact send_as_lands. Qed.
Print Assumptions C15_deviceless_send_lands.

Theorem C15_channel_drain_keeps_labels :
  forall w d w' k l o, cstep w (KDrain d) = (w', AReply k l) -> In o l ->
  exists hk h, chan_open_key w d = Some hk /\ w_tbl w !! hk = Some h /\ In o (s_out h).
Proof. exact drain_keeps_labels. Qed.
Print Assumptions C15_channel_drain_keeps_labels.

(* ---- every flag combination on a Channel or polling connection ---------------------------------- *)
(* conn.process / receive for a packet with ANY combination of FlagMulti, FlagMultiDevice, FlagFrag,
   FlagProxy, any count, any device (own / other registered / unregistered / colliding), any body
   (payload / well-formed entries / malformed), with c.host = h whatever device the packet names
   (Channel mode makes no table lookup): a handler only ever fires in the session whose ID is the
   device of the packet or entry handled *)
Theorem C15_flags_process_handled_own :
  forall t h n, Forall handled_own (process_x t h n).1.
Proof. exact process_x_own. Qed.
Print Assumptions C15_flags_process_handled_own.

Theorem C15_flags_history_handled_own :
  forall ops w w' es, xrun w ops = (w', es) -> wf (xw_tbl w) -> wf (xw_tbl w') /\ Forall (Forall handled_own) es.
Proof. exact xrun_own. Qed.
Print Assumptions C15_flags_history_handled_own.

Example C15_flags_nonvacuous :
  let ops := [XReg idA 1; XReg idC 2; XOpen idA;
              XChan idA (XP idC 192 7 false true false false 0 XPlain); XOpen idA;
              XChan idA (XP idC 192 8 true true false false 1 (XCont [(idC, 193, 9)]))] in
  map (flat_map ev_of) (xrun (XW ∅ []) ops).2 = [[VNew idA]; [VNew idC]; []; []; []; [VRecv idC idC 9]].
Proof. exact flag_demo. Qed.
Print Assumptions C15_flags_nonvacuous.

(* ---- the code as it was before the fix: commits (chk = false), with the real pair ------------- *)
(* Server.Session(B) returned A's session; a packet naming B updated the address / last-seen time
   of A's session and overwrote its key material before receive() refused it (talk and talkSub);
   Proxy.accept queued B's packet for A and Proxy.talk handed A's queued packets to B's connection.
   In each pair the second line is the code as it is now. *)
Theorem C15_old_code_refuted :
  (option_map s_id (server_session_g false tA idB) = Some idA /\ server_session tA idB = None) /\
  ((let '(_, e, r) := talk_g false 2 tA (Single (Leaf idB 192 11 (BKey 77)) []) in (e, r))
     = ([ETouch idA idB; ERekey idA idB 77], AErr EMismatch) /\
   (let '(_, e, r) := talk 2 tA (Single (Leaf idB 192 11 (BKey 77)) []) in (e, r)) = ([], ARegister idB)) /\
  ((let '(_, e, r) := talk_sub_g false 2 tA (Leaf idB 192 11 (BKey 9)) false in (e, r))
     = ([ETouch idA idB; ERekey idA idB 9], AErr EMismatch) /\
   (let '(_, e, r) := talk_sub 2 tA (Leaf idB 192 11 (BKey 9)) false in (e, r))
     = ([], ASub None 0 (Some idB) [])) /\
  ((let '(x', b) := proxy_accept_g false xA (Leaf idB 208 11 BData) in (psnapshot x', b))
     = ([(827974963, idA, [(idA, SvComplete, 10); (idB, 208, 11)])], true) /\
   (proxy_talk_g false xA (Leaf idB 192 11 BData) []).2 = AReply true [(idA, SvComplete, 10)] /\
   (let '(x', b) := proxy_accept xA (Leaf idB 208 11 BData) in (psnapshot x', b))
     = ([(827974963, idA, [(idA, SvComplete, 10)])], false) /\
   (proxy_talk xA (Leaf idB 192 11 BData) []).2 = ARegister idB).
Proof. exact old_code_refuted. Qed.
Print Assumptions C15_old_code_refuted.

(* without collisions the hash-only lookup and the repaired one agree *)
Theorem C15_lookup_hash_only_eq :
  forall t d, wf t -> hash_injective_on (fun x => registered t x \/ x = d) -> lookup false t d = lookup true t d.
Proof. exact lookup_hash_only_eq. Qed.
Print Assumptions C15_lookup_hash_only_eq.

(* ---- non-vacuity: a reachable table with two sessions, a colliding third device, a multi-device
   batch, a tag fetch, a send, lookups and a removal; the hypotheses above (wf, reachable) hold of it *)
Example C15_nonvacuous :
  reachable (run 1 ∅ demo_ops).1 /\
  (run 1 ∅ demo_ops).2 =
  [ ([ETouch idA idA; ENew idA], AReply false [(idA, 4, 10)]);
    ([ETouch idC idC; ENew idC], AReply false [(idC, 4, 11)]);
    ([], AFound (Some idA));
    ([], AFound None);
    ([ETouch idC idC; ETouch idA idA; EHandle idA idA 15; EHandle idC idC 17],
     AReply true [(idA, 208, 12); (idB, 3, 0); (idC, 0, 0)]);
    ([], ARegister idB);
    ([], ARegister idB);
    ([], AFound None);
    ([], AFound (Some idA));
    ([ETouch idC idC; EFetch idA 827974963], AReply true [(idC, 0, 0)]);
    ([EDrop idC], ABool true);
    ([], ARegister idC) ].
Proof. exact (conj demo_reachable demo_run). Qed.
Print Assumptions C15_nonvacuous.
