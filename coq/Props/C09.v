(* Props/C09.v -- property theorems for C09: arbitrary profile bytes never crash or loop the parser
   entry points, and validate accepts exactly what build accepts.
   Model: Model/Cfg.v (Config.next / validate / build / Validate / Build / Groups / Group / String /
   MarshalJSON of c2/cfg, every Go index and slice expression through idx / slice, which are Panic
   exactly where Go panics; loops carry fuel = the length of the config and fail with Err EFuel when
   it runs out).  `bytes c` = every element is in [0,256).  `returns r` = r is neither Panic nor the
   fuel error: the call comes back with a value or an ordinary error.  All statements are for ALL
   byte strings (and all offsets / group numbers). *)
From XMT Require Import Base.Prelude Model.Cfg Proofs.Cfg Proofs.CfgRegress.

(* the stride is computed for every offset inside the config ... *)
Theorem C09_next_total : forall c i, bytes c -> 0 <= i < len c -> exists n, next c i = Ok n.
Proof. exact next_total. Qed.
Print Assumptions C09_next_total.

(* ... outside it the answer is -1 (i = len c is the one offset the callers never pass: Go would index c[len c]) *)
Theorem C09_next_outside : forall c i, i < 0 \/ len c < i -> next c i = Ok (-1).
Proof. exact next_out. Qed.
Print Assumptions C09_next_outside.

(* ... and it is -1 or strictly beyond the current offset: every walker moves forward or stops *)
Theorem C09_next_progress : forall c i n, bytes c -> 0 <= i < len c -> next c i = Ok n -> n = -1 \/ i < n.
Proof. exact next_progress. Qed.
Print Assumptions C09_next_progress.

(* the stride as validate / build / MarshalJSON use it (reset to the end when it is -1, not beyond i, or past the end) *)
Theorem C09_stride_progress : forall c i n, bytes c -> 0 <= i < len c -> next c i = Ok n -> i < fixn c i n <= len c.
Proof. exact stride_progress. Qed.
Print Assumptions C09_stride_progress.

Theorem C09_validate_no_panic : forall c, bytes c -> returns (validate c).
Proof. exact validate_returns. Qed.
Print Assumptions C09_validate_no_panic.

(* tlsok: whether Go's certificate / key parsers accept the embedded blobs (outside the model) *)
Theorem C09_build_no_panic : forall tlsok c, bytes c -> returns (build tlsok c).
Proof. exact build_returns. Qed.
Print Assumptions C09_build_no_panic.

Theorem C09_groups_no_panic : forall c, bytes c -> exists n, groups c = Ok n.
Proof. exact groups_is_ok. Qed.
Print Assumptions C09_groups_no_panic.

Theorem C09_group_no_panic : forall c p, bytes c -> exists g, group c p = Ok g.
Proof. exact group_is_ok. Qed.
Print Assumptions C09_group_no_panic.

Theorem C09_string_no_panic : forall c, bytes c -> returns (string_skel c).
Proof. exact string_returns. Qed.
Print Assumptions C09_string_no_panic.

Theorem C09_json_no_panic : forall c, bytes c -> returns (json_skel c).
Proof. exact json_returns. Qed.
Print Assumptions C09_json_no_panic.

Theorem C09_marshal_no_panic : forall tlsok c, bytes c -> returns (marshal tlsok c).
Proof. exact marshal_returns. Qed.
Print Assumptions C09_marshal_no_panic.

(* validation succeeds exactly when building succeeds, certificate / key PARSING treated as succeeding
   (tlsok = true), as the property states *)
Theorem C09_validate_iff_build_bytes : forall c, bytes c -> (validate c = Ok tt <-> exists r, build true c = Ok r).
Proof. exact validate_iff_build. Qed.
Print Assumptions C09_validate_iff_build_bytes.

(* regressions: the no-panic statements were FALSE for the expressions of the pinned tree (copies of the
   old definitions in Proofs/CfgRegress.v); each was repaired by its own fix: commit *)
Theorem C09_old_host_refuted : exists c, bytes_ok c = true /\ old_host c 0 (len c) = Panic.
Proof. exact old_host_refuted. Qed.
Print Assumptions C09_old_host_refuted.
Theorem C09_old_wc2_walk_refuted : exists c, bytes_ok c = true /\ old_wc2_walk c 1 8 = Panic.
Proof. exact old_wc2_walk_refuted. Qed.
Print Assumptions C09_old_wc2_walk_refuted.
Theorem C09_old_selpct_refuted : old_validate_selpct 2 0 = Ok tt /\ build true [168; 5] = Err EInvalid.
Proof. exact old_selpct_refuted. Qed.
Print Assumptions C09_old_selpct_refuted.

(* non-vacuity: the three inputs that crashed / diverged on the pinned tree are byte strings, and the
   (repaired) model returns on them; a valid config validates and builds *)
Example C09_nonvacuous_truncated_host :
  let c := [160; 0; 6; 97; 98; 99; 100; 101] in
  bytes_ok c = true /\ validate c = Err EInvalid /\ build true c = Err EInvalid /\ json_skel c = Err EInvalid.
Proof. vm_compute. repeat split. Qed.
Example C09_nonvacuous_wc2_walk :
  let c := [177; 0; 0; 0; 0; 0; 0; 1; 5] in
  bytes_ok c = true /\ next c 0 = Ok 8 /\ validate c = Err EInvalid /\ groups c = Ok 1.
Proof. vm_compute. repeat split. Qed.
Example C09_nonvacuous_valid :
  let c := [160; 0; 1; 104; 162; 15; 192; 212; 0; 2; 7; 9; 250; 160; 0; 1; 105; 194] in
  bytes_ok c = true /\ validate c = Ok tt /\ (exists r, build true c = Ok r) /\ groups c = Ok 2
  /\ group c 1 = Ok [160; 0; 1; 105; 194].
Proof. vm_compute. repeat split. eexists. reflexivity. Qed.
