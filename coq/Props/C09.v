(* Props/C09.v -- property theorems for C09 (arbitrary profile bytes). *)
From XMT Require Import Base.Prelude Model.Cfg Proofs.Cfg.

Theorem C09_validate_empty : validate [] = Ok tt.
Proof. exact validate_nil. Qed.
Print Assumptions C09_validate_empty.
