(* Props/C12.v -- in progress *)
From XMT Require Import Base.Prelude Model.Codec Model.DevInfo Proofs.DevInfo.
