(* Props/C12.v -- property theorems for C12: session settings and identity survive every
   synchronisation path unchanged.  Only statements; every proof is `exact <lemma>`; Print
   Assumptions under each.

   Model: Model/DevInfo.v.  write_info k s = the bytes Session.writeDeviceInfo(k, w) appends (to
   a Packet or to a data.NewWriter stream: the same bytes); read_info ops k r = Session.readDeviceInfo
   (k, r) run by the receiver r over the packet reader (flat_ops, list of remaining bytes) or over
   the stream reader (stream_ops, src = the list of chunks the successive Read calls of the
   underlying pipe deliver).  k: 0 hello (registration), 1 migrate (hand-off over the local pipe),
   2 refresh, 3 sync (settings echo), 4 proxy update, 5 syncMigrate.

   Hypotheses (wf ...) are the documented domains: integers in the range of their Go type, at most
   255 interfaces and 255 addresses per interface (the counts are ONE byte on the wire), a device
   ID whose first byte is not zero (ID.Read refuses the empty ID), and for the three kinds that
   carry the proxy list (hello, migrate, refresh) a writer that is an active client session
   (writeProxyData writes nothing otherwise).  no_empty sr: every Read of the pipe returns at
   least one byte (io.Reader's contract discourages (0, nil)). *)
From XMT Require Import Base.Prelude Model.Codec Proofs.Codec Model.DevInfo Proofs.DevInfo.

(* ---- every kind, both readers, every split ------------------------------------------------- *)
(* the packet reader: whatever follows the message (rest) is left untouched *)
Theorem C12_devinfo_roundtrip_packet :
  forall k s r rest, wf k s = true ->
  read_info flat_ops k r (write_info k s ++ rest) = Ok ((absorb k s r, carried_proxies k s), rest).
Proof. exact (fun k s r rest H => devinfo_roundtrip_flat k s r H rest). Qed.
Print Assumptions C12_devinfo_roundtrip_packet.

(* the stream reader, for EVERY way the pipe splits the bytes into non-empty short reads *)
Theorem C12_devinfo_roundtrip_stream :
  forall k s r, wf k s = true ->
  forall sr rest, no_empty sr -> concat sr = write_info k s ++ rest ->
  exists sr', read_info stream_ops k r sr = Ok ((absorb k s r, carried_proxies k s), sr') /\
              concat sr' = rest /\ no_empty sr'.
Proof. exact devinfo_roundtrip_stream. Qed.
Print Assumptions C12_devinfo_roundtrip_stream.

(* on ANY input, valid or not, the stream reader returns what the packet reader returns on the
   concatenation (same value and same unread remainder, or both fail, or both panic) *)
Theorem C12_stream_reader_agrees_with_packet_reader :
  forall k r sr, no_empty sr ->
  match read_info flat_ops k r (concat sr), read_info stream_ops k r sr with
  | Ok (a, rest), Ok (a', sr') => a = a' /\ concat sr' = rest /\ no_empty sr'
  | Err _, Err _ => True
  | Panic, Panic => True
  | _, _ => False
  end.
Proof. exact read_info_agree. Qed.
Print Assumptions C12_stream_reader_agrees_with_packet_reader.

(* ---- the six kinds, hypotheses and result spelled out (reads_back = both readers, every split) *)
(* registration *)
Theorem C12_devinfo_roundtrip_hello :
  forall s r, wf_machine (s_dev s) = true -> wf_settings s = true -> s_client s = true -> wf_proxy_opt (s_proxy s) = true ->
  reads_back (read_info flat_ops infoHello r) (read_info stream_ops infoHello r) (write_info infoHello s)
             (absorb_settings s (set_dev r (s_dev s)), proxies_of true s).
Proof. exact devinfo_roundtrip_hello. Qed.
Print Assumptions C12_devinfo_roundtrip_hello.

(* migration hand-off: identity, settings, proxy list, key material *)
Theorem C12_devinfo_roundtrip_migrate :
  forall s r, wf_id (s_id s) = true -> wf_settings s = true -> s_client s = true -> wf_proxy_opt (s_proxy s) = true ->
  wf_keys (s_keys s) = true ->
  reads_back (read_info flat_ops infoMigrate r) (read_info stream_ops infoMigrate r) (write_info infoMigrate s)
             (set_keys (absorb_settings s (set_id r (s_id s))) (s_keys s), proxies_of true s).
Proof. exact devinfo_roundtrip_migrate. Qed.
Print Assumptions C12_devinfo_roundtrip_migrate.

Theorem C12_devinfo_roundtrip_refresh :
  forall s r, wf_machine (s_dev s) = true -> wf_settings s = true -> s_client s = true -> wf_proxy_opt (s_proxy s) = true ->
  reads_back (read_info flat_ops infoRefresh r) (read_info stream_ops infoRefresh r) (write_info infoRefresh s)
             (absorb_settings s (set_dev r (s_dev s)), proxies_of true s).
Proof. exact devinfo_roundtrip_refresh. Qed.
Print Assumptions C12_devinfo_roundtrip_refresh.

(* settings sync: the echo of MvTime / MvProfile and the SvResync notice *)
Theorem C12_devinfo_roundtrip_sync :
  forall s r, wf_settings s = true ->
  reads_back (read_info flat_ops infoSync r) (read_info stream_ops infoSync r) (write_info infoSync s) (absorb_settings s r, []).
Proof. exact devinfo_roundtrip_sync. Qed.
Print Assumptions C12_devinfo_roundtrip_sync.

(* proxy update: the receiver's own settings are untouched, the list is returned *)
Theorem C12_devinfo_roundtrip_proxy :
  forall s r, s_client s = true -> wf_proxy_opt (s_proxy s) = true ->
  reads_back (read_info flat_ops infoProxy r) (read_info stream_ops infoProxy r) (write_info infoProxy s) (r, proxies_of false s).
Proof. exact devinfo_roundtrip_proxy. Qed.
Print Assumptions C12_devinfo_roundtrip_proxy.

(* the result a migrated client reports (MvMigrate): device details and settings, no proxy list *)
Theorem C12_devinfo_roundtrip_syncmigrate :
  forall s r, wf_machine (s_dev s) = true -> wf_settings s = true ->
  reads_back (read_info flat_ops infoSyncMigrate r) (read_info stream_ops infoSyncMigrate r) (write_info infoSyncMigrate s)
             (absorb_settings s (set_dev r (s_dev s)), []).
Proof. exact devinfo_roundtrip_syncmigrate. Qed.
Print Assumptions C12_devinfo_roundtrip_syncmigrate.

(* ---- what "reproduced" means field by field -------------------------------------------------- *)
(* sleep and jitter exactly; the kill date and the work hours as the wire carries them *)
Theorem C12_received_settings :
  forall k s r, k <> infoProxy ->
  let r' := absorb k s r in
  s_jitter r' = s_jitter s /\ s_sleep r' = s_sleep s /\
  s_kill r' = norm_kill (s_kill s) /\ s_work r' = norm_work_opt (s_work s).
Proof. exact absorbed_settings. Qed.
Print Assumptions C12_received_settings.

(* the kill date travels as Unix seconds with 0 = none: one-second resolution; the zero Time and
   Unix second 0 both arrive as "no kill date" *)
Theorem C12_kill_date_on_the_wire :
  forall t, wf_time t = true ->
  norm_kill t = if is_zero_time t || (t_sec t =? 0) then zero_time else mkTime (t_sec t) 0.
Proof. exact norm_kill_spec. Qed.
Print Assumptions C12_kill_date_on_the_wire.

(* for the settings a session can hold after any synchronisation (kill date none or whole seconds
   other than Unix 0; work hours none or not Empty()) all four arrive UNCHANGED *)
Theorem C12_received_settings_exact :
  forall k s r, k <> infoProxy -> wf_settings s = true -> exact_settings s = true ->
  let r' := absorb k s r in
  s_jitter r' = s_jitter s /\ s_sleep r' = s_sleep s /\ s_kill r' = s_kill s /\ s_work r' = s_work s.
Proof. exact absorbed_settings_exact. Qed.
Print Assumptions C12_received_settings_exact.

(* device details for hello / refresh / syncMigrate, identity and key material for migrate; what
   a kind does not carry stays as it was *)
Theorem C12_received_identity :
  forall k s r,
  let r' := absorb k s r in
  (has_device k = true -> s_dev r' = s_dev s) /\
  (k = infoMigrate -> s_id r' = s_id s /\ s_keys r' = s_keys s) /\
  (has_device k = false -> s_dev r' = s_dev r) /\
  (k <> infoMigrate -> s_id r' = s_id r /\ s_keys r' = s_keys r).
Proof. exact absorbed_identity. Qed.
Print Assumptions C12_received_identity.

(* ---- component codecs ---------------------------------------------------------------------- *)
Theorem C12_machine_roundtrip :
  forall m, wf_machine m = true -> reads_back (read_machine flat_ops) (read_machine stream_ops) (write_machine m) m.
Proof. exact machine_roundtrip. Qed.
Print Assumptions C12_machine_roundtrip.

Theorem C12_network_roundtrip :
  forall n, len n <= 255 -> forallb wf_dev n = true ->
  reads_back (read_counted flat_ops (read_dev flat_ops)) (read_counted stream_ops (read_dev stream_ops)) (write_net n) n.
Proof. exact network_roundtrip. Qed.
Print Assumptions C12_network_roundtrip.

Theorem C12_address_roundtrip :
  forall a, wf_addr a = true -> reads_back (read_addr flat_ops) (read_addr stream_ops) (write_addr a) a.
Proof. exact address_roundtrip. Qed.
Print Assumptions C12_address_roundtrip.

Theorem C12_workhours_roundtrip :
  forall w, wf_workhours w = true -> reads_back (read_workhours flat_ops) (read_workhours stream_ops) (write_workhours w) w.
Proof. exact workhours_roundtrip. Qed.
Print Assumptions C12_workhours_roundtrip.

Theorem C12_keypair_roundtrip :
  forall k, wf_keys k = true -> reads_back (read_keys flat_ops) (read_keys stream_ops) (write_keys k) k.
Proof. exact keypair_roundtrip. Qed.
Print Assumptions C12_keypair_roundtrip.

(* the reader KeyPair.Unmarshal had before the repair (one Read call per key) refuses a
   well-formed key triple delivered in two reads; the repaired reader accepts it *)
Theorem C12_keypair_single_read_refuted :
  exists k sr, wf_keys k = true /\ no_empty sr /\ concat sr = write_keys k /\
               read_keys_old sr = Err ErrUnexpectedEOF /\ read_keys stream_ops sr = Ok (k, []).
Proof. exact keys_single_read_refuted. Qed.
Print Assumptions C12_keypair_single_read_refuted.

(* ---- a change ordered on the server --------------------------------------------------------
   order: SetDuration / SetKillDate / SetWorkHours on the server-side Session, or a Task built by
   task.Duration / task.KillDate / task.WorkHours.  exchange srv cli o = the setter builds the
   MvTime packet and updates the server's view; the client's muxHandleInternal applies it and
   echoes its settings (infoSync); the server's handleInfoResult absorbs the echo.
   wf_order: a duration is an int64, a kill date a time.Time, work-hours fields are bytes. *)

(* the exchange completes for every order except work hours that SetWorkHours itself refuses *)
Theorem C12_exchange_completes :
  forall srv cli o, wf_settings srv = true -> wf_settings cli = true -> wf_order o = true ->
  (forall w, o = OSetWork (Some w) -> work_empty w = true \/ work_verify w = true) ->
  exists pkt cli1 srv2, exchange srv cli o = Ok (pkt, cli1, srv2).
Proof. exact exchange_completes. Qed.
Print Assumptions C12_exchange_completes.

(* the client afterwards = apply_order (Model/DevInfo.v: jitter -1 keeps, below 0 gives 0, above 100
   gives 100; sleep <= 0 keeps; kill date none / Unix 0 clears, else whole seconds; empty or nil work
   hours clear).  SetDuration transmits the server's resulting jitter AND sleep, so for it the two
   views must have agreed on these two before and the jitter must be a percentage; the other five
   orders need no such hypothesis. *)
Theorem C12_settime_takes_effect :
  forall srv cli o pkt cli1 srv2,
  wf_settings srv = true -> wf_settings cli = true -> wf_order o = true ->
  (match o with
   | OSetDuration _ _ => s_jitter srv = s_jitter cli /\ s_sleep srv = s_sleep cli /\ 0 <= s_jitter cli <= 100
   | _ => True end) ->
  exchange srv cli o = Ok (pkt, cli1, srv2) ->
  cli1 = apply_order cli o.
Proof. exact settime_takes_effect. Qed.
Print Assumptions C12_settime_takes_effect.

(* without the hypothesis: the client ends with what the server's view held (effect) *)
Theorem C12_settime_effect_general :
  forall srv cli o pkt cli1 srv2,
  wf_settings srv = true -> wf_settings cli = true -> wf_order o = true ->
  exchange srv cli o = Ok (pkt, cli1, srv2) ->
  cli1 = effect srv cli o /\ exists srv1, server_set srv o = Ok (srv1, pkt) /\ srv2 = absorb infoSync cli1 srv1.
Proof. exact exchange_spec. Qed.
Print Assumptions C12_settime_effect_general.

(* ordered values inside the documented domain are applied EXACTLY on the client and in the
   server's view, whatever the two held before: jitter 0..100, sleep > 0, kill date none or whole
   seconds (not Unix 0), work hours nil or not Empty() *)
Theorem C12_ordered_values_applied_exactly :
  forall srv cli o pkt cli1 srv2,
  wf_settings srv = true -> wf_settings cli = true -> wf_order o = true ->
  exchange srv cli o = Ok (pkt, cli1, srv2) ->
  match o with
  | OSetDuration t j | OTaskDuration t j =>
    (0 <= j <= 100 -> s_jitter cli1 = j /\ s_jitter srv2 = j) /\ (0 < t -> s_sleep cli1 = t /\ s_sleep srv2 = t)
  | OSetKill k | OTaskKill k => exact_kill k = true -> s_kill cli1 = k /\ s_kill srv2 = k
  | OSetWork w => exact_work w = true -> s_work cli1 = w /\ s_work srv2 = w
  | OTaskWork w => work_empty w = false -> s_work cli1 = Some w /\ s_work srv2 = Some w
  end.
Proof. exact ordered_values_applied_exactly. Qed.
Print Assumptions C12_ordered_values_applied_exactly.

(* after the echo is absorbed the server's view is the client's, as the wire carries it ... *)
Theorem C12_server_view_after_echo :
  forall srv cli o pkt cli1 srv2,
  wf_settings srv = true -> wf_settings cli = true -> wf_order o = true ->
  exchange srv cli o = Ok (pkt, cli1, srv2) ->
  s_jitter srv2 = s_jitter cli1 /\ s_sleep srv2 = s_sleep cli1 /\
  s_kill srv2 = norm_kill (s_kill cli1) /\ s_work srv2 = norm_work_opt (s_work cli1).
Proof. exact server_view_after. Qed.
Print Assumptions C12_server_view_after_echo.

(* ... and EQUAL to it when the client's kill date / work hours were representable before *)
Theorem C12_server_view_equals_client :
  forall srv cli o pkt cli1 srv2,
  wf_settings srv = true -> wf_settings cli = true -> wf_order o = true -> exact_settings cli = true ->
  exchange srv cli o = Ok (pkt, cli1, srv2) ->
  settings_eqb srv2 cli1 = true.
Proof. exact server_view_equals_client. Qed.
Print Assumptions C12_server_view_equals_client.

(* ---- the attached proxy as state: histories of proxy operations -----------------------------
   pop: Session.NewProxy (PAttach), Proxy.Replace with another profile and address (PReplace),
   Proxy.Close (PClose), the side effect of writing a message (PWrite: an inactive record is
   dropped), and the MvProxy task (PTask o = o, then the infoProxy echo when o succeeded);
   run_pops s h = the client session after the history h.  After ANY history every kind is read
   back by both readers over every split with exactly the CURRENT record's name, bind address and
   profile bytes. *)
Theorem C12_proxy_history_roundtrip :
  forall k s h r, wf k s = true -> wf_proxy_opt (s_proxy s) = true -> forallb wf_pop h = true ->
  reads_back (read_info flat_ops k r) (read_info stream_ops k r) (write_info k (run_pops s h))
             (absorb k (run_pops s h) r, carried_proxies k (run_pops s h)).
Proof. exact proxy_history_roundtrip. Qed.
Print Assumptions C12_proxy_history_roundtrip.

(* what the current record is after each operation (f = with profile bytes: hello, migrate, refresh;
   without: the proxy update) - Replace keeps the name and takes the NEW address and the NEW profile *)
Theorem C12_proxies_after_attach :
  forall f s n a p, s_client s = true -> s_proxy s = None ->
  proxies_of f (run_pop s (PAttach n a p)) = [mkPData n a (if f then p else [])] /\
  proxies_of f (run_pop s (PTask (PAttach n a p))) = [mkPData n a (if f then p else [])].
Proof. exact proxies_after_attach. Qed.
Print Assumptions C12_proxies_after_attach.

Theorem C12_proxies_after_replace :
  forall f s px a p, s_proxy s = Some px -> p_active px = true ->
  proxies_of f (run_pop s (PReplace a p)) = [mkPData (p_name px) a (if f then p else [])] /\
  proxies_of f (run_pop s (PTask (PReplace a p))) = [mkPData (p_name px) a (if f then p else [])].
Proof. exact proxies_after_replace. Qed.
Print Assumptions C12_proxies_after_replace.

Theorem C12_proxies_after_close :
  forall f s, proxies_of f (run_pop s PClose) = [] /\ proxies_of f (run_pop s (PTask PClose)) = [].
Proof. exact proxies_after_close. Qed.
Print Assumptions C12_proxies_after_close.

Theorem C12_proxies_after_write :
  forall f s k, proxies_of f (run_pop s (PWrite k)) = proxies_of f s.
Proof. exact proxies_after_write. Qed.
Print Assumptions C12_proxies_after_write.

Example C12_nonvacuous_history :
  let s0 := set_proxy ex_session None in
  forallb wf_pop ex_history = true /\ wf infoHello s0 = true /\
  carried_proxies infoHello (run_pops s0 ex_history) =
    [mkPData [112;120] [108;111;99;97;108;104;111;115;116;58;48] [160;0;2;121;122;208]] /\
  carried_proxies infoProxy (run_pops s0 ex_history) = [mkPData [112;120] [108;111;99;97;108;104;111;115;116;58;48] []] /\
  carried_proxies infoHello (run_pops s0 (ex_history ++ [PTask PClose])) = [].
Proof. exact ex_history_ok. Qed.
Print Assumptions C12_nonvacuous_history.

(* ---- every producer of a synchronisation message ---------------------------------------------
   producers = every writeDeviceInfo call site of c2 (the harness re-reads the sources on every run
   and compares: case CSites) with the readDeviceInfo site that consumes its bytes.  Every producer
   writes the kind its consumer reads; the kind is a constant at the call site except for SvResync
   (Script), which ANNOUNCES it: one kind byte, then the body of exactly that kind. *)
Theorem C12_every_producer_is_paired :
  forallb paired producers = true.
Proof. exact producers_paired. Qed.
Print Assumptions C12_every_producer_is_paired.

Theorem C12_resync_roundtrip :
  forall z c r, wf z c = true ->
  reads_back (read_resync flat_ops r) (read_resync stream_ops r) (write_resync z c) (absorb z c r, carried_proxies z c).
Proof. exact resync_roundtrip. Qed.
Print Assumptions C12_resync_roundtrip.

(* a Script (entries: task.Duration/Sleep/Jitter/KillDate/WorkHours, Refresh, Profile, failing and
   plain tasks, in ANY order, with or without stop-on-error) run by muxHandleScript: z = the kind of the
   last successful synchronising entry; when there is one, the notice is kind byte z + body of kind z,
   the server absorbs it, its four settings are the client's (wire normal form) and after a refresh the
   device details too *)
Theorem C12_script_resync_server_view :
  forall stop srv cli es cli' z,
  wf infoRefresh cli = true -> forallb wf_entry es = true ->
  run_script stop cli 0 es = (cli', z) -> 0 < z ->
  script_exchange stop srv cli es = Ok (Some (write_resync z cli'), cli', absorb z cli' srv) /\
  (z = infoRefresh \/ z = infoSync) /\
  (let srv' := absorb z cli' srv in
   s_jitter srv' = s_jitter cli' /\ s_sleep srv' = s_sleep cli' /\
   s_kill srv' = norm_kill (s_kill cli') /\ s_work srv' = norm_work_opt (s_work cli') /\
   (z = infoRefresh -> s_dev srv' = s_dev cli')).
Proof. exact script_resync_server_view. Qed.
Print Assumptions C12_script_resync_server_view.

(* a single task sent directly: the handler's echo absorbed by handleInfoResult *)
Theorem C12_direct_sync_server_view :
  forall srv cli e cli' k,
  wf infoRefresh cli = true -> wf_entry e = true -> run_entry cli e = Some (cli', k) -> 0 < k ->
  direct_exchange srv cli e = Ok (Some (write_info k cli'), cli', absorb k cli' srv) /\
  s_jitter (absorb k cli' srv) = s_jitter cli' /\ s_sleep (absorb k cli' srv) = s_sleep cli' /\
  (k = infoRefresh -> s_dev (absorb k cli' srv) = s_dev cli').
Proof. exact direct_sync_server_view. Qed.
Print Assumptions C12_direct_sync_server_view.

Example C12_nonvacuous_script :
  let es := [ETime (OTaskDuration 91000000000 44); ERefresh (s_dev ex_session)] in
  forallb wf_entry es = true /\ wf infoRefresh ex_session = true /\
  snd (run_script false ex_session 0 es) = infoRefresh /\
  snd (run_script false ex_session 0 (es ++ [EBad; ETime (OTaskKill zero_time)])) = infoSync /\
  snd (run_script true ex_session 0 (EBad :: es)) = 0 /\
  (exists body c' s', script_exchange false ex_receiver ex_session es = Ok (Some body, c', s') /\
     hd 0 body = infoRefresh /\ s_jitter s' = 44 /\ s_sleep s' = 91000000000 /\ s_dev s' = s_dev ex_session /\ s_jitter ex_receiver = 0).
Proof. exact ex_script. Qed.
Print Assumptions C12_nonvacuous_script.

(* ---- the migration hand-off end to end -------------------------------------------------------
   migrate_exchange old new0 localm srv: the old client writes infoMigrate into the pipe
   (MigrateProfile); LoadContext (a fresh Session new0 in a process whose own machine is localm) reads
   it, makes the migrated ID the process identity and snapshots the local machine with THAT ID as its
   Device; its MvMigrate result (infoSyncMigrate) is absorbed by the server-side session srv.
   The new client holds the migrated ID as Session.ID and as Device.ID, the old key material, the old
   settings and proxy list; the server's view of device (hence Device.ID) and settings is the new client's. *)
Theorem C12_migration_identity :
  forall old new0 localm srv,
  wf infoMigrate old = true -> wf_machine localm = true ->
  exists ns srv', migrate_exchange old new0 localm srv = Ok (ns, proxies_of true old, srv') /\
    s_id ns = s_id old /\ m_id (s_dev ns) = s_id old /\ s_keys ns = s_keys old /\
    s_jitter ns = s_jitter old /\ s_sleep ns = s_sleep old /\
    s_kill ns = norm_kill (s_kill old) /\ s_work ns = norm_work_opt (s_work old) /\
    s_dev srv' = s_dev ns /\ s_jitter srv' = s_jitter ns /\ s_sleep srv' = s_sleep ns /\
    s_kill srv' = norm_kill (s_kill ns) /\ s_work srv' = norm_work_opt (s_work ns) /\
    s_id srv' = s_id srv.
Proof. exact migrate_identity. Qed.
Print Assumptions C12_migration_identity.

Example C12_nonvacuous_migration :
  wf infoMigrate ex_session = true /\ wf_machine (s_dev ex_receiver) = true /\
  (exists ns srv', migrate_exchange ex_session ex_receiver (s_dev ex_receiver) ex_receiver = Ok (ns, proxies_of true ex_session, srv') /\
     m_id (s_dev ns) = s_id ex_session /\ m_id (s_dev srv') = s_id ex_session /\ zlist_eqb (m_id (s_dev ex_receiver)) (s_id ex_session) = false /\
     settings_eqb srv' ex_session = true /\ length (proxies_of true ex_session) = 1%nat).
Proof. exact ex_migration. Qed.
Print Assumptions C12_nonvacuous_migration.

(* ---- the migration window -------------------------------------------------------------------
   exchanges moving c h: idle exchanges of the client, each with its re-key draw (roll) and the key
   material a completed rotation would leave (the ECDH is not modelled); a rotation starts only when the
   draw fires and the Session is not Moving.  window_exchange c pre win new0: exchanges `pre`, then
   MigrateProfile sets Moving and writes the hand-off, exchanges `win` run inside the window, then the
   new process reads the hand-off.  For EVERY history of exchanges in the window the session it loads
   has the identity and key material the old client holds at confirmation. *)
Theorem C12_no_rotation_while_moving :
  forall c h, exchanges true c h = c.
Proof. exact exchanges_moving. Qed.
Print Assumptions C12_no_rotation_while_moving.

Theorem C12_handoff_keys_are_current :
  forall c pre win new0,
  wf infoMigrate (exchanges false c pre) = true ->
  exists d c', window_exchange c pre win new0 = Ok (d, c') /\
    c' = exchanges false c pre /\ s_id d = s_id c' /\ s_keys d = s_keys c' /\
    s_jitter d = s_jitter c' /\ s_sleep d = s_sleep c'.
Proof. exact window_keys_current. Qed.
Print Assumptions C12_handoff_keys_are_current.

(* the guard is necessary: without it one rotation in the window separates the hand-off from the client *)
Theorem C12_window_without_guard_refuted :
  exists c x, s_client c = true /\
    s_keys (exchanges false c [x]) <> s_keys c /\ s_keys (exchanges true c [x]) = s_keys c.
Proof. exact window_without_guard_refuted. Qed.
Print Assumptions C12_window_without_guard_refuted.

(* ---- the server's proxy list; Scripts that end in an error -----------------------------------
   server_proxy_view k before got: Session.proxies on the server after absorbing a message of kind k that
   delivered the list got: assigned for the kinds that carry a list, LEFT ALONE for the others - in
   particular the MvMigrate result (syncMigrate), so the server still lists the proxy the migrated client
   re-created from the hand-off (same name and bind address: second theorem) *)
Theorem C12_server_proxies_survive_migration :
  forall before,
  server_proxy_view infoSyncMigrate before (carried_proxies infoSyncMigrate ex_session) = before /\
  (forall k got, writes_proxy_list k = false -> server_proxy_view k before got = before) /\
  (forall k got, writes_proxy_list k = true -> server_proxy_view k before got = got).
Proof. exact server_proxies_survive_migration. Qed.
Print Assumptions C12_server_proxies_survive_migration.

Theorem C12_migrated_proxy_matches_server_view :
  forall old, map strip_profile (proxies_of true old) = proxies_of false old.
Proof. exact migrated_proxy_matches_server_view. Qed.
Print Assumptions C12_migrated_proxy_matches_server_view.

(* a synchronising entry that ran and succeeded is reported by SvResync whatever follows: failing entries,
   the stop-on-error end of the Script (whose own result is then an error), more entries.  all_ok c a:
   the prefix a runs through (needed only under stop-on-error, where a failure in a means e never runs) *)
Theorem C12_script_resync_despite_error :
  forall stop c a e b c1 k,
  (stop = false \/ all_ok c a = true) ->
  run_entry (fst (run_script stop c 0 a)) e = Some (c1, k) -> 0 < k ->
  0 < snd (run_script stop c 0 (a ++ e :: b)).
Proof. exact script_resync_despite_error. Qed.
Print Assumptions C12_script_resync_despite_error.

(* ---- non-vacuity ---------------------------------------------------------------------------
   a concrete client session (two interfaces, a 300-byte host name, kill date, work hours, an
   active proxy, keys) satisfies wf for all six kinds and exact_settings; its settings differ from
   the receiver's; all six messages are read back (packet reader, and 1-byte reads of the stream
   reader) with 3 trailing bytes left; orders complete with the ordered values, and work hours that
   fail Verify are refused by the setter *)
Example C12_nonvacuous_session :
  forallb (fun k => wf k ex_session) [0;1;2;3;4;5] = true /\ exact_settings ex_session = true /\
  wf_settings ex_receiver = true /\
  settings_eqb ex_session ex_receiver = false /\
  forallb (fun k => robs_eqb (robs_of len (read_info flat_ops k ex_receiver (write_info k ex_session ++ [238;0;1])))
                             (Ok (absorb k ex_session ex_receiver, carried_proxies k ex_session, 3))) [0;1;2;3;4;5] = true /\
  forallb (fun k => robs_eqb (robs_of src_len (read_info stream_ops k ex_receiver (split_bytes (SEach 1) (write_info k ex_session ++ [238;0;1]))))
                             (Ok (absorb k ex_session ex_receiver, carried_proxies k ex_session, 3))) [0;1;2;3;4;5] = true.
Proof. exact ex_session_wf. Qed.
Print Assumptions C12_nonvacuous_session.

Example C12_nonvacuous_order :
  wf_order (OSetDuration 30000000000 50) = true /\
  (exists pkt cli1 srv2, exchange ex_receiver ex_session (OSetDuration 30000000000 50) = Ok (pkt, cli1, srv2) /\
     s_jitter cli1 = 50 /\ s_sleep cli1 = 30000000000 /\ settings_eqb srv2 cli1 = true /\ settings_eqb cli1 ex_session = false) /\
  (exists pkt cli1 srv2, exchange ex_receiver ex_session (OSetWork (Some (mkWork 0 8 0 0 0))) = Ok (pkt, cli1, srv2) /\
     s_work cli1 = Some (mkWork 0 8 0 0 0) /\ settings_eqb srv2 cli1 = true) /\
  exchange ex_receiver ex_session (OSetWork (Some (mkWork 1 24 0 0 0))) = Err ErrVerify.
Proof. exact ex_order. Qed.
Print Assumptions C12_nonvacuous_order.
