(* Props/C06.v -- stub, replaced below *)
From XMT Require Import Base.Prelude Model.Keys Proofs.Keys.
Theorem C06_xor_involution : forall b key, xor_op (xor_op b key) key = b.
Proof. exact xor_involution. Qed.
Print Assumptions C06_xor_involution.
