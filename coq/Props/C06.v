(* Props/C06.v -- property theorems for C06 (both ends hold the same session key; the payload
   cipher is an exact involution).  Only statements; every proof is `exact <lemma>`; Print
   Assumptions under each.

   The key agreement itself (crypto/elliptic P-521, not XMT's code) appears as the quantified
   `pub`, `dh` with the single hypothesis  dh a (pub b) = dh b (pub a);  the output of `dh` is
   x.Bytes() of the shared point: ANY byte list of ANY length (shorter than the 65-byte share when the
   big integer has leading zeros).

   `run pub dh false false` is the machine of the code as it is now (first `false`: next() never
   merges a Packet that carries key material into a Multi container; second `false`: the idle tick
   of a client inside a channel is a plain keep-alive; `true` = the code before the respective fix).

   FULL STATEMENT THAT THE CODE DOES NOT SATISFY (kept here on purpose):

     forall h k0 s0,                      (* every history, replies may be lost anywhere *)
       let s := run pub dh false false h (init pub k0 s0) in
       waiting s = false -> s_reg (sv s) = true ->
       c_share (cl s) = s_share (sv s) /\ c_next (cl s) = None

   It is refuted by C06_reply_lost_after_processing_refuted, C06_announcement_lost_refuted and
   C06_reregister_reply_lost_refuted below (each reproduced on the real session()/handle() by the
   harness on every run, known findings).  What IS proved, for all histories, is the statement with
   the side condition `safe`: no reply is lost while a key announcement is unacknowledged (a
   re-key is pending, or the lost reply is the SvComplete carrying the server key).  Every other
   fault (failed writes anywhere, replies lost at any other point, the server forgetting the
   client at any point, server restarts with a new key pair) is covered. *)
From XMT Require Import Base.Prelude Model.Keys Proofs.Keys.

(* ---- the payload cipher: XorOp / Chunk.KeyCrypt ---------------------------------------- *)
(* applying it twice with the same key restores the bytes: ALL buffers, ALL keys (also empty) *)
Theorem C06_xor_involution : forall b key, xor_op (xor_op b key) key = b.
Proof. exact xor_involution. Qed.
Print Assumptions C06_xor_involution.

(* it never changes the length *)
Theorem C06_xor_length : forall b key, length (xor_op b key) = length b.
Proof. exact xor_length. Qed.
Print Assumptions C06_xor_length.

(* an empty key is a no-op (a KeyPair always holds 65 bytes; XorOp itself accepts any key) *)
Theorem C06_xor_empty_key : forall b, xor_op b [] = b.
Proof. exact xor_empty_key. Qed.
Print Assumptions C06_xor_empty_key.

(* the loop is the XOR with the repeating key *)
Theorem C06_xor_is_repeating_key_xor : forall b key i d,
  key <> [] -> (i < length b)%nat ->
  nth i (xor_op b key) d = Z.lxor (nth i b d) (nth (i mod length key)%nat key 0).
Proof. exact xor_op_nth. Qed.
Print Assumptions C06_xor_is_repeating_key_xor.

Theorem C06_xor_is_spec : forall b key, xor_op b key = xor_spec b key.
Proof. exact xor_op_is_spec. Qed.
Print Assumptions C06_xor_is_spec.

(* ---- keyNextSync's guard: no re-key is announced while the Session is being migrated (its keys
   are already marshalled for the new process), nor while a pair is pending, nor by a server ---- *)
Theorem C06_no_rekey_while_moving :
  (forall c p, roll_allowed c p true = false) /\ (forall c m, roll_allowed c true m = false) /\
  (forall c p m, roll_allowed c p m = true <-> c = true /\ p = false /\ m = false).
Proof. exact (conj no_rekey_while_moving (conj no_rekey_while_pending roll_allowed_iff)). Qed.
Print Assumptions C06_no_rekey_while_moving.

(* ---- the text form of a key (String / Parse): restoring saved keys gives the same bytes ------ *)
Theorem C06_key_text_roundtrip : forall b, Forall (fun x => 0 <= x) b -> hex_dec (hex_enc b) = b.
Proof. exact hex_roundtrip. Qed.
Print Assumptions C06_key_text_roundtrip.

(* ---- fillShared: copy(k.share[:], v.Bytes()) ------------------------------------------------ *)
Theorem C06_fill_shared_length : forall old bytes,
  length old = share_size -> length (fill_shared old bytes) = share_size.
Proof. exact fill_shared_length. Qed.
Print Assumptions C06_fill_shared_length.

(* a secret of at least 65 bytes replaces the share entirely *)
Theorem C06_fill_shared_long : forall old bytes,
  length old = share_size -> (share_size <= length bytes)%nat ->
  fill_shared old bytes = firstn share_size bytes.
Proof. exact fill_shared_long. Qed.
Print Assumptions C06_fill_shared_long.

(* a shorter one is NOT left-padded: it overwrites the head, the tail of the PREVIOUS share stays *)
Theorem C06_stale_tail_kept : forall old bytes,
  (length bytes <= share_size)%nat ->
  firstn (length bytes) (fill_shared old bytes) = bytes /\
  skipn (length bytes) (fill_shared old bytes) = skipn (length bytes) old.
Proof. exact stale_tail_kept. Qed.
Print Assumptions C06_stale_tail_kept.

(* ... and it matters: different previous tails give different new shares *)
Theorem C06_stale_tail_matters : forall old1 old2 bytes,
  (length bytes <= share_size)%nat ->
  skipn (length bytes) old1 <> skipn (length bytes) old2 ->
  fill_shared old1 bytes <> fill_shared old2 bytes.
Proof. exact stale_tail_matters. Qed.
Print Assumptions C06_stale_tail_matters.

(* ... but it is harmless as long as both ends start from equal previous shares *)
Theorem C06_stale_tail_harmless :
  forall (priv point : Type) (pub : priv -> point) (dh : priv -> point -> list Z),
  (forall a b, dh a (pub b) = dh b (pub a)) ->
  forall old_c old_s a b,
  old_c = old_s -> fill_shared old_c (dh a (pub b)) = fill_shared old_s (dh b (pub a)).
Proof. exact stale_tail_harmless. Qed.
Print Assumptions C06_stale_tail_harmless.

(* ---- the two ends ------------------------------------------------------------------------ *)
(* registration handshake: any client pair k, any server pair s0, any ECDH output *)
Theorem C06_share_agree_handshake :
  forall (priv point : Type) (pub : priv -> point) (dh : priv -> point -> list Z),
  (forall a b, dh a (pub b) = dh b (pub a)) ->
  forall k0 s0 k q,
  let s := run pub dh false false [Hello k; RekeyRecv q; HelloReply] (init pub k0 s0) in
  settled pub s /\
  c_share (cl s) = fill_shared zero_share (dh k (pub s0)) /\
  s_share (sv s) = fill_shared zero_share (dh s0 (pub k)).
Proof. intros priv point pub dh H. exact (share_agree_handshake priv point pub dh H false false). Qed.
Print Assumptions C06_share_agree_handshake.

(* MAIN: every admissible history from the very beginning, by induction over the event list *)
Theorem C06_share_agree_all_histories :
  forall (priv point : Type) (pub : priv -> point) (dh : priv -> point -> list Z),
  (forall a b, dh a (pub b) = dh b (pub a)) ->
  forall h k0 s0,
  safe pub dh false false h (init pub k0 s0) = true ->
  let s := run pub dh false false h (init pub k0 s0) in
  waiting s = false -> s_reg (sv s) = true ->
  c_share (cl s) = s_share (sv s) /\ c_next (cl s) = None.
Proof. intros priv point pub dh H. exact (share_agree_safe priv point pub dh H false false). Qed.
Print Assumptions C06_share_agree_all_histories.

(* the same with the coarser condition "no reply is lost at all" (every event but ReplyLost) *)
Theorem C06_share_agree_lossless :
  forall (priv point : Type) (pub : priv -> point) (dh : priv -> point -> list Z),
  (forall a b, dh a (pub b) = dh b (pub a)) ->
  forall h k0 s0,
  lossless false false h = true ->
  let s := run pub dh false false h (init pub k0 s0) in
  waiting s = false -> s_reg (sv s) = true ->
  c_share (cl s) = s_share (sv s) /\ c_next (cl s) = None.
Proof. intros priv point pub dh H. exact (share_agree_lossless priv point pub dh H false false). Qed.
Print Assumptions C06_share_agree_lossless.

(* after every subsequent re-key: any admissible continuation of any settled state is settled
   again whenever the client is idle and registered (settled: equal shares, keysNext = nil) *)
Theorem C06_share_agree_rekey :
  forall (priv point : Type) (pub : priv -> point) (dh : priv -> point -> list Z),
  (forall a b, dh a (pub b) = dh b (pub a)) ->
  forall h s,
  settled pub s -> safe pub dh false false h s = true ->
  let s' := run pub dh false false h s in
  waiting s' = false -> s_reg (sv s') = true -> chn s' = None -> settled pub s'.
Proof. intros priv point pub dh H. exact (share_agree_rekey priv point pub dh H false false). Qed.
Print Assumptions C06_share_agree_rekey.

(* one complete re-key: both new shares are computed over the OLD share, the client's private key
   becomes the announced one, the reply (written under the server's copy of the old key) is readable *)
Theorem C06_rekey_round :
  forall (priv point : Type) (pub : priv -> point) (dh : priv -> point -> list Z),
  (forall a b, dh a (pub b) = dh b (pub a)) ->
  forall s k q,
  settled pub s ->
  let s' := run pub dh false false [RekeySend k; RekeyRecv q; ReplyRecv] s in
  settled pub s' /\
  c_share (cl s') = fill_shared (c_share (cl s)) (dh k (pub (s_priv (sv s)))) /\
  s_share (sv s') = fill_shared (s_share (sv s)) (dh (s_priv (sv s)) (pub k)) /\
  c_priv (cl s') = k /\
  c_seen s' = deliver q (c_seen s).
Proof. intros priv point pub dh H. exact (rekey_round priv point pub dh H false false). Qed.
Print Assumptions C06_rekey_round.

(* a re-key whose announcement could not be written leaves the sender on the old key (and the
   server untouched); needs no assumption on dh *)
Theorem C06_write_fail_reverts :
  forall (priv point : Type) (pub : priv -> point) (dh : priv -> point -> list Z),
  forall (s : st priv point) k,
  waiting s = false -> chn s = None -> c_next (cl s) = None ->
  let s' := run pub dh false false [RekeySend k; WriteFail] s in
  cl s' = cl s /\ sv s' = sv s /\ waiting s' = false /\ upw s' = None /\ dnw s' = None.
Proof. intros priv point pub dh. exact (write_fail_reverts priv point pub dh false false). Qed.
Print Assumptions C06_write_fail_reverts.

(* a reply lost while no announcement is pending changes no key, whether or not the server saw the Packet *)
Theorem C06_reply_lost_harmless :
  forall (priv point : Type) (pub : priv -> point) (dh : priv -> point -> list Z),
  forall (s : st priv point) p,
  waiting s = false -> chn s = None -> c_next (cl s) = None ->
  (let s' := run pub dh false false [DataSend p; ReplyLost] s in cl s' = cl s /\ sv s' = sv s /\ waiting s' = false) /\
  (forall q, let s' := run pub dh false false [DataSend p; RekeyRecv q; ReplyLost] s in
             cl s' = cl s /\ sv s' = sv s /\ waiting s' = false).
Proof. intros priv point pub dh. exact (reply_lost_harmless priv point pub dh false false). Qed.
Print Assumptions C06_reply_lost_harmless.

(* under agreement every payload encrypted by one side decrypts to the original on the other *)
Theorem C06_payload_roundtrip :
  forall (priv point : Type) (pub : priv -> point) (dh : priv -> point -> list Z),
  forall (s : st priv point) p q,
  waiting s = false -> chn s = None -> s_reg (sv s) = true -> c_next (cl s) = None -> agree s ->
  let s' := run pub dh false false [DataSend p; RekeyRecv q; ReplyRecv] s in
  s_seen s' = deliver p (s_seen s) /\ c_seen s' = deliver q (c_seen s) /\ cl s' = cl s /\ sv s' = sv s.
Proof. intros priv point pub dh. exact (payload_roundtrip priv point pub dh false false). Qed.
Print Assumptions C06_payload_roundtrip.

(* the recorded finding (a), exactly: after the announcement was processed and its reply lost, the
   client still holds keysNext and the old key; ONE further exchange is garbled and at its end
   both ends are settled on the new share; every exchange after that is intact.  This is what the
   harness accepts under the finding; a client that never catches up is a different violation *)
Theorem C06_reply_lost_after_processing_heals :
  forall (priv point : Type) (pub : priv -> point) (dh : priv -> point -> list Z),
  (forall a b, dh a (pub b) = dh b (pub a)) ->
  forall s k q0 p q,
  settled pub s ->
  let lost := run pub dh false false [RekeySend k; RekeyRecv q0; ReplyLost] s in
  let s' := run pub dh false false [DataSend p; RekeyRecv q; ReplyRecv] lost in
  let old := c_share (cl s) in
  let new := fill_shared old (dh k (pub (s_priv (sv s)))) in
  (c_next (cl lost) = Some k /\ c_share (cl lost) = old /\ s_share (sv lost) = new /\ waiting lost = false) /\
  settled pub s' /\ c_share (cl s') = new /\ s_share (sv s') = new /\ c_priv (cl s') = k /\
  s_seen s' = deliver (xor_op (xor_op p old) new) (s_seen s) /\
  c_seen s' = deliver (xor_op (xor_op q new) old) (c_seen s) /\
  (forall p2 q2, let s'' := run pub dh false false [DataSend p2; RekeyRecv q2; ReplyRecv] s' in
                 s_seen s'' = deliver p2 (s_seen s') /\ c_seen s'' = deliver q2 (c_seen s') /\ settled pub s'').
Proof. intros priv point pub dh H. exact (reply_lost_after_processing_heals priv point pub dh H false false). Qed.
Print Assumptions C06_reply_lost_after_processing_heals.

(* keyNextSync's guard: a pending pair is never replaced by another one before it was swapped
   (keyCheckSync) or cancelled (keyCheckRevert): for EVERY event, admissible or not, both flags *)
Theorem C06_pending_pair_never_replaced :
  forall (priv point : Type) (pub : priv -> point) (dh : priv -> point -> list Z) (merge chan_rekey : bool),
  forall e (s : st priv point) k k',
  c_next (cl s) = Some k -> c_next (cl (step pub dh merge chan_rekey e s)) = Some k' -> k' = k.
Proof. exact pending_pair_never_replaced. Qed.
Print Assumptions C06_pending_pair_never_replaced.

(* ... hence finding (a) heals in the same way when the re-key roll fires again on the very next
   exchange (keyNextSync refuses, the client swaps to k, the pair the server already uses, not k2) *)
Theorem C06_reply_lost_heals_when_roll_fires_again :
  forall (priv point : Type) (pub : priv -> point) (dh : priv -> point -> list Z),
  (forall a b, dh a (pub b) = dh b (pub a)) ->
  forall s k k2 q0 q,
  settled pub s ->
  let lost := run pub dh false false [RekeySend k; RekeyRecv q0; ReplyLost] s in
  let s' := run pub dh false false [RekeySend k2; RekeyRecv q; ReplyRecv] lost in
  let old := c_share (cl s) in
  let new := fill_shared old (dh k (pub (s_priv (sv s)))) in
  settled pub s' /\ c_share (cl s') = new /\ s_share (sv s') = new /\ c_priv (cl s') = k /\
  c_seen s' = deliver (xor_op (xor_op q new) old) (c_seen s) /\ s_seen s' = s_seen s.
Proof. intros priv point pub dh H. exact (reply_lost_heals_when_roll_fires_again priv point pub dh H false false). Qed.
Print Assumptions C06_reply_lost_heals_when_roll_fires_again.

(* ---- channels --------------------------------------------------------------------------- *)
(* pick(): whatever is queued and whatever `i` is, a client inside a channel never reaches
   keyNextSync (the client-channel case returns first); outside a channel the idle tick may draw *)
Theorem C06_pick_no_rekey_in_channel :
  (forall queued i, pick_model queued true true i <> PDraw) /\ tick_draws true = false /\ tick_draws false = true.
Proof. exact (conj pick_no_rekey_in_channel tick_never_draws_in_channel). Qed.
Print Assumptions C06_pick_no_rekey_in_channel.

(* EVERY payload exchanged inside a channel decrypts to the original: for ALL admissible histories
   (any number of channel starts, traffic both ways, idle ticks, channel ends, re-keys and
   re-registrations before and after channels, failed writes, harmless reply losses), in whatever
   state the history ends, if a channel is open there then the connection's key copy equals the
   share of both Sessions, no re-key is pending, and a payload sent either way arrives unchanged *)
Theorem C06_channel_payload_roundtrip :
  forall (priv point : Type) (pub : priv -> point) (dh : priv -> point -> list Z),
  (forall a b, dh a (pub b) = dh b (pub a)) ->
  forall h k0 s0,
  safe pub dh false false h (init pub k0 s0) = true ->
  let s := run pub dh false false h (init pub k0 s0) in
  forall ck, chn s = Some ck ->
  ck = c_share (cl s) /\ ck = s_share (sv s) /\ c_next (cl s) = None /\
  (forall p, s_seen (step pub dh false false (ChanUp p) s) = deliver p (s_seen s)) /\
  (forall q, c_seen (step pub dh false false (ChanDown q) s) = deliver q (c_seen s)).
Proof. intros priv point pub dh H. exact (channel_payload_roundtrip priv point pub dh H false false). Qed.
Print Assumptions C06_channel_payload_roundtrip.

(* (e) FIXED by 28f32da (rekey-during-channel): regression witness against an idle tick that
       draws a re-key inside a channel (second flag true), and the same history on the code as it is *)
Theorem C06_rekey_in_channel_refuted_before_fix :
  (let s := toy_run_chan chan_rekeyed toy_init in
   shares_differ s = false /\ chn s <> Some (s_share (sv s)) /\ chn s <> None /\
   s_seen s <> [[7; 8; 9]; [1; 2; 3]] /\ c_seen s <> [[10; 11; 12]; [4; 5; 6]] /\
   safe toy_pub toy_dh false true chan_rekeyed toy_init = false) /\
  (let s := toy_run chan_rekeyed toy_init in
   shares_differ s = false /\ chn s = Some (s_share (sv s)) /\
   s_seen s = [[7; 8; 9]; [1; 2; 3]] /\ c_seen s = [[10; 11; 12]; [4; 5; 6]] /\
   safe toy_pub toy_dh false false chan_rekeyed toy_init = true).
Proof. exact rekey_in_channel_refuted_before_fix. Qed.
Print Assumptions C06_rekey_in_channel_refuted_before_fix.

(* ---- what the code does NOT satisfy (witnesses in a toy commutative agreement, vm_compute) ---- *)
(* (a) known finding rekey-reply-lost-after-server-processed: one exchange garbled in both
       directions, then the ends agree again *)
Theorem C06_reply_lost_after_processing_refuted :
  let s := toy_run lost_after toy_init in
  s_seen s <> [[1; 2; 3]] /\ c_seen s <> [[4; 5; 6]] /\ shares_differ s = false /\
  safe toy_pub toy_dh false false lost_after toy_init = false.
Proof. exact reply_lost_after_processing_refuted. Qed.
Print Assumptions C06_reply_lost_after_processing_refuted.

(* (b) known finding rekey-announcement-lost: the sender is NOT left on the old key; the ends
       differ for good, later re-keys do not repair it *)
Theorem C06_announcement_lost_refuted :
  let s0 := toy_run handshake toy_init in
  let s := toy_run undelivered toy_init in
  waiting s = false /\ c_next (cl s) = None /\ s_reg (sv s) = true /\ shares_differ s = true /\
  c_share (cl s) <> c_share (cl s0) /\ s_share (sv s) = s_share (sv s0) /\
  shares_differ (toy_run undelivered_later toy_init) = true /\
  s_seen (toy_run undelivered_later toy_init) <> [[1; 2; 3]; [1; 2; 3]] /\
  safe toy_pub toy_dh false false undelivered toy_init = false.
Proof. exact announcement_lost_refuted. Qed.
Print Assumptions C06_announcement_lost_refuted.

(* (d) known finding reregister-reply-lost: the client stays on the all-zero share *)
Theorem C06_reregister_reply_lost_refuted :
  let s := toy_run reregister_lost toy_init in
  waiting s = false /\ s_reg (sv s) = true /\ shares_differ s = true /\ c_share (cl s) = zero_share /\
  s_seen s <> [[1; 2; 3]] /\ shares_differ (toy_run reregister_lost_later toy_init) = true /\
  safe toy_pub toy_dh false false reregister_lost toy_init = false.
Proof. exact reregister_reply_lost_refuted. Qed.
Print Assumptions C06_reregister_reply_lost_refuted.

(* (c) FIXED (rekey-merged-into-batch): regression witness against next() as it was (merge = true),
       and the same history on the code as it is (an ordinary re-key) *)
Theorem C06_batched_rekey_refuted_before_fix :
  (let s := toy_run_merge batched toy_init in
   waiting s = false /\ c_next (cl s) = None /\ s_reg (sv s) = true /\ s_seen s = [[1; 2; 3]] /\ shares_differ s = true) /\
  (let s := toy_run batched toy_init in
   waiting s = false /\ c_next (cl s) = None /\ s_reg (sv s) = true /\ shares_differ s = false /\
   c_share (cl s) <> c_share (cl (toy_run handshake toy_init))).
Proof. exact batched_rekey_refuted_before_fix. Qed.
Print Assumptions C06_batched_rekey_refuted_before_fix.

(* ---- non-vacuity ------------------------------------------------------------------------ *)
(* the hypotheses are satisfiable: a commutative agreement exists whose outputs are shorter AND
   longer than the share, and a 49-event history with every kind of event (handshake, traffic,
   re-keys, a failed write, two harmless reply losses, a queued-behind re-key, a channel with traffic both ways and an idle tick, a server restart
   with a new key, re-registration) is admissible, ends settled on a non-zero share, and every
   payload arrived unchanged *)
Example C06_nonvacuous :
  (forall a b, toy_dh a (toy_pub b) = toy_dh b (toy_pub a)) /\
  (length (toy_dh 11 7) < share_size)%nat /\ (share_size < length (toy_dh 23 3))%nat /\
  safe toy_pub toy_dh false false busy_history toy_init = true /\
  (let s := toy_run busy_history toy_init in
   waiting s = false /\ s_reg (sv s) = true /\ shares_differ s = false /\ is_synced (c_share (cl s)) = true /\
   chn s = None /\
   c_seen s = [[6; 7]; [6; 6]; [2]; [1]; [8]] /\ s_seen s = [[4; 5]; [5]; [5; 5]; [1; 2]; [7]; [9; 9]]).
Proof.
  split; [exact toy_comm|]. split; [vm_compute; lia|]. split; [vm_compute; lia|]. exact busy_history_ok.
Qed.
Print Assumptions C06_nonvacuous.
