(* Props/C10.v -- property theorems for C10 (typed binary codec).  Statements only. *)
From XMT Require Import Base.Prelude Model.Codec Proofs.Codec.

(* Any sequence of well-formed typed values, encoded and read back by the in-memory reader,
   yields the same values in order and consumes exactly the encoded bytes. *)
Theorem C10_dec_enc_flat :
  forall vs rest, forallb wfv vs = true ->
    rd_seq (map ty_of vs) (enc_seq vs ++ rest) = Ok (vs, rest).
Proof. exact rd_seq_enc. Qed.
Print Assumptions C10_dec_enc_flat.

(* ... and by the stream reader, for EVERY way the underlying reader splits the bytes into
   non-empty short reads; what is left in the stream is exactly what followed the encoding. *)
Theorem C10_dec_enc_stream :
  forall vs s, forallb wfv vs = true -> no_empty s -> (exists rest, concat s = enc_seq vs ++ rest) ->
    exists s', srd_seq (map ty_of vs) s = Ok (vs, s') /\ enc_seq vs ++ concat s' = concat s.
Proof. exact srd_seq_enc. Qed.
Print Assumptions C10_dec_enc_stream.

(* The two readers agree on ALL byte strings and all type lists: same values and same
   remaining bytes, an error exactly when the other reports an error, a panic exactly when
   the other panics. *)
Theorem C10_readers_agree :
  forall ts s, no_empty s ->
    match rd_seq ts (concat s), srd_seq ts s with
    | Ok (a, r), Ok (a', s') => a = a' /\ concat s' = r /\ no_empty s'
    | Err _, Err _ => True
    | Panic, Panic => True
    | _, _ => False
    end.
Proof. exact readers_agree. Qed.
Print Assumptions C10_readers_agree.

(* Reading past the end reports an error rather than fabricating a value: every proper
   prefix of an encoding fails (with an error, not a panic and not a value). *)
Theorem C10_truncation_is_error :
  forall vs k, forallb wfv vs = true -> 0 <= k < len (enc_seq vs) ->
    exists e, rd_seq (map ty_of vs) (take k (enc_seq vs)) = Err e.
Proof. exact truncation_is_error. Qed.
Print Assumptions C10_truncation_is_error.

Theorem C10_truncation_is_error_stream :
  forall vs k s, forallb wfv vs = true -> 0 <= k < len (enc_seq vs) -> no_empty s ->
    concat s = take k (enc_seq vs) -> exists e, srd_seq (map ty_of vs) s = Err e.
Proof. exact truncation_is_error_stream. Qed.
Print Assumptions C10_truncation_is_error_stream.

(* A read depends only on the bytes it consumes (so values can be concatenated on one stream). *)
Theorem C10_read_is_prefix_determined :
  forall ts s vs r ext, rd_seq ts s = Ok (vs, r) -> rd_seq ts (s ++ ext) = Ok (vs, r ++ ext).
Proof. exact (fun ts => proj1 (mono_rd_seq ts)). Qed.
Print Assumptions C10_read_is_prefix_determined.

(* the length-prefix classes: 0 | 1,len8 | 3,len16 | 5,len32 | 7,len64 decode to the length *)
Theorem C10_prefix_roundtrip :
  forall l rest, 0 <= l < 18446744073709551616 ->
    rd_prefix (enc_prefix l ++ rest) = Ok (if l =? 0 then None else Some l, rest).
Proof. exact rd_prefix_enc. Qed.
Print Assumptions C10_prefix_roundtrip.

Example C10_nonvacuous :
  let vs := [VInt TI16 (-2); VBytes TString [104; 105]; VStrList [[1]; []]; VInt TF32 1069547520; VBool true] in
  forallb wfv vs = true /\ enc_seq vs = [255; 254; 1; 2; 104; 105; 1; 2; 1; 1; 1; 0; 63; 192; 0; 0; 1] /\
  no_empty [[255]; [254; 1; 2; 104]; [105; 1; 2; 1; 1; 1; 0; 63; 192; 0; 0; 1; 9]].
Proof. cbv zeta. split; [vm_compute; reflexivity|]. split; [vm_compute; reflexivity|]. repeat constructor; discriminate. Qed.
