(* Props/C14.v -- property theorems for C14 (a Job finishes exactly once).
   Only statements; every proof is `exact <lemma>`; Print Assumptions under each.

   Vocabulary (Model/Job.v, Model/JobSched.v).  [step] is ONE atomic step of one call of
   Task / newJobID / handle / Cancel / Wait / IsDone / Jobs / Job / hasJob / accept / frag: one
   read-locked section of Session.lock, one unlocked access, or ONE WRITE inside the write-locked
   section of handle / Cancel (Wait, IsDone and whoever looks at Status / Error / Result afterwards
   read without the lock, so the order of those writes is observable).  [held s] is what is left of
   the write-locked section in progress; steps that need the lock stutter meanwhile.  The same
   [step] is what `check` evaluates on every generated case (through [apply_op] and [check_sched];
   theorem C14_solo_is_schedule).  A history is a list of events [Spawn o] (a new thread starts
   operation o) and [Run t] (thread t takes its next atomic step); [run es] executes a history
   from the empty session.  Every theorem quantifies over ALL histories: any number of threads,
   any multiset of operations, any interleaving, any length.
   pending = done open; released = done closed or nil (waiters return, IsDone says true);
   finished = done nil. *)
From XMT Require Import Base.Prelude Model.JobSched Model.Job Proofs.Job.

(* ---- done_closed_once: nothing panics ------------------------------------------------------ *)
(* Every history (all eleven operations, concurrent Task calls included) runs to its end: no
   step closes a closed or nil channel. *)
Theorem C14_done_closed_once : forall es, exists c, run es = Ok c.
Proof. exact run_total. Qed.
Print Assumptions C14_done_closed_once.

Theorem C14_no_panic : forall es, run es <> Panic.
Proof. exact run_no_panic. Qed.
Print Assumptions C14_no_panic.

(* ---- waiters_released ------------------------------------------------------------------------ *)
(* In every reachable state in which no write-locked section is in progress, a job that has left
   the table (and was not overwritten by a concurrent Task, see the finding below) has done = nil. *)
Theorem C14_waiters_released : forall es c h j,
  run es = Ok c -> held (snd c) = None -> getj (snd c) h = Some j -> jorph j = false -> ~ tracked (snd c) h ->
  finished (snd c) h.
Proof. exact waiters_released. Qed.
Print Assumptions C14_waiters_released.

(* A thread blocked in Wait on a released job returns at its next step (or, if it had not yet
   loaded done, at the one after). *)
Theorem C14_waiter_returns : forall es c h t p,
  run es = Ok c -> released (snd c) h -> nth_error (fst c) t = Some p -> p = PW0 h \/ p = PW1 h ->
  exec step init_pc (Run t) c = Ok (upd (fst c) t (PDone RUnit), snd c) \/
  (exec step init_pc (Run t) c = Ok (upd (fst c) t (PW1 h), snd c) /\
   exec step init_pc (Run t) (upd (fst c) t (PW1 h), snd c) = Ok (upd (fst c) t (PDone RUnit), snd c)).
Proof. exact waiter_returns. Qed.
Print Assumptions C14_waiter_returns.

(* Wait never returns early: a thread started as Wait(h) on an existing job, at any point of any
   history, has returned only if the job is released. *)
Theorem C14_wait_returns_only_when_released : forall es1 es2 c1 c2 h r,
  run es1 = Ok c1 -> (h < length (jobs (snd c1)))%nat ->
  run_from c1 (Spawn (OWait h) :: es2) = Ok c2 ->
  nth_error (fst c2) (length (fst c1)) = Some (PDone r) -> released (snd c2) h.
Proof. exact wait_returns_only_released. Qed.
Print Assumptions C14_wait_returns_only_when_released.

(* IsDone answers true only for a released job. *)
Theorem C14_isdone_true_only_when_released : forall es1 es2 c1 c2 h,
  run es1 = Ok c1 -> (h < length (jobs (snd c1)))%nat ->
  run_from c1 (Spawn (OIsDone h) :: es2) = Ok c2 ->
  nth_error (fst c2) (length (fst c1)) = Some (PDone (RBool true)) -> released (snd c2) h.
Proof. exact isdone_true_only_released. Qed.
Print Assumptions C14_isdone_true_only_when_released.

(* Released is for ever (the channel is closed once and stays closed / nil). *)
Theorem C14_released_forever : forall es1 es2 c1 c2 h,
  run es1 = Ok c1 -> run_from c1 es2 = Ok c2 -> released (snd c1) h -> released (snd c2) h.
Proof. exact released_forever. Qed.
Print Assumptions C14_released_forever.

(* ---- released implies final ------------------------------------------------------------------ *)
(* Histories of the operations of the property (everything but accept / frag).  In ANY reachable
   state, also in the middle of somebody's write-locked section: if done of a job is no longer
   open (so a reader may be told "done"), its Status is final, and Status, Result, Error are the
   same at the end of every continuation.  The outcome is written before it is published. *)
Theorem C14_released_implies_final : forall es1 es2 c1 c2 h j,
  forallb c14_ev (es1 ++ es2) = true -> run es1 = Ok c1 -> run_from c1 es2 = Ok c2 ->
  getj (snd c1) h = Some j -> jdone j <> Open ->
  final (jstatus j) /\
  exists j', getj (snd c2) h = Some j' /\ outcome j' = outcome j /\ jdone j' <> Open.
Proof. exact released_implies_final. Qed.
Print Assumptions C14_released_implies_final.

(* ---- leaves_table --------------------------------------------------------------------------- *)
(* A released job is in the table under no number; whatever the table holds is pending. *)
Theorem C14_leaves_table : forall es c h,
  run es = Ok c ->
  (released (snd c) h -> ~ tracked (snd c) h) /\ (tracked (snd c) h -> pending (snd c) h).
Proof. exact leaves_table. Qed.
Print Assumptions C14_leaves_table.

(* Cancel, once it has returned, leaves the job finished and out of the table (whoever finished it). *)
Theorem C14_cancel_finishes : forall es1 es2 c1 c2 h r,
  run es1 = Ok c1 -> (h < length (jobs (snd c1)))%nat ->
  run_from c1 (Spawn (OCancel h) :: es2) = Ok c2 ->
  nth_error (fst c2) (length (fst c1)) = Some (PDone r) ->
  finished (snd c2) h /\ ~ tracked (snd c2) h.
Proof. exact cancel_returns_finished. Qed.
Print Assumptions C14_cancel_finishes.

(* ---- status_first_event ---------------------------------------------------------------------- *)
(* Take the step of thread t after which job h is released for the first time (it was pending
   before): the thread is inside a write-locked section (PCS) whose next write [k] is the
   close(done) of a result for h (status completed / error as the packet's flag says, Result =
   that packet) or of a Cancel of h (status canceled, no Result); the job already has exactly
   that status and result, is out of the table, and at the end of whatever history follows
   Status / Result / Error are the same. *)
Theorem C14_status_first_event : forall es1 t es2 c1 c2 c3 h,
  forallb c14_ev (es1 ++ Run t :: es2) = true ->
  run es1 = Ok c1 -> exec step init_pc (Run t) c1 = Ok c2 -> run_from c2 es2 = Ok c3 ->
  pending (snd c1) h -> released (snd c2) h ->
  exists r k st res j j3, nth_error (fst c1) t = Some (PCS r) /\ held (snd c1) = Some k /\
    publishes k = Some (h, st, res) /\
    getj (snd c2) h = Some j /\ jstatus j = st /\ final st /\
    jres j = match res with Some tag => tag | None => 0 end /\
    getj (snd c3) h = Some j3 /\ outcome j3 = outcome j /\ released (snd c3) h /\ ~ tracked (snd c3) h.
Proof. exact status_first_event. Qed.
Print Assumptions C14_status_first_event.

(* In every reachable state of such histories: a released job has a final status; a pending job
   that is not the one inside somebody's write-locked section has status waiting and no result. *)
Theorem C14_status_pending_or_final : forall es c h j,
  forallb c14_ev es = true -> run es = Ok c -> getj (snd c) h = Some j ->
  (jdone j <> Open -> final (jstatus j)) /\
  (in_progress (snd c) h = false -> jdone j = Open -> jstatus j = StWaiting /\ jres j = 0 /\ jerr j = false).
Proof. exact status_pending_final. Qed.
Print Assumptions C14_status_pending_or_final.

(* accept / frag are outside the quantifier for a reason: they write Job.Status after dropping
   the lock, so racing a result they can overwrite the final status (observation, see notes). *)
Theorem C14_accept_race_observation :
  exists es c j, run es = Ok c /\ getj (snd c) 0%nat = Some j /\ jdone j = Nil /\ jstatus j = StAccepted.
Proof. exact accept_overwrites_final_status. Qed.
Print Assumptions C14_accept_race_observation.

(* ---- unknown_result_ignored ------------------------------------------------------------------ *)
(* Any step, at any time, of a result-arrival thread (packet: well-formed flag wf, job number id,
   error flag, tag, payload) that is not yet inside its write-locked section either changes
   nothing at all, or the packet is well formed, id >= 2, the lock is free, the table holds a
   pending job under id at that very moment, and the step takes the lock to finish exactly that
   job with this packet. *)
Theorem C14_result_attribution : forall es1 es2 c1 c2 c3 wf id err tag pl,
  run es1 = Ok c1 -> run_from c1 (Spawn (OHandle wf id err tag pl) :: es2) = Ok c2 ->
  (forall r, nth_error (fst c2) (length (fst c1)) <> Some (PCS r)) ->
  exec step init_pc (Run (length (fst c1))) c2 = Ok c3 ->
  snd c3 = snd c2 \/
  (wf = true /\ 2 <= id /\ held (snd c2) = None /\ exists h j,
     lookup id (table (snd c2)) = Some h /\ getj (snd c2) h = Some j /\ jdone j = Open /\
     snd c3 = set_held (snd c2) (Some (HRes h err tag pl))).
Proof. exact result_attribution_run. Qed.
Print Assumptions C14_result_attribution.

(* ... the write-locked section entered for job h writes job h only ... *)
Theorem C14_critical_section_own_job : forall es c t r k c' h2,
  run es = Ok c -> nth_error (fst c) t = Some (PCS r) -> held (snd c) = Some k ->
  exec step init_pc (Run t) c = Ok c' -> h2 <> cs_job k -> getj (snd c') h2 = getj (snd c) h2.
Proof. exact cs_writes_own_job. Qed.
Print Assumptions C14_critical_section_own_job.

(* ... in particular a result whose number is not in the table (unknown, already completed,
   cancelled), or that is malformed, or numbered 0 / 1, changes no job and not the table. *)
Theorem C14_unknown_result_ignored : forall es1 es2 c1 c2 c3 wf id err tag pl,
  run es1 = Ok c1 -> run_from c1 (Spawn (OHandle wf id err tag pl) :: es2) = Ok c2 ->
  (forall r, nth_error (fst c2) (length (fst c1)) <> Some (PCS r)) ->
  exec step init_pc (Run (length (fst c1))) c2 = Ok c3 ->
  mem id (table (snd c2)) = false \/ wf = false \/ id < 2 ->
  snd c3 = snd c2.
Proof. exact unknown_result_ignored_run. Qed.
Print Assumptions C14_unknown_result_ignored.

(* An error-flagged result ends with Status error whatever its payload; Error is empty exactly
   when the payload starts with the class byte 0 (shapes evaluated: empty string, the single zero
   byte, empty payload, truncated headers / bodies, a bad class byte, a full string). *)
Theorem C14_error_text_shapes :
  err_nonempty [0] = false /\ err_nonempty [0; 9; 9] = false /\ err_nonempty [] = true /\
  err_nonempty [1] = true /\ err_nonempty [1; 4; 98] = true /\ err_nonempty [1; 0] = true /\
  err_nonempty [1; 4; 98; 111; 111; 109] = true /\ err_nonempty [3; 0] = true /\ err_nonempty [200] = true.
Proof. exact err_nonempty_shapes. Qed.
Print Assumptions C14_error_text_shapes.

(* ---- job_id_fresh ----------------------------------------------------------------------------- *)
(* newJobID: whatever the random draws, the number returned is 0 (refusal: Task then fails) or
   greater than 1, a uint16, and not a key of the table at the time of the check. *)
Theorem C14_job_id_fresh :
  forall draws t i, new_job_id draws t = i -> i = 0 \/ (1 < i < 65536 /\ mem i t = false).
Proof. exact new_job_id_fresh. Qed.
Print Assumptions C14_job_id_fresh.

(* Task with n.Job = 0 goes on only with such a number. *)
Theorem C14_task_alloc_fresh : forall draws full s i full' s',
  step (PTask0 0 draws full) s = Ok (PTask1 i full', s') ->
  1 < i < 65536 /\ mem i (table s) = false /\ s' = s.
Proof. exact task_alloc_fresh. Qed.
Print Assumptions C14_task_alloc_fresh.

(* Full statement (FALSE on the code, recorded finding concurrent-task-id-reuse):
     forall es c t id, run es = Ok c -> nth_error (fst c) t = Some (PTask3 id) ->
       mem id (table (snd c)) = false
   i.e. the number Task inserts is never a pending job's.  Honest variant: it holds, and no job
   is ever overwritten, so "tracked <-> pending" for every job, when no two Task calls with the
   same number are between their check and their insert at the same time (sequential Task calls
   in particular); everything else may interleave freely. *)
Theorem C14_task_no_reuse_partial : forall es c t id,
  tasks_serial cfg0 es -> run es = Ok c -> nth_error (fst c) t = Some (PTask3 id) ->
  mem id (table (snd c)) = false.
Proof. exact serial_insert_fresh. Qed.
Print Assumptions C14_task_no_reuse_partial.

Theorem C14_tracked_iff_pending_partial : forall es c h,
  tasks_serial cfg0 es -> run es = Ok c ->
  ~ orphaned (snd c) h /\ (in_progress (snd c) h = false -> (tracked (snd c) h <-> pending (snd c) h)).
Proof. exact serial_tracked. Qed.
Print Assumptions C14_tracked_iff_pending_partial.

(* Witness: two concurrent Task(7): both pass the check, both insert; job 0 is overwritten, stays
   pending, is not in the table; the result for 7 completes job 1; a waiter of job 0 stays blocked. *)
Theorem C14_task_id_race_refuted :
  exists es c, run es = Ok c /\ ~ tasks_serial cfg0 es /\
    orphaned (snd c) 0%nat /\ pending (snd c) 0%nat /\ ~ tracked (snd c) 0%nat /\
    finished (snd c) 1%nat /\ nth_error (fst c) 3%nat = Some (PW1 0%nat).
Proof. exact task_id_race_refuted. Qed.
Print Assumptions C14_task_id_race_refuted.

(* Cancel of a job that is not the table's entry for its number (displaced by an overlapping Task,
   or already out) runs status / close / nil and leaves the table as it is: the live job registered
   under that number stays tracked. *)
Theorem C14_cancel_displaced_keeps_table : forall s h j s1 s2 s3,
  getj s h = Some j -> lookup (jid j) (table s) <> Some h ->
  cs_step (CSt h) s = Ok s1 -> cs_step (CClose h) s1 = Ok s2 -> cs_step (CStNil h) s2 = Ok s3 ->
  held s1 = Some (CClose h) /\ table s3 = table s.
Proof. exact cancel_displaced_keeps_table. Qed.
Print Assumptions C14_cancel_displaced_keeps_table.

(* ---- the theorems are about what the correspondence run evaluates --------------------------- *)
(* apply_op (the function `check` runs on every step of every generated case) is the history
   "spawn the operation, let it run alone" of the same [step]. *)
Theorem C14_solo_is_schedule : forall o s r s' (ps : list pc),
  apply_op o s = Ok (r, s') ->
  exists p', run_from (ps, s) (Spawn o :: repeat (Run (length ps)) 16) = Ok (ps ++ [p'], s') /\
             (p' = PDone r \/ r = RBlocked).
Proof. exact solo_is_schedule. Qed.
Print Assumptions C14_solo_is_schedule.

(* ---- the pinned code (before the two repairs) fails these statements ------------------------ *)
Theorem C14_pinned_double_close_refuted : exists es, pinned_run es = Panic.
Proof. exact pinned_double_close_refuted. Qed.
Print Assumptions C14_pinned_double_close_refuted.

Theorem C14_pinned_cancel_status_refuted :
  exists es c j, pinned_run es = Ok c /\ getj (snd c) 0%nat = Some j /\
                 jdone j = Nil /\ jstatus j = StWaiting.
Proof. exact pinned_cancel_status_refuted. Qed.
Print Assumptions C14_pinned_cancel_status_refuted.

(* ---- non-vacuity: result || Cancel || Cancel, three threads racing on one job ----------------- *)
(* Task(7) alone; then a result, a Cancel and another Cancel interleaved so that the first Cancel
   wins: the result is refused (false), status canceled, no Result, table empty, all returned. *)
Example C14_nonvacuous_cancel_first :
  run race3_hist =
  Ok ([PDone (RJob 0%nat); PDone (RBool false); PDone RUnit; PDone RUnit],
      mkSess [mkJob 7 StCanceled Nil 0 false 0 false] [] None).
Proof. exact race3_result. Qed.
Print Assumptions C14_nonvacuous_cancel_first.

(* the same threads with the (error) result first: status error, Result = the packet *)
Example C14_nonvacuous_result_first :
  run race3b_hist =
  Ok ([PDone (RJob 0%nat); PDone (RBool true); PDone RUnit; PDone RUnit],
      mkSess [mkJob 7 StError Nil 1 true 0 false] [] None).
Proof. exact race3b_result. Qed.
Print Assumptions C14_nonvacuous_result_first.

(* an error-flagged result with EMPTY text; an IsDone reader that looks between close(done) and
   done = nil is told "done" while the result thread is still inside its write-locked section and a
   Cancel waits for the lock: what the reader can see is already final (Status error, Error empty) *)
Example C14_nonvacuous_reader_mid_section :
  run reader_hist =
  Ok ([PDone (RJob 0%nat); PCS (RBool true); PDone (RBool true); PC1 0%nat],
      mkSess [mkJob 7 StError Closed 1 false 0 false] [] (Some (HNil 0%nat))).
Proof. exact reader_result. Qed.
Print Assumptions C14_nonvacuous_reader_mid_section.
