(* Props/C14.v -- property theorems for C14 (a Job finishes exactly once).
   Only statements; every proof is `exact <lemma>`; Print Assumptions under each. *)
From XMT Require Import Base.Prelude Model.JobSched Model.Job Proofs.Job.

(* newJobID: whatever the random draws, the number returned is 0 (refusal: Task then fails) or
   greater than 1, a uint16, and not a key of the table at the time of the check. *)
Theorem C14_job_id_fresh :
  forall draws t i, new_job_id draws t = i -> i = 0 \/ (1 < i < 65536 /\ mem i t = false).
Proof. exact new_job_id_fresh. Qed.
Print Assumptions C14_job_id_fresh.
