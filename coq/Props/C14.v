(* Props/C14.v -- property theorems for C14 (a Job finishes exactly once).
   Only statements; every proof is `exact <lemma>`; Print Assumptions under each.

   Vocabulary (Model/Job.v, Model/JobSched.v).  [step] is ONE atomic step of one call of
   Task / newJobID / handle / Cancel / Wait / IsDone / Jobs / Job / hasJob / accept / frag: one
   critical section of Session.lock or one unlocked access; the same [step] is what `check`
   evaluates on every generated case (through [apply_op], theorem C14_solo_is_schedule).
   A history is a list of events [Spawn o] (a new thread starts operation o) and [Run t]
   (thread t takes its next atomic step); [run es] executes a history from the empty session.
   Every theorem quantifies over ALL histories: any number of threads, any multiset of
   operations, any interleaving, any length. *)
From XMT Require Import Base.Prelude Model.JobSched Model.Job Proofs.Job.

(* ---- done_closed_once: nothing panics ------------------------------------------------------ *)
(* Every history (all eleven operations, concurrent Task calls included) runs to its end: no
   step closes a closed or nil channel. *)
Theorem C14_done_closed_once : forall es, exists c, run es = Ok c.
Proof. exact run_total. Qed.
Print Assumptions C14_done_closed_once.

Theorem C14_no_panic : forall es, run es <> Panic.
Proof. exact run_no_panic. Qed.
Print Assumptions C14_no_panic.

(* ---- waiters_released ------------------------------------------------------------------------ *)
(* In every reachable state, a job that has left the table (and was not overwritten by a
   concurrent Task, see the finding below) has done = nil, and a thread blocked in Wait on it
   returns at its very next step. *)
Theorem C14_waiters_released : forall es c h j t p,
  run es = Ok c -> getj (snd c) h = Some j -> jorph j = false -> ~ tracked (snd c) h ->
  finished (snd c) h /\
  (nth_error (fst c) t = Some p -> p = PW0 h \/ p = PW1 h ->
   exec step init_pc (Run t) c = Ok (upd (fst c) t (PDone RUnit), snd c)).
Proof. exact waiters_released. Qed.
Print Assumptions C14_waiters_released.

(* Wait never returns early: a thread started as Wait(h) on an existing job, at any point of any
   history, has returned only if the job is finished. *)
Theorem C14_wait_returns_only_when_finished : forall es1 es2 c1 c2 h r,
  run es1 = Ok c1 -> (h < length (jobs (snd c1)))%nat ->
  run_from c1 (Spawn (OWait h) :: es2) = Ok c2 ->
  nth_error (fst c2) (length (fst c1)) = Some (PDone r) -> finished (snd c2) h.
Proof. exact wait_returns_only_finished. Qed.
Print Assumptions C14_wait_returns_only_when_finished.

(* IsDone answers true only for a finished job. *)
Theorem C14_isdone_true_only_when_finished : forall es1 es2 c1 c2 h,
  run es1 = Ok c1 -> (h < length (jobs (snd c1)))%nat ->
  run_from c1 (Spawn (OIsDone h) :: es2) = Ok c2 ->
  nth_error (fst c2) (length (fst c1)) = Some (PDone (RBool true)) -> finished (snd c2) h.
Proof. exact isdone_true_finished. Qed.
Print Assumptions C14_isdone_true_only_when_finished.

(* Finished is for ever (the channel is released once and stays released). *)
Theorem C14_finished_forever : forall es1 es2 c1 c2 h,
  run es1 = Ok c1 -> run_from c1 es2 = Ok c2 -> finished (snd c1) h -> finished (snd c2) h.
Proof. exact finished_forever. Qed.
Print Assumptions C14_finished_forever.

(* ---- leaves_table --------------------------------------------------------------------------- *)
(* A finished job is in the table under no number; whatever the table holds is pending. *)
Theorem C14_leaves_table : forall es c h,
  run es = Ok c ->
  (finished (snd c) h -> ~ tracked (snd c) h) /\ (tracked (snd c) h -> pending (snd c) h).
Proof. exact leaves_table. Qed.
Print Assumptions C14_leaves_table.

(* Cancel, once it has returned, leaves the job finished and out of the table (whoever finished it). *)
Theorem C14_cancel_finishes : forall es1 es2 c1 c2 h r,
  run es1 = Ok c1 -> (h < length (jobs (snd c1)))%nat ->
  run_from c1 (Spawn (OCancel h) :: es2) = Ok c2 ->
  nth_error (fst c2) (length (fst c1)) = Some (PDone r) ->
  finished (snd c2) h /\ ~ tracked (snd c2) h.
Proof. exact cancel_returns_finished. Qed.
Print Assumptions C14_cancel_finishes.

(* ---- status_first_event ---------------------------------------------------------------------- *)
(* Histories of the operations of the property (everything but accept / frag).  Take the step of
   thread t after which job h is finished for the first time (it was pending before): that
   thread is in the critical section of a result for h (status completed / error, Result = that
   packet) or of a Cancel of h (status canceled, no Result); the job has exactly that status
   and result, is out of the table, and whatever history follows it is still the very same job
   record at the end. *)
Theorem C14_status_first_event : forall es1 t es2 c1 c2 c3 h,
  forallb c14_ev (es1 ++ Run t :: es2) = true ->
  run es1 = Ok c1 -> exec step init_pc (Run t) c1 = Ok c2 -> run_from c2 es2 = Ok c3 ->
  pending (snd c1) h -> finished (snd c2) h ->
  exists p st r j, nth_error (fst c1) t = Some p /\ commit p = Some (h, st, r) /\
    getj (snd c2) h = Some j /\ jstatus j = st /\ final st /\
    jres j = match r with Some tag => tag | None => 0 end /\
    getj (snd c3) h = Some j /\ ~ tracked (snd c3) h.
Proof. exact status_first_event. Qed.
Print Assumptions C14_status_first_event.

(* In every reachable state of such histories a job is pending with status waiting and no
   result, or finished with a final status. *)
Theorem C14_status_pending_or_final : forall es c h j,
  forallb c14_ev es = true -> run es = Ok c -> getj (snd c) h = Some j ->
  (pending (snd c) h /\ jstatus j = StWaiting /\ jres j = 0 /\ jerr j = false) \/
  (finished (snd c) h /\ final (jstatus j)).
Proof. exact status_pending_final. Qed.
Print Assumptions C14_status_pending_or_final.

(* accept / frag are outside the quantifier for a reason: they write Job.Status after dropping
   the lock, so racing a result they can overwrite the final status (observation, see notes). *)
Theorem C14_accept_race_observation :
  exists es c j, run es = Ok c /\ getj (snd c) 0%nat = Some j /\ jdone j = Nil /\ jstatus j = StAccepted.
Proof. exact accept_overwrites_final_status. Qed.
Print Assumptions C14_accept_race_observation.

(* ---- unknown_result_ignored ------------------------------------------------------------------ *)
(* Any step, at any time, of a result-arrival thread (packet: well-formed flag wf, job number
   id, error flag, tag) either changes nothing at all, or the packet is well formed, id >= 2,
   the table holds a pending job under id at that very moment, and exactly that job is
   finished with the packet's status and result and taken out of the table. *)
Theorem C14_result_attribution : forall es1 es2 c1 c2 c3 wf id err tag,
  run es1 = Ok c1 -> run_from c1 (Spawn (OHandle wf id err tag) :: es2) = Ok c2 ->
  exec step init_pc (Run (length (fst c1))) c2 = Ok c3 ->
  snd c3 = snd c2 \/
  (wf = true /\ 2 <= id /\ exists h j,
     lookup id (table (snd c2)) = Some h /\ getj (snd c2) h = Some j /\ jdone j = Open /\
     snd c3 = set_table (setj (snd c2) h (fin_job j (if err then StError else StCompleted) tag err))
                        (remove id (table (snd c2)))).
Proof. exact result_attribution_run. Qed.
Print Assumptions C14_result_attribution.

(* ... in particular a result whose number is not in the table (unknown, already completed,
   cancelled), or that is malformed, or numbered 0 / 1, changes no job and not the table. *)
Theorem C14_unknown_result_ignored : forall es1 es2 c1 c2 c3 wf id err tag,
  run es1 = Ok c1 -> run_from c1 (Spawn (OHandle wf id err tag) :: es2) = Ok c2 ->
  exec step init_pc (Run (length (fst c1))) c2 = Ok c3 ->
  mem id (table (snd c2)) = false \/ wf = false \/ id < 2 ->
  snd c3 = snd c2.
Proof. exact unknown_result_ignored_run. Qed.
Print Assumptions C14_unknown_result_ignored.

(* ---- job_id_fresh ----------------------------------------------------------------------------- *)
(* newJobID: whatever the random draws, the number returned is 0 (refusal: Task then fails) or
   greater than 1, a uint16, and not a key of the table at the time of the check. *)
Theorem C14_job_id_fresh :
  forall draws t i, new_job_id draws t = i -> i = 0 \/ (1 < i < 65536 /\ mem i t = false).
Proof. exact new_job_id_fresh. Qed.
Print Assumptions C14_job_id_fresh.

(* Task with n.Job = 0 goes on only with such a number. *)
Theorem C14_task_alloc_fresh : forall draws full s i full' s',
  step (PTask0 0 draws full) s = Ok (PTask1 i full', s') ->
  1 < i < 65536 /\ mem i (table s) = false /\ s' = s.
Proof. exact task_alloc_fresh. Qed.
Print Assumptions C14_task_alloc_fresh.

(* Full statement (FALSE on the code, recorded finding concurrent-task-id-reuse):
     forall es c t id, run es = Ok c -> nth_error (fst c) t = Some (PTask3 id) ->
       mem id (table (snd c)) = false
   i.e. the number Task inserts is never a pending job's.  Honest variant: it holds, and no job
   is ever overwritten, so "tracked <-> pending" for every job, when no two Task calls with the
   same number are between their check and their insert at the same time (sequential Task calls
   in particular); everything else may interleave freely. *)
Theorem C14_task_no_reuse_partial : forall es c t id,
  tasks_serial cfg0 es -> run es = Ok c -> nth_error (fst c) t = Some (PTask3 id) ->
  mem id (table (snd c)) = false.
Proof. exact serial_insert_fresh. Qed.
Print Assumptions C14_task_no_reuse_partial.

Theorem C14_tracked_iff_pending_partial : forall es c h,
  tasks_serial cfg0 es -> run es = Ok c ->
  ~ orphaned (snd c) h /\ (tracked (snd c) h <-> pending (snd c) h).
Proof. exact serial_tracked. Qed.
Print Assumptions C14_tracked_iff_pending_partial.

(* Witness: two concurrent Task(7): both pass the check, both insert; job 0 is overwritten, stays
   pending, is not in the table; the result for 7 completes job 1; a waiter of job 0 stays blocked. *)
Theorem C14_task_id_race_refuted :
  exists es c, run es = Ok c /\ ~ tasks_serial cfg0 es /\
    orphaned (snd c) 0%nat /\ pending (snd c) 0%nat /\ ~ tracked (snd c) 0%nat /\
    finished (snd c) 1%nat /\ nth_error (fst c) 3%nat = Some (PW1 0%nat).
Proof. exact task_id_race_refuted. Qed.
Print Assumptions C14_task_id_race_refuted.

(* ---- the theorems are about what the correspondence run evaluates --------------------------- *)
(* apply_op (the function `check` runs on every step of every generated case) is the history
   "spawn the operation, let it run alone" of the same [step]. *)
Theorem C14_solo_is_schedule : forall o s r s' (ps : list pc),
  apply_op o s = Ok (r, s') ->
  exists p', run_from (ps, s) (Spawn o :: repeat (Run (length ps)) 8) = Ok (ps ++ [p'], s') /\
             (p' = PDone r \/ r = RBlocked).
Proof. exact solo_is_schedule. Qed.
Print Assumptions C14_solo_is_schedule.

(* ---- the pinned code (before the two repairs) fails these statements ------------------------ *)
Theorem C14_pinned_double_close_refuted : exists es, pinned_run es = Panic.
Proof. exact pinned_double_close_refuted. Qed.
Print Assumptions C14_pinned_double_close_refuted.

Theorem C14_pinned_cancel_status_refuted :
  exists es c j, pinned_run es = Ok c /\ getj (snd c) 0%nat = Some j /\
                 jdone j = Nil /\ jstatus j = StWaiting.
Proof. exact pinned_cancel_status_refuted. Qed.
Print Assumptions C14_pinned_cancel_status_refuted.

(* ---- non-vacuity: result || Cancel || Cancel, three threads racing on one job ----------------- *)
(* Task(7) alone; then a result, a Cancel and another Cancel interleaved so that the first Cancel
   wins: the result is refused (false), status canceled, no Result, table empty, all returned. *)
Example C14_nonvacuous_cancel_first :
  run race3_hist =
  Ok ([PDone (RJob 0%nat); PDone (RBool false); PDone RUnit; PDone RUnit],
      mkSess [mkJob 7 StCanceled Nil 0 false 0 false] []).
Proof. exact race3_result. Qed.
Print Assumptions C14_nonvacuous_cancel_first.

(* the same threads with the (error) result first: status error, Result = the packet *)
Example C14_nonvacuous_result_first :
  run race3b_hist =
  Ok ([PDone (RJob 0%nat); PDone (RBool true); PDone RUnit; PDone RUnit],
      mkSess [mkJob 7 StError Nil 1 true 0 false] []).
Proof. exact race3b_result. Qed.
Print Assumptions C14_nonvacuous_result_first.
