(* Props/C01.v -- property theorems for C01 (packet wire format, flag word).
   Only statements; every proof is `exact <lemma>`; Print Assumptions under each. *)
From XMT Require Import Base.Prelude Model.Codec Model.Packet Proofs.Packet.

Theorem C01_len_prefix_length :
  forall l, 0 <= l ->
  len (len_prefix l) = 1 + (if l =? 0 then 0 else if l <? 256 then 1 else if l <? 65536 then 2
                            else if l <? 4294967296 then 4 else 8).
Proof. exact len_prefix_length. Qed.
Print Assumptions C01_len_prefix_length.
