(* Props/C01.v -- property theorems for C01 (packet wire format, stream form, flag word).
   Only statements; every proof is `exact <lemma>`; Print Assumptions under each.

   A reader works on a src (Model/Codec.v): the list of chunks the successive Read calls of the
   underlying io.Reader deliver.  `no_empty s` = every Read delivers at least one byte; apart from
   that the split of the bytes into chunks is ARBITRARY (universally quantified) in every theorem
   below.  `concat s' = rest` in a conclusion says: exactly the written bytes were consumed.

   A packet carries the read cursor of its payload Chunk (p_rpos; wf: 0 <= p_rpos <= |payload|).
   `rewind p` = p with the cursor at 0 (what a reader of the wire form hands out; = p for a fresh
   packet), `unread p` = the unread part buf[rpos:] as a fresh buffer (what a reader of the nested
   form hands out, since Chunk.MarshalStream writes the unread part; = p for a fresh packet). *)
From XMT Require Import Base.Prelude Model.Codec Model.Packet Proofs.Codec Proofs.Packet.

(* ---- Marshal ------------------------------------------------------------------------- *)
Theorem C01_marshal_total : forall p, wf p = true -> marshal p = Ok (wire p).
Proof. exact marshal_wf. Qed.
Print Assumptions C01_marshal_total.

Theorem C01_marshal_length : forall p b, wf p = true -> marshal p = Ok b ->
  len b = 46 + (let l := len (p_pay p) in
                if l =? 0 then 0 else if l <? 256 then 1 else if l <? 65536 then 2
                else if l <? 4294967296 then 4 else 8)
          + 4 * len (p_tags p) + len (p_pay p).
Proof. exact marshal_length. Qed.
Print Assumptions C01_marshal_length.

Theorem C01_size_ge_marshal : forall p b, wf p = true -> marshal p = Ok b -> p_rpos p < len (p_pay p) -> len b <= size p.
Proof. exact size_ge_marshal. Qed.
Print Assumptions C01_size_ge_marshal.

(* recorded: Size() of a packet without payload ignores its tags *)
Theorem C01_size_empty_ignores_tags : forall p b, wf p = true -> marshal p = Ok b -> p_pay p = [] ->
  size p = 46 /\ len b = 46 + 4 * len (p_tags p).
Proof. exact size_empty_ignores_tags. Qed.
Print Assumptions C01_size_empty_ignores_tags.

(* recorded: Size() of a packet whose payload was consumed to the end is the bare header size,
   although Marshal writes the whole buffer *)
Theorem C01_size_consumed_is_header : forall p, p_rpos p = len (p_pay p) -> size p = 46.
Proof. exact size_consumed_is_header. Qed.
Print Assumptions C01_size_consumed_is_header.

(* ---- the read cursor: Marshal rewinds and writes the whole buffer whatever the cursor was ------ *)
Theorem C01_marshal_cursor_irrelevant : forall p k, marshal (set_rpos k p) = marshal p.
Proof. exact marshal_cursor_irrelevant. Qed.
Print Assumptions C01_marshal_cursor_irrelevant.

Theorem C01_after_marshal_cursor : forall p,
  p_rpos (after_marshal p) = len (p_pay p) /\ p_pay (after_marshal p) = p_pay p.
Proof. exact after_marshal_cursor. Qed.
Print Assumptions C01_after_marshal_cursor.

Theorem C01_unmarshal_marshal_any_cursor : forall p k b s rest,
  wf p = true -> 0 <= k <= len (p_pay p) -> marshal (set_rpos k p) = Ok b ->
  no_empty s -> concat s = b ++ rest ->
  exists s', unmarshal s = Ok (rewind p, s') /\ concat s' = rest /\ no_empty s'.
Proof. exact unmarshal_marshal_any_cursor. Qed.
Print Assumptions C01_unmarshal_marshal_any_cursor.

(* the nested form writes the unread part only (and does not move the cursor) *)
Theorem C01_marshal_stream_cursor : forall p k,
  marshal_stream (set_rpos k p) =
  marshal_stream (mkP (p_id p) (p_job p) (p_flags p) (p_tags p) (p_dev p) (drop k (p_pay p)) 0).
Proof. exact marshal_stream_cursor. Qed.
Print Assumptions C01_marshal_stream_cursor.

Theorem C01_fresh_is_fixed_point : forall p, p_rpos p = 0 -> rewind p = p /\ unread p = p.
Proof. exact fresh_is_fixed_point. Qed.
Print Assumptions C01_fresh_is_fixed_point.

(* ---- the wire form is lossless and self-delimiting -------------------------------------- *)
Theorem C01_unmarshal_marshal : forall p b s rest,
  wf p = true -> marshal p = Ok b -> no_empty s -> concat s = b ++ rest ->
  exists s', unmarshal s = Ok (rewind p, s') /\ concat s' = rest /\ no_empty s'.
Proof. exact unmarshal_marshal. Qed.
Print Assumptions C01_unmarshal_marshal.

Theorem C01_packets_concat : forall ps bs s,
  Forall (fun p => wf p = true) ps -> Forall2 (fun p b => marshal p = Ok b) ps bs ->
  no_empty s -> concat s = concat bs ->
  unmarshal_many (S (length (concat s))) s = Ok (map rewind ps).
Proof. exact packets_concat. Qed.
Print Assumptions C01_packets_concat.

Theorem C01_wire_prefix_free : forall p q r1 r2, wf p = true -> wf q = true ->
  wire p ++ r1 = wire q ++ r2 -> rewind p = rewind q /\ r1 = r2.
Proof. exact wire_prefix_free. Qed.
Print Assumptions C01_wire_prefix_free.

(* a truncated encoding (cut anywhere, split anyhow) never yields a packet *)
Theorem C01_unmarshal_truncated : forall p s u,
  wf p = true -> no_empty s -> concat s ++ u = wire p -> u <> [] ->
  forall q s', unmarshal s <> Ok (q, s').
Proof. exact unmarshal_truncated. Qed.
Print Assumptions C01_unmarshal_truncated.

(* ---- readers that see HOW the stream ends: the last bytes delivered together with io.EOF (FLast),
   a failing Read (FFail); `ebytes s` = all bytes the stream delivers, `plain s` = the same stream
   with an ordinary end ---------------------------------------------------------------------- *)
Theorem C01_unmarshal_e_marshal : forall p b s rest,
  wf p = true -> marshal p = Ok b -> no_empty (fst s) -> ebytes s = b ++ rest ->
  exists s', unmarshal_e s = Ok (rewind p, s') /\ ebytes s' = rest.
Proof. exact unmarshal_e_marshal. Qed.
Print Assumptions C01_unmarshal_e_marshal.

(* every success of the plain reader (also on arbitrary bytes) is a success of this reader *)
Theorem C01_unmarshal_e_sim : forall s q t,
  unmarshal (plain s) = Ok (q, t) -> exists s', unmarshal_e s = Ok (q, s') /\ plain s' = t.
Proof. exact unmarshal_e_sim. Qed.
Print Assumptions C01_unmarshal_e_sim.

Theorem C01_unmarshal_srd_e_marshal_stream : forall p s rest,
  wf_stream p = true -> no_empty (fst s) -> ebytes s = marshal_stream p ++ rest ->
  exists s', unmarshal_srd_e s = Ok (unread p, s') /\ ebytes s' = rest.
Proof. exact unmarshal_srd_e_marshal_stream. Qed.
Print Assumptions C01_unmarshal_srd_e_marshal_stream.

Theorem C01_unmarshal_srd_e_sim : forall s q t,
  unmarshal_srd (plain s) = Ok (q, t) -> exists s', unmarshal_srd_e s = Ok (q, s') /\ plain s' = t.
Proof. exact unmarshal_srd_e_sim. Qed.
Print Assumptions C01_unmarshal_srd_e_sim.

(* zero-length reads (0, nil) = empty chunks: tolerated by io.ReadFull (header, tags) and in the
   payload directly after a Read that delivered bytes; NOT as the first Read of a ReadFrom call *)
Theorem C01_zero_reads_where_tolerated : forall f k s acc, 0 < k ->
  read_full (S f) k ([] :: s) acc = read_full f k s acc /\
  read_body (S f) k ([] :: s) acc false = read_body f k s acc true /\
  read_body (S f) k ([] :: s) acc true = Err ErrUnexpectedEOF.
Proof. exact zero_reads_where_tolerated. Qed.
Print Assumptions C01_zero_reads_where_tolerated.

(* ---- the nested stream form ------------------------------------------------------------------ *)
(* from a Chunk (the container of a batched packet) *)
Theorem C01_unmarshal_stream_marshal_stream : forall p rest,
  wf_stream p = true -> unmarshal_stream (marshal_stream p ++ rest) = Ok (unread p, rest).
Proof. exact unmarshal_stream_marshal_stream. Qed.
Print Assumptions C01_unmarshal_stream_marshal_stream.

(* from data.NewReader over an io.Reader delivering short reads *)
Theorem C01_unmarshal_srd_marshal_stream : forall p s rest,
  wf_stream p = true -> no_empty s -> concat s = marshal_stream p ++ rest ->
  exists s', unmarshal_srd s = Ok (unread p, s') /\ concat s' = rest /\ no_empty s'.
Proof. exact unmarshal_srd_marshal_stream. Qed.
Print Assumptions C01_unmarshal_srd_marshal_stream.

(* the two readers of the nested form agree on EVERY input, malformed ones included (up to the error code) *)
Theorem C01_stream_readers_agree : forall s, no_empty s ->
  match unmarshal_stream (concat s), unmarshal_srd s with
  | Ok (p, r), Ok (p', s') => p = p' /\ concat s' = r /\ no_empty s'
  | Err _, Err _ => True
  | Panic, Panic => True
  | _, _ => False
  end.
Proof. exact stream_readers_agree. Qed.
Print Assumptions C01_stream_readers_agree.

Theorem C01_stream_packets_concat : forall ps, Forall (fun p => wf_stream p = true) ps ->
  let b := concat (map marshal_stream ps) in unmarshal_stream_many (S (length b)) b = Ok (map unread ps).
Proof. exact stream_packets_concat_check. Qed.
Print Assumptions C01_stream_packets_concat.

Theorem C01_marshal_stream_prefix_free : forall p q r1 r2, wf_stream p = true -> wf_stream q = true ->
  marshal_stream p ++ r1 = marshal_stream q ++ r2 -> unread p = unread q /\ r1 = r2.
Proof. exact marshal_stream_prefix_free. Qed.
Print Assumptions C01_marshal_stream_prefix_free.

(* ---- the flag word |len:16|pos:16|group:16|bits:16|: for ALL words f and all 16-bit n ---------- *)
Theorem C01_len_set_len : forall f n, 0 <= n < 65536 -> flag_len (flag_set_len f n) = n.
Proof. exact len_set_len. Qed.
Print Assumptions C01_len_set_len.
Theorem C01_position_set_len : forall f n, 0 <= n < 65536 -> flag_position (flag_set_len f n) = flag_position f.
Proof. exact position_set_len. Qed.
Print Assumptions C01_position_set_len.
Theorem C01_group_set_len : forall f n, 0 <= n < 65536 -> flag_group (flag_set_len f n) = flag_group f.
Proof. exact group_set_len. Qed.
Print Assumptions C01_group_set_len.
Theorem C01_bits_set_len : forall f n, 0 <= n < 65536 -> u16 (flag_set_len f n) = Z.lor (u16 f) FlagFrag.
Proof. exact bits_set_len. Qed.
Print Assumptions C01_bits_set_len.

Theorem C01_len_set_position : forall f n, 0 <= n < 65536 -> flag_len (flag_set_position f n) = flag_len f.
Proof. exact len_set_position. Qed.
Print Assumptions C01_len_set_position.
Theorem C01_position_set_position : forall f n, 0 <= n < 65536 -> flag_position (flag_set_position f n) = n.
Proof. exact position_set_position. Qed.
Print Assumptions C01_position_set_position.
Theorem C01_group_set_position : forall f n, 0 <= n < 65536 -> flag_group (flag_set_position f n) = flag_group f.
Proof. exact group_set_position. Qed.
Print Assumptions C01_group_set_position.
Theorem C01_bits_set_position : forall f n, 0 <= n < 65536 -> u16 (flag_set_position f n) = Z.lor (u16 f) FlagFrag.
Proof. exact bits_set_position. Qed.
Print Assumptions C01_bits_set_position.

Theorem C01_len_set_group : forall f n, 0 <= n < 65536 -> flag_len (flag_set_group f n) = flag_len f.
Proof. exact len_set_group. Qed.
Print Assumptions C01_len_set_group.
Theorem C01_position_set_group : forall f n, 0 <= n < 65536 -> flag_position (flag_set_group f n) = flag_position f.
Proof. exact position_set_group. Qed.
Print Assumptions C01_position_set_group.
Theorem C01_group_set_group : forall f n, 0 <= n < 65536 -> flag_group (flag_set_group f n) = n.
Proof. exact group_set_group. Qed.
Print Assumptions C01_group_set_group.
Theorem C01_bits_set_group : forall f n, 0 <= n < 65536 -> u16 (flag_set_group f n) = Z.lor (u16 f) FlagFrag.
Proof. exact bits_set_group. Qed.
Print Assumptions C01_bits_set_group.

(* the bit part: Set / Unset of a 16-bit mask leave the three fragment fields alone *)
Theorem C01_set_bits_independent : forall f n, 0 <= n < 65536 ->
  flag_len (flag_set f n) = flag_len f /\ flag_position (flag_set f n) = flag_position f /\
  flag_group (flag_set f n) = flag_group f /\ u16 (flag_set f n) = Z.lor (u16 f) n.
Proof. exact set_bits_independent. Qed.
Print Assumptions C01_set_bits_independent.
Theorem C01_unset_bits_independent : forall f n, 0 <= n < 65536 ->
  flag_len (flag_unset f n) = flag_len f /\ flag_position (flag_unset f n) = flag_position f /\
  flag_group (flag_unset f n) = flag_group f /\ u16 (flag_unset f n) = Z.ldiff (u16 f) n.
Proof. exact unset_bits_independent. Qed.
Print Assumptions C01_unset_bits_independent.

Theorem C01_setters_in_range : forall f n, 0 <= n < 65536 ->
  0 <= flag_set_len f n < 18446744073709551616 /\
  0 <= flag_set_position f n < 18446744073709551616 /\
  0 <= flag_set_group f n < 18446744073709551616.
Proof. exact setters_in_range. Qed.
Print Assumptions C01_setters_in_range.

(* Clear, as the code has it *)
Theorem C01_clear_fields_zero : forall f,
  flag_len (flag_clear f) = 0 /\ flag_position (flag_clear f) = 0 /\ flag_group (flag_clear f) = 0.
Proof. exact clear_fields_zero. Qed.
Print Assumptions C01_clear_fields_zero.
Theorem C01_clear_keeps_bits_of_frag : forall f, Z.testbit f 0 = true -> flag_clear f = Z.ldiff (u16 f) FlagFrag.
Proof. exact clear_keeps_bits_of_frag. Qed.
Print Assumptions C01_clear_keeps_bits_of_frag.
(* recorded, not condemned by the property: Clear on a word WITHOUT the fragment bit sets it (XOR) *)
Theorem C01_clear_sets_frag_when_absent : forall f, Z.testbit f 0 = false -> flag_clear f = Z.lor (u16 f) FlagFrag.
Proof. exact clear_sets_frag_when_absent. Qed.
Print Assumptions C01_clear_sets_frag_when_absent.
Theorem C01_clear_after_setter : forall f n, 0 <= n < 65536 ->
  flag_clear (flag_set_len f n) = Z.ldiff (u16 f) FlagFrag /\
  flag_clear (flag_set_position f n) = Z.ldiff (u16 f) FlagFrag /\
  flag_clear (flag_set_group f n) = Z.ldiff (u16 f) FlagFrag.
Proof. exact clear_after_setter. Qed.
Print Assumptions C01_clear_after_setter.

(* ---- non-vacuity: a well-formed fragment packet with tags and payload, read back through
   1-byte reads with trailing bytes; two packets on one stream; the flag word of the example ------ *)
Definition ex_dev : list Z := [26;189;239;82;127;67;30;72;240;210;225;224;111;207;52;153;165;44;167;15;95;172;184;6;174;40;170;124;115;176;162;201].
Definition ex_p : packet := mkP 240 4660 844429225558017 [3735928559; 1] ex_dev [104;101;108;108;111] 0.
Definition ex_q : packet := mkP 7 0 0 [] ex_dev (pay 3 300) 0.
(* ex_p after its payload was consumed to the end, and after three bytes were read *)
Definition ex_p5 : packet := set_rpos 5 ex_p.
Definition ex_p3 : packet := set_rpos 3 ex_p.
Example C01_nonvacuous :
  wf ex_p = true /\ wf_stream ex_p = true /\ wf ex_q = true /\
  len (wire ex_p) = 46 + 1 + 8 + 5 /\ len (wire ex_q) = 46 + 2 + 300 /\
  (do '(p, r) <- unmarshal (split (SEvery 1) (wire ex_p ++ [9;9;9])); Ok (p, concat r)) = Ok (ex_p, [9;9;9]) /\
  unmarshal_many 9 (split (SEvery 7) (wire ex_p ++ wire ex_q)) = Ok [ex_p; ex_q] /\
  (do '(p, r) <- unmarshal_srd (split (SEvery 3) (marshal_stream ex_p ++ [9])); Ok (p, concat r)) = Ok (ex_p, [9]) /\
  wf ex_p5 = true /\ marshal ex_p5 = Ok (wire ex_p) /\ size ex_p5 = 46 /\ size ex_p = 46 + 5 + 8 + 1 /\
  unmarshal_many 9 (split (SEvery 5) (wire ex_p5 ++ wire ex_q)) = Ok [ex_p; ex_q] /\
  (do '(p, r) <- unmarshal_stream (marshal_stream ex_p3 ++ marshal_stream ex_q); Ok (p_pay p, len r)) = Ok ([108;111], len (marshal_stream ex_q)) /\
  (* the last chunk delivered together with io.EOF (whole stream in one Read; 5-byte reads), and a failing Read after the packet *)
  (do '(p, r) <- unmarshal_e (esplit (SOnce []) 1 (wire ex_p)); Ok (p, ebytes r)) = Ok (ex_p, []) /\
  (do '(p, r) <- unmarshal_e (esplit (SEvery 5) 1 (wire ex_p ++ [9;9])); Ok (p, ebytes r)) = Ok (ex_p, [9;9]) /\
  (do '(p, r) <- unmarshal_e (esplit (SEvery 5) 13 (wire ex_p)); Ok (p, ebytes r)) = Ok (ex_p, []) /\
  (do '(p, r) <- unmarshal_srd_e (esplit (SEvery 4) 1 (marshal_stream (set_rpos 5 ex_p))); Ok (p_pay p, ebytes r)) = Ok ([], []) /\
  (* recorded: a (0, nil) read exactly where the payload starts is taken for the end of the stream *)
  unmarshal (split (SOnce [46 + 1 + 8; 0]) (wire ex_p)) = Err ErrUnexpectedEOF /\
  flag_len (p_flags ex_p) = 3 /\ flag_position (p_flags ex_p) = 1 /\ flag_group (p_flags ex_p) = 7 /\
  flag_set_position (p_flags ex_p) 2 = 844433520525313 /\ flag_clear (p_flags ex_p) = 0.
Proof. vm_compute. repeat split; reflexivity. Qed.
