(* Props/C20.v -- property theorems for C20 (UTF-16 helpers, registry values, FNV-1).
   Only statements; every proof is `exact <lemma>`; Print Assumptions under each. *)
From XMT Require Import Base.Prelude Model.Utf16 Proofs.Utf16.

(* UTF16FromString: standard encoding followed by exactly one terminator, for every rune
   sequence without NUL (any int32: surrogates, > U+10FFFF and negatives become U+FFFD, as in
   unicode/utf16). *)
Theorem C20_encode_is_std_plus_nul :
  forall rs, ~ In 0 rs -> utf16_from_runes rs = Ok (std_enc rs ++ [0]).
Proof. exact from_runes_std. Qed.
Print Assumptions C20_encode_is_std_plus_nul.

Theorem C20_encode_rejects_nul :
  forall rs, In 0 rs -> utf16_from_runes rs = Err EINVAL.
Proof. exact from_runes_rejects. Qed.
Print Assumptions C20_encode_rejects_nul.

(* UTF16EncodeStd is total and equals the standard encoding; no write leaves the buffer. *)
Theorem C20_encode_std_is_std :
  forall s, utf16_encode_std s = Ok (std_enc s).
Proof. exact encode_std_total. Qed.
Print Assumptions C20_encode_std_is_std.

(* the strict encoder on any slice whose only NUL (if any) is the last element *)
Theorem C20_encode_strict_is_std :
  forall s, no_inner_nul s -> utf16_encode s = Ok (std_enc s).
Proof. intros s H. exact (encode_gen_std true s (fun _ => H)). Qed.
Print Assumptions C20_encode_strict_is_std.

(* mutual inverse on valid text, whatever follows the terminator *)
Theorem C20_decode_encode :
  forall rs tail, valid_text rs -> utf16_decode (std_enc rs ++ 0 :: tail) = rs.
Proof. exact decode_encode. Qed.
Print Assumptions C20_decode_encode.

Theorem C20_decode_stops_at_first_nul :
  forall a b, ~ In 0 a -> utf16_decode (a ++ 0 :: b) = utf16_decode a.
Proof. exact decode_stops_at_nul. Qed.
Print Assumptions C20_decode_stops_at_first_nul.

Theorem C20_decode_output_fits :
  forall s, (length (utf16_decode s) <= length s)%nat.
Proof. exact decode_len. Qed.
Print Assumptions C20_decode_output_fits.

(* registry value decoding never reads outside the value (a read outside is Panic in the model) *)
Theorem C20_entry_reads_in_bounds :
  forall ty d, entry_to_string ty d <> Panic /\ entry_to_string_list ty d <> Panic /\ entry_to_integer ty d <> Panic.
Proof.
  intros ty d. exact (conj (entry_to_string_no_panic ty d)
                     (conj (entry_to_string_list_no_panic ty d) (entry_to_integer_no_panic ty d))).
Qed.
Print Assumptions C20_entry_reads_in_bounds.

Theorem C20_entry_view_is_own_bytes :
  forall d e k i, 0 <= i -> 2 * (i + Z.of_nat k) <= len d -> view_from (d ++ e) i k = view_from d i k.
Proof. exact view_from_prefix. Qed.
Print Assumptions C20_entry_view_is_own_bytes.

(* FnvHash is the FNV-1 recurrence on 32 bits over every byte *)
Theorem C20_fnv_is_fnv1 :
  fnv [] = 2166136261 /\
  (forall s c, fnv (s ++ [c]) = Z.lxor ((fnv s * 16777619) mod 2 ^ 32) c) /\
  (forall s, Forall (fun c => 0 <= c < 256) s -> 0 <= fnv s < 2 ^ 32).
Proof. exact (conj fnv_nil (conj fnv_snoc fnv_range)). Qed.
Print Assumptions C20_fnv_is_fnv1.

(* non-vacuity: the hypotheses are met by ordinary text with a supplementary-plane rune *)
Example C20_nonvacuous :
  ~ In 0 [97; 128512; 98] /\ valid_text [97; 128512; 98] /\
  utf16_from_runes [97; 128512; 98] = Ok [97; 55357; 56832; 98; 0] /\
  utf16_decode [97; 55357; 56832; 98; 0; 7] = [97; 128512; 98].
Proof.
  split; [cbn; intuition lia|]. split; [repeat constructor; cbn; lia|]. split; vm_compute; reflexivity.
Qed.
