(* Props/C05.v -- property theorems for C05 (every task completes exactly once with its own
   result).  Only statements; every proof is `exact <lemma>`; Print Assumptions under each.

   The machine is Model/Exchange.v: `run_hist run h init c` is the pair of ends of the session
   of device c after the history h (ANY interleaving of Task / Exchange with ANY batch budgets /
   Run in ANY order / Dup / ChannelOn / ChannelOff / Rekey / KeepAlive over ANY devices);
   `run : device -> payload -> result` is what the client computes.  Hypotheses, explicit:
   - l_safe: a re-delivered result (Dup) arrives while its job id is not tracked again.  The
     freshness of job ids among the tracked jobs (C14) is enforced by the Task step itself (a
     Task with a tracked id, an id below 2 or a full queue is refused and schedules nothing).
   - l_live (liveness only): every exchange intact (C02/C03: what a batch takes from a queue
     is delivered in order exactly once), every key swap completed on both ends (C06), fewer
     outstanding jobs than the 128 queue slots at every Task (the property's side condition).
   - packets reach only their own session (C15): by construction, see C05_no_cross_client. *)
From XMT Require Import Base.Prelude Model.Exchange Proofs.Exchange.

(* a finished Job holds the result ITS client computed from ITS payload *)
Theorem C05_job_result_own : forall run h c p r,
  hist_ok run l_safe h init ->
  In (p, r) (s_done (run_hist run h init c)) ->
  r = run c (p_pl p) /\ In p (s_sched (run_hist run h init c)).
Proof. exact job_result_own. Qed.
Print Assumptions C05_job_result_own.

(* a Job completes at most once: whatever happens later (h2), the recorded result is the one
   recorded first, and no Job (serial) occurs twice among the finished ones *)
Theorem C05_job_completes_at_most_once : forall run h h2 c p r r',
  hist_ok run l_safe (h ++ h2) init ->
  In (p, r) (s_done (run_hist run h init c)) ->
  In (p, r') (s_done (run_hist run (h ++ h2) init c)) ->
  r' = r /\ NoDup (sers (map fst (s_done (run_hist run (h ++ h2) init c)))).
Proof. exact job_completes_at_most_once. Qed.
Print Assumptions C05_job_completes_at_most_once.

(* a client executes a job at most once, and only jobs scheduled on ITS session *)
Theorem C05_client_runs_each_once : forall run h c,
  hist_ok run l_safe h init ->
  NoDup (sers (c_exec (run_hist run h init c))) /\
  incl (c_exec (run_hist run h init c)) (s_sched (run_hist run h init c)).
Proof. exact client_runs_each_once. Qed.
Print Assumptions C05_client_runs_each_once.

(* the session of device c is a function of the steps that name c: no step of another device
   changes its table, queues, execution log or results *)
Theorem C05_no_cross_client : forall run h c,
  run_hist run h init c = run_hist run (filter (names c) h) init c.
Proof. exact no_cross_client. Qed.
Print Assumptions C05_no_cross_client.

(* liveness with the explicit bound mu = 2 |server queue| + 2 |running taskers| + |client queue|:
   after a loss-free history, any interleaving of fair rounds (an intact exchange with positive
   budgets, then the started taskers finish) containing at least mu rounds of every device
   leaves every scheduled job finished with its own result, executed, and nothing tracked *)
Theorem C05_drain_completes_all : forall run h rs,
  hist_ok run l_live h init ->
  Forall budgets_pos rs ->
  (forall c, (mu (run_hist run h init c) <= count_rounds c rs)%nat) ->
  forall c p, In p (s_sched (run_hist run h init c)) ->
    In (p, run c (p_pl p)) (s_done (drain run rs (run_hist run h init) c)) /\
    In p (c_exec (drain run rs (run_hist run h init) c)) /\
    s_jobs (drain run rs (run_hist run h init) c) = [].
Proof. exact drain_completes_all. Qed.
Print Assumptions C05_drain_completes_all.

(* the drain is a history of the same machine (intact exchanges and finishing taskers only) *)
Theorem C05_drain_is_a_history : forall run rs st,
  exists h, drain run rs st = run_hist run h st /\ Forall drain_label h.
Proof. exact drain_as_history. Qed.
Print Assumptions C05_drain_is_a_history.

(* ---- non-vacuity: 2 devices, 3 jobs, out-of-order taskers, a duplicate result, a channel
   switch, a re-key, a job id drawn again after it finished ---------------------------- *)
Definition ex_run (c p : Z) : Z := c * 1000 + p.
Definition ex_hist : list label :=
  [ Task 1 7 100; Task 2 7 200; Task 1 9 300; ChannelOn 1;
    Exchange 1 0 5 true; Run 1 1; Run 1 0;           (* job 9 finishes before job 7 *)
    Exchange 1 1 0 true;                             (* the result of job 9 is accepted *)
    Dup 1 9 1300;                                    (* and delivered once more: ignored *)
    Exchange 2 1 1 true; Run 2 0; Rekey 2 true; ChannelOff 1;
    Task 1 9 400;                                    (* id 9 is free again *)
    Exchange 1 4 4 true; Exchange 2 2 2 true ].

Example C05_nonvacuous_hypotheses : hist_ok ex_run l_live ex_hist init.
Proof. vm_compute. repeat split; reflexivity. Qed.

Example C05_nonvacuous_outcome :
  let st := drain ex_run [(1, (1%nat, 1%nat)); (2, (3%nat, 3%nat)); (1, (2%nat, 2%nat)); (1, (1%nat, 1%nat))]
                  (run_hist ex_run ex_hist init) in
  map (fun d => (p_job (fst d), p_ser (fst d), snd d)) (s_done (st 1)) = [(9, 2, 1400); (7, 0, 1100); (9, 1, 1300)] /\
  map (fun d => (p_job (fst d), p_ser (fst d), snd d)) (s_done (st 2)) = [(7, 0, 2200)] /\
  map p_ser (c_exec (st 1)) = [2; 0; 1] /\ s_jobs (st 1) = [] /\ s_jobs (st 2) = [] /\
  mu (run_hist ex_run ex_hist init 1) = 2%nat /\ s_chan (st 1) = false /\ s_key (st 2) = 1.
Proof. vm_compute. repeat split; reflexivity. Qed.

(* ---- the hypotheses are needed (witnesses by computation) ------------------------------ *)
(* l_safe: Session.handle gives a tracked Job whatever result arrives under its id; a re-delivery
   of the OLD result of id 7 after id 7 was drawn again finishes the NEW job with it *)
Example C05_stale_duplicate_hazard :
  exists h, ~ hist_ok ex_run l_safe h init /\
    exists p r, In (p, r) (s_done (run_hist ex_run h init 1)) /\ r <> ex_run 1 (p_pl p).
Proof.
  exists [Task 1 7 100; Exchange 1 0 1 true; Run 1 0; Exchange 1 1 0 true; Task 1 7 200; Dup 1 7 1100].
  split.
  - vm_compute. intros (_ & _ & _ & _ & _ & H & _). discriminate H.
  - exists (Pkt 7 1 200), 1100. split; [vm_compute; left; reflexivity | vm_compute; discriminate].
Qed.

(* l_live: one cut connection (ok = false) and the job it carried is never finished, however
   long the session is drained afterwards *)
Example C05_loss_breaks_liveness :
  forall n, s_jobs (drain ex_run (repeat (1, (4%nat, 4%nat)) n)
                      (run_hist ex_run [Task 1 7 100; Exchange 1 1 1 false] init) 1) = [Pkt 7 0 100].
Proof.
  assert (E : forall st, st 1 = run_hist ex_run [Task 1 7 100; Exchange 1 1 1 false] init 1 ->
                ground ex_run st (1, (4%nat, 4%nat)) 1 = st 1).
  { intros st H. rewrite ground_same. rewrite H. vm_compute. reflexivity. }
  intro n. set (st0 := run_hist ex_run [Task 1 7 100; Exchange 1 1 1 false] init).
  assert (G : forall st, st 1 = st0 1 -> drain ex_run (repeat (1, (4%nat, 4%nat)) n) st 1 = st0 1).
  { induction n as [|n IH]; intros st H; [exact H|]. cbn [repeat].
    change (drain ex_run ((1, (4%nat, 4%nat)) :: repeat (1, (4%nat, 4%nat)) n) st)
      with (drain ex_run (repeat (1, (4%nat, 4%nat)) n) (ground ex_run st (1, (4%nat, 4%nat)))).
    apply IH. rewrite (E st H). exact H. }
  rewrite G; reflexivity.
Qed.

(* ======================================================================================== *)
(* The composition, CHECKED (Proofs/Compose.v).  Model/Exchange.v takes the contracts of C02,
   C03, C06, C14, C15 as the semantics of its steps.  Below, every contract is a statement that
   connects the definitions of the component model (Model/Batch.v, Job.v, Frag.v, Keys.v, Table.v:
   the functions their own `check` evaluates against the implementation) to the views of
   Exchange.v, proved from the component's theorems.  A premise that is not a well-formedness
   condition of the component is a case the composition does NOT cover; these are listed in
   notes/C05.md ("Composition: what is derived, what is still assumed").  Names of the component
   models are written qualified (Batch.x, Job.x, Frag.x, Keys.x, Table.x); C03E / C14R / C02E /
   C06E / C15E are the abstraction functions of Proofs/Compose.v. *)
From XMT Require Proofs.Compose.

(* ---- C03: one transmission of Batch.v = one direction of an intact Exchange step ---------------
   abs ser p: the queued packet p of Batch.v as a packet of Exchange.v (job number, name, content
   id; a keep-alive is the flag packet); ser: ANY naming of packets that ignores tags and the
   device fill-in.  okp: keep-alive or ordinary data packet.  From a state without an abandoned
   group: Session.next consumes k >= 1 packets (k = |pending before| - |pending after|), the
   carried-over packet and the rest of the channel ARE the queue view of Exchange.v after
   `Exchange dev 0 k true`, and the tasks the receiver's unpacking hands to the handlers are what
   that step appended to the client's running taskers; nothing else changes. *)
Definition C05_stmt_C03_transmission : Prop :=
  forall (ser : Batch.packet -> Z),
  (forall p t, ser (Batch.set_tags p t) = ser p) -> (forall p d, ser (Batch.set_dev p d) = ser p) ->
  forall run dev c reg st tx st' (s : sess),
  Batch.wf_conf c -> Forall Compose.C03E.okp (Batch.pending st) ->
  Batch.all_reg reg (Batch.c_own c) (Batch.pending st) -> Batch.s_last st = 0 ->
  Batch.session_next c st = (Some tx, st') ->
  sq s = map (Compose.C03E.abs ser) (Batch.pending st) -> s_key s = c_key s ->
  let k := (length (Batch.pending st) - length (Batch.pending st'))%nat in
  let s' := sstep run dev (Exchange dev 0 k true) s in
  (Batch.pending st <> [] -> (1 <= k)%nat) /\ Batch.s_last st' = 0 /\
  sq s' = map (Compose.C03E.abs ser) (Batch.pending st') /\
  c_inbox s' = c_inbox s ++ tasks_of (map (Compose.C03E.dabs ser) (fst (Batch.recv_tx reg (Batch.c_own c) tx))) /\
  Compose.Views.srv_frame s' = Compose.Views.srv_frame s.
Theorem C05_contract_C03_transmission : C05_stmt_C03_transmission.
Proof. exact Compose.C03E.batch_tx_refines_exchange_down. Qed.
Print Assumptions C05_contract_C03_transmission.

(* the same transmission read as the CLIENT's batch: the receiver's handler is Session.handle,
   folded (handle_tbl) over what was delivered, in order *)
Definition C05_stmt_C03_results : Prop :=
  forall (ser : Batch.packet -> Z),
  (forall p t, ser (Batch.set_tags p t) = ser p) -> (forall p d, ser (Batch.set_dev p d) = ser p) ->
  forall run dev c reg st tx st' (s : sess),
  Batch.wf_conf c -> Forall Compose.C03E.okp (Batch.pending st) ->
  Batch.all_reg reg (Batch.c_own c) (Batch.pending st) -> Batch.s_last st = 0 ->
  Batch.session_next c st = (Some tx, st') ->
  rq s = map (Compose.C03E.abs ser) (Batch.pending st) -> s_key s = c_key s ->
  let k := (length (Batch.pending st) - length (Batch.pending st'))%nat in
  let s' := sstep run dev (Exchange dev k 0 true) s in
  (Batch.pending st <> [] -> (1 <= k)%nat) /\ Batch.s_last st' = 0 /\
  rq s' = map (Compose.C03E.abs ser) (Batch.pending st') /\
  Compose.Views.tbl_of s' =
    fold_left Compose.Views.handle_tbl (map (Compose.C03E.dabs ser) (fst (Batch.recv_tx reg (Batch.c_own c) tx)))
              (Compose.Views.tbl_of s) /\
  Compose.Views.cli_frame s' = Compose.Views.cli_frame s.
Theorem C05_contract_C03_results : C05_stmt_C03_results.
Proof. exact Compose.C03E.batch_tx_refines_exchange_up. Qed.
Print Assumptions C05_contract_C03_results.

(* the whole drain of Batch.v (next() until nothing is pending) from a fresh queue q: simulated by
   |drain| intact exchanges with positive budgets; afterwards the server queue is empty and the
   client has started a tasker for exactly the tasks of q, in queue order, each once; what the
   receiver was handed is q without its keep-alives (C03_drain_delivers_plain) *)
Definition C05_stmt_C03_drain : Prop :=
  forall (ser : Batch.packet -> Z),
  (forall p t, ser (Batch.set_tags p t) = ser p) -> (forall p d, ser (Batch.set_dev p d) = ser p) ->
  forall run dev c reg q (s : sess),
  Batch.wf_conf c -> Forall Compose.C03E.okp q -> Batch.all_reg reg (Batch.c_own c) q ->
  sq s = map (Compose.C03E.abs ser) q -> s_key s = c_key s ->
  exists ks, length ks = length (Batch.drain c reg (Batch.mkS q None 0)) /\
    (q <> [] -> Forall Compose.C03E.pos ks) /\
    sq (Compose.C03E.srun run dev (Compose.C03E.down_labels dev ks) s) = [] /\
    c_inbox (Compose.C03E.srun run dev (Compose.C03E.down_labels dev ks) s) =
      c_inbox s ++ tasks_of (map (Compose.C03E.abs ser) q) /\
    Compose.Views.srv_frame (Compose.C03E.srun run dev (Compose.C03E.down_labels dev ks) s) = Compose.Views.srv_frame s /\
    map (Compose.C03E.dabs ser) (Batch.deliveries (Batch.drain c reg (Batch.mkS q None 0))) =
      map (Compose.C03E.abs ser) (Batch.nonnop q).
Theorem C05_contract_C03_drain : C05_stmt_C03_drain.
Proof. exact Compose.C03E.batch_drain_refines_exchange. Qed.
Print Assumptions C05_contract_C03_drain.

(* ---- C14: the job table of Job.v, operation by operation -------------------------------------------
   JR pl js s: the session js of Job.v satisfies its invariant, nobody holds Session.lock (held = None:
   the state between two operations), its table (job number -> handle) IS s_jobs of s (the handle is
   the ghost serial), the Jobs it finished by a result are exactly s_done of s, the number of Jobs
   created is s_serial.  pl: the (ghost) payload of the n-th Job.  apply_op runs ONE operation alone
   through all its atomic steps (the write-locked sections of handle and Cancel are several writes
   each): the statements are about the sequential projection of those programs.
   Task: Job.v and Exchange.v refuse together and accept together. *)
Definition C05_stmt_C14_task : Prop :=
  forall pl run c js (s : sess) id draws full r js',
  Compose.C14R.JR pl js s -> (id = 0 \/ 2 <= u16 id) ->
  full = negb (len (s_send s) + 1 <? qcap) ->
  Job.apply_op (Job.OTask id draws full) js = Ok (r, js') ->
  let j := Compose.C14E.task_id id draws (Job.table js) in
  Compose.C14R.JR pl js' (sstep run c (Task c j (pl (length (Job.jobs js)))) s) /\
  (r = Job.RJob (length (Job.jobs js)) <-> task_ok j s = true).
Theorem C05_contract_C14_task : C05_stmt_C14_task.
Proof. exact Compose.C14R.job_task_refines. Qed.
Print Assumptions C05_contract_C14_task.

(* a result packet (normal, error, duplicate, unknown, numbered below 2) is Session.handle of
   Exchange.v, which is also its re-delivery step Dup; a packet that is no result is no step *)
Definition C05_stmt_C14_handle : Prop :=
  forall pl js (s : sess) wf id err tag bytes x r js',
  Compose.C14R.JR pl js s -> Job.apply_op (Job.OHandle wf id err tag bytes) js = Ok (r, js') ->
  Compose.C14R.JR pl js' (if wf then handle s (Pkt id x tag) else s) /\
  (r = Job.RBool true <-> wf = true /\ 2 <= id /\ tracked id s = true).
Theorem C05_contract_C14_handle : C05_stmt_C14_handle.
Proof. exact Compose.C14R.job_handle_refines. Qed.
Print Assumptions C05_contract_C14_handle.

(* Cancel: of a finished Job it changes nothing; of a pending tracked Job it is NOT a step of
   Exchange.v (the related state is the old one with the entry deleted and no result recorded) *)
Definition C05_stmt_C14_cancel : Prop :=
  forall pl js (s : sess) h r js',
  Compose.C14R.JR pl js s -> Job.apply_op (Job.OCancel h) js = Ok (r, js') ->
  ((Job.getj js h = None \/ exists j, Job.getj js h = Some j /\ Job.jdone j = Job.Nil) -> js' = js) /\
  (forall j, Job.getj js h = Some j -> Job.jdone j = Job.Open -> Job.lookup (Job.jid j) (Job.table js) = Some h ->
     Compose.C14R.JR pl js' (set_table (del_job (Job.jid j) (s_jobs s)) (s_done s) s) /\ tracked (Job.jid j) s = true).
Theorem C05_contract_C14_cancel : C05_stmt_C14_cancel.
Proof. exact Compose.C14R.job_cancel_refines. Qed.
Print Assumptions C05_contract_C14_cancel.

(* every admissible sequential history of Job.v (run_ops: what the C14 check evaluates) runs to its
   end and the labels read off it (Task for Task, Dup for a result, nothing for newJobID / Wait /
   IsDone / Jobs / Job / hasJob / Cancel of a finished Job) lead Exchange.v to a related state *)
Definition C05_stmt_C14_histories : Prop :=
  forall pl run c ops js (s : sess),
  Compose.C14R.JR pl js s -> Compose.C14R.job_adm pl run c ops js s ->
  exists rets js', Job.run_ops ops js = Ok (rets, js') /\
    Compose.C14R.JR pl js' (Compose.C14R.srun run c (Compose.C14R.job_trace pl c ops js) s).
Theorem C05_contract_C14_histories : C05_stmt_C14_histories.
Proof. exact Compose.C14R.job_ops_refine. Qed.
Print Assumptions C05_contract_C14_histories.

(* ---- C02: a fragmented packet is one delivery ------------------------------------------------------
   under the premises of C02_reassemble_any_order (position 0 first, paced) the arrivals of the
   group hand exactly ONE packet to the handlers; as far as Exchange.v can see (job number, payload)
   it is the original, and the handler of either end runs once on it *)
Definition C05_stmt_C02_one_delivery : Prop :=
  forall (A : Type) (digest : list A -> Z) (ser : Z -> Z -> Z)
         (F g self : Z) (n : Frag.packet A) (evs : list (Frag.ev A)) (st0 : Frag.state A),
  Frag.HeaderSize <= F -> 0 <= Frag.p_tags n -> F < Frag.size n -> Frag.nfrag F n <= 65535 -> Frag.addressed self n ->
  NoDup (map fst st0) -> Frag.lookup g st0 = None ->
  Permutation.Permutation (Frag.own_pkts g evs) (Frag.split F g n) ->
  hd_error (Frag.own_pkts g evs) = hd_error (Frag.split F g n) ->
  Frag.paced g evs = true ->
  let got := Compose.C02E.delivered (Frag.own_outs g evs (snd (Frag.run self st0 evs))) in
  got = [Frag.reassembled n] /\
  map (Compose.C02E.fabs digest ser) got = [Compose.C02E.fabs digest ser n] /\
  Frag.lookup g (fst (Frag.run self st0 evs)) = None /\
  (forall s, fold_left recv_task (map (Compose.C02E.fabs digest ser) got) s = recv_task s (Compose.C02E.fabs digest ser n)) /\
  (forall s, fold_left handle (map (Compose.C02E.fabs digest ser) got) s = handle s (Compose.C02E.fabs digest ser n)).
Theorem C05_contract_C02_one_delivery : C05_stmt_C02_one_delivery.
Proof. exact (@Compose.C02E.frag_group_is_one_delivery). Qed.
Print Assumptions C05_contract_C02_one_delivery.

(* Session.write(false, n) against the queue test of the Task step (len(send) + 1 < 128): the same
   test for a packet that fits one fragment; for a fragmented packet the code accepting implies
   Exchange.v accepts (and the split is what is queued), NOT the converse *)
Definition C05_stmt_C02_write_capacity : Prop :=
  forall (A : Type) (F local g : Z) (n : Frag.packet A) (s : sess),
  0 < F -> 0 <= Frag.p_tags n ->
  let qlen := len (s_send s) in
  (Frag.size n <= F ->
     (fst (Frag.write F qcap false local qlen g n) = 0 <-> (qlen + 1 <? qcap) = true) /\
     (fst (Frag.write F qcap false local qlen g n) = 0 ->
      snd (Frag.write F qcap false local qlen g n) = [Frag.stamp local n])) /\
  (F < Frag.size n -> fst (Frag.write F qcap false local qlen g n) = 0 ->
     (qlen + 1 <? qcap) = true /\ 2 <= Frag.nfrag F n /\ Frag.nfrag F n <= qcap - qlen /\
     snd (Frag.write F qcap false local qlen g n) = map (Frag.stamp local) (Frag.split F g n)).
Theorem C05_contract_C02_write_capacity : C05_stmt_C02_write_capacity.
Proof. exact (@Compose.C02E.frag_write_vs_task_capacity). Qed.
Print Assumptions C05_contract_C02_write_capacity.

(* ---- C06: complete rounds of the key machine keep the key epochs of Exchange.v equal -------------
   any sequence of complete connections (a key announcement with its reply: Rekey c true; an
   ordinary packet with its reply: Exchange c kc ks true) from settled ends: Keys.v is settled after
   it, s_key = c_key after the matching labels (so every such exchange delivers its batches), and
   the handlers of Keys.v saw exactly the payloads sent, in order.  dh_comm is C06's only premise. *)
Definition C05_stmt_C06_rounds : Prop :=
  forall (priv point : Type) (pub : priv -> point) (dh : priv -> point -> list Z),
  (forall a b, dh a (pub b) = dh b (pub a)) ->
  forall xrun c (rs : list (Compose.C06E.kround priv * (nat * nat))) k (s : sess),
  Keys.settled pub k -> s_key s = c_key s ->
  let k' := Compose.C06E.krun priv point pub dh (flat_map (fun r => Compose.C06E.kround_events priv (fst r)) rs) k in
  let s' := fold_left (fun s r => sstep xrun c (Compose.C06E.kround_label priv c r) s) rs s in
  Keys.settled pub k' /\ s_key s' = c_key s' /\
  Keys.s_seen k' = fold_left (Compose.C06E.s_log priv) rs (Keys.s_seen k) /\
  Keys.c_seen k' = fold_left (Compose.C06E.c_log priv) rs (Keys.c_seen k).
Theorem C05_contract_C06_rounds : C05_stmt_C06_rounds.
Proof. exact Compose.C06E.keys_rounds_refine. Qed.
Print Assumptions C05_contract_C06_rounds.

(* ---- C15: what a packet causes happens in the sessions of the devices it names ---------------------
   one operation on the session table of Table.v: every handler call it causes, read as the Dup
   (= Session.handle) label of the session it ran in, names a device the packet names, and the
   session of every other device of Exchange.v is what it was (no no-collision premise) *)
Definition C05_stmt_C15_named_sessions : Prop :=
  forall (enc : Table.id -> Z) (res : Table.id -> Z -> Z) xrun a t o t' e r,
  Table.wf t -> Table.step a t o = (t', e, r) ->
  Forall (Compose.C15E.named_by enc (Table.op_names o)) (flat_map (Compose.C15E.eff_labels enc res) e) /\
  forall st c, ~ In c (map enc (Table.op_names o)) ->
    run_hist xrun (flat_map (Compose.C15E.eff_labels enc res) e) st c = st c.
Theorem C05_contract_C15_named_sessions : C05_stmt_C15_named_sessions.
Proof. exact Compose.C15E.table_step_touches_named. Qed.
Print Assumptions C05_contract_C15_named_sessions.

(* ---- all of it ---------------------------------------------------------------------------------- *)
Theorem C05_exchange_contracts_hold_in_component_models :
  C05_stmt_C03_transmission /\ C05_stmt_C03_results /\ C05_stmt_C03_drain /\
  C05_stmt_C14_task /\ C05_stmt_C14_handle /\ C05_stmt_C14_cancel /\ C05_stmt_C14_histories /\
  C05_stmt_C02_one_delivery /\ C05_stmt_C02_write_capacity /\
  C05_stmt_C06_rounds /\ C05_stmt_C15_named_sessions.
Proof.
  exact (conj C05_contract_C03_transmission (conj C05_contract_C03_results (conj C05_contract_C03_drain
        (conj C05_contract_C14_task (conj C05_contract_C14_handle (conj C05_contract_C14_cancel
        (conj C05_contract_C14_histories (conj C05_contract_C02_one_delivery (conj C05_contract_C02_write_capacity
        (conj C05_contract_C06_rounds C05_contract_C15_named_sessions)))))))))).
Qed.
Print Assumptions C05_exchange_contracts_hold_in_component_models.

(* ---- histories generated by the component models' own step functions ------------------------------
   let Batch.v's drain generate the exchanges: appended to ANY l_safe history whose server queue of
   dev abstracts the Batch.v queue q, its transmissions are a history of the same machine, l_safe
   (l_live if h was); the queue is empty after it, the client has started exactly the tasks of q,
   and C05_job_result_own holds of the extended history *)
Theorem C05_history_with_batch_drains :
  forall run (ser : Batch.packet -> Z),
  (forall p t, ser (Batch.set_tags p t) = ser p) -> (forall p d, ser (Batch.set_dev p d) = ser p) ->
  forall h dev c reg q,
  hist_ok run l_safe h init ->
  Batch.wf_conf c -> Forall Compose.C03E.okp q -> Batch.all_reg reg (Batch.c_own c) q ->
  sq (run_hist run h init dev) = map (Compose.C03E.abs ser) q ->
  s_key (run_hist run h init dev) = c_key (run_hist run h init dev) ->
  exists ks, length ks = length (Batch.drain c reg (Batch.mkS q None 0)) /\ (q <> [] -> Forall Compose.C03E.pos ks) /\
    let h' := h ++ Compose.C03E.down_labels dev ks in
    hist_ok run l_safe h' init /\ (hist_ok run l_live h init -> hist_ok run l_live h' init) /\
    sq (run_hist run h' init dev) = [] /\
    c_inbox (run_hist run h' init dev) = c_inbox (run_hist run h init dev) ++ tasks_of (map (Compose.C03E.abs ser) q) /\
    (forall p r, In (p, r) (s_done (run_hist run h' init dev)) ->
                 r = run dev (p_pl p) /\ In p (s_sched (run_hist run h' init dev))).
Proof. exact Compose.Gen.exchange_history_with_batch_drain. Qed.
Print Assumptions C05_history_with_batch_drains.

(* let Job.v generate the Task / result steps: every admissible sequential history of Job.v from the
   empty session, read as labels of device c, is a history of Exchange.v from init whose session of c
   has Job.v's table as tracked jobs and Job.v's result-finished Jobs as finished jobs *)
Theorem C05_history_of_job_operations :
  forall run pl c ops,
  Compose.C14R.job_adm pl run c ops Job.s0 init_sess ->
  exists rets js, Job.run_ops ops Job.s0 = Ok (rets, js) /\
    Compose.C14R.JR pl js (run_hist run (Compose.C14R.job_trace pl c ops Job.s0) init c) /\
    Forall (fun l => client_of l = c) (Compose.C14R.job_trace pl c ops Job.s0).
Proof. exact Compose.Gen.exchange_history_of_job_ops. Qed.
Print Assumptions C05_history_of_job_operations.

(* ---- non-vacuity of the composition ------------------------------------------------------------------
   Job.v: two Tasks (numbers drawn 7 and 9), hasJob, the result of 7, a duplicate of it, a packet that
   is no result, Cancel of the finished Job, a Task with the caller-chosen tracked number 9 (refused by
   both).  The history is admissible; the labels read off it; the session of Exchange.v tracks 9 and
   has finished (7, serial 0) with 1100. *)
Definition cx_pl (n : nat) : Z := 100 * Z.of_nat n + 100.
Definition cx_ops : list Job.op :=
  [ Job.OTask 0 [7] false; Job.OTask 0 [7; 9] false; Job.OHasJob 9; Job.OHandle true 7 false 1100 [1; 2];
    Job.OHandle true 7 true 55 []; Job.OHandle false 9 false 1 []; Job.OCancel 0%nat; Job.OTask 9 [] false ].

Example C05_compose_nonvacuous_jobs :
  Compose.C14R.job_adm cx_pl ex_run 1 cx_ops Job.s0 init_sess /\
  Compose.C14R.job_trace cx_pl 1 cx_ops Job.s0 =
    [Task 1 7 100; Task 1 9 200; Dup 1 7 1100; Dup 1 7 55; Task 1 9 300] /\
  map p_job (s_jobs (run_hist ex_run (Compose.C14R.job_trace cx_pl 1 cx_ops Job.s0) init 1)) = [9] /\
  map (fun d => (p_job (fst d), p_ser (fst d), snd d))
      (s_done (run_hist ex_run (Compose.C14R.job_trace cx_pl 1 cx_ops Job.s0) init 1)) = [(7, 0, 1100)].
Proof.
  split; [|vm_compute; repeat split; reflexivity].
  vm_compute.
  repeat match goal with
         | |- _ /\ _ => split
         | |- True => exact I
         | |- _ = _ => reflexivity
         | |- 0 = 0 \/ _ => left; reflexivity
         | |- _ \/ (_ -> False) => right; discriminate
         | |- _ = None \/ _ => right; eexists; split; reflexivity
         end.
Qed.

(* Batch.v: the queue of C03_nonvacuous (a large packet, a keep-alive, a packet for device 2, a small
   one, a large one, one with key material, a small one; F = 256 KiB).  The premises of the C03
   contract hold (ser := the packet ID ignores tags and device); the five transmissions of its
   drain consume 2, 2, 1, 1, 1 packets; the five Exchange steps with these budgets empty the server
   queue of Exchange.v and start the five tasks numbered >= 2 in queue order (the packet numbered 1 is
   delivered by Batch.v like the others; the client of Exchange.v, like Session.handle, acts on numbers >= 2). *)
Example C05_compose_nonvacuous_batch :
  (forall p t, Batch.p_id (Batch.set_tags p t) = Batch.p_id p) /\
  (forall p d, Batch.p_id (Batch.set_dev p d) = Batch.p_id p) /\
  Batch.wf_conf C03.ex_conf /\ Forall Compose.C03E.okp C03.ex_queue /\
  Batch.all_reg C03.ex_reg (Batch.c_own C03.ex_conf) C03.ex_queue /\
  map (Compose.C03E.abs Batch.p_id) C03.ex_queue =
    [Pkt 1 7 11; flag_pkt; Pkt 2 8 12; Pkt 3 9 13; Pkt 4 10 14; Pkt 5 11 0; Pkt 6 12 16] /\
  map (fun st => (length (Batch.pending (Batch.st_after st))))
      (Batch.drain C03.ex_conf C03.ex_reg (Batch.mkS C03.ex_queue None 0)) = [5; 3; 2; 1; 0]%nat /\
  let s := set_sq (map (Compose.C03E.abs Batch.p_id) C03.ex_queue) init_sess in
  let s' := Compose.C03E.srun ex_run 1 (Compose.C03E.down_labels 1 [2; 2; 1; 1; 1]%nat) s in
  sq s' = [] /\ c_inbox s' = [Pkt 2 8 12; Pkt 3 9 13; Pkt 4 10 14; Pkt 5 11 0; Pkt 6 12 16].
Proof.
  destruct C03.C03_nonvacuous as [W [Q [R _]]].
  split; [reflexivity|]. split; [reflexivity|]. split; [exact W|]. split; [exact Q|]. split; [exact R|].
  split; [vm_compute; reflexivity|]. split; [vm_compute; reflexivity|]. vm_compute. split; reflexivity.
Qed.
