(* Props/C05.v -- property theorems for C05 (every task completes exactly once with its own
   result).  Only statements; every proof is `exact <lemma>`; Print Assumptions under each.

   The machine is Model/Exchange.v: `run_hist run h init c` is the pair of ends of the session
   of device c after the history h (ANY interleaving of Task / Exchange with ANY batch budgets /
   Run in ANY order / Dup / ChannelOn / ChannelOff / Rekey / KeepAlive over ANY devices);
   `run : device -> payload -> result` is what the client computes.  Hypotheses, explicit:
   - l_safe: a re-delivered result (Dup) arrives while its job id is not tracked again.  The
     freshness of job ids among the tracked jobs (C14) is enforced by the Task step itself (a
     Task with a tracked id, an id below 2 or a full queue is refused and schedules nothing).
   - l_live (liveness only): every exchange intact (C02/C03: what a batch takes from a queue
     is delivered in order exactly once), every key swap completed on both ends (C06), fewer
     outstanding jobs than the 128 queue slots at every Task (the property's side condition).
   - packets reach only their own session (C15): by construction, see C05_no_cross_client. *)
From XMT Require Import Base.Prelude Model.Exchange Proofs.Exchange.

(* a finished Job holds the result ITS client computed from ITS payload *)
Theorem C05_job_result_own : forall run h c p r,
  hist_ok run l_safe h init ->
  In (p, r) (s_done (run_hist run h init c)) ->
  r = run c (p_pl p) /\ In p (s_sched (run_hist run h init c)).
Proof. exact job_result_own. Qed.
Print Assumptions C05_job_result_own.

(* a Job completes at most once: whatever happens later (h2), the recorded result is the one
   recorded first, and no Job (serial) occurs twice among the finished ones *)
Theorem C05_job_completes_at_most_once : forall run h h2 c p r r',
  hist_ok run l_safe (h ++ h2) init ->
  In (p, r) (s_done (run_hist run h init c)) ->
  In (p, r') (s_done (run_hist run (h ++ h2) init c)) ->
  r' = r /\ NoDup (sers (map fst (s_done (run_hist run (h ++ h2) init c)))).
Proof. exact job_completes_at_most_once. Qed.
Print Assumptions C05_job_completes_at_most_once.

(* a client executes a job at most once, and only jobs scheduled on ITS session *)
Theorem C05_client_runs_each_once : forall run h c,
  hist_ok run l_safe h init ->
  NoDup (sers (c_exec (run_hist run h init c))) /\
  incl (c_exec (run_hist run h init c)) (s_sched (run_hist run h init c)).
Proof. exact client_runs_each_once. Qed.
Print Assumptions C05_client_runs_each_once.

(* the session of device c is a function of the steps that name c: no step of another device
   changes its table, queues, execution log or results *)
Theorem C05_no_cross_client : forall run h c,
  run_hist run h init c = run_hist run (filter (names c) h) init c.
Proof. exact no_cross_client. Qed.
Print Assumptions C05_no_cross_client.

(* liveness with the explicit bound mu = 2 |server queue| + 2 |running taskers| + |client queue|:
   after a loss-free history, any interleaving of fair rounds (an intact exchange with positive
   budgets, then the started taskers finish) containing at least mu rounds of every device
   leaves every scheduled job finished with its own result, executed, and nothing tracked *)
Theorem C05_drain_completes_all : forall run h rs,
  hist_ok run l_live h init ->
  Forall budgets_pos rs ->
  (forall c, (mu (run_hist run h init c) <= count_rounds c rs)%nat) ->
  forall c p, In p (s_sched (run_hist run h init c)) ->
    In (p, run c (p_pl p)) (s_done (drain run rs (run_hist run h init) c)) /\
    In p (c_exec (drain run rs (run_hist run h init) c)) /\
    s_jobs (drain run rs (run_hist run h init) c) = [].
Proof. exact drain_completes_all. Qed.
Print Assumptions C05_drain_completes_all.

(* the drain is a history of the same machine (intact exchanges and finishing taskers only) *)
Theorem C05_drain_is_a_history : forall run rs st,
  exists h, drain run rs st = run_hist run h st /\ Forall drain_label h.
Proof. exact drain_as_history. Qed.
Print Assumptions C05_drain_is_a_history.

(* ---- non-vacuity: 2 devices, 3 jobs, out-of-order taskers, a duplicate result, a channel
   switch, a re-key, a job id drawn again after it finished ---------------------------- *)
Definition ex_run (c p : Z) : Z := c * 1000 + p.
Definition ex_hist : list label :=
  [ Task 1 7 100; Task 2 7 200; Task 1 9 300; ChannelOn 1;
    Exchange 1 0 5 true; Run 1 1; Run 1 0;           (* job 9 finishes before job 7 *)
    Exchange 1 1 0 true;                             (* the result of job 9 is accepted *)
    Dup 1 9 1300;                                    (* and delivered once more: ignored *)
    Exchange 2 1 1 true; Run 2 0; Rekey 2 true; ChannelOff 1;
    Task 1 9 400;                                    (* id 9 is free again *)
    Exchange 1 4 4 true; Exchange 2 2 2 true ].

Example C05_nonvacuous_hypotheses : hist_ok ex_run l_live ex_hist init.
Proof. vm_compute. repeat split; reflexivity. Qed.

Example C05_nonvacuous_outcome :
  let st := drain ex_run [(1, (1%nat, 1%nat)); (2, (3%nat, 3%nat)); (1, (2%nat, 2%nat)); (1, (1%nat, 1%nat))]
                  (run_hist ex_run ex_hist init) in
  map (fun d => (p_job (fst d), p_ser (fst d), snd d)) (s_done (st 1)) = [(9, 2, 1400); (7, 0, 1100); (9, 1, 1300)] /\
  map (fun d => (p_job (fst d), p_ser (fst d), snd d)) (s_done (st 2)) = [(7, 0, 2200)] /\
  map p_ser (c_exec (st 1)) = [2; 0; 1] /\ s_jobs (st 1) = [] /\ s_jobs (st 2) = [] /\
  mu (run_hist ex_run ex_hist init 1) = 2%nat /\ s_chan (st 1) = false /\ s_key (st 2) = 1.
Proof. vm_compute. repeat split; reflexivity. Qed.

(* ---- the hypotheses are needed (witnesses by computation) ------------------------------ *)
(* l_safe: Session.handle gives a tracked Job whatever result arrives under its id; a re-delivery
   of the OLD result of id 7 after id 7 was drawn again finishes the NEW job with it *)
Example C05_stale_duplicate_hazard :
  exists h, ~ hist_ok ex_run l_safe h init /\
    exists p r, In (p, r) (s_done (run_hist ex_run h init 1)) /\ r <> ex_run 1 (p_pl p).
Proof.
  exists [Task 1 7 100; Exchange 1 0 1 true; Run 1 0; Exchange 1 1 0 true; Task 1 7 200; Dup 1 7 1100].
  split.
  - vm_compute. intros (_ & _ & _ & _ & _ & H & _). discriminate H.
  - exists (Pkt 7 1 200), 1100. split; [vm_compute; left; reflexivity | vm_compute; discriminate].
Qed.

(* l_live: one cut connection (ok = false) and the job it carried is never finished, however
   long the session is drained afterwards *)
Example C05_loss_breaks_liveness :
  forall n, s_jobs (drain ex_run (repeat (1, (4%nat, 4%nat)) n)
                      (run_hist ex_run [Task 1 7 100; Exchange 1 1 1 false] init) 1) = [Pkt 7 0 100].
Proof.
  assert (E : forall st, st 1 = run_hist ex_run [Task 1 7 100; Exchange 1 1 1 false] init 1 ->
                ground ex_run st (1, (4%nat, 4%nat)) 1 = st 1).
  { intros st H. rewrite ground_same. rewrite H. vm_compute. reflexivity. }
  intro n. set (st0 := run_hist ex_run [Task 1 7 100; Exchange 1 1 1 false] init).
  assert (G : forall st, st 1 = st0 1 -> drain ex_run (repeat (1, (4%nat, 4%nat)) n) st 1 = st0 1).
  { induction n as [|n IH]; intros st H; [exact H|]. cbn [repeat].
    change (drain ex_run ((1, (4%nat, 4%nat)) :: repeat (1, (4%nat, 4%nat)) n) st)
      with (drain ex_run (repeat (1, (4%nat, 4%nat)) n) (ground ex_run st (1, (4%nat, 4%nat)))).
    apply IH. rewrite (E st H). exact H. }
  rewrite G; reflexivity.
Qed.
