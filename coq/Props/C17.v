(* Props/C17.v -- property theorems for C17 (profile groups rotate as the selector promises).
   Only statements; every proof is `exact <lemma>`; Print Assumptions under each.
   n = number of entries, a cursor is `option Z` (None = nil, Some i = position i of the weight
   sorted entries), g / p are the values util.FastRandN(4) / FastRandN(n) returned when called. *)
From XMT Require Import Base.Prelude Model.Group Proofs.Group.
From Coq Require Import Permutation Sorted.

(* the active entry is always one of the configured groups: all selector bytes, all histories of
   Switch calls from a nil or valid cursor, all draws in range *)
Theorem C17_cursor_always_member :
  forall sel n, 0 < n -> forall steps cur, cur_ok n cur -> picks_ok n steps ->
  Forall (fun r => member n (r_after r)) (run_sw sel n cur steps).
Proof. exact run_sw_member. Qed.
Print Assumptions C17_cursor_always_member.

(* the same along histories that mix Switch with the accessors (which initialise the cursor
   lazily), stated on what the harness observes: every cursor position reported is in range
   whenever every FastRandN call returned a value below its argument *)
Theorem C17_cursor_member_full_histories :
  forall sel ents, 0 < len ents -> forall ops cur, cur_ok (len ents) cur ->
  Forall (fun o => calls_ok (obs_calls o)) (run sel ents cur ops) ->
  Forall (fun o => 0 <= obs_cursor o < len ents) (run sel ents cur ops).
Proof. exact run_member. Qed.
Print Assumptions C17_cursor_member_full_histories.

Theorem C17_no_entries_never_selects :
  forall sel n cur e g p, n <= 0 -> switch sel n cur e g p = (cur, false).
Proof. exact switch_no_entries. Qed.
Print Assumptions C17_no_entries_never_selects.

(* entries are ordered by descending weight: every order the model accepts from Build is a
   permutation of the configured groups whose weights never increase (ties in any order) *)
Theorem C17_sorted_by_weight :
  forall ws order, valid_order ws order = true ->
  Permutation order (zrange (len ws)) /\ StronglySorted Z.ge (map (weight_at ws) order).
Proof. exact valid_order_spec. Qed.
Print Assumptions C17_sorted_by_weight.

(* such an order exists for every weight list (stable insertion sort), and Group.Less is a
   strict weak order, which is what sort.Sort requires *)
Theorem C17_sorted_order_exists : forall ws, valid_order ws (sort_desc ws) = true.
Proof. exact sort_desc_valid. Qed.
Print Assumptions C17_sorted_order_exists.

Theorem C17_less_is_strict_weak_order :
  forall ws,
  (forall i, less ws i i = false) /\
  (forall i j k, less ws i j = true -> less ws j k = true -> less ws i k = true) /\
  (forall i j k, less ws i j = false -> less ws j i = false ->
                 less ws j k = false -> less ws k j = false ->
                 less ws i k = false /\ less ws k i = false).
Proof. exact less_strict_weak. Qed.
Print Assumptions C17_less_is_strict_weak_order.

(* last-valid: along every history the cursor, once set, changes only in a call that reported a
   failure; and a reported failure moves it to the next entry in order *)
Theorem C17_last_valid_changes_only_after_failure :
  forall n steps cur,
  Forall (fun r => r_before r <> None -> r_after r <> r_before r -> r_failed r = true)
         (run_sw SelLastValid n cur steps).
Proof. exact run_last_valid. Qed.
Print Assumptions C17_last_valid_changes_only_after_failure.

Theorem C17_last_valid_failure_advances :
  forall n c g p, 0 <= c < n ->
  switch SelLastValid n (Some c) true g p = (Some ((c + 1) mod n), negb (n =? 1)).
Proof. exact last_valid_failure. Qed.
Print Assumptions C17_last_valid_failure_advances.

(* round-robin (also the behaviour without any selector): the k-th switch after position c
   selects (c + k) mod n, whatever the failure flags and draws; from a nil cursor the k-th
   selects k-1 mod n, starting with the heaviest entry *)
Theorem C17_round_robin_order :
  forall sel n steps c, plain_rr sel -> 0 <= c < n ->
  map r_after (run_sw sel n (Some c) steps) =
  map (fun k => Some ((c + Z.of_nat k) mod n)) (seq 1 (length steps)).
Proof. exact run_rr_from. Qed.
Print Assumptions C17_round_robin_order.

Theorem C17_round_robin_order_from_nil :
  forall sel n steps, plain_rr sel -> 0 < n ->
  map r_after (run_sw sel n None steps) =
  map (fun k => Some (Z.of_nat k mod n)) (seq 0 (length steps)).
Proof. exact run_rr_from_nil. Qed.
Print Assumptions C17_round_robin_order_from_nil.

(* ... hence any n consecutive switches visit every entry exactly once before repeating *)
Theorem C17_round_robin_visits_all :
  forall sel n steps c, plain_rr sel -> 0 <= c < n -> length steps = Z.to_nat n ->
  Permutation (map r_after (run_sw sel n (Some c) steps)) (map Some (zrange n)).
Proof. exact rr_visits_all. Qed.
Print Assumptions C17_round_robin_visits_all.

(* the semi variants either stay or do what their base selector does *)
Theorem C17_semi_round_robin_is_stay_or_base :
  forall n cur e g p,
  switch SelSemiRoundRobin n cur e g p =
  if is_some cur && negb (g =? 0) then (cur, false) else switch SelRoundRobin n cur e g p.
Proof. exact semi_rr. Qed.
Print Assumptions C17_semi_round_robin_is_stay_or_base.

Theorem C17_semi_random_is_stay_or_base :
  forall n cur e g p,
  switch SelSemiRandom n cur e g p =
  if is_some cur && negb (g =? 0) then (cur, false) else switch SelRandom n cur e g p.
Proof. exact semi_random. Qed.
Print Assumptions C17_semi_random_is_stay_or_base.

(* semi-last-valid is last-valid with "failed" widened by the 1-in-4 draw: it stays exactly
   when last-valid stays and the draw is not 0 *)
Theorem C17_semi_last_valid_is_stay_or_base :
  forall n cur e g p,
  switch SelSemiLastValid n cur e g p = switch SelLastValid n cur (e || (g =? 0)) g p.
Proof. exact semi_last_valid. Qed.
Print Assumptions C17_semi_last_valid_is_stay_or_base.

(* random picks exactly the drawn member *)
Theorem C17_random_is_member :
  forall n cur e g p, 0 < n -> 0 <= p < n ->
  fst (switch SelRandom n cur e g p) = Some p /\ member n (fst (switch SelRandom n cur e g p)).
Proof.
  intros n cur e g p Hn Hp. exact (conj (random_exact n cur e g p Hn)
    (ex_intro _ p (conj (random_exact n cur e g p Hn) Hp))).
Qed.
Print Assumptions C17_random_is_member.

(* every accessor (Next, Sleep, Jitter, KillDate, WorkHours, TrustedKey, Connect) answers from
   the entry under the cursor -- the one entry for host, wrapper, transform and timing values
   alike -- initialising a nil cursor first and never moving a set one *)
Theorem C17_accessors_follow_cursor :
  forall sel ents cur o ds,
  is_accessor o = true -> 0 < len ents -> cur_ok (len ents) cur ->
  calls_ok (init_calls sel (len ents) cur ds) ->
  exists i en, step_cur sel ents cur o ds = Some i /\ 0 <= i < len ents /\
               nth_error ents (Z.to_nat i) = Some en /\
               (forall c, cur = Some c -> i = c) /\
               step_vals sel ents cur o ds = access en o (init_rest sel (len ents) cur ds).
Proof. exact accessor_reads_current. Qed.
Print Assumptions C17_accessors_follow_cursor.

(* a single entry never switches, whatever the selector *)
Theorem C17_single_entry_never_switches :
  forall sel steps, picks_ok 1 steps ->
  Forall (fun r => r_after r = Some 0 /\ r_flag r = false) (run_sw sel 1 (Some 0) steps).
Proof. exact run_single. Qed.
Print Assumptions C17_single_entry_never_switches.

(* Switch returns true exactly when the active entry changed (the caller then calls Next) *)
Theorem C17_switch_reports_change :
  forall sel n steps cur, 0 < n -> cur_ok n cur -> picks_ok n steps ->
  Forall (fun r => r_flag r = true <-> r_after r <> r_before r) (run_sw sel n cur steps).
Proof. exact run_sw_flag. Qed.
Print Assumptions C17_switch_reports_change.

(* the selector that takes effect is the last one named in any group *)
Theorem C17_last_named_selector_wins :
  forall sels s, 0 < s -> effective_sel (sels ++ [s]) = s.
Proof. exact effective_sel_app. Qed.
Print Assumptions C17_last_named_selector_wins.

(* ---- the consumer, c2/session.go listen (and connectContextInner / the Profile swap) ----------
   The session HOLDS a host, a wrapper and a transform between passes and connects through
   s.p.Connect, i.e. the active entry's connector.  After entering a profile (start or swap: one
   Next()) and after every history of passes `if Switch(e) { h, s.w, s.t = Next(); if h != "" ... }`
   -- all selectors, all e, all in-range draws -- the wrapper and transform held are those of the
   ACTIVE entry, and the host is one of the active entry's hosts unless that entry names none. *)
Theorem C17_consumer_enter_holds_active_group :
  forall sel ents hd ds,
  hosts_ok ents -> 0 < len ents -> calls_ok (init_calls sel (len ents) None ds) ->
  held_ok ents (consumer_enter sel ents hd ds).
Proof. exact consumer_enter_ok. Qed.
Print Assumptions C17_consumer_enter_holds_active_group.

Theorem C17_consumer_holds_active_group :
  forall sel ents, hosts_ok ents -> 0 < len ents ->
  forall ps st, held_ok ents st -> passes_ok sel ents st ps ->
  Forall (held_ok ents) (consumer_states sel ents st ps).
Proof. exact consumer_states_ok. Qed.
Print Assumptions C17_consumer_holds_active_group.

(* every Connect of the listen loop therefore goes through the active entry's connector with that
   entry's own wrapper and transform; and these Connect events are what the correspondence run
   compares with the real listen() *)
Theorem C17_consumer_connect_uses_own_wrapper_transform :
  forall sel ents st, held_ok ents st ->
  exists en, current ents (fst st) = Some en /\
    connect_event sel ents st = [e_conn en; h_host (snd st); e_wrap en; e_trans en].
Proof. exact connect_event_active. Qed.
Print Assumptions C17_consumer_connect_uses_own_wrapper_transform.

Theorem C17_consumer_events_are_the_states :
  forall sel ents ps st,
  fst (consumer_passes sel ents st ps) = map (connect_event sel ents) (consumer_states sel ents st ps).
Proof. exact consumer_passes_events. Qed.
Print Assumptions C17_consumer_events_are_the_states.

(* a group without a Host entry keeps the host the session has (and still brings its own
   wrapper and transform, by the theorems above) *)
Theorem C17_consumer_hostless_group_keeps_host :
  forall sel ents st e ds1 ds2 en,
  hosts_ok ents -> 0 < len ents -> held_ok ents st ->
  calls_ok (switch_calls sel (len ents) (fst st) e ds1) ->
  current ents (fst (consumer_pass sel ents st e ds1 ds2)) = Some en -> e_hosts en = [] ->
  h_host (snd (consumer_pass sel ents st e ds1 ds2)) = h_host (snd st).
Proof. exact consumer_pass_hostless. Qed.
Print Assumptions C17_consumer_hostless_group_keeps_host.

(* the failure flag: listen hands Switch `e` = "the previous attempt failed", where an attempt fails
   at Connect OR in the exchange after a successful Connect (`e = !s.session(c)`); the correspondence
   run compares the flag of every pass with the outcome of the attempt before it (`expected_flags`).
   With it, "last-valid changes only after a reported failure" has its converse: after ANY failed
   attempt last-valid advances to the next entry *)
Theorem C17_consumer_flag_is_attempt_outcome :
  forall outs k o, nth_error outs k = Some o -> nth_error (expected_flags outs) k = Some (fst o || snd o).
Proof. exact expected_flags_spec. Qed.
Print Assumptions C17_consumer_flag_is_attempt_outcome.

Theorem C17_consumer_failed_attempt_advances_last_valid :
  forall n c g p o, attempt_failed o = true -> 0 <= c < n ->
  switch SelLastValid n (Some c) (attempt_failed o) g p = (Some ((c + 1) mod n), negb (n =? 1)).
Proof. exact failed_attempt_advances_last_valid. Qed.
Print Assumptions C17_consumer_failed_attempt_advances_last_valid.

(* non-vacuity: round-robin over A (host 1, wrapper 1) and host-less B (wrapper 4, transform 1):
   the second Connect goes through B's connector with B's wrapper and transform to A's host *)
Example C17_nonvacuous_consumer :
  let a := mkE 20 [1] 1 0 0 0 0 false (-1) [] 500 in
  let b := mkE 10 [] 4 1 0 0 0 false (-1) [] 501 in
  zlist_eqb (concat (consumer_segments no_held true
     (mkSeg SelRoundRobin (a :: b :: nil) nil (mkPass false nil nil :: mkPass false nil nil :: nil) :: nil)))
    [500; 1; 1; 0;  501; 1; 4; 1;  500; 1; 1; 0] = true.
Proof. vm_compute. reflexivity. Qed.

(* non-vacuity: three entries with a tie, a valid order, a last-valid history with a failure,
   and a round-robin lap *)
Example C17_nonvacuous :
  valid_order [10; 30; 10] [1; 2; 0] = true /\ valid_order [10; 30; 10] [1; 0; 2] = true /\
  cur_ok 3 None /\ picks_ok 3 [(false, 0, 0); (true, 0, 2); (false, 3, 1)] /\
  map r_after (run_sw SelLastValid 3 None [(false, 0, 0); (false, 0, 0); (true, 0, 2); (false, 3, 1)])
    = [Some 0; Some 0; Some 1; Some 1] /\
  map r_after (run_sw SelRoundRobin 3 (Some 1) [(false, 0, 0); (true, 0, 0); (false, 0, 0)])
    = [Some 2; Some 0; Some 1] /\
  plain_rr SelRoundRobin.
Proof.
  repeat split; try (vm_compute; reflexivity).
  - left; reflexivity.
  - repeat constructor; cbn; lia.
  - left; reflexivity.
Qed.
