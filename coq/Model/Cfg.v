(* Model/Cfg.v -- C08/C09: c2/cfg binary profiles.  Definitions only.
   convert.go (Config.next / validate / build / Validate / Build), config.go (Groups, Group, Bytes,
   AddGroup), setting.go / connect.go / wrap.go / transform.go (constructors), group.go (sort,
   MarshalBinary).  Bytes are Z in [0,256); every Go index / slice expression goes through
   idx / slice, so a Go run-time panic is Panic.  int is 64 bit: none of the sums below can wrap.
   The model follows the tree AFTER the fix: commits listed in notes/C08.md, notes/C09.md. *)
From XMT Require Import Base.Prelude.

(* ---- error codes --------------------------------------------------------- *)
Definition EInvalid : Z := 1.      (* ErrInvalidSetting (possibly wrapped) *)
Definition EMultiConn : Z := 2.    (* ErrMultipleConnections *)
Definition EMultiTrans : Z := 3.   (* ErrMultipleTransforms *)
Definition EOther : Z := 9.        (* an error from outside cfg: certificate / key parsing, aes.NewCipher, NewBlock *)
Definition EFuel : Z := 77.        (* model artefact: loop fuel exhausted (proved unreachable) *)

(* ---- setting tags --------------------------------------------------------- *)
Definition Separator : Z := 250.
Inductive kind :=
| KInvalid | KSep | KHost | KSleep | KJitter | KWeight | KKillDate | KWorkHours | KKeyPin
| KSel | KSelPct | KIP | KWC2 | KTLSx | KMuTLS | KTLSxCA | KTLSCert | KConn
| KWrap | KXOR | KCBK | KAES | KTB64 | KDNS | KB64S | KOther.

Definition kind_of (b : Z) : kind :=
  if b =? 0 then KInvalid
  else if b =? 250 then KSep
  else if b =? 160 then KHost
  else if b =? 161 then KSleep
  else if b =? 162 then KJitter
  else if b =? 163 then KWeight
  else if b =? 164 then KKillDate
  else if b =? 165 then KWorkHours
  else if b =? 166 then KKeyPin
  else if (b =? 167) || ((170 <=? b) && (b <=? 174)) then KSel     (* A7, AA..AE *)
  else if (b =? 168) || (b =? 169) then KSelPct                    (* A8, A9 *)
  else if b =? 176 then KIP
  else if b =? 177 then KWC2
  else if b =? 178 then KTLSx
  else if b =? 179 then KMuTLS
  else if b =? 180 then KTLSxCA
  else if b =? 181 then KTLSCert
  else if (192 <=? b) && (b <=? 197) then KConn                    (* C0..C5 *)
  else if (208 <=? b) && (b <=? 211) then KWrap                    (* D0..D3 *)
  else if b =? 212 then KXOR
  else if b =? 213 then KCBK
  else if b =? 214 then KAES
  else if b =? 224 then KTB64
  else if b =? 225 then KDNS
  else if b =? 226 then KB64S
  else KOther.

(* int(lo) | int(hi)<<8 *)
Definition w16 (hi lo : Z) : Z := Z.lor lo (Z.shiftl hi 8).

(* ---- Config.next ----------------------------------------------------------- *)
(* for x := c[i+7]; x > 0 && n+1 < len(c) && n > 0; x-- { n += c[n] + c[n+1] + 2 } *)
Fixpoint wc2_walk (c : list Z) (x : nat) (n : Z) : res Z :=
  match x with
  | O => Ok n
  | S x' =>
    if (n + 1 <? len c) && (0 <? n) then
      do a <- idx c n; do b <- idx c (n + 1); wc2_walk c x' (n + (a + b + 2))
    else Ok n
  end.

(* for x := c[i+1]; x > 0 && n < len(c); x-- { n += c[n] + 1 } *)
Fixpoint dns_walk (c : list Z) (x : nat) (n : Z) : res Z :=
  match x with
  | O => Ok n
  | S x' => if n <? len c then do a <- idx c n; dns_walk c x' (n + (a + 1)) else Ok n
  end.

Definition next (c : list Z) (i : Z) : res Z :=
  if (len c <? i) || (i <? 0) then Ok (-1) else
  do t <- idx c i;
  match kind_of t with
  | KSep | KSel | KConn | KWrap | KTB64 => Ok (i + 1)
  | KIP | KB64S | KJitter | KWeight | KTLSx | KSelPct => Ok (i + 2)
  | KCBK | KWorkHours => Ok (i + 6)
  | KSleep | KKillDate => Ok (i + 9)
  | KKeyPin => Ok (i + 5)
  | KWC2 =>
    if len c <=? i + 7 then Ok (-1) else
    do b1 <- idx c (i + 1); do b2 <- idx c (i + 2); do b3 <- idx c (i + 3); do b4 <- idx c (i + 4);
    do b5 <- idx c (i + 5); do b6 <- idx c (i + 6); do b7 <- idx c (i + 7);
    let n := i + 8 + w16 b1 b2 + w16 b3 b4 + w16 b5 b6 in
    if len c <=? n then Ok (-1) else
    do _ <- idx c n;
    if b7 =? 0 then Ok n else wc2_walk c (Z.to_nat b7) n
  | KXOR | KHost =>
    if len c <=? i + 3 then Ok (-1) else
    do b1 <- idx c (i + 1); do b2 <- idx c (i + 2);
    Ok (i + 3 + w16 b1 b2)
  | KAES =>
    if len c <=? i + 3 then Ok (-1) else
    do b1 <- idx c (i + 1); do b2 <- idx c (i + 2);
    Ok (i + 3 + b1 + b2)
  | KMuTLS =>
    if len c <=? i + 7 then Ok (-1) else
    do b2 <- idx c (i + 2); do b3 <- idx c (i + 3); do b4 <- idx c (i + 4);
    do b5 <- idx c (i + 5); do b6 <- idx c (i + 6); do b7 <- idx c (i + 7);
    Ok (i + 8 + w16 b2 b3 + w16 b4 b5 + w16 b6 b7)
  | KTLSxCA =>
    if len c <=? i + 4 then Ok (-1) else
    do b2 <- idx c (i + 2); do b3 <- idx c (i + 3);
    Ok (i + 4 + w16 b2 b3)
  | KTLSCert =>
    if len c <=? i + 6 then Ok (-1) else
    do b2 <- idx c (i + 2); do b3 <- idx c (i + 3); do b4 <- idx c (i + 4); do b5 <- idx c (i + 5);
    Ok (i + 6 + w16 b2 b3 + w16 b4 b5)
  | KDNS =>
    if len c <=? i + 1 then Ok (-1) else
    do b1 <- idx c (i + 1);
    dns_walk c (Z.to_nat b1) (i + 2)
  | KInvalid | KOther => Ok (-1)
  end.

(* if n = c.next(i); n == i || n > len(c) || n == -1 || n < i { n = len(c) } *)
Definition fixn (c : list Z) (i r : Z) : Z :=
  if (r =? i) || (len c <? r) || (r =? -1) || (r <? i) then len c else r.

(* ---- Config.validate -------------------------------------------------------- *)
(* the header walk shared (textually, in Go) by validate, build and MarshalJSON:
   for j := 0; v < n && q < n && j < n; { q, j = v+2, c[v]+v+2; v = c[v+1]+j; if ... } ;
   returns the (name, value) slices in order *)
Fixpoint wc2_hdrs (fuel : nat) (c : list Z) (i n v q j : Z) : res (list (list Z * list Z)) :=
  match fuel with
  | O => Err EFuel
  | S f =>
    if (v <? n) && (q <? n) && (j <? n) then
      do a <- idx c v; do b <- idx c (v + 1);
      let q' := v + 2 in let j' := a + v + 2 in let v' := b + j' in
      if (q' =? j') || (n <? j') || (n <? q') || (n <? v') || (v' <? j') || (j' <? q')
         || (q' <? i) || (j' <? i) || (v' <? i) then Err EInvalid
      else do k <- slice c q' j'; do w <- slice c j' v';
           do r <- wc2_hdrs f c i n v' q' j'; Ok ((k, w) :: r)
    else Ok []
  end.

(* for x, v, e := c[i+1], i+2, i+2; x > 0 && v < n; x-- { v += c[v]+1; if ... ; name c[e+1:v]; e = v } *)
Fixpoint dns_names (x : nat) (c : list Z) (i n v e : Z) : res (list (list Z)) :=
  match x with
  | O => Ok []
  | S x' =>
    if v <? n then
      do a <- idx c v;
      let v' := v + (a + 1) in
      if (v' <? e + 1) || (e + 1 =? v') || (v' <? e) || (n <? v') || (n <? e) || (e <? i) || (v' <? i)
      then Err EInvalid
      else do s <- slice c (e + 1) v'; do r <- dns_names x' c i n v' v'; Ok (s :: r)
    else Ok []
  end.

Definition aes_keylen_ok (k : Z) : bool := (k =? 16) || (k =? 24) || (k =? 32).

(* one setting of validate: returns the updated (connection seen, transform seen) flags *)
Definition validate_step (c : list Z) (i n : Z) (k : kind) (p t : bool) : res (bool * bool) :=
  match k with
  | KSep => Ok (p, t)
  | KInvalid | KOther | KSelPct => Err EInvalid
  | KHost | KXOR =>
    if n <=? i + 3 then Err EInvalid else
    do b1 <- idx c (i + 1); do b2 <- idx c (i + 2);
    let v := w16 b1 b2 + i in
    if (n <? v + 3) || (v <? i) then Err EInvalid else Ok (p, t)
  | KSleep | KKillDate => if n <=? i + 8 then Err EInvalid else Ok (p, t)
  | KKeyPin => if n <=? i + 4 then Err EInvalid else Ok (p, t)
  | KJitter | KWeight => if n <=? i + 1 then Err EInvalid else Ok (p, t)
  | KWorkHours =>
    if n <=? i + 5 then Err EInvalid else
    do b2 <- idx c (i + 2); do b3 <- idx c (i + 3); do b4 <- idx c (i + 4); do b5 <- idx c (i + 5);
    if (23 <? b2) || (59 <? b3) || (23 <? b4) || (59 <? b5) then Err EInvalid else Ok (p, t)
  | KSel | KWrap => Ok (p, t)
  | KConn => if p then Err EMultiConn else Ok (true, t)
  | KIP =>
    if p then Err EMultiConn else
    if n <=? i + 1 then Err EInvalid else
    do b1 <- idx c (i + 1);
    if b1 =? 0 then Err EInvalid else Ok (true, t)
  | KWC2 =>
    if p then Err EMultiConn else
    if n <=? i + 7 then Err EInvalid else
    do b1 <- idx c (i + 1); do b2 <- idx c (i + 2); do b3 <- idx c (i + 3); do b4 <- idx c (i + 4);
    do b5 <- idx c (i + 5); do b6 <- idx c (i + 6); do b7 <- idx c (i + 7);
    let v1 := w16 b1 b2 + i + 8 in let q1 := i + 8 in
    if (n <? v1) || (n <? q1) || (q1 <? i) || (v1 <? i) then Err EInvalid else
    let v2 := w16 b3 b4 + v1 in let q2 := v1 in
    if (n <? v2) || (n <? q2) || (v2 <? q2) || (q2 <? i) || (v2 <? i) then Err EInvalid else
    let v3 := w16 b5 b6 + v2 in let q3 := v2 in
    if (n <? v3) || (n <? q3) || (v3 <? q3) || (q3 <? i) || (v3 <? i) then Err EInvalid else
    if 0 <? b7 then do _ <- wc2_hdrs (length c) c i n v3 q3 0; Ok (true, t) else Ok (true, t)
  | KTLSx =>
    if p then Err EMultiConn else if n <=? i + 1 then Err EInvalid else Ok (true, t)
  | KMuTLS =>
    if p then Err EMultiConn else
    if n <=? i + 7 then Err EInvalid else
    do b2 <- idx c (i + 2); do b3 <- idx c (i + 3); do b4 <- idx c (i + 4);
    do b5 <- idx c (i + 5); do b6 <- idx c (i + 6); do b7 <- idx c (i + 7);
    let a := w16 b2 b3 + i + 8 in let b := w16 b4 b5 + a in let k := w16 b6 b7 + b in
    if (n <? a) || (n <? b) || (n <? k) || (b <? a) || (k <? b) || (a <? i) || (b <? i) || (k <? i)
    then Err EInvalid else Ok (true, t)
  | KTLSxCA =>
    if p then Err EMultiConn else
    if n <=? i + 3 then Err EInvalid else
    do b2 <- idx c (i + 2); do b3 <- idx c (i + 3);
    let a := w16 b2 b3 + i + 4 in
    if (n <? a) || (a <? i) then Err EInvalid else Ok (true, t)
  | KTLSCert =>
    if p then Err EMultiConn else
    if n <=? i + 6 then Err EInvalid else
    do b2 <- idx c (i + 2); do b3 <- idx c (i + 3); do b4 <- idx c (i + 4); do b5 <- idx c (i + 5);
    let b := w16 b2 b3 + i + 6 in let k := w16 b4 b5 + b in
    if (n <? b) || (n <? k) || (b <? i) || (k <? i) || (k <? b) then Err EInvalid else Ok (true, t)
  | KCBK => if n <=? i + 5 then Err EInvalid else Ok (p, t)
  | KAES =>
    if n <=? i + 3 then Err EInvalid else
    do b1 <- idx c (i + 1); do b2 <- idx c (i + 2);
    let v := b1 + i + 3 in let z := b2 + v in
    if (v =? z) || (i + 3 =? v) || (n <? z) || (n <? v) || (z <? i) || (v <? i) || (z <? v) then Err EInvalid else
    if negb (aes_keylen_ok (v - (i + 3))) then Err EInvalid else
    if negb (z - v =? 16) then Err EInvalid else Ok (p, t)
  | KTB64 => if t then Err EMultiTrans else Ok (p, true)
  | KDNS =>
    if t then Err EMultiTrans else
    if n <=? i + 1 then Err EInvalid else
    do b1 <- idx c (i + 1);
    do _ <- dns_names (Z.to_nat b1) c i n (i + 2) (i + 2); Ok (p, true)
  | KB64S =>
    if t then Err EMultiTrans else if n <=? i + 1 then Err EInvalid else Ok (p, true)
  end.

(* for i := x; n >= 0 && n < len(c); i = n  (n starts at 0); returns the n of `return n, nil` *)
Fixpoint validate_loop (fuel : nat) (c : list Z) (i : Z) (p t : bool) : res Z :=
  match fuel with
  | O => Err EFuel
  | S f =>
    do r <- next c i;
    let n := fixn c i r in
    do _ <- idx c (n - 1);
    do b <- idx c i;
    match kind_of b with
    | KSep => Ok n
    | k => do '(p', t') <- validate_step c i n k p t;
           if (0 <=? n) && (n <? len c) then validate_loop f c n p' t' else Ok n
    end
  end.

Definition validate_group (c : list Z) (x : Z) : res Z :=
  if 0 <? len c then validate_loop (length c) c x false false else Ok 0.

(* Validate: for i := 0; i < len(c); i = n { n, err = c.validate(i); if n-i == 1 && c[i] == Separator {continue} } *)
Fixpoint validate_top (fuel : nat) (c : list Z) (i : Z) : res unit :=
  match fuel with
  | O => Err EFuel
  | S f =>
    if i <? len c then
      do n <- validate_group c i;
      do _ <- (if n - i =? 1 then idx c i else Ok 0);
      validate_top f c n
    else Ok tt
  end.

Definition validate (c : list Z) : res unit :=
  if len c =? 0 then Ok tt else validate_top (S (length c)) c 0.

(* ---- Config.build: the profile as a record -------------------------------------- *)
(* connector / wrapper / transform: (kind, numbers, byte strings) *)
Definition item : Type := (Z * list Z * list (list Z))%type.

Record prof := mkProf {
  p_hosts : list (list Z);
  p_sleep : Z;                 (* time.Duration, int64 nanoseconds *)
  p_jitter : Z;                (* int8 *)
  p_kds : bool;                (* kill date present *)
  p_kill : Z;                  (* kill.Unix(); the zero time.Time is -62135596800 *)
  p_work : option (list Z);    (* [days; start hour; start min; end hour; end min] *)
  p_keys : list Z;             (* uint32 hashes *)
  p_weight : Z;
  p_conn : option item;
  p_wraps : list item;
  p_trans : option item
}.

Definition ZeroTimeUnix : Z := -62135596800.
Definition DefaultSleep : Z := 60000000000.
Definition prof0 : prof := mkProf [] 0 0 false ZeroTimeUnix None [] 0 None [] None.

Definition set_hosts (p : prof) v := mkProf v (p_sleep p) (p_jitter p) (p_kds p) (p_kill p) (p_work p) (p_keys p) (p_weight p) (p_conn p) (p_wraps p) (p_trans p).
Definition set_sleep (p : prof) v := mkProf (p_hosts p) v (p_jitter p) (p_kds p) (p_kill p) (p_work p) (p_keys p) (p_weight p) (p_conn p) (p_wraps p) (p_trans p).
Definition set_jitter (p : prof) v := mkProf (p_hosts p) (p_sleep p) v (p_kds p) (p_kill p) (p_work p) (p_keys p) (p_weight p) (p_conn p) (p_wraps p) (p_trans p).
Definition set_kill (p : prof) v := mkProf (p_hosts p) (p_sleep p) (p_jitter p) true v (p_work p) (p_keys p) (p_weight p) (p_conn p) (p_wraps p) (p_trans p).
Definition set_work (p : prof) v := mkProf (p_hosts p) (p_sleep p) (p_jitter p) (p_kds p) (p_kill p) (Some v) (p_keys p) (p_weight p) (p_conn p) (p_wraps p) (p_trans p).
Definition set_keys (p : prof) v := mkProf (p_hosts p) (p_sleep p) (p_jitter p) (p_kds p) (p_kill p) (p_work p) v (p_weight p) (p_conn p) (p_wraps p) (p_trans p).
Definition set_weight (p : prof) v := mkProf (p_hosts p) (p_sleep p) (p_jitter p) (p_kds p) (p_kill p) (p_work p) (p_keys p) v (p_conn p) (p_wraps p) (p_trans p).
Definition set_conn (p : prof) v := mkProf (p_hosts p) (p_sleep p) (p_jitter p) (p_kds p) (p_kill p) (p_work p) (p_keys p) (p_weight p) (Some v) (p_wraps p) (p_trans p).
Definition add_wrap (p : prof) v := mkProf (p_hosts p) (p_sleep p) (p_jitter p) (p_kds p) (p_kill p) (p_work p) (p_keys p) (p_weight p) (p_conn p) (p_wraps p ++ [v]) (p_trans p).
Definition set_trans (p : prof) v := mkProf (p_hosts p) (p_sleep p) (p_jitter p) (p_kds p) (p_kill p) (p_work p) (p_keys p) (p_weight p) (p_conn p) (p_wraps p) (Some v).

Definition has_conn (p : prof) : bool := match p_conn p with Some _ => true | None => false end.
Definition has_trans (p : prof) : bool := match p_trans p with Some _ => true | None => false end.

Definition b2z (b : bool) : Z := if b then 1 else 0.

(* uint64(c[i+8]) | uint64(c[i+7])<<8 | ... | uint64(c[i+1])<<56 *)
Fixpoint rd_be_go (c : list Z) (k : nat) (i acc : Z) : res Z :=
  match k with O => Ok acc | S k' => do b <- idx c i; rd_be_go c k' (i + 1) (acc * 256 + b) end.
Definition rd_be (c : list Z) (i : Z) (k : nat) : res Z := rd_be_go c k i 0.

(* com.NewTLSConfig: the minimum version *)
Definition tls_minver (ver : Z) : Z :=
  if (0 <? ver) && (ver <? 255) then ver + 769 else if 769 <? ver then ver else 771.

(* com.NewTLSConfig + com.NewTLS: certificate / key PARSING is outside the model: it succeeds
   iff tlsok (one flag for the whole config, see notes/C09.md); nothing is parsed when the
   blocks are empty. *)
Definition tls_conn (tlsok mu : bool) (ver : Z) (ca pem key : list Z) : res item :=
  let kp := negb (is_nil pem) && negb (is_nil key) in
  let hasca := negb (is_nil ca) in
  if (kp || hasca) && negb tlsok then Err EOther
  else Ok (7, [tls_minver ver; b2z kp; b2z hasca; if hasca && mu then 4 else 0], []).

(* header map: later duplicates replace; observed sorted by name *)
Fixpoint lex_lt (a b : list Z) : bool :=
  match a, b with
  | _, [] => false
  | [], _ :: _ => true
  | x :: a', y :: b' => (x <? y) || ((x =? y) && lex_lt a' b')
  end.
Fixpoint hdr_put (k v : list Z) (l : list (list Z * list Z)) : list (list Z * list Z) :=
  match l with
  | [] => [(k, v)]
  | (k', v') :: r => if zlist_eqb k k' then (k, v) :: r
                     else if lex_lt k k' then (k, v) :: l else (k', v') :: hdr_put k v r
  end.
Definition hdr_map (hs : list (list Z * list Z)) : list (list Z * list Z) :=
  fold_left (fun m kv => hdr_put (fst kv) (snd kv) m) hs [].
Definition hdr_flat (m : list (list Z * list Z)) : list (list Z) :=
  flat_map (fun kv => [fst kv; snd kv]) m.

Definition simple_conn (b : Z) : item :=
  if b =? 192 then (1, [], [])                (* com.TCP *)
  else if b =? 193 then (2, [771; 0], [])     (* com.TLS: MinVersion TLS1.2 *)
  else if b =? 194 then (3, [], [])           (* com.UDP *)
  else if b =? 195 then (4, [1], [])          (* com.ICMP = NewIP(1) *)
  else if b =? 196 then (5, [], [])           (* pipe.Pipe *)
  else (2, [770; 1], []).                     (* com.TLSInsecure: TLS1.1, InsecureSkipVerify *)

Definition simple_wrap (b : Z) : item := (b - 207, [], []).   (* Hex 1, Zlib 2, Gzip 3, Base64 4 *)

(* state of build: profile, selector byte *)
Definition bstate : Type := (prof * Z)%type.

Definition build_step (tlsok : bool) (c : list Z) (i n : Z) (tag : Z) (k : kind) (st : bstate) : res bstate :=
  let '(p, z) := st in
  match k with
  | KSep => Ok st
  | KInvalid | KOther | KSelPct => Err EInvalid
  | KHost =>
    if n <=? i + 3 then Err EInvalid else
    do b1 <- idx c (i + 1); do b2 <- idx c (i + 2);
    let v := w16 b1 b2 + i in
    if (n <? v + 3) || (v <? i) then Err EInvalid else
    do s <- slice c (i + 3) (v + 3); Ok (set_hosts p (p_hosts p ++ [s]), z)
  | KSleep =>
    if n <=? i + 8 then Err EInvalid else
    do u <- rd_be c (i + 1) 8;
    let d := i64 u in Ok (set_sleep p (if d <? 0 then DefaultSleep else d), z)
  | KJitter =>
    if n <=? i + 1 then Err EInvalid else
    do b1 <- idx c (i + 1);
    let j := i8 b1 in Ok (set_jitter p (if 100 <? j then 100 else if j <? -1 then 0 else j), z)
  | KKeyPin =>
    if n <=? i + 4 then Err EInvalid else
    do u <- rd_be c (i + 1) 4; Ok (set_keys p (p_keys p ++ [u]), z)
  | KWeight =>
    if n <=? i + 1 then Err EInvalid else
    do b1 <- idx c (i + 1); Ok (set_weight p (if 100 <? b1 then 100 else b1), z)
  | KKillDate =>
    if n <=? i + 8 then Err EInvalid else
    do u <- rd_be c (i + 1) 8;
    Ok (set_kill p (if u =? 0 then ZeroTimeUnix else i64 u), z)
  | KWorkHours =>
    if n <=? i + 5 then Err EInvalid else
    do b1 <- idx c (i + 1);
    do b2 <- idx c (i + 2); do b3 <- idx c (i + 3); do b4 <- idx c (i + 4); do b5 <- idx c (i + 5);
    if (23 <? b2) || (59 <? b3) || (23 <? b4) || (59 <? b5) then Err EInvalid else
    Ok (set_work p [b1; b2; b3; b4; b5], z)
  | KSel => do b <- idx c i; Ok (p, b)
  | KConn => if has_conn p then Err EMultiConn else Ok (set_conn p (simple_conn tag), z)
  | KIP =>
    if has_conn p then Err EMultiConn else
    if n <=? i + 1 then Err EInvalid else
    do b1 <- idx c (i + 1);
    if b1 =? 0 then Err EInvalid else Ok (set_conn p (4, [b1], []), z)
  | KWC2 =>
    if has_conn p then Err EMultiConn else
    if n <=? i + 7 then Err EInvalid else
    do b1 <- idx c (i + 1); do b2 <- idx c (i + 2); do b3 <- idx c (i + 3); do b4 <- idx c (i + 4);
    do b5 <- idx c (i + 5); do b6 <- idx c (i + 6); do b7 <- idx c (i + 7);
    let v1 := w16 b1 b2 + i + 8 in let q1 := i + 8 in
    if (n <? v1) || (n <? q1) || (q1 <? i) || (v1 <? i) then Err EInvalid else
    do url <- (if q1 <? v1 then slice c q1 v1 else Ok []);
    let v2 := w16 b3 b4 + v1 in let q2 := v1 in
    do host <- (if q2 <? v2 then
                  if (n <? v2) || (n <? q2) || (v2 <? q2) || (q2 <? i) || (v2 <? i) then Err EInvalid
                  else slice c q2 v2
                else Ok []);
    let v3 := w16 b5 b6 + v2 in let q3 := v2 in
    do agent <- (if q3 <? v3 then
                   if (n <? v3) || (n <? q3) || (v3 <? q3) || (q3 <? i) || (v3 <? i) then Err EInvalid
                   else slice c q3 v3
                 else Ok []);
    do hs <- (if 0 <? b7 then wc2_hdrs (length c) c i n v3 q3 0 else Ok []);
    let m := hdr_map hs in
    Ok (set_conn p (6, [len m], [url; host; agent] ++ hdr_flat m), z)
  | KTLSx =>
    if has_conn p then Err EMultiConn else
    if n <=? i + 1 then Err EInvalid else
    do b1 <- idx c (i + 1);
    do t <- tls_conn tlsok false b1 [] [] []; Ok (set_conn p t, z)
  | KMuTLS =>
    if has_conn p then Err EMultiConn else
    if n <=? i + 7 then Err EInvalid else
    do b2 <- idx c (i + 2); do b3 <- idx c (i + 3); do b4 <- idx c (i + 4);
    do b5 <- idx c (i + 5); do b6 <- idx c (i + 6); do b7 <- idx c (i + 7);
    let a := w16 b2 b3 + i + 8 in let b := w16 b4 b5 + a in let k := w16 b6 b7 + b in
    if (n <? a) || (n <? b) || (n <? k) || (b <? a) || (k <? b) || (a <? i) || (b <? i) || (k <? i)
    then Err EInvalid else
    do b1 <- idx c (i + 1);
    do ca <- slice c (i + 8) a; do pem <- slice c a b; do key <- slice c b k;
    do t <- tls_conn tlsok true b1 ca pem key; Ok (set_conn p t, z)
  | KTLSxCA =>
    if has_conn p then Err EMultiConn else
    if n <=? i + 3 then Err EInvalid else
    do b2 <- idx c (i + 2); do b3 <- idx c (i + 3);
    let a := w16 b2 b3 + i + 4 in
    if (n <? a) || (a <? i) then Err EInvalid else
    do b1 <- idx c (i + 1);
    do ca <- slice c (i + 4) a;
    do t <- tls_conn tlsok false b1 ca [] []; Ok (set_conn p t, z)
  | KTLSCert =>
    if has_conn p then Err EMultiConn else
    if n <=? i + 6 then Err EInvalid else
    do b2 <- idx c (i + 2); do b3 <- idx c (i + 3); do b4 <- idx c (i + 4); do b5 <- idx c (i + 5);
    let b := w16 b2 b3 + i + 6 in let k := w16 b4 b5 + b in
    if (n <? b) || (n <? k) || (b <? i) || (k <? i) || (k <? b) then Err EInvalid else
    do b1 <- idx c (i + 1);
    do pem <- slice c (i + 6) b; do key <- slice c b k;
    do t <- tls_conn tlsok true b1 [] pem key; Ok (set_conn p t, z)
  | KWrap => Ok (add_wrap p (simple_wrap tag), z)
  | KXOR =>
    if n <=? i + 3 then Err EInvalid else
    do b1 <- idx c (i + 1); do b2 <- idx c (i + 2);
    let v := w16 b1 b2 + i in
    if (n <? v + 3) || (v <? i) then Err EInvalid else
    do s <- slice c (i + 3) (v + 3); Ok (add_wrap p (5, [], [s]), z)
  | KCBK =>
    if n <=? i + 5 then Err EInvalid else
    do b1 <- idx c (i + 1);
    do b2 <- idx c (i + 2); do b3 <- idx c (i + 3); do b4 <- idx c (i + 4); do b5 <- idx c (i + 5);
    Ok (add_wrap p (6, [b2; b3; b4; b5; b1], []), z)
  | KAES =>
    if n <=? i + 3 then Err EInvalid else
    do b1 <- idx c (i + 1); do b2 <- idx c (i + 2);
    let v := b1 + i + 3 in let zz := b2 + v in
    if (v =? zz) || (i + 3 =? v) || (n <? v) || (n <? zz) || (zz <? i) || (v <? i) || (zz <? v) then Err EInvalid else
    do key <- slice c (i + 3) v;
    if negb (aes_keylen_ok (len key)) then Err EOther else       (* aes.NewCipher *)
    do iv <- slice c v zz;
    if negb (len iv =? 16) then Err EOther else                   (* wrapper.NewBlock *)
    Ok (add_wrap p (7, [], [iv]), z)
  | KTB64 => if has_trans p then Err EMultiTrans else Ok (set_trans p (1, [0], []), z)
  | KDNS =>
    if has_trans p then Err EMultiTrans else
    if n <=? i + 1 then Err EInvalid else
    do b1 <- idx c (i + 1);
    do names <- dns_names (Z.to_nat b1) c i n (i + 2) (i + 2);
    Ok (set_trans p (2, [], names), z)
  | KB64S =>
    if has_trans p then Err EMultiTrans else
    if n <=? i + 1 then Err EInvalid else
    do b1 <- idx c (i + 1); Ok (set_trans p (1, [b1], []), z)
  end.

Fixpoint build_loop (tlsok : bool) (fuel : nat) (c : list Z) (i : Z) (st : bstate) : res (bstate * Z) :=
  match fuel with
  | O => Err EFuel
  | S f =>
    do r <- next c i;
    let n := fixn c i r in
    do _ <- idx c (n - 1);
    do b <- idx c i;
    match kind_of b with
    | KSep => Ok (st, n)
    | k => do st' <- build_step tlsok c i n b k st;
           if (0 <=? n) && (n <? len c) then build_loop tlsok f c n st' else Ok (st', n)
    end
  end.

Definition build_group (tlsok : bool) (c : list Z) (x : Z) : res (bstate * Z) :=
  if 0 <? len c then build_loop tlsok (length c) c x (prof0, 0) else Ok ((prof0, 0), 0).

(* sort.Sort(r) on <= 12 entries is Go's insertionSort with Less = weight greater: stable *)
Fixpoint ins_w (x : prof) (l : list prof) : list prof :=
  match l with
  | [] => [x]
  | y :: r => if p_weight y <? p_weight x then x :: l else y :: ins_w x r
  end.
Definition sort_w (l : list prof) : list prof := fold_left (fun acc x => ins_w x acc) l [].

(* Build: entries in source order, g = last non-zero selector of a kept group *)
Fixpoint build_top (tlsok : bool) (fuel : nat) (c : list Z) (i : Z) (e : list prof) (g : Z) : res (list prof * Z) :=
  match fuel with
  | O => Err EFuel
  | S f =>
    if i <? len c then
      do '((p, s), n) <- build_group tlsok c i;
      do skip <- (if n - i =? 1 then do b <- idx c i; Ok (b =? Separator) else Ok false);
      if skip then build_top tlsok f c n e g
      else build_top tlsok f c n (e ++ [p]) (if 0 <? s then s else g)
    else Ok (e, g)
  end.

(* result: (selector, entries); a nil Profile is (0, []), a single profile (0, [p]) *)
Definition build (tlsok : bool) (c : list Z) : res (Z * list prof) :=
  if len c =? 0 then Ok (0, []) else
  do '(e, g) <- build_top tlsok (S (length c)) c 0 [] 0;
  match e with
  | [] => Ok (0, [])
  | [p] => Ok (0, [p])
  | _ => Ok (g, sort_w e)
  end.

(* ---- Groups / Group ----------------------------------------------------------------- *)
Fixpoint groups_loop (fuel : nat) (c : list Z) (i n : Z) : res Z :=
  match fuel with
  | O => Err EFuel
  | S f =>
    if (0 <=? i) && (i <? len c) then
      do b <- idx c i;
      do r <- next c i;
      groups_loop f c r (if (b =? Separator) && (0 <? i) then n + 1 else n)
    else Ok (n + 1)
  end.
Definition groups (c : list Z) : res Z :=
  if len c =? 0 then Ok 0 else groups_loop (S (length c)) c 0 0.

Fixpoint group_loop (fuel : nat) (c : list Z) (p e l s : Z) : res (list Z) :=
  match fuel with
  | O => Err EFuel
  | S f =>
    if (0 <=? e) && (e <? len c) then
      do b <- idx c e;
      if b =? Separator then
        if e =? 0 then do r <- next c e; group_loop f c p r l s
        else if (p <=? 0) && (l =? 0) then slice c 0 e
        else if p =? l then slice c s e
        else do r <- next c e; group_loop f c p r (l + 1) (e + 1)
      else do r <- next c e; group_loop f c p r l s
    else if (0 <? l) && (0 <? s) then slice c s (len c)
    else if (p <=? 0) && (l =? 0) then Ok c
    else Ok []
  end.
Definition group (c : list Z) (p : Z) : res (list Z) :=
  if len c =? 0 then Ok [] else if p =? -1 then Ok c else group_loop (S (length c)) c p 0 0 0.

(* MarshalBinary of the built profile / group: the source slice, or an error when nothing was built *)
Definition marshal (tlsok : bool) (c : list Z) : res (list Z) :=
  do '(_, e) <- build tlsok c;
  match e with [] => Err EOther | _ => Ok c end.

(* ---- Config.String: index skeleton ---------------------------------------------------- *)
Fixpoint string_loop (fuel : nat) (c : list Z) (i : Z) : res unit :=
  match fuel with
  | O => Err EFuel
  | S f =>
    if (0 <=? i) && (i <? len c) then
      do r <- next c i;
      if (r <? 0) || (len c <=? r) then Ok tt
      else do _ <- idx c r; string_loop f c r
    else Ok tt
  end.
Definition string_skel (c : list Z) : res unit :=
  if len c =? 0 then Ok tt else
  do b <- idx c 0;
  if b =? 0 then Ok tt else string_loop (S (length c)) c 0.

(* ---- Config.MarshalJSON: index skeleton (third copy of the walker) ------------------- *)
Definition json_step (c : list Z) (i n : Z) (k : kind) : res unit :=
  match k with
  | KSep | KInvalid => Ok tt     (* handled by the caller *)
  | KWrap | KSel | KConn | KTB64 => Ok tt
  | KOther => do _ <- idx c (n - 1); Ok tt
  | KHost | KXOR =>
    do _ <- idx c (n - 1);
    if n <=? i + 3 then Err EInvalid else
    do b1 <- idx c (i + 1); do b2 <- idx c (i + 2);
    let v := w16 b1 b2 + i in
    if (n <? v + 3) || (v <? i) then Err EInvalid else
    do _ <- slice c (i + 3) (v + 3); Ok tt
  | KSleep | KKillDate =>
    do _ <- idx c (n - 1);
    if n <=? i + 8 then Err EInvalid else do _ <- rd_be c (i + 1) 8; Ok tt
  | KKeyPin =>
    do _ <- idx c (n - 1);
    if n <=? i + 4 then Err EInvalid else do _ <- rd_be c (i + 1) 4; Ok tt
  | KWorkHours =>
    do _ <- idx c (n - 1);
    if n <=? i + 5 then Err EInvalid else do _ <- rd_be c (i + 1) 5; Ok tt
  | KJitter | KWeight | KIP | KTLSx | KB64S | KSelPct =>
    do _ <- idx c (n - 1);
    if n <=? i + 1 then Err EInvalid else do _ <- idx c (i + 1); Ok tt
  | KWC2 =>
    do _ <- idx c (n - 1);
    if n <=? i + 7 then Err EInvalid else
    do b1 <- idx c (i + 1); do b2 <- idx c (i + 2); do b3 <- idx c (i + 3); do b4 <- idx c (i + 4);
    do b5 <- idx c (i + 5); do b6 <- idx c (i + 6); do b7 <- idx c (i + 7);
    let v1 := w16 b1 b2 + i + 8 in let q1 := i + 8 in
    if (n <? v1) || (n <? q1) || (q1 <? i) || (v1 <? i) then Err EInvalid else
    do _ <- (if q1 <? v1 then slice c q1 v1 else Ok []);
    let v2 := w16 b3 b4 + v1 in let q2 := v1 in
    do _ <- (if q2 <? v2 then
               if (n <? v2) || (n <? q2) || (v2 <? q2) || (q2 <? i) || (v2 <? i) then Err EInvalid
               else slice c q2 v2
             else Ok []);
    let v3 := w16 b5 b6 + v2 in let q3 := v2 in
    do _ <- (if q3 <? v3 then
               if (n <? v3) || (n <? q3) || (v3 <? q3) || (q3 <? i) || (v3 <? i) then Err EInvalid
               else slice c q3 v3
             else Ok []);
    if b7 =? 0 then Ok tt else
    do _ <- wc2_hdrs (length c) c i n v3 q3 0; Ok tt
  | KMuTLS =>
    do _ <- idx c (n - 1);
    if n <=? i + 7 then Err EInvalid else
    do b2 <- idx c (i + 2); do b3 <- idx c (i + 3); do b4 <- idx c (i + 4);
    do b5 <- idx c (i + 5); do b6 <- idx c (i + 6); do b7 <- idx c (i + 7);
    let a := w16 b2 b3 + i + 8 in let b := w16 b4 b5 + a in let k := w16 b6 b7 + b in
    if (n <? a) || (n <? b) || (n <? k) || (b <? a) || (k <? b) || (a <? i) || (b <? i) || (k <? i)
    then Err EInvalid else
    do _ <- idx c (i + 1);
    do _ <- slice c (i + 8) a; do _ <- slice c a b; do _ <- slice c b k; Ok tt
  | KTLSxCA =>
    do _ <- idx c (n - 1);
    if n <=? i + 3 then Err EInvalid else
    do b2 <- idx c (i + 2); do b3 <- idx c (i + 3);
    let a := w16 b2 b3 + i + 4 in
    if (n <? a) || (a <? i) then Err EInvalid else
    do _ <- idx c (i + 1); do _ <- slice c (i + 4) a; Ok tt
  | KTLSCert =>
    do _ <- idx c (n - 1);
    if n <=? i + 6 then Err EInvalid else
    do b2 <- idx c (i + 2); do b3 <- idx c (i + 3); do b4 <- idx c (i + 4); do b5 <- idx c (i + 5);
    let b := w16 b2 b3 + i + 6 in let k := w16 b4 b5 + b in
    if (n <? b) || (n <? k) || (b <? i) || (k <? i) || (k <? b) then Err EInvalid else
    do _ <- idx c (i + 1); do _ <- slice c (i + 6) b; do _ <- slice c b k; Ok tt
  | KCBK =>
    do _ <- idx c (n - 1);
    if n <=? i + 5 then Err EInvalid else do _ <- rd_be c (i + 1) 5; Ok tt
  | KAES =>
    do _ <- idx c (n - 1);
    if n <=? i + 3 then Err EInvalid else
    do b1 <- idx c (i + 1); do b2 <- idx c (i + 2);
    let v := b1 + i + 3 in let zz := b2 + v in
    if (v =? zz) || (i + 3 =? v) || (n <? v) || (n <? zz) || (zz <? i) || (v <? i) || (zz <? v) then Err EInvalid else
    do _ <- slice c (i + 3) v; do _ <- slice c v zz; Ok tt
  | KDNS =>
    do _ <- idx c (n - 1);
    if n <=? i + 1 then Err EInvalid else
    do b1 <- idx c (i + 1);
    do _ <- dns_names (Z.to_nat b1) c i n (i + 2) (i + 2); Ok tt
  end.

(* for i, n := 0, 0; n >= 0 && n < len(c); i = n *)
Fixpoint json_loop (fuel : nat) (c : list Z) (i : Z) : res unit :=
  match fuel with
  | O => Err EFuel
  | S f =>
    do b <- idx c i;
    if b =? 0 then Err EInvalid else
    do r <- next c i;
    let n := fixn c i r in
    match kind_of b with
    | KSep => if n =? len c then Ok tt
              else if (0 <=? n) && (n <? len c) then json_loop f c n else Ok tt
    | k => do _ <- json_step c i n k;
           if (0 <=? n) && (n <? len c) then json_loop f c n else Ok tt
    end
  end.
Definition json_skel (c : list Z) : res unit :=
  if 0 <? len c then json_loop (length c) c 0 else Ok tt.

(* ---- observables: the flat serialisation compared with the harness' Dump ------------------ *)
(* digest of a byte string: length, sum of (byte+1), sum of the running sums (additions only: the
   case files evaluate it on strings of 65535 bytes) *)
Definition sums (s : list Z) : Z * Z :=
  fold_left (fun ab x => let a := fst ab + x + 1 in (a, snd ab + a)) s (0, 0).
Definition dig (s : list Z) : list Z := let ab := sums s in [len s; fst ab; snd ab].
Definition flat_item (it : item) : list Z :=
  let '(k, nums, strs) := it in (k :: len nums :: nums) ++ (len strs :: flat_map dig strs).
Definition flat_opt (o : option item) : list Z :=
  match o with None => [0] | Some it => 1 :: flat_item it end.
Definition flat_prof (p : prof) : list Z :=
  (len (p_hosts p) :: flat_map dig (p_hosts p))
  ++ [p_sleep p; p_jitter p; b2z (p_kds p); p_kill p]
  ++ (match p_work p with None => [0] | Some w => 1 :: w end)
  ++ (len (p_keys p) :: p_keys p)
  ++ [p_weight p]
  ++ flat_opt (p_conn p)
  ++ (len (p_wraps p) :: flat_map flat_item (p_wraps p))
  ++ flat_opt (p_trans p).
Definition flat_build (r : Z * list prof) : list Z :=
  let '(sel, es) := r in sel :: len es :: flat_map flat_prof es.

Definition map_res {A B} (f : A -> B) (r : res A) : res B :=
  match r with Ok a => Ok (f a) | Err e => Err e | Panic => Panic end.
Definition unit_eqb (a b : unit) : bool := true.

(* ---- generators used by the case files (big inputs are described, not spelled out) --------- *)
Definition upd (l : list Z) (k v : Z) : list Z := take k l ++ v :: drop (k + 1) l.
(* pat n a b = [a; a+b; a+2b; ...] mod 256, n elements *)
Fixpoint pat_go (n : nat) (x b : Z) : list Z :=
  match n with O => [] | S n' => x :: pat_go n' ((x + b) mod 256) b end.
Definition pat (n a b : Z) : list Z := pat_go (Z.to_nat n) (a mod 256) b.

(* ---- correspondence cases ------------------------------------------------------------- *)
(* CParse: arbitrary bytes through every entry point.  tlsok = "no error from outside cfg was
   observed" (see tls_conn).  grp = results of Group(p) for the listed p.  mar = MarshalBinary
   of the built profile.  str / js = String() / MarshalJSON() outcome class. *)
Inductive case :=
| CParse (c : list Z) (tlsok : bool)
         (v : res unit) (b : res (list Z)) (g : res Z) (grp : list (Z * res (list Z)))
         (mar : res (list Z)) (str js : res unit)
| CNext (c : list Z) (i : Z) (r : res Z).

Definition check (k : case) : bool :=
  match k with
  | CParse c tlsok v b g grp mar str js =>
    res_eqb unit_eqb (validate c) v
    && res_eqb zlist_eqb (map_res flat_build (build tlsok c)) b
    && res_eqb Z.eqb (groups c) g
    && forallb (fun pr => res_eqb zlist_eqb (group c (fst pr)) (snd pr)) grp
    && res_eqb zlist_eqb (marshal tlsok c) mar
    && res_eqb unit_eqb (string_skel c) str
    && res_eqb unit_eqb (json_skel c) js
  | CNext c i r => res_eqb Z.eqb (next c i) r
  end.
