(* Model/Cbk.v -- C07: the CBK cipher of data/crypto/cbk.go as the wrapper uses it
   (NewCBKSource, Source = nil; Write/Flush -> flushOutput, Read -> readInput) and its exported
   block functions Encrypt/Decrypt.  Definitions only.

   What is modelled exactly: the substitution  buf[i] := t[i & 0xF] + buf[i]  (flushOutput builds
   c[x][z] = t[x] + z and reads c[i&0xF][buf[i]]), the six scramble steps (nibble mix of bytes
   g,h and g+1,h+1; swap of the byte pairs 2g and 2h; skipped when g = h), Shuffle/Deshuffle as a
   per-position additive offset, the order of the three layers in both directions, the size+1
   framing (count byte at position size, stale tail of the previous cipher text under a partial
   block), the block counter 1..30,0,1.. and the reader's handling of the count byte.

   What is an INPUT (DESIGN.md section 4): the key arithmetic (adjust, blockIndex, cipherTable,
   the Shuffle case analysis) is not re-derived.  For every block counter value the table bytes
   t[0..15] and the six pairs (g,h), and the shuffle offsets of the key, are read from the real
   code through the shim harness/overlay/data__crypto--c07.go; the theorems hold for EVERY such
   family (any t, any offsets, any g,h < 8). *)
From XMT Require Import Base.Prelude.

(* ---- nibbles --------------------------------------------------------------------------- *)
Definition lo (x : Z) : Z := x mod 16.            (* x & 0xF *)
Definition hi (x : Z) : Z := (x / 16) mod 16.     (* x >> 4 (a byte), also (x >> 4) & 0xF *)
Definition mk (a b : Z) : Z := a * 16 + b.        (* a << 4 | b *)

(* b[h], b[g] = (b[g]&0xF)<<4 | (b[h]&0xF), (b[g]>>4)<<4 | ((b[h]>>4)&0xF) *)
Definition mixH (bg bh : Z) : Z := mk (lo bg) (lo bh).   (* the new b[h] *)
Definition mixG (bg bh : Z) : Z := mk (hi bg) (hi bh).   (* the new b[g] *)

Fixpoint upd (i : nat) (v : Z) (l : list Z) : list Z :=
  match l, i with
  | [], _ => []
  | _ :: r, O => v :: r
  | x :: r, S j => x :: upd j v r
  end.
Definition get (i : nat) (l : list Z) : Z := nth i l 0.

(* one tuple assignment of scramble (g <> h: the two targets are distinct) *)
Definition mix (g h : nat) (b : list Z) : list Z :=
  let bg := get g b in let bh := get h b in
  upd g (mixG bg bh) (upd h (mixH bg bh) b).

(* the two tuple assignments, in program order: bytes (h, g) then bytes (h+1, g+1) *)
Definition mix2 (g h : nat) (b : list Z) : list Z := mix (S g) (S h) (mix g h b).

(* copy(o, b[2g:2g+2]); copy(b[2g:], b[2h:2h+2]); copy(b[2h:], o) *)
Definition swap2 (g h : nat) (b : list Z) : list Z :=
  let g0 := get (2 * g) b in let g1 := get (2 * g + 1) b in
  let h0 := get (2 * h) b in let h1 := get (2 * h + 1) b in
  upd (2 * h + 1) g1 (upd (2 * h) g0 (upd (2 * g + 1) h1 (upd (2 * g) h0 b))).

(* loop body of scramble for d = false / d = true *)
Definition enc_step (s : nat * nat) (b : list Z) : list Z :=
  let '(g, h) := s in if Nat.eqb g h then b else swap2 g h (mix2 g h b).
Definition dec_step (s : nat * nat) (b : list Z) : list Z :=
  let '(g, h) := s in if Nat.eqb g h then b else mix2 g h (swap2 g h b).

(* scramble(b, false): i = 0..5;  scramble(b, true): i = 5..0 *)
Definition scramble_enc (steps : list (nat * nat)) (b : list Z) : list Z :=
  fold_left (fun acc s => enc_step s acc) steps b.
Definition scramble_dec (steps : list (nat * nat)) (b : list Z) : list Z :=
  fold_right (fun s acc => dec_step s acc) b steps.

Fixpoint mapi (f : nat -> Z -> Z) (i : nat) (l : list Z) : list Z :=
  match l with [] => [] | x :: r => f i x :: mapi f (S i) r end.

(* substitution table, forward (flushOutput) and inverse (readInput) *)
Definition add_tab (t b : list Z) : list Z := mapi (fun i x => (nth (i mod 16) t 0 + x) mod 256) 0 b.
Definition sub_tab (t b : list Z) : list Z := mapi (fun i x => (x - nth (i mod 16) t 0) mod 256) 0 b.
(* Shuffle / Deshuffle: byte i moves by the key's offset for position i *)
Definition add_off (o b : list Z) : list Z := mapi (fun i x => (x + nth i o 0) mod 256) 0 b.
Definition sub_off (o b : list Z) : list Z := mapi (fun i x => (x - nth i o 0) mod 256) 0 b.

(* constants of one block counter value: table bytes and the six steps *)
Definition kconst : Type := (list Z * list (nat * nat))%type.

(* flushOutput on the whole buffer (size+1 bytes) / readInput after io.ReadFull *)
Definition enc_buf (offs : list Z) (k : kconst) (buf : list Z) : list Z :=
  add_off offs (scramble_enc (snd k) (add_tab (fst k) buf)).
Definition dec_buf (offs : list Z) (k : kconst) (w : list Z) : list Z :=
  sub_tab (fst k) (scramble_dec (snd k) (sub_off offs w)).

(* the exported block functions: Encrypt = Shuffle; scramble(true), Decrypt = scramble(false); Deshuffle *)
Definition blk_encrypt (offs : list Z) (steps : list (nat * nat)) (b : list Z) : list Z :=
  scramble_dec steps (add_off offs b).
Definition blk_decrypt (offs : list Z) (steps : list (nat * nat)) (b : list Z) : list Z :=
  sub_off offs (scramble_enc steps b).

(* ---- the stream: Write fills buf[0:size], a full buffer is flushed at once, Close flushes
        the rest; the count byte is buf[size]; the bytes between the count and the data of a
        partial block are whatever the buffer held: the previous cipher text block ---------- *)
Fixpoint chunks_f (fuel : nat) (n : nat) (x : list Z) : list (list Z) :=
  match fuel with
  | O => []
  | S f => match x with [] => [] | _ => firstn n x :: chunks_f f n (skipn n x) end
  end.
Definition chunks (n : nat) (x : list Z) : list (list Z) := chunks_f (length x) n x.

Section Stream.
  Variable sz : nat.                  (* block size: 16, 32, 64 or 128 *)
  Variable offs : list Z.             (* shuffle offsets *)
  Variable consts : nat -> kconst.    (* constants of block number k = 0, 1, ... (counter (k+1) mod 31) *)

  Fixpoint cbk_enc_chunks (k : nat) (stale : list Z) (cs : list (list Z)) : list Z :=
    match cs with
    | [] => []
    | c :: r =>
      let p := length c in
      let buf := c ++ skipn p (firstn sz stale) ++ [Z.of_nat p] in
      let o := enc_buf offs (consts k) buf in
      o ++ cbk_enc_chunks (S k) o r
    end.

  Definition cbk_enc (x : list Z) : list Z := cbk_enc_chunks 0 (repeat 0 (S sz)) (chunks sz x).

  Definition EUnexpectedEOF : Z := 2.
  Definition EShortBuffer : Z := 3.

  Fixpoint cbk_dec_blocks (k : nat) (bs : list (list Z)) : res (list Z) :=
    match bs with
    | [] => Ok []                                           (* io.ReadFull read nothing: EOF *)
    | w :: r =>
      if negb (Nat.eqb (length w) (S sz)) then Err EUnexpectedEOF
      else
        let buf := dec_buf offs (consts k) w in
        let total := get sz buf in
        if total =? 0 then Ok []                            (* count byte 0: EOF *)
        else if Z.of_nat sz <? total then Err EShortBuffer
        else do t <- cbk_dec_blocks (S k) r; Ok (firstn (Z.to_nat total) buf ++ t)
    end.

  Definition cbk_dec (w : list Z) : res (list Z) := cbk_dec_blocks 0 (chunks (S sz) w).
End Stream.

(* ---- the writer with its buffer: CBK.Write and Flush as crypto.writer drives them (Write per
        caller chunk, Close -> Flush -> flushOutput).  State: block counter, buffer (size+1 bytes,
        holding the previous cipher text block), fill position. ---------------------------------- *)
Record wst : Type := { w_k : nat; w_buf : list Z; w_pos : nat }.

(* copy(e.buf[pos:total], c) *)
Definition splice (buf : list Z) (pos : nat) (c : list Z) : list Z :=
  firstn pos buf ++ c ++ skipn (pos + length c) buf.

Section Writer.
  Variable sz : nat.
  Variable offs : list Z.
  Variable consts : nat -> kconst.

  (* flushOutput with pos > 0: buf[total] = byte(pos); transform in place; write; pos = 0 *)
  Definition cbk_flush (st : wst) : wst * list Z :=
    let o := enc_buf offs (consts (w_k st)) (upd sz (Z.of_nat (w_pos st)) (w_buf st)) in
    ({| w_k := S (w_k st); w_buf := o; w_pos := 0 |}, o).

  (* for n < len(b) { if pos >= total { flush }; i = copy(buf[pos:total], b[n:]); pos += i; n += i }
     if pos < total { return }; flush *)
  Fixpoint cbk_write_f (fuel : nat) (st : wst) (b : list Z) : wst * list Z :=
    match fuel with
    | O => (st, [])
    | S f =>
      match b with
      | [] => if Nat.ltb (w_pos st) sz then (st, []) else cbk_flush st
      | _ =>
        let '(st1, o1) := if Nat.leb sz (w_pos st) then cbk_flush st else (st, []) in
        let c := firstn (sz - w_pos st1) b in
        let st2 := {| w_k := w_k st1; w_buf := splice (w_buf st1) (w_pos st1) c; w_pos := w_pos st1 + length c |} in
        let '(st3, o3) := cbk_write_f f st2 (skipn (length c) b) in
        (st3, o1 ++ o3)
      end
    end.
  Definition cbk_write (st : wst) (b : list Z) : wst * list Z := cbk_write_f (S (length b)) st b.

  (* Close: flushOutput returns at once when pos = 0 *)
  Definition cbk_close (st : wst) : list Z := if Nat.eqb (w_pos st) 0 then [] else snd (cbk_flush st).

  Fixpoint cbk_writes (st : wst) (ws : list (list Z)) : list Z :=
    match ws with
    | [] => cbk_close st
    | b :: r => let '(st', o) := cbk_write st b in o ++ cbk_writes st' r
    end.

  (* everything that reaches the sink for the sequence of Write calls ws followed by Close *)
  Definition cbk_run (ws : list (list Z)) : list Z :=
    cbk_writes {| w_k := 0; w_buf := repeat 0 (S sz); w_pos := 0 |} ws.
End Writer.
