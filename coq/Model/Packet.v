(* Model/Packet.v -- C01: com/packet.go (Marshal/Unmarshal, MarshalStream/UnmarshalStream, Size),
   com/flag.go (the Flag word), device/id.go (ID.Read/Write), data/chunk_base.go (ReadFrom under a
   Limit, WriteTo).  Definitions only.

   A packet is (id, job, flags, tags, device, payload buffer, read cursor of the payload Chunk);
   fixed-width fields are Z with range hypotheses in the theorems (wf), bytes are Z in [0,256).
   p_pay is the WHOLE buffer (Chunk.buf), p_rpos the read cursor (Chunk.rpos): typed reads, Read,
   Seek and WriteTo move it, Payload()/Remaining() and Chunk.MarshalStream see only buf[rpos:].  A reader is a src (Model/Codec.v):
   the list of chunks the successive Read calls of the underlying io.Reader deliver. *)
From XMT Require Import Base.Prelude Model.Codec.

Definition PacketMaxTags : Z := 32768.      (* 2 << 14 *)
Definition PacketHeaderSize : Z := 46.
Definition IDSize : Z := 32.
Definition bufSize : Z := 16384.            (* data.bufSize = 2 << 13 *)
Definition ErrMalformedTag : Z := 10.
Definition ErrNoProgress : Z := 11.         (* io.ErrNoProgress: device id with a zero first byte *)
Definition ErrTagsTooLarge : Z := 12.
Definition ErrTimeout : Z := 13.            (* any error of the underlying Read that is not io.EOF *)

Record packet := mkP {
  p_id : Z; p_job : Z; p_flags : Z; p_tags : list Z; p_dev : list Z; p_pay : list Z; p_rpos : Z }.

(* ---- the cursor of the payload Chunk (data/chunk.go, data/chunk_base.go) --------- *)
Definition set_rpos (k : Z) (p : packet) : packet :=
  mkP (p_id p) (p_job p) (p_flags p) (p_tags p) (p_dev p) (p_pay p) k.
(* Seek(0, 0): always succeeds *)
Definition rewind (p : packet) : packet := set_rpos 0 p.
(* Chunk.Size() = len(buf); Chunk.Empty() = len(buf) <= rpos (also true for a buffer that was
   consumed to its end) *)
Definition chunk_size (p : packet) : Z := len (p_pay p).
Definition chunk_empty (p : packet) : bool := len (p_pay p) <=? p_rpos p.
(* the unread part buf[rpos:]: Payload(), and what Chunk.MarshalStream writes *)
Definition unread_bytes (p : packet) : list Z := drop (p_rpos p) (p_pay p).
(* the packet a reader of the nested form reconstructs: the unread part as a fresh buffer *)
Definition unread (p : packet) : packet :=
  mkP (p_id p) (p_job p) (p_flags p) (p_tags p) (p_dev p) (unread_bytes p) 0.
(* Chunk.WriteTo: nothing when Empty(), else buf[rpos:] in pieces of bufSize bytes (their
   concatenation), and the cursor ends at len(buf) *)
Definition write_to (p : packet) : list Z := if chunk_empty p then [] else unread_bytes p.
Definition after_write_to (p : packet) : packet := if chunk_empty p then p else set_rpos (chunk_size p) p.

(* ---- com/flag.go: the exact Go expressions on a 64-bit word ---------------- *)
Definition FlagFrag : Z := 1.
(* Flag(uint16(f)) ^ FlagFrag *)
Definition flag_clear (f : Z) : Z := Z.lxor (u16 f) FlagFrag.
(* f | n *)
Definition flag_set (f n : Z) : Z := Z.lor f n.
(* f &^ n *)
Definition flag_unset (f n : Z) : Z := Z.ldiff f n.
(* uint16(f >> 48), uint16(f >> 32), uint16(f >> 16) *)
Definition flag_len (f : Z) : Z := u16 (Z.shiftr f 48).
Definition flag_position (f : Z) : Z := u16 (Z.shiftr f 32).
Definition flag_group (f : Z) : Z := u16 (Z.shiftr f 16).
(* Flag(n)<<48 | Flag(f.Position())<<32 | Flag(uint32(f)) | FlagFrag *)
Definition flag_set_len (f n : Z) : Z :=
  Z.lor (Z.lor (Z.lor (u64 (Z.shiftl n 48)) (u64 (Z.shiftl (flag_position f) 32))) (u32 f)) FlagFrag.
(* Flag(f.Len())<<48 | Flag(n)<<32 | Flag(uint32(f)) | FlagFrag *)
Definition flag_set_position (f n : Z) : Z :=
  Z.lor (Z.lor (Z.lor (u64 (Z.shiftl (flag_len f) 48)) (u64 (Z.shiftl n 32))) (u32 f)) FlagFrag.
(* ((f >> 32) << 32) | Flag(n)<<16 | Flag(uint16(f)) | FlagFrag *)
Definition flag_set_group (f n : Z) : Z :=
  Z.lor (Z.lor (Z.lor (u64 (Z.shiftl (Z.shiftr f 32) 32)) (u64 (Z.shiftl n 16))) (u16 f)) FlagFrag.

(* ---- Marshal (wire form) ---------------------------------------------------- *)
(* b[13] and b[14:14+c] of writeHeader *)
Definition len_prefix (l : Z) : list Z :=
  if l =? 0 then [0]
  else if l <? LimitSmall then [1; u8 l]
  else if l <? LimitMedium then 3 :: be16 l
  else if l <? LimitLarge then 5 :: be32 l
  else 7 :: be64 l.

(* the 14 fixed bytes after the device id *)
Definition fixed14 (p : packet) (cls : Z) : list Z :=
  [u8 (p_id p)] ++ be16 (p_job p) ++ be64 (p_flags p) ++ be16 (len (p_tags p)) ++ [cls].

Definition header_bytes (p : packet) : list Z :=
  p_dev p ++ [u8 (p_id p)] ++ be16 (p_job p) ++ be64 (p_flags p) ++ be16 (len (p_tags p))
        ++ len_prefix (len (p_pay p)).

Definition write_header (p : packet) : res (list Z) :=
  if PacketMaxTags <? len (p_tags p) then Err ErrTagsTooLarge else Ok (header_bytes p).

Fixpoint write_tags (ts : list Z) : res (list Z) :=
  match ts with
  | [] => Ok []
  | t :: r => if t =? 0 then Err ErrMalformedTag else do b <- write_tags r; Ok (be32 t ++ b)
  end.

(* writeBody: tags, then `p.Seek(0, 0)`, nothing more when Chunk.Size() == 0, else Chunk.WriteTo
   from the rewound cursor.  The header announces Chunk.Size() bytes whatever the cursor is. *)
Definition write_body (p : packet) : res (list Z) :=
  do tb <- write_tags (p_tags p);
  let p0 := rewind p in
  if chunk_size p0 =? 0 then Ok tb else Ok (tb ++ write_to p0).

Definition marshal (p : packet) : res (list Z) :=
  do h <- write_header p; do b <- write_body p; Ok (h ++ b).

(* the packet after a successful Marshal: rewound, then WriteTo moved the cursor to the end *)
Definition after_marshal (p : packet) : packet :=
  let p0 := rewind p in if chunk_size p0 =? 0 then p0 else after_write_to p0.

(* the bytes of a well-formed packet, as a pure function (marshal p = Ok (wire p), proved) *)
Definition wire (p : packet) : list Z :=
  header_bytes p ++ concat (map be32 (p_tags p)) ++ p_pay p.

(* Packet.Size(): the estimate used by the fragmenting and batching code; the length class is
   chosen from the TOTAL (payload + 46 + 4*tags), and an empty payload ignores the tags.  It
   starts with p.Empty(): a packet whose buffer was consumed to the end counts as a bare header,
   otherwise the WHOLE buffer counts (Chunk.Size()), not the unread part *)
Definition size (p : packet) : Z :=
  if chunk_empty p then PacketHeaderSize
  else let s := len (p_pay p) + PacketHeaderSize + 4 * len (p_tags p) in
       if s <? LimitSmall then s + 1 else if s <? LimitMedium then s + 2
       else if s <? LimitLarge then s + 4 else s + 8.

(* ---- Unmarshal (wire form) over a stream of short reads ---------------------- *)
(* device.ID.Read: io.ReadFull of 32 bytes; a zero first byte is io.ErrNoProgress *)
Definition read_device (s : src) : res (list Z * src) :=
  do '(d, s') <- read_full (src_fuel s IDSize) IDSize s [];
  match d with
  | b :: _ => if b =? 0 then Err ErrNoProgress else Ok (d, s')
  | [] => Err ErrOther
  end.

(* the 14 fixed bytes: id, job, flags, tag count, length class (big endian) *)
Definition parse_fixed (b : list Z) : res (Z * Z * Z * Z * Z) :=
  do '(id, r1) <- rd_u8 b;
  do '(job, r2) <- rd_u16 r1;
  do '(fl, r3) <- rd_u64 r2;
  do '(nt, r4) <- rd_u16 r3;
  do '(cls, _) <- rd_u8 r4;
  Ok (id, job, fl, nt, cls).

(* switch b[13]: only 0, 1, 3, 5, 7 are accepted here (the Chunk reader also takes 2, 4, 6, 8) *)
Definition class_width (c : Z) : res Z :=
  if c =? 0 then Ok 0 else if c =? 1 then Ok 1 else if c =? 3 then Ok 2
  else if c =? 5 then Ok 4 else if c =? 7 then Ok 8 else Err ErrInvalidType.

(* readHeader: device, 14 bytes, then 0/1/2/4/8 length bytes; result (dev, id, job, flags, ntags, len) *)
Definition read_header (s : src) : res ((list Z * Z * Z * Z * Z * Z) * src) :=
  do '(d, s1) <- read_device s;
  do '(b, s2) <- read_full (src_fuel s1 14) 14 s1 [];
  do '(id, job, fl, nt, cls) <- parse_fixed b;
  do w <- class_width cls;
  do '(lb, s3) <- read_full (src_fuel s2 w) w s2 [];
  Ok ((d, id, job, fl, nt, of_be lb 0), s3).

Fixpoint read_tags (n : nat) (s : src) : res (list Z * src) :=
  match n with
  | O => Ok ([], s)
  | S n' =>
    do '(b, s1) <- read_full (src_fuel s 4) 4 s [];
    let t := of_be b 0 in
    if t =? 0 then Err ErrMalformedTag
    else do '(ts, s2) <- read_tags n' s1; Ok (t :: ts, s2)
  end.

(* readBody's payload loop: Limit = k + |acc|; every Read asks for min(space, bufSize) bytes, so
   never for more than the announced length.  Chunk.ReadFrom returns when a Read delivers 0
   bytes; the outer loop calls it again unless that call delivered nothing at all (first = the
   next Read is the first of a ReadFrom call).  EOF or an idle call before k bytes:
   io.ErrUnexpectedEOF. *)
Fixpoint read_body (fuel : nat) (k : Z) (s : src) (acc : list Z) (first : bool) {struct fuel}
  : res (list Z * src) :=
  if k <=? 0 then Ok (acc, s) else
  match fuel with
  | O => Err ErrOther
  | S f =>
    match read1 (Z.min k bufSize) s with
    | None => Err ErrUnexpectedEOF
    | Some (got, s') =>
      if is_nil got then (if first then Err ErrUnexpectedEOF else read_body f k s' acc true)
      else read_body f (k - len got) s' (acc ++ got) false
    end
  end.
(* every step removes a chunk or at least one byte of the stream *)
Definition body_fuel (s : src) : nat := S (length s + length (concat s)).

Definition unmarshal (s : src) : res (packet * src) :=
  do '((d, id, job, fl, nt, l), s1) <- read_header s;
  do '(ts, s2) <- read_tags (Z.to_nat nt) s1;
  do '(pay, s3) <- (if l =? 0 then Ok ([], s2) else read_body (body_fuel s2) l s2 [] true);
  Ok (mkP id job fl ts d pay 0, s3).

(* a reader loop: packets until the stream is exhausted *)
Fixpoint unmarshal_many (fuel : nat) (s : src) : res (list packet) :=
  match s with
  | [] => Ok []
  | _ =>
    match fuel with
    | O => Err ErrOther
    | S f => do '(p, s') <- unmarshal s; do ps <- unmarshal_many f s'; Ok (p :: ps)
    end
  end.

(* ---- the nested (stream) form: typed codec of Model/Codec.v -------------------- *)
(* MarshalStream: u8 id, u16 job, u16 uint16(len tags), u64 flags, 32 raw bytes, at most
   PacketMaxTags tags as u32 (a zero tag is NOT refused here), then Chunk.MarshalStream =
   WriteBytes(buf[rpos:]): the UNREAD part only; the cursor does not move *)
Definition marshal_stream (p : packet) : list Z :=
  enc_u8 (p_id p) ++ enc_u16 (p_job p) ++ enc_u16 (u16 (len (p_tags p))) ++ enc_u64 (p_flags p)
  ++ p_dev p ++ concat (map enc_u32 (take PacketMaxTags (p_tags p))) ++ enc_bytes (unread_bytes p).

(* ID.Read over the Chunk reader *)
Definition rd_dev (s : list Z) : res (list Z * list Z) :=
  do '(d, r) <- rd_fixed IDSize s;
  match d with
  | b :: _ => if b =? 0 then Err ErrNoProgress else Ok (d, r)
  | [] => Err ErrOther
  end.

Fixpoint rd_tags (n : nat) (s : list Z) : res (list Z * list Z) :=
  match n with
  | O => Ok ([], s)
  | S n' =>
    do '(t, r) <- rd_u32 s;
    if t =? 0 then Err ErrMalformedTag
    else do '(ts, r') <- rd_tags n' r; Ok (t :: ts, r')
  end.

(* tags beyond PacketMaxTags are allocated (make([]uint32, t)) but not read: they stay 0 *)
Definition tags_pad (t : Z) : list Z := repeat 0 (Z.to_nat (t - Z.min t PacketMaxTags)).

(* UnmarshalStream from a Chunk (the batched-packet container): flat reader *)
Definition unmarshal_stream (s : list Z) : res (packet * list Z) :=
  do '(id, r1) <- rd_u8 s;
  do '(job, r2) <- rd_u16 r1;
  do '(t, r3) <- rd_u16 r2;
  do '(fl, r4) <- rd_u64 r3;
  do '(d, r5) <- rd_dev r4;
  do '(ts, r6) <- rd_tags (Z.to_nat (Z.min t PacketMaxTags)) r5;
  do '(pay, r7) <- rd_bytes r6;
  Ok (mkP id job fl (ts ++ tags_pad t) d pay 0, r7).

Fixpoint unmarshal_stream_many (fuel : nat) (s : list Z) : res (list packet) :=
  match s with
  | [] => Ok []
  | _ =>
    match fuel with
    | O => Err ErrOther
    | S f => do '(p, r) <- unmarshal_stream s; do ps <- unmarshal_stream_many f r; Ok (p :: ps)
    end
  end.

(* UnmarshalStream from data.NewReader(io.Reader): stream reader over short reads *)
Fixpoint srd_tags (n : nat) (s : src) : res (list Z * src) :=
  match n with
  | O => Ok ([], s)
  | S n' =>
    do '(t, r) <- srd_uN 4 s;
    if t =? 0 then Err ErrMalformedTag
    else do '(ts, r') <- srd_tags n' r; Ok (t :: ts, r')
  end.

Definition unmarshal_srd (s : src) : res (packet * src) :=
  do '(id, r1) <- srd_u8 s;
  do '(job, r2) <- srd_uN 2 r1;
  do '(t, r3) <- srd_uN 2 r2;
  do '(fl, r4) <- srd_uN 8 r3;
  do '(d, r5) <- read_device r4;
  do '(ts, r6) <- srd_tags (Z.to_nat (Z.min t PacketMaxTags)) r5;
  do '(pay, r7) <- srd_bytes r6;
  Ok (mkP id job fl (ts ++ tags_pad t) d pay 0, r7).

(* ---- well-formed packets (the domain of the round-trip theorems) ----------------- *)
Definition nonzero_tag (t : Z) : bool := (0 <? t) && (t <? 4294967296).
Definition wf (p : packet) : bool :=
  (0 <=? p_id p) && (p_id p <? 256) && (0 <=? p_job p) && (p_job p <? 65536)
  && (0 <=? p_flags p) && (p_flags p <? 18446744073709551616)
  && forallb nonzero_tag (p_tags p) && (len (p_tags p) <=? PacketMaxTags)
  && (len (p_dev p) =? IDSize) && bytes_ok (p_dev p)
  && (match p_dev p with b :: _ => negb (b =? 0) | [] => false end)
  && bytes_ok (p_pay p) && (len (p_pay p) <? 9223372036854775808)
  && (0 <=? p_rpos p) && (p_rpos p <=? len (p_pay p)).
(* the stream form goes through Chunk.Bytes / make([]byte, l): payload at most MaxSlice *)
Definition wf_stream (p : packet) : bool := wf p && (len (p_pay p) <=? MaxSlice).

(* ---- streams whose END is observable ------------------------------------------------
   An io.Reader may deliver its last bytes TOGETHER with io.EOF (n > 0, err = EOF:
   iotest.DataErrReader, decompressors, TLS, HTTP bodies), or fail with another error.  An esrc
   is the chunks of the successive Read calls (as in src; an empty chunk is a (0, nil) read) and
   how the stream ends:
     FEof      (0, io.EOF) after the last chunk (what src models),
     FLast c   the last chunk c is delivered with io.EOF in the Read that takes its last byte
               (a Read with a shorter buffer gets (part, nil)), then (0, io.EOF),
     FFail e   (0, e) after the last chunk, then (0, io.EOF).
   The readers below are the code again, now with both results of Read: io.ReadFull keeps the
   bytes and drops the error when the request is complete; Chunk.ReadFrom stores the bytes of
   a Read BEFORE it looks at the error, ends the call on any error and swallows io.EOF;
   readBody only compares the total with the announced length. *)
Inductive fin := FEof | FLast (c : list Z) | FFail (e : Z).
Definition esrc : Type := (src * fin)%type.

(* one Read(p), len p = k > 0: (bytes, error, rest of the stream) *)
Definition read1e (k : Z) (s : esrc) : list Z * option Z * esrc :=
  match fst s with
  | c :: rest => if len c <=? k then (c, None, (rest, snd s)) else (take k c, None, (drop k c :: rest, snd s))
  | [] =>
    match snd s with
    | FEof => ([], Some EOF, s)
    | FLast c => if len c <=? k then (c, Some EOF, ([], FEof)) else (take k c, None, ([], FLast (drop k c)))
    | FFail e => ([], Some e, ([], FEof))
    end
  end.

(* io.ReadFull = io.ReadAtLeast(r, buf, len buf): for n < min && err == nil { Read }; n >= min: nil;
   n > 0 && err == EOF: ErrUnexpectedEOF; else err *)
Fixpoint read_full_e (fuel : nat) (k : Z) (s : esrc) (acc : list Z) {struct fuel} : res (list Z * esrc) :=
  if k <=? 0 then Ok (acc, s) else
  match fuel with
  | O => Err ErrOther
  | S f =>
    let '(got, e, s') := read1e k s in
    if k - len got <=? 0 then Ok (acc ++ got, s')
    else match e with
         | None => read_full_e f (k - len got) s' (acc ++ got)
         | Some x => if is_nil (acc ++ got) then Err x else if x =? EOF then Err ErrUnexpectedEOF else Err x
         end
  end.
Definition efuel (s : esrc) : nat := S (S (S (length (fst s)))).

Definition read_device_e (s : esrc) : res (list Z * esrc) :=
  do '(d, s') <- read_full_e (efuel s) IDSize s [];
  match d with
  | b :: _ => if b =? 0 then Err ErrNoProgress else Ok (d, s')
  | [] => Err ErrOther
  end.

Definition read_header_e (s : esrc) : res ((list Z * Z * Z * Z * Z * Z) * esrc) :=
  do '(d, s1) <- read_device_e s;
  do '(b, s2) <- read_full_e (efuel s1) 14 s1 [];
  do '(id, job, fl, nt, cls) <- parse_fixed b;
  do w <- class_width cls;
  do '(lb, s3) <- read_full_e (efuel s2) w s2 [];
  Ok ((d, id, job, fl, nt, of_be lb 0), s3).

Fixpoint read_tags_e (n : nat) (s : esrc) : res (list Z * esrc) :=
  match n with
  | O => Ok ([], s)
  | S n' =>
    do '(b, s1) <- read_full_e (efuel s) 4 s [];
    let t := of_be b 0 in
    if t =? 0 then Err ErrMalformedTag
    else do '(ts, s2) <- read_tags_e n' s1; Ok (t :: ts, s2)
  end.

(* readBody's loop over Chunk.ReadFrom under Limit = k + |acc|.  A Read that returns bytes and an
   error: the bytes are stored, the ReadFrom call ends, io.EOF becomes nil (the outer loop calls
   again while bytes are owed; a call that delivers nothing ends the loop), any other error ends
   the loop; afterwards only the total counts: short is io.ErrUnexpectedEOF, complete is nil. *)
Fixpoint read_body_e (fuel : nat) (k : Z) (s : esrc) (acc : list Z) (first : bool) {struct fuel}
  : res (list Z * esrc) :=
  if k <=? 0 then Ok (acc, s) else
  match fuel with
  | O => Err ErrOther
  | S f =>
    let '(got, e, s') := read1e (Z.min k bufSize) s in
    match e with
    | None =>
      if is_nil got then (if first then Err ErrUnexpectedEOF else read_body_e f k s' acc true)
      else read_body_e f (k - len got) s' (acc ++ got) false
    | Some x =>
      if x =? EOF then
        (if is_nil got then (if first then Err ErrUnexpectedEOF else read_body_e f k s' acc true)
         else read_body_e f (k - len got) s' (acc ++ got) true)
      else if k - len got <=? 0 then Ok (acc ++ got, s') else Err ErrUnexpectedEOF
    end
  end.
Definition ebytes (s : esrc) : list Z :=
  concat (fst s) ++ match snd s with FLast c => c | _ => [] end.
Definition body_fuel_e (s : esrc) : nat := S (S (S (length (fst s) + length (ebytes s)))).

Definition unmarshal_e (s : esrc) : res (packet * esrc) :=
  do '((d, id, job, fl, nt, l), s1) <- read_header_e s;
  do '(ts, s2) <- read_tags_e (Z.to_nat nt) s1;
  do '(pay, s3) <- (if l =? 0 then Ok ([], s2) else read_body_e (body_fuel_e s2) l s2 [] true);
  Ok (mkP id job fl ts d pay 0, s3).

(* the nested form through data.NewReader over such a stream.  reader.Uint8 is ONE Read of one
   byte: a byte that arrives is used whatever the error says (after the repair of data_reader.go:
   the code used to look at the error first and dropped a final byte delivered with io.EOF) *)
Definition srd_u8_e (s : esrc) : res (Z * esrc) :=
  let '(got, e, s') := read1e 1 s in
  match got with
  | b :: _ => Ok (b, s')
  | [] => match e with Some x => Err x | None => Err EOF end
  end.
Definition srd_uN_e (n : Z) (s : esrc) : res (Z * esrc) :=
  do '(b, s') <- read_full_e (efuel s) n s []; Ok (of_be b 0, s').
Definition srd_prefix_e (s : esrc) : res (option Z * esrc) :=
  do '(t, r) <- srd_u8_e s;
  if t =? 0 then Ok (None, r)
  else if (t =? 1) || (t =? 2) then do '(n, r') <- srd_u8_e r; Ok (Some n, r')
  else if (t =? 3) || (t =? 4) then do '(n, r') <- srd_uN_e 2 r; Ok (Some n, r')
  else if (t =? 5) || (t =? 6) then do '(n, r') <- srd_uN_e 4 r; Ok (Some n, r')
  else if (t =? 7) || (t =? 8) then do '(n, r') <- srd_uN_e 8 r; Ok (Some n, r')
  else Err ErrInvalidType.
Definition srd_bytes_e (s : esrc) : res (list Z * esrc) :=
  do '(ol, r) <- srd_prefix_e s;
  match ol with
  | None => Ok ([], r)
  | Some l =>
    if l =? 0 then Err ErrUnexpectedEOF
    else if MaxSlice <? l then Err ErrTooLarge
    else read_full_e (efuel r) l r []
  end.
Fixpoint srd_tags_e (n : nat) (s : esrc) : res (list Z * esrc) :=
  match n with
  | O => Ok ([], s)
  | S n' =>
    do '(t, r) <- srd_uN_e 4 s;
    if t =? 0 then Err ErrMalformedTag
    else do '(ts, r') <- srd_tags_e n' r; Ok (t :: ts, r')
  end.
Definition unmarshal_srd_e (s : esrc) : res (packet * esrc) :=
  do '(id, r1) <- srd_u8_e s;
  do '(job, r2) <- srd_uN_e 2 r1;
  do '(t, r3) <- srd_uN_e 2 r2;
  do '(fl, r4) <- srd_uN_e 8 r3;
  do '(d, r5) <- read_device_e r4;
  do '(ts, r6) <- srd_tags_e (Z.to_nat (Z.min t PacketMaxTags)) r5;
  do '(pay, r7) <- srd_bytes_e r6;
  Ok (mkP id job fl (ts ++ tags_pad t) d pay 0, r7).

Definition nonempty_chunks (s : src) : Prop := Forall (fun c => c <> []) s.

(* ---- data described by generators (large payloads / tag lists are not printed) ---- *)
Fixpoint gen_from (f : Z -> Z) (i : Z) (n : nat) : list Z :=
  match n with O => [] | S n' => f i :: gen_from f (i + 1) n' end.
(* byte i of pay seed n is (seed + 31 i + 7 (i / 256)) mod 256, computed incrementally (Z division
   is slow under vm_compute): x is the current byte, c = i mod 256 *)
Fixpoint pay_from (x c : Z) (n : nat) : list Z :=
  match n with
  | O => []
  | S n' =>
    let c1 := c + 1 in
    let x1 := if c1 =? 256 then x + 38 else x + 31 in
    x :: pay_from (if x1 <? 256 then x1 else x1 - 256) (if c1 =? 256 then 0 else c1) n'
  end.
Definition pay (seed n : Z) : list Z := pay_from (Z.land seed 255) 0 (Z.to_nat n).
Definition tag_val (seed i : Z) : Z := Z.lor (Z.land (seed + i * 2654435761) 4294967295) 1.
Definition tags_gen (seed n : Z) : list Z := gen_from (tag_val seed) 0 (Z.to_nat n).

(* position-weighted checksum without modulus: s1 = sum (b+1), s2 = sum of the running s1 *)
Definition cksum (l : list Z) : Z :=
  let '(s1, s2) := fold_left (fun st b => let '(s1, s2) := st in (s1 + b + 1, s2 + s1 + b + 1)) l (0, 0) in
  s2 * 4294967296 + s1.

Inductive bdesc := BLit (l : list Z) | BGen (seed n : Z).
Definition bexp (d : bdesc) : list Z := match d with BLit l => l | BGen s n => pay s n end.
Inductive tdesc := TLit (l : list Z) | TGen (seed n : Z).
Definition texp (d : tdesc) : list Z := match d with TLit l => l | TGen s n => tags_gen s n end.
(* a byte string as segments *)
Inductive seg := SLit (l : list Z) | SPay (seed n : Z) | STags (seed n : Z).
Definition seg_exp (g : seg) : list Z :=
  match g with
  | SLit l => l
  | SPay s n => pay s n
  | STags s n => concat (map be32 (tags_gen s n))
  end.
Definition sexp (l : list seg) : list Z := concat (map seg_exp l).

Inductive pdesc := PD (id job flags : Z) (tags : tdesc) (dev : list Z) (payload : bdesc).
Definition pexp (d : pdesc) : packet :=
  match d with PD id job fl t dv b => mkP id job fl (texp t) dv (bexp b) 0 end.

(* how the test reader splits the bytes: explicit chunk sizes (0 = a (0, nil) read), the rest
   in one chunk; or chunks of k bytes throughout *)
Inductive splitd := SOnce (sizes : list Z) | SEvery (k : Z).
Fixpoint chunk_by (sizes : list Z) (b : list Z) : src :=
  match b with
  | [] => []
  | _ =>
    match sizes with
    | [] => [b]
    | k :: r => take k b :: chunk_by r (drop k b)
    end
  end.
Fixpoint chunks_of (fuel : nat) (k : Z) (b : list Z) : src :=
  match b, fuel with
  | [], _ => []
  | _, O => [b]
  | _, S f => take k b :: chunks_of f k (drop k b)
  end.
Definition split (d : splitd) (b : list Z) : src :=
  match d with
  | SOnce sizes => chunk_by sizes b
  | SEvery k => if k <=? 0 then [b] else chunks_of (length b) k b
  end.

(* the end of the test reader's stream: 0 plain EOF, 1 the last chunk of the split arrives with
   io.EOF, otherwise a failing Read (the code is the number) after the last chunk *)
Definition esplit (d : splitd) (fmode : Z) (b : list Z) : esrc :=
  let s := split d b in
  if fmode =? 0 then (s, FEof)
  else if fmode =? 1 then (removelast s, FLast (last s []))
  else (s, FFail fmode).

(* ---- correspondence cases ----------------------------------------------------------
   op codes of CFlag: 0 Clear, 1 Set, 2 Unset, 3 Len, 4 Position, 5 Group, 6 SetLen,
   7 SetPosition, 8 SetGroup *)
Inductive case :=
| CMarshal (p : pdesc) (out : res (Z * Z)) (lit : option (list Z))  (* length, checksum, bytes when small *)
| CSize (p : pdesc) (sz : Z)
| CUnmarshal (input : list seg) (sp : splitd) (out : res (pdesc * Z))   (* packet, bytes left unread *)
| CMany (input : list seg) (sp : splitd) (out : res (list pdesc))
| CMarshalStream (p : pdesc) (n sum : Z) (lit : option (list Z))
| CUnmarshalStream (input : list seg) (out : res (pdesc * Z))
| CStreamMany (input : list seg) (out : res (list pdesc))
| CUnmarshalSrd (input : list seg) (sp : splitd) (out : res (pdesc * Z))
| CFlag (op f n out : Z)
(* a packet whose payload Chunk has its read cursor at cur: Marshal (bytes, and the cursor it
   leaves behind, observed as Size() - Remaining()), Size(), MarshalStream *)
| CMarshalCur (p : pdesc) (cur : Z) (out : res (Z * Z)) (lit : option (list Z)) (cur_after : Z)
| CSizeCur (p : pdesc) (cur : Z) (sz : Z)
| CMarshalStreamCur (p : pdesc) (cur : Z) (n sum : Z) (lit : option (list Z))
(* readers over a stream whose end is observable (fmode as in esplit) *)
| CUnmarshalE (input : list seg) (sp : splitd) (fmode : Z) (out : res (pdesc * Z))
| CUnmarshalSrdE (input : list seg) (sp : splitd) (fmode : Z) (out : res (pdesc * Z)).

Definition packet_eqb (a b : packet) : bool :=
  (p_id a =? p_id b) && (p_job a =? p_job b) && (p_flags a =? p_flags b)
  && zlist_eqb (p_tags a) (p_tags b) && zlist_eqb (p_dev a) (p_dev b) && zlist_eqb (p_pay a) (p_pay b)
  && (p_rpos a =? p_rpos b).

Definition bytes_match (b : list Z) (n sum : Z) (lit : option (list Z)) : bool :=
  (len b =? n) && (cksum b =? sum) && (match lit with Some l => zlist_eqb b l | None => true end).

Definition pout_eqb (a : res (packet * Z)) (b : res (pdesc * Z)) : bool :=
  match norm_err a, norm_err b with
  | Ok (p, n), Ok (d, m) => packet_eqb p (pexp d) && (n =? m)
  | Err e, Err f => e =? f
  | Panic, Panic => true
  | _, _ => false
  end.
Definition plist_eqb (a : res (list packet)) (b : res (list pdesc)) : bool :=
  match norm_err a, norm_err b with
  | Ok l, Ok d => list_eqb packet_eqb l (map pexp d)
  | Err e, Err f => e =? f
  | Panic, Panic => true
  | _, _ => false
  end.

Definition flag_op (op f n : Z) : Z :=
  match op with
  | 0 => flag_clear f | 1 => flag_set f n | 2 => flag_unset f n
  | 3 => flag_len f | 4 => flag_position f | 5 => flag_group f
  | 6 => flag_set_len f n | 7 => flag_set_position f n | 8 => flag_set_group f n
  | _ => -1
  end.

Definition check (c : case) : bool :=
  match c with
  | CMarshal p out lit =>
    match marshal (pexp p), out with
    | Ok b, Ok (n, sum) => bytes_match b n sum lit
    | Err e, Err f => e =? f
    | _, _ => false
    end
  | CSize p sz => size (pexp p) =? sz
  | CUnmarshal input sp out =>
    pout_eqb (do '(p, r) <- unmarshal (split sp (sexp input)); Ok (p, src_len r)) out
  | CMany input sp out =>
    let s := split sp (sexp input) in plist_eqb (unmarshal_many (S (length (concat s))) s) out
  | CMarshalStream p n sum lit => bytes_match (marshal_stream (pexp p)) n sum lit
  | CUnmarshalStream input out =>
    pout_eqb (do '(p, r) <- unmarshal_stream (sexp input); Ok (p, len r)) out
  | CStreamMany input out =>
    let s := sexp input in plist_eqb (unmarshal_stream_many (S (length s)) s) out
  | CUnmarshalSrd input sp out =>
    pout_eqb (do '(p, r) <- unmarshal_srd (split sp (sexp input)); Ok (p, src_len r)) out
  | CFlag op f n out => flag_op op f n =? out
  | CMarshalCur p cur out lit cur_after =>
    let q := set_rpos cur (pexp p) in
    match marshal q, out with
    | Ok b, Ok (n, sum) => bytes_match b n sum lit && (p_rpos (after_marshal q) =? cur_after)
    | Err e, Err f => e =? f
    | _, _ => false
    end
  | CSizeCur p cur sz => size (set_rpos cur (pexp p)) =? sz
  | CMarshalStreamCur p cur n sum lit => bytes_match (marshal_stream (set_rpos cur (pexp p))) n sum lit
  | CUnmarshalE input sp fmode out =>
    pout_eqb (do '(p, r) <- unmarshal_e (esplit sp fmode (sexp input)); Ok (p, len (ebytes r))) out
  | CUnmarshalSrdE input sp fmode out =>
    pout_eqb (do '(p, r) <- unmarshal_srd_e (esplit sp fmode (sexp input)); Ok (p, len (ebytes r))) out
  end.
