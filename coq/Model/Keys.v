(* Model/Keys.v -- C06: the session key.  Definitions only.

   data/crypto/subtle/c_xor.go   XorOp            -> xor_op
   data/x_key.go                 Chunk.KeyCrypt -> xor_op buf share
   data/crypto.go                fillShared       -> fill_shared (previous share, ECDH bytes)
                                 Fill / Sync / FillPrivate / FillPublic / IsSynced
   c2/x_key.go                   keyCheckSync, keyCheckRevert, keyNextSync, keySessionGenerate,
                                 keySessionSync
   c2/xz_key_no_implant.go       keyListenerInit, keyCryptAndUpdate, keyListenerRegenerate
   c2/session.go session()       order: next() ; KeyCrypt ; write (fail => keyCheckRevert) ;
                                 read (fail => return) ; KeyCrypt ; keyCheckSync ; receive
   c2/session.go next()          a Packet with FlagCrypt is returned alone even when the send queue is
                                 not empty (fix 'rekey-merged-into-batch'); `merge = true` is the code
                                 BEFORE that fix (pick() returned the announcement, a concurrent Write
                                 made len(s.send) > 0, nextPacket() put both into one Multi container)
   c2/listener.go talk() + c2/channel.go handle()
                                 order: conn.keys := COPY of s.keys ; keyCryptAndUpdate(decrypt with
                                 the old key, regenerate on FlagCrypt) ; process ; reply.KeyCrypt(conn.keys)

   c2/session.go pick()          case order: peek / queue ; server in a channel waits ; CLIENT IN A CHANNEL
                                 waits for the queue (pickWait puts a plain keep-alive there) ; i => nil ;
                                 only then keyNextSync  -> pick_model: no re-key is ever drawn in a channel
   c2/channel.go conn.start      conn.keys := the Session's keys when the channel starts; the server
                                 side of the channel (channelRead/channelWrite) uses ONLY that copy
   c2/session.go channelWrite/channelRead   the client side uses s.keys, keyCheckSync right after each write
                                 `chan_rekey = true` is the code BEFORE fix 28f32da (the idle tick of a
                                 client in a channel drew re-keys)

   Bytes are Z.  ECDH is abstract: pub : priv -> point, dh : priv -> point -> list Z is
   x.Bytes() of the shared point, i.e. a big-endian integer WITHOUT leading zeros, of any length. *)
From XMT Require Import Base.Prelude.

(* ---- the cipher --------------------------------------------------------- *)
(* XorOp(value, key): value[i] ^= key[i mod len key]; a no-op when key (or value) is empty.
   cur is what is left of the current pass over the key. *)
Fixpoint xor_go (b cur key : list Z) : list Z :=
  match b with
  | [] => []
  | x :: b' =>
    match cur with
    | c :: cur' => Z.lxor x c :: xor_go b' cur' key
    | [] => match key with
            | [] => x :: b'
            | c :: key' => Z.lxor x c :: xor_go b' key' key
            end
    end
  end.
Definition xor_op (b key : list Z) : list Z := xor_go b [] key.

(* an independent, index-based description of the same cipher (used as specification) *)
Definition xor_spec (b key : list Z) : list Z :=
  match key with
  | [] => b
  | _ => map (fun '(i, x) => Z.lxor x (nth (i mod length key)%nat key 0)) (combine (seq 0 (length b)) b)
  end.

(* ---- the text form of a key: PublicKey/PrivateKey.String and Parse ----------------------- *)
(* String prints every byte as two hex digits (a byte below 16 as '0' and its low digit), Parse reads
   two digits back as (first << 4) | second; digits are their values 0..15, the colons carry nothing *)
Definition hex_enc (b : list Z) : list (Z * Z) :=
  map (fun x => if x <? 16 then (0, x mod 16) else (x / 16, x mod 16)) b.
Definition hex_dec (d : list (Z * Z)) : list Z := map (fun '(h, l) => h * 16 + l) d.

(* ---- the share ------------------------------------------------------------ *)
Definition share_size : nat := 65.
Definition zero_share : list Z := repeat 0 share_size.

(* copy(k.share[:], v.Bytes()): the first <= 65 bytes of v.Bytes() replace the head of the
   PREVIOUS share; no left padding, so a short integer leaves the old tail in place *)
Definition fill_shared (old bytes : list Z) : list Z :=
  let h := firstn share_size bytes in h ++ skipn (length h) old.

(* IsSynced *)
Definition is_synced (share : list Z) : bool := existsb (fun x => 0 <? x) share.

Definition deliver (p : list Z) (log : list (list Z)) : list (list Z) :=
  match p with [] => log | _ => p :: log end.

Definition is_some {A} (o : option A) : bool := match o with Some _ => true | None => false end.

(* ---- Session.pick: which Packet is sent when nothing forces one --------------------- *)
Inductive picked :=
| PQueued      (* s.peek or the head of s.send *)
| PWait        (* server Session in a channel: blocks on wake / send (nil when woken) *)
| PKeepAlive   (* client in a channel: blocks on send; pickWait supplies a plain empty Packet *)
| PNil         (* i = true: nothing *)
| PDraw        (* client, no channel: keyNextSync may draw a re-key announcement, else an empty Packet *)
| PNop.        (* server, no channel: keyNextSync refuses (not a client): an empty Packet *)
Definition pick_model (queued is_client in_channel i : bool) : picked :=
  if queued then PQueued
  else if negb is_client && in_channel then PWait
  else if negb i && is_client && in_channel then PKeepAlive
  else if i then PNil
  else if is_client then PDraw else PNop.
(* may the idle tick of a client draw a re-key? *)
Definition tick_draws (in_channel : bool) : bool :=
  match pick_model false true in_channel false with PDraw => true | _ => false end.
(* what the harness can observe of pick() by calling it repeatedly in a fixed situation:
   0 the queued Packet, 1 nil, 2 a re-key announcement shows up, 3 only empty Packets *)
Definition pick_obs (queued is_client in_channel i : bool) : Z :=
  match pick_model queued is_client in_channel i with
  | PQueued => 0 | PWait => 1 | PNil => 1 | PDraw => 2 | PKeepAlive => 3 | PNop => 3
  end.

(* ---- keyNextSync's guard: may the roll announce a new pair at all ------------------------ *)
(* only a client, only when no pair is pending, never while the Session is being migrated (Migrate
   has already marshalled the current keys for the new process) *)
Definition roll_allowed (is_client pending moving : bool) : bool := is_client && negb pending && negb moving.

(* ---- the two ends ----------------------------------------------------------- *)
Section Machine.
  Variables priv point : Type.
  Variable pub : priv -> point.
  Variable dh : priv -> point -> list Z.
  (* false: the code as it is now; true: next() as it was before the fix (kept for the regression witness) *)
  Variable merge : bool.
  (* false: the code as it is now; true: pickWait before fix 28f32da (re-keys drawn inside a channel) *)
  Variable chan_rekey : bool.

  (* client Session: keys.Private, keys.Public (its own public until the server's arrives),
     keys.share, keysNext (only its private half is ever used) *)
  Record client := mkC { c_priv : priv; c_pub : point; c_share : list Z; c_next : option priv }.
  (* server: is the device in the session table; Server.Keys.Private; the Session's keys.share
     (keys.Public on the server is overwritten by Read immediately before every use: not state) *)
  Record server := mkS { s_reg : bool; s_priv : priv; s_share : list Z }.

  (* what is on the wire; ciphertexts are explicit, a public key that travels encrypted is
     represented by the key and the share it was XORed with *)
  Inductive up :=
  | UHello (pb : point)                      (* SvHello, clear, carries the client public *)
  | UData (body : list Z)                    (* any other Packet: encrypted payload ([] = no-op Packet) *)
  | URekey (pb : point) (under : list Z)     (* FlagCrypt Packet: pb XORed with `under` *)
  | UBatch (body under : list Z).            (* Multi container holding a data Packet and a re-key Packet *)
  Inductive down :=
  | DComplete (pb : point)                   (* SvComplete|FlagCrypt, clear, carries the server public *)
  | DRegister                                (* SvRegister, clear, empty *)
  | DData (body : list Z).                   (* encrypted under conn.keys *)

  Record st := mkSt { cl : client; sv : server; upw : option up; dnw : option down;
                      waiting : bool;                      (* the client is inside session() *)
                      c_seen : list (list Z); s_seen : list (list Z);     (* payloads the handlers saw, newest first *)
                      chn : option (list Z) }.   (* a channel is open: conn.keys, the server connection's key copy *)

  Inductive event :=
  | Hello (k : priv)           (* connect(): new Session, keySessionGenerate, hello written in clear *)
  | HelloReply                 (* the client reads SvComplete|FlagCrypt: keyCheckSync, keySessionSync *)
  | RekeySend (k : priv)       (* keyNextSync drew a re-key: keysNext := k, announcement written under the current key *)
  | DataSend (p : list Z)      (* an ordinary Packet with payload p written under the current key *)
  | BatchSend (k : priv) (p : list Z)  (* keyNextSync drew a re-key while a data Packet p got queued behind it:
                                          now the announcement travels alone (p stays queued, the harness sends it
                                          with the next DataSend); with merge = true nextPacket() merged both *)
  | RekeyRecv (q : list Z)     (* the server handles the Packet in flight (talk/handle); q = payload it has queued for the client *)
  | ReplyRecv                  (* the client reads an ordinary reply: KeyCrypt with s.keys, THEN keyCheckSync *)
  | WriteFail                  (* writePacket failed: keyCheckRevert *)
  | ReplyLost                  (* readPacket failed: session() returns, nothing else happens *)
  | Forget (sk : priv)         (* the server loses its session table (restart with key sk / expiry) *)
  | Reregister (k : priv)      (* the client reads SvRegister: keyCheckSync, keySessionGenerate, hello queued and written next *)
  | ChanStart                  (* the exchange just completed carried FlagChannel: conn.start (conn.keys := Session keys), both ends enter the channel loops *)
  | ChanUp (p : list Z)        (* client channelWrite (KeyCrypt s.keys; write; keyCheckSync) -> server channelRead (KeyCrypt conn.keys; notify) *)
  | ChanDown (q : list Z)      (* server channelWrite (KeyCrypt conn.keys) -> client channelRead (KeyCrypt s.keys) *)
  | ChanTick (k : priv)        (* the client had nothing to send for one sleep period inside the channel: pick() *)
  | ChanEnd.                   (* the channel closes *)

  Definition key_check_sync (c : client) : client :=
    match c_next c with
    | None => c
    | Some k => mkC k (c_pub c) (fill_shared (c_share c) (dh k (c_pub c))) None   (* keys.FillPrivate(v.Private) *)
    end.
  Definition key_check_revert (c : client) : client := mkC (c_priv c) (c_pub c) (c_share c) None.
  (* keys.Fill(): new pair, share zeroed; keysNext untouched *)
  Definition key_session_generate (k : priv) (c : client) : client := mkC k (pub k) zero_share (c_next c).
  (* ignored when already synced; otherwise Read the server public and Sync *)
  Definition key_session_sync (pb : point) (c : client) : client :=
    if is_synced (c_share c) then c
    else mkC (c_priv c) pb (fill_shared (c_share c) (dh (c_priv c) pb)) (c_next c).

  Definition send (m : up) (c : client) (s : st) : st :=
    mkSt c (sv s) (Some m) None true (c_seen s) (s_seen s) (chn s).

  (* Listener.talk + handle on the Packet m *)
  Definition srv_handle (q : list Z) (m : up) (s : st) : st :=
    let S := sv s in
    if s_reg S then
      let copy := s_share S in                      (* conn.keys, taken by resolve() BEFORE keyCryptAndUpdate *)
      let S' := match m with
                | URekey pb under =>
                  (* decrypt with the old key; a garbled public key does not parse: share unchanged *)
                  if zlist_eqb under (s_share S)
                  then mkS true (s_priv S) (fill_shared (s_share S) (dh (s_priv S) pb))
                  else S
                | _ => S
                end in
      let seen := match m with
                  | UData body => deliver (xor_op body (s_share S)) (s_seen s)
                  | UBatch body under =>
                    (* the container is decrypted as a whole; its re-key member has ID 0 and is dropped by receiveSingle *)
                    if zlist_eqb under (s_share S) then deliver (xor_op body (s_share S)) (s_seen s) else s_seen s
                  | _ => s_seen s
                  end in
      mkSt (cl s) S' None (Some (DData (xor_op q copy))) (waiting s) (c_seen s) seen (chn s)
    else
      match m with
      | UHello pb =>     (* new Session (zero share), keyListenerInit, SvComplete with the server public, not encrypted *)
        mkSt (cl s) (mkS true (s_priv S) (fill_shared zero_share (dh (s_priv S) pb))) None
             (Some (DComplete (pub (s_priv S)))) (waiting s) (c_seen s) (s_seen s) (chn s)
      | _ => mkSt (cl s) S None (Some DRegister) (waiting s) (c_seen s) (s_seen s) (chn s)
      end.

  (* the client is inside session(): an exchange is in progress or a channel is open *)
  Definition busy (s : st) : bool := waiting s || is_some (chn s).

  (* one Packet up the channel: the client encrypts with s.keys and runs keyCheckSync after the write,
     the server decrypts with the connection's copy ck *)
  Definition chan_up (p ck : list Z) (s : st) : st :=
    let c := cl s in
    mkSt (key_check_sync c) (sv s) (upw s) (dnw s) (waiting s) (c_seen s)
         (deliver (xor_op (xor_op p (c_share c)) ck) (s_seen s)) (chn s).
  (* a re-key announcement up the channel (only the code before 28f32da could send one): the client
     swaps at once; the server decrypts with ck, notify() regenerates the SESSION key, ck stays *)
  Definition chan_rekey_up (k : priv) (ck : list Z) (s : st) : st :=
    let c := cl s in
    let S := sv s in
    match c_next c with
    | Some _ => chan_up [] ck s
    | None =>
      let S' := if zlist_eqb (c_share c) ck
                then mkS (s_reg S) (s_priv S) (fill_shared (s_share S) (dh (s_priv S) (pub k))) else S in
      mkSt (key_check_sync (mkC (c_priv c) (c_pub c) (c_share c) (Some k))) S' (upw s) (dnw s) (waiting s)
           (c_seen s) (s_seen s) (chn s)
    end.

  Definition step (e : event) (s : st) : st :=
    match e with
    | Hello k =>
      if busy s || s_reg (sv s) then s
      else send (UHello (pub k)) (mkC k (pub k) zero_share None) s
    | RekeySend k =>
      if busy s then s else
      let c := cl s in
      match c_next c with
      | Some _ => send (UData []) c s                 (* keyNextSync refuses while keysNext is pending *)
      | None => send (URekey (pub k) (c_share c)) (mkC (c_priv c) (c_pub c) (c_share c) (Some k)) s
      end
    | DataSend p =>
      if busy s then s else send (UData (xor_op p (c_share (cl s)))) (cl s) s
    | BatchSend k p =>
      if busy s then s else
      let c := cl s in
      match c_next c with
      | Some _ => send (UData (xor_op p (c_share c))) c s    (* no announcement was drawn: p is an ordinary Packet *)
      | None =>
        let c' := mkC (c_priv c) (c_pub c) (c_share c) (Some k) in
        if merge then send (UBatch (xor_op p (c_share c)) (c_share c)) c' s
        else send (URekey (pub k) (c_share c)) c' s
      end
    | WriteFail =>
      if waiting s && is_some (upw s)
      then mkSt (key_check_revert (cl s)) (sv s) None None false (c_seen s) (s_seen s) (chn s)
      else s
    | ReplyLost =>
      if waiting s then mkSt (cl s) (sv s) None None false (c_seen s) (s_seen s) (chn s) else s
    | RekeyRecv q =>
      match upw s with Some m => srv_handle q m s | None => s end
    | ReplyRecv =>
      match dnw s with
      | Some (DData body) =>
        let c := cl s in
        mkSt (key_check_sync c) (sv s) (upw s) None false
             (deliver (xor_op body (c_share c)) (c_seen s)) (s_seen s) (chn s)
      | _ => s
      end
    | HelloReply =>
      match dnw s with
      | Some (DComplete pb) =>
        mkSt (key_session_sync pb (key_check_sync (cl s))) (sv s) (upw s) None false (c_seen s) (s_seen s) (chn s)
      | _ => s
      end
    | Reregister k =>
      match dnw s with
      | Some DRegister =>
        send (UHello (pub k)) (key_session_generate k (key_check_sync (cl s))) s
      | _ => s
      end
    | ChanStart =>
      if busy s || negb (s_reg (sv s)) then s
      else mkSt (cl s) (sv s) (upw s) (dnw s) (waiting s) (c_seen s) (s_seen s) (Some (s_share (sv s)))
    | ChanUp p =>
      match chn s with Some ck => chan_up p ck s | None => s end
    | ChanDown q =>
      match chn s with
      | Some ck =>
        mkSt (cl s) (sv s) (upw s) (dnw s) (waiting s)
             (deliver (xor_op (xor_op q ck) (c_share (cl s))) (c_seen s)) (s_seen s) (chn s)
      | None => s
      end
    | ChanTick k =>
      match chn s with
      | Some ck => if chan_rekey || tick_draws true then chan_rekey_up k ck s else chan_up [] ck s
      | None => s
      end
    | ChanEnd =>
      mkSt (cl s) (sv s) (upw s) (dnw s) (waiting s) (c_seen s) (s_seen s) None
    | Forget sk =>
      mkSt (cl s) (mkS false sk (s_share (sv s))) (upw s) (dnw s) (waiting s) (c_seen s) (s_seen s) None   (* the connections die with the server *)
    end.

  Definition run (h : list event) (s : st) : st := fold_left (fun s e => step e s) h s.

  (* nothing registered, nobody connected; k0 is a placeholder for the not yet generated client pair *)
  Definition init (k0 s0 : priv) : st :=
    mkSt (mkC k0 (pub k0) zero_share None) (mkS false s0 zero_share) None None false [] [] None.

  (* ---- which events the agreement theorem has to exclude ------------------------------- *)
  (* a lost reply does harm only while a key announcement is unacknowledged: a re-key is pending
     (keysNext <> nil), or the reply that gets lost is the SvComplete carrying the server key *)
  Definition harmful_loss (s : st) : bool :=
    is_some (c_next (cl s)) || match dnw s with Some (DComplete _) => true | _ => false end.
  Definition ok_event (e : event) (s : st) : bool :=
    match e with
    | ReplyLost => negb (waiting s && harmful_loss s)
    | BatchSend _ _ => negb merge
    | ChanTick _ => negb (chan_rekey || tick_draws true)
    | _ => true
    end.
  (* every event of h is admissible in the state in which it happens *)
  Fixpoint safe (h : list event) (s : st) : bool :=
    match h with
    | [] => true
    | e :: h' => ok_event e s && safe h' (step e s)
    end.
  (* the coarser, state-independent condition: no reply is lost at all *)
  Definition lossless_event (e : event) : bool :=
    match e with
    | ReplyLost => false
    | BatchSend _ _ => negb merge
    | ChanTick _ => negb (chan_rekey || tick_draws true)
    | _ => true
    end.
  Definition lossless (h : list event) : bool := forallb lossless_event h.

  Definition agree (s : st) : Prop := c_share (cl s) = s_share (sv s).
  (* the two ends agree and nothing is in flight: the client is between two exchanges, the server
     knows it, no re-key is pending, the shares are equal, the client holds the server's public key,
     no channel is open *)
  Definition settled (s : st) : Prop :=
    waiting s = false /\ upw s = None /\ dnw s = None /\ s_reg (sv s) = true /\
    c_next (cl s) = None /\ c_share (cl s) = s_share (sv s) /\ c_pub (cl s) = pub (s_priv (sv s)) /\
    chn s = None.
End Machine.

Arguments mkC {priv point}.
Arguments c_priv {priv point}.
Arguments c_pub {priv point}.
Arguments c_share {priv point}.
Arguments c_next {priv point}.
Arguments mkS {priv}.
Arguments s_reg {priv}.
Arguments s_priv {priv}.
Arguments s_share {priv}.
Arguments UHello {point}.
Arguments UData {point}.
Arguments URekey {point}.
Arguments UBatch {point}.
Arguments DComplete {point}.
Arguments DRegister {point}.
Arguments DData {point}.
Arguments mkSt {priv point}.
Arguments cl {priv point}.
Arguments sv {priv point}.
Arguments upw {priv point}.
Arguments dnw {priv point}.
Arguments waiting {priv point}.
Arguments c_seen {priv point}.
Arguments s_seen {priv point}.
Arguments chn {priv point}.
Arguments Hello {priv}.
Arguments HelloReply {priv}.
Arguments RekeySend {priv}.
Arguments DataSend {priv}.
Arguments BatchSend {priv}.
Arguments RekeyRecv {priv}.
Arguments ReplyRecv {priv}.
Arguments WriteFail {priv}.
Arguments ReplyLost {priv}.
Arguments Forget {priv}.
Arguments Reregister {priv}.
Arguments ChanStart {priv}.
Arguments ChanUp {priv}.
Arguments ChanDown {priv}.
Arguments ChanTick {priv}.
Arguments ChanEnd {priv}.
Arguments step {priv point}.
Arguments run {priv point}.
Arguments init {priv point}.
Arguments srv_handle {priv point}.
Arguments key_check_sync {priv point}.
Arguments key_check_revert {priv point}.
Arguments key_session_generate {priv point}.
Arguments key_session_sync {priv point}.
Arguments send {priv point}.
Arguments busy {priv point}.
Arguments chan_up {priv point}.
Arguments chan_rekey_up {priv point}.
Arguments agree {priv point}.
Arguments settled {priv point}.
Arguments lossless {priv}.
Arguments lossless_event {priv}.
Arguments harmful_loss {priv point}.
Arguments ok_event {priv point}.
Arguments safe {priv point}.

(* ---- a toy commutative key agreement, for witnesses and non-vacuity ---------- *)
(* private = public = an integer; the "shared point" of a and b has the byte (a*b) mod 256
   repeated (a*b) mod 70 times: outputs of every length 0..69, shorter and longer than the share *)
Definition toy_pub (a : Z) : Z := a.
Definition toy_dh (a b : Z) : list Z := repeat ((a * b) mod 256) (Z.to_nat ((a * b) mod 70)).

(* ---- correspondence cases ------------------------------------------------- *)
(* key pairs are numbered by the harness; tab holds the ECDH bytes the harness computed with
   crypto/ecdh for every pair of numbers (symmetric lookup) *)
Definition tab_dh (tab : list (Z * Z * list Z)) (a b : Z) : list Z :=
  match find (fun '(x, y, _) => ((x =? a) && (y =? b)) || ((x =? b) && (y =? a))) tab with
  | Some (_, _, v) => v
  | None => []
  end.

(* observation after a round: client share, keysNext pending?, server knows the device?, server
   share (compared only when registered), payloads the client / server handlers saw in the round *)
Record obs := mkObs { o_cs : list Z; o_cn : bool; o_sr : bool; o_ss : list Z;
                      o_cg : list (list Z); o_sg : list (list Z) }.

Definition obs_ok (s : st Z Z) (o : obs) : bool :=
  zlist_eqb (c_share (cl s)) (o_cs o) && Bool.eqb (is_some (c_next (cl s))) (o_cn o) &&
  Bool.eqb (s_reg (sv s)) (o_sr o) &&
  (negb (o_sr o) || zlist_eqb (s_share (sv s)) (o_ss o)) &&
  list_eqb zlist_eqb (rev (c_seen s)) (o_cg o) && list_eqb zlist_eqb (rev (s_seen s)) (o_sg o).

Definition clear_seen (s : st Z Z) : st Z Z := mkSt (cl s) (sv s) (upw s) (dnw s) (waiting s) [] [] (chn s).

Fixpoint run_rounds (tab : list (Z * Z * list Z)) (s : st Z Z) (rs : list (list (event Z) * obs)) : bool :=
  match rs with
  | [] => true
  | (evs, o) :: rest =>
    let s1 := run (fun x => x) (tab_dh tab) false false evs (clear_seen s) in
    obs_ok s1 o && run_rounds tab s1 rest
  end.

Inductive case :=
| CXor (buf key out : list Z)                 (* subtle.XorOp / Chunk.KeyCrypt on buf with key *)
| CFill (old bytes out : list Z)              (* fillShared over the previous share `old`, ECDH bytes from crypto/ecdh *)
| CHist (tab : list (Z * Z * list Z)) (k0 s0 : Z) (rounds : list (list (event Z) * obs))
| CPick (queued is_client in_channel i : bool) (observed : Z)
| CHex (key : list Z) (digits : list (Z * Z))
| CRoll (is_client pending moving drew : bool).                 (* the real keyNextSync, roll forced, in this situation *)                  (* digits of PublicKey/PrivateKey.String() of these key bytes *)   (* the real pick() called repeatedly in this situation *)

Definition check (c : case) : bool :=
  match c with
  | CXor buf key out => zlist_eqb (xor_op buf key) out && zlist_eqb (xor_spec buf key) out
  | CFill old bytes out => zlist_eqb (fill_shared old bytes) out
  | CHist tab k0 s0 rounds => run_rounds tab (init (fun x => x) k0 s0) rounds
  | CPick queued is_client in_channel i observed => pick_obs queued is_client in_channel i =? observed
  | CRoll is_client pending moving drew => Bool.eqb (roll_allowed is_client pending moving) drew
  | CHex key digits =>
    list_eqb (fun '(a, b) '(c, d) => (a =? c) && (b =? d)) (hex_enc key) digits && zlist_eqb (hex_dec digits) key
  end.
