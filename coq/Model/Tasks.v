(* Model/Tasks.v -- C18: task, filter and launcher descriptions.  Definitions only.

   Encoders follow the server-only MarshalStream code, decoders the implant-side
   UnmarshalStream code, field by field, over the typed codec primitives of Model/Codec.v:
     c2/task/v_process.go  / process.go      Process
     c2/task/v_dll.go      / dll.go          DLL
     c2/task/zombie.go                       Zombie
     c2/task/v_assembly.go / assembly.go     Assembly
     cmd/filter/filter.go                    Filter (presence flag, isEmpty)
     c2/task/script.go     / c2/mux.go       Script framing (flag byte, then id + payload entries)
     man/sentinel.go                         Sentinel, sentinelPath, Read/Write (IV + CTR stream)
     data/util.go                            ReadStringList into an existing slice

   Every decoder takes the value it decodes INTO (Go decodes into an existing struct): a fresh
   struct is the zero value.  Only string lists (ReadStringList keeps a longer slice) and the
   filter (an absent flag leaves the old filter alone) depend on the old value.

   The records are polymorphic in the representation S of a string / byte slice, so that the
   same record serves as the model value (S = list Z), as a compact description of a generated
   input (S = sdesc) and as the shape of a decoded struct observed from Go (S = length, checksum). *)
From XMT Require Import Base.Prelude Model.Codec.

Notation str := (list Z) (only parsing).

(* ---- records --------------------------------------------------------------- *)
Record filter_ (S : Type) := mkFilter {
  f_pid : Z; f_fallback : bool; f_session : Z; f_elevated : Z; f_exclude : list S; f_include : list S }.
Arguments mkFilter {S}. Arguments f_pid {S}. Arguments f_fallback {S}. Arguments f_session {S}.
Arguments f_elevated {S}. Arguments f_exclude {S}. Arguments f_include {S}.

(* fields in wire order *)
Record process_ (S : Type) := mkProcess {
  p_args : list S; p_dir : S; p_env : list S; p_wait : bool; p_flags : Z; p_timeout : Z; p_hide : bool;
  p_user : S; p_domain : S; p_pass : S; p_filter : option (filter_ S); p_stdin : S }.
Arguments mkProcess {S}. Arguments p_args {S}. Arguments p_dir {S}. Arguments p_env {S}. Arguments p_wait {S}.
Arguments p_flags {S}. Arguments p_timeout {S}. Arguments p_hide {S}. Arguments p_user {S}. Arguments p_domain {S}.
Arguments p_pass {S}. Arguments p_filter {S}. Arguments p_stdin {S}.

Record dll_ (S : Type) := mkDll {
  d_path : S; d_wait : bool; d_timeout : Z; d_filter : option (filter_ S); d_data : S }.
Arguments mkDll {S}. Arguments d_path {S}. Arguments d_wait {S}. Arguments d_timeout {S}.
Arguments d_filter {S}. Arguments d_data {S}.

Record zombie_ (S : Type) := mkZombie {
  z_data : S; z_args : list S; z_dir : S; z_env : list S; z_wait : bool; z_flags : Z; z_timeout : Z; z_hide : bool;
  z_user : S; z_domain : S; z_pass : S; z_filter : option (filter_ S); z_stdin : S }.
Arguments mkZombie {S}. Arguments z_data {S}. Arguments z_args {S}. Arguments z_dir {S}. Arguments z_env {S}.
Arguments z_wait {S}. Arguments z_flags {S}. Arguments z_timeout {S}. Arguments z_hide {S}. Arguments z_user {S}.
Arguments z_domain {S}. Arguments z_pass {S}. Arguments z_filter {S}. Arguments z_stdin {S}.

Record asm_ (S : Type) := mkAsm {
  a_wait : bool; a_timeout : Z; a_filter : option (filter_ S); a_data : S }.
Arguments mkAsm {S}. Arguments a_wait {S}. Arguments a_timeout {S}. Arguments a_filter {S}. Arguments a_data {S}.

(* sentinelPath: kind t (0 execute, 1 DLL, 2 ASM, 3 download, 4 zombie), path, extra *)
Record spath_ (S : Type) := mkSpath { sp_t : Z; sp_path : S; sp_extra : list S }.
Arguments mkSpath {S}. Arguments sp_t {S}. Arguments sp_path {S}. Arguments sp_extra {S}.

(* Sentinel embeds a Filter VALUE *)
Record sentinel_ (S : Type) := mkSentinel { s_filter : filter_ S; s_paths : list (spath_ S) }.
Arguments mkSentinel {S}. Arguments s_filter {S}. Arguments s_paths {S}.

Inductive tdesc (S : Type) :=
| DProcess (p : process_ S)
| DDll (d : dll_ S)
| DZombie (z : zombie_ S)
| DAsm (a : asm_ S)
| DFilterPtr (f : option (filter_ S))   (* a *Filter field: filter.UnmarshalStream(r, &p) *)
| DFilterVal (f : filter_ S)            (* a Filter value: Filter.UnmarshalStream, as in taskElevate *)
| DSentinel (s : sentinel_ S)
| DScript (flags : Z) (es : list (Z * S)).  (* flag byte, then (task id, payload) entries *)
Arguments DProcess {S}. Arguments DDll {S}. Arguments DZombie {S}. Arguments DAsm {S}.
Arguments DFilterPtr {S}. Arguments DFilterVal {S}. Arguments DSentinel {S}. Arguments DScript {S}.

Definition filter := filter_ str.
Definition process := process_ str.
Definition dll := dll_ str.
Definition zombie := zombie_ str.
Definition asm := asm_ str.
Definition spath := spath_ str.
Definition sentinel := sentinel_ str.

Definition zero_filter : filter := mkFilter 0 false 0 0 [] [].
Definition zero_process : process := mkProcess [] [] [] false 0 0 false [] [] [] None [].
Definition zero_dll : dll := mkDll [] false 0 None [].
Definition zero_zombie : zombie := mkZombie [] [] [] [] false 0 0 false [] [] [] None [].
Definition zero_asm : asm := mkAsm false 0 None [].
Definition zero_spath : spath := mkSpath 0 [] [].
Definition zero_sentinel : sentinel := mkSentinel zero_filter [].

(* ---- filter ------------------------------------------------------------------ *)
(* Filter.isEmpty: Fallback is NOT looked at *)
Definition filter_empty {S} (f : filter_ S) : bool :=
  (f_pid f =? 0) && (f_session f =? 0) && (f_elevated f =? 0) && is_nil (f_exclude f) && is_nil (f_include f).

Definition enc_filter_body (f : filter) : list Z :=
  enc_u32 (f_pid f) ++ enc_bool (f_fallback f) ++ enc_u8 (f_session f) ++ enc_u8 (f_elevated f) ++
  enc_strlist (f_exclude f) ++ enc_strlist (f_include f).

(* Filter.MarshalStream: nil or empty is one false byte *)
Definition enc_filter (o : option filter) : list Z :=
  match o with
  | None => enc_bool false
  | Some f => if filter_empty f then enc_bool false else enc_bool true ++ enc_filter_body f
  end.

(* data.ReadStringList(r, &old): class 0 returns at once; the slice is only replaced when it is
   shorter than the count; int(n) of a 64-bit count >= 2^63 is negative, then nothing is
   allocated and the loop does not run *)
Definition rd_strlist_into (old : list str) (s : list Z) : res (list str * list Z) :=
  do '(ol, r) <- rd_prefix s;
  match ol with
  | None => Ok (old, r)
  | Some n =>
    let l := i64 n in
    if l <? 0 then Ok (old, r)
    else if len old <? l then
      (if maxAlloc <? l * 16 then Panic else rd_strings (Z.to_nat l) r)
    else do '(xs, r') <- rd_strings (Z.to_nat l) r; Ok (xs ++ drop l old, r')
  end.

Definition rd_i64 (s : list Z) : res (Z * list Z) := do '(t, r) <- rd_u64 s; Ok (i64 t, r).

(* Filter.unmarshalStream *)
Definition dec_filter_body (old : filter) (s : list Z) : res (filter * list Z) :=
  do '(pid, s) <- rd_u32 s;
  do '(fb, s) <- rd_bool s;
  do '(se, s) <- rd_u8 s;
  do '(el, s) <- rd_u8 s;
  do '(ex, s) <- rd_strlist_into (f_exclude old) s;
  do '(inc, s) <- rd_strlist_into (f_include old) s;
  Ok (mkFilter pid fb se el ex inc, s).

(* filter.UnmarshalStream(r, &p) *)
Definition dec_filter_ptr (old : option filter) (s : list Z) : res (option filter * list Z) :=
  do '(v, s) <- rd_bool s;
  if negb v then Ok (old, s)
  else do '(f, s) <- dec_filter_body (match old with Some f => f | None => zero_filter end) s; Ok (Some f, s).

(* Filter.UnmarshalStream on a non-nil receiver *)
Definition dec_filter_val (old : filter) (s : list Z) : res (filter * list Z) :=
  do '(v, s) <- rd_bool s;
  if negb v then Ok (old, s) else dec_filter_body old s.

Definition norm_filter_ptr (o : option filter) : option filter :=
  match o with Some f => if filter_empty f then None else Some f | None => None end.
Definition norm_filter_val (f : filter) : filter := if filter_empty f then zero_filter else f.

(* ---- Process -------------------------------------------------------------------- *)
Definition enc_process (p : process) : list Z :=
  enc_strlist (p_args p) ++ enc_bytes (p_dir p) ++ enc_strlist (p_env p) ++ enc_bool (p_wait p) ++
  enc_u32 (p_flags p) ++ enc_u64 (p_timeout p) ++ enc_bool (p_hide p) ++ enc_bytes (p_user p) ++
  enc_bytes (p_domain p) ++ enc_bytes (p_pass p) ++ enc_filter (p_filter p) ++ enc_bytes (p_stdin p).

Definition dec_process (old : process) (s : list Z) : res (process * list Z) :=
  do '(args, s) <- rd_strlist_into (p_args old) s;
  do '(dir, s) <- rd_bytes s;
  do '(env, s) <- rd_strlist_into (p_env old) s;
  do '(wait, s) <- rd_bool s;
  do '(flags, s) <- rd_u32 s;
  do '(tmo, s) <- rd_i64 s;
  do '(hide, s) <- rd_bool s;
  do '(user, s) <- rd_bytes s;
  do '(dom, s) <- rd_bytes s;
  do '(pass, s) <- rd_bytes s;
  do '(flt, s) <- dec_filter_ptr (p_filter old) s;
  do '(stdin, s) <- rd_bytes s;
  Ok (mkProcess args dir env wait flags tmo hide user dom pass flt stdin, s).

Definition norm_process (p : process) : process :=
  mkProcess (p_args p) (p_dir p) (p_env p) (p_wait p) (p_flags p) (p_timeout p) (p_hide p) (p_user p)
            (p_domain p) (p_pass p) (norm_filter_ptr (p_filter p)) (p_stdin p).

(* ---- DLL -------------------------------------------------------------------------- *)
Definition enc_dll (d : dll) : list Z :=
  enc_bytes (d_path d) ++ enc_bool (d_wait d) ++ enc_u64 (d_timeout d) ++ enc_filter (d_filter d) ++ enc_bytes (d_data d).

Definition dec_dll (old : dll) (s : list Z) : res (dll * list Z) :=
  do '(path, s) <- rd_bytes s;
  do '(wait, s) <- rd_bool s;
  do '(tmo, s) <- rd_i64 s;
  do '(flt, s) <- dec_filter_ptr (d_filter old) s;
  do '(dat, s) <- rd_bytes s;
  Ok (mkDll path wait tmo flt dat, s).

Definition norm_dll (d : dll) : dll :=
  mkDll (d_path d) (d_wait d) (d_timeout d) (norm_filter_ptr (d_filter d)) (d_data d).

(* ---- Zombie ----------------------------------------------------------------------- *)
Definition enc_zombie (z : zombie) : list Z :=
  enc_bytes (z_data z) ++ enc_strlist (z_args z) ++ enc_bytes (z_dir z) ++ enc_strlist (z_env z) ++
  enc_bool (z_wait z) ++ enc_u32 (z_flags z) ++ enc_u64 (z_timeout z) ++ enc_bool (z_hide z) ++
  enc_bytes (z_user z) ++ enc_bytes (z_domain z) ++ enc_bytes (z_pass z) ++ enc_filter (z_filter z) ++
  enc_bytes (z_stdin z).

Definition dec_zombie (old : zombie) (s : list Z) : res (zombie * list Z) :=
  do '(dat, s) <- rd_bytes s;
  do '(args, s) <- rd_strlist_into (z_args old) s;
  do '(dir, s) <- rd_bytes s;
  do '(env, s) <- rd_strlist_into (z_env old) s;
  do '(wait, s) <- rd_bool s;
  do '(flags, s) <- rd_u32 s;
  do '(tmo, s) <- rd_i64 s;
  do '(hide, s) <- rd_bool s;
  do '(user, s) <- rd_bytes s;
  do '(dom, s) <- rd_bytes s;
  do '(pass, s) <- rd_bytes s;
  do '(flt, s) <- dec_filter_ptr (z_filter old) s;
  do '(stdin, s) <- rd_bytes s;
  Ok (mkZombie dat args dir env wait flags tmo hide user dom pass flt stdin, s).

Definition norm_zombie (z : zombie) : zombie :=
  mkZombie (z_data z) (z_args z) (z_dir z) (z_env z) (z_wait z) (z_flags z) (z_timeout z) (z_hide z) (z_user z)
           (z_domain z) (z_pass z) (norm_filter_ptr (z_filter z)) (z_stdin z).

(* ---- Assembly --------------------------------------------------------------------- *)
Definition enc_asm (a : asm) : list Z :=
  enc_bool (a_wait a) ++ enc_u64 (a_timeout a) ++ enc_filter (a_filter a) ++ enc_bytes (a_data a).

Definition dec_asm (old : asm) (s : list Z) : res (asm * list Z) :=
  do '(wait, s) <- rd_bool s;
  do '(tmo, s) <- rd_i64 s;
  do '(flt, s) <- dec_filter_ptr (a_filter old) s;
  do '(dat, s) <- rd_bytes s;
  Ok (mkAsm wait tmo flt dat, s).

Definition norm_asm (a : asm) : asm :=
  mkAsm (a_wait a) (a_timeout a) (norm_filter_ptr (a_filter a)) (a_data a).

(* ---- Script framing ------------------------------------------------------------------
   Script.Add: WriteUint8(id), WriteBytes(payload); Script.Packet: flag byte then the entries.
   c2/mux.go muxHandleScript: flag byte, then (ReadUint8, ReadBytes) until the id read hits EOF. *)
Definition enc_entry (e : Z * str) : list Z := enc_u8 (fst e) ++ enc_bytes (snd e).
Definition enc_script (flags : Z) (es : list (Z * str)) : list Z :=
  enc_u8 flags ++ concat (map enc_entry es).

Fixpoint dec_entries (fuel : nat) (s : list Z) : res (list (Z * str)) :=
  match s with
  | [] => Ok []
  | _ =>
    match fuel with
    | O => Err ErrOther
    | S k => do '(id, r) <- rd_u8 s; do '(d, r') <- rd_bytes r; do es <- dec_entries k r'; Ok ((id, d) :: es)
    end
  end.
Definition dec_script (s : list Z) : res (Z * list (Z * str)) :=
  do '(f, r) <- rd_u8 s; do es <- dec_entries (length r) r; Ok (f, es).

(* ---- Sentinel ------------------------------------------------------------------------- *)
Definition sentPathDownload : Z := 3.

Definition enc_spath (p : spath) : list Z :=
  enc_u8 (sp_t p) ++ enc_bytes (sp_path p) ++
  (if sp_t p <? sentPathDownload then [] else enc_strlist (sp_extra p)).

(* decoding into a fresh element of make([]sentinelPath, n) *)
Definition dec_spath (s : list Z) : res (spath * list Z) :=
  do '(t, s) <- rd_u8 s;
  do '(path, s) <- rd_bytes s;
  if t <? sentPathDownload then Ok (mkSpath t path [], s)
  else do '(ex, s) <- rd_strlist_into [] s; Ok (mkSpath t path ex, s).

Definition norm_spath (p : spath) : spath :=
  if sp_t p <? sentPathDownload then mkSpath (sp_t p) (sp_path p) [] else p.

(* Sentinel.MarshalStream: the count is uint16(len(paths)) -- it WRAPS -- and at most 65535
   paths are written *)
Definition enc_sentinel (x : sentinel) : list Z :=
  enc_filter (Some (s_filter x)) ++ enc_u16 (u16 (len (s_paths x))) ++
  concat (map enc_spath (take 65535 (s_paths x))).

Fixpoint dec_spaths (k : nat) (s : list Z) : res (list spath * list Z) :=
  match k with
  | O => Ok ([], s)
  | S k' => do '(p, r) <- dec_spath s; do '(l, r') <- dec_spaths k' r; Ok (p :: l, r')
  end.

(* Sentinel.UnmarshalStream: the filter is decoded into the embedded value, the paths always
   into a fresh slice *)
Definition dec_sentinel (old : sentinel) (s : list Z) : res (sentinel * list Z) :=
  do '(f, s) <- dec_filter_val (s_filter old) s;
  do '(n, s) <- rd_u16 s;
  do '(ps, s) <- dec_spaths (Z.to_nat n) s;
  Ok (mkSentinel f ps, s).

Definition norm_sentinel (x : sentinel) : sentinel :=
  mkSentinel (norm_filter_val (s_filter x)) (map norm_spath (s_paths x)).

(* ---- the encrypted launcher file: IV || CTR keystream XOR -----------------------------
   crypto/cipher CTR over an arbitrary block function E: the keystream is E(iv), E(iv+1), ...
   where +1 is the big-endian increment of the whole block, wrapping. *)
Fixpoint inc_le (l : list Z) : list Z :=
  match l with
  | [] => []
  | b :: r => if b + 1 =? 256 then 0 :: inc_le r else (b + 1) :: r
  end.
Definition ctr_inc (c : list Z) : list Z := rev (inc_le (rev c)).

(* XOR with a keystream; where the keystream has run out the data passes through unchanged *)
Fixpoint xorl (a k : list Z) : list Z :=
  match a, k with
  | x :: a', y :: k' => Z.lxor x y :: xorl a' k'
  | _, _ => a
  end.

Section CTR.
  Variable E : list Z -> list Z.

  Fixpoint keystream (blocks : nat) (ctr : list Z) : list Z :=
    match blocks with
    | O => []
    | S n => E ctr ++ keystream n (ctr_inc ctr)
    end.

  Definition ctr_blocks (iv x : list Z) : nat := S (Z.to_nat (len x / len iv)).
  Definition ctr_xor (iv x : list Z) : list Z := xorl x (keystream (ctr_blocks iv x) iv).

  (* Sentinel.Write with a cipher: the IV, then the CTR-encrypted description *)
  Definition write_file (iv : list Z) (x : sentinel) : list Z := iv ++ ctr_xor iv (enc_sentinel x).

  (* Sentinel.Read with a cipher of block size bs over the whole file *)
  Definition read_file (bs : Z) (old : sentinel) (file : list Z) : res (sentinel * list Z) :=
    if len file <? bs then Err ErrUnexpectedEOF
    else let iv := take bs file in dec_sentinel old (ctr_xor iv (drop bs file)).

  (* Sentinel.Read over a reader that delivers the file in the given chunks.  The IV is fetched
     with ONE Read call: a first chunk shorter than the block is io.ErrUnexpectedEOF. *)
  Definition read_file_src (bs : Z) (old : sentinel) (chunks : src) : res (sentinel * list Z) :=
    match read1 bs chunks with
    | None => Err EOF
    | Some (iv, rest) =>
      if negb (len iv =? bs) then Err ErrUnexpectedEOF
      else dec_sentinel old (ctr_xor iv (concat rest))
    end.
End CTR.

(* the block function as observed from the real cipher: a finite table counter -> block *)
Fixpoint tab_lookup (tab : list (list Z * list Z)) (c : list Z) : list Z :=
  match tab with
  | [] => []
  | (k, v) :: r => if zlist_eqb k c then v else tab_lookup r c
  end.

(* ---- generic view ------------------------------------------------------------------------ *)
Definition enc_desc (d : tdesc str) : list Z :=
  match d with
  | DProcess p => enc_process p
  | DDll x => enc_dll x
  | DZombie z => enc_zombie z
  | DAsm a => enc_asm a
  | DFilterPtr f => enc_filter f
  | DFilterVal f => enc_filter (Some f)
  | DSentinel x => enc_sentinel x
  | DScript f es => enc_script f es
  end.

(* decode into the value old (its constructor selects the decoder) *)
Definition dec_desc (old : tdesc str) (s : list Z) : res (tdesc str * list Z) :=
  match old with
  | DProcess o => do '(p, r) <- dec_process o s; Ok (DProcess p, r)
  | DDll o => do '(p, r) <- dec_dll o s; Ok (DDll p, r)
  | DZombie o => do '(p, r) <- dec_zombie o s; Ok (DZombie p, r)
  | DAsm o => do '(p, r) <- dec_asm o s; Ok (DAsm p, r)
  | DFilterPtr o => do '(p, r) <- dec_filter_ptr o s; Ok (DFilterPtr p, r)
  | DFilterVal o => do '(p, r) <- dec_filter_val o s; Ok (DFilterVal p, r)
  | DSentinel o => do '(p, r) <- dec_sentinel o s; Ok (DSentinel p, r)
  | DScript _ _ => do '(f, es) <- dec_script s; Ok (DScript f es, [])
  end.

Definition zero_of {S} (d : tdesc S) : tdesc str :=
  match d with
  | DProcess _ => DProcess zero_process
  | DDll _ => DDll zero_dll
  | DZombie _ => DZombie zero_zombie
  | DAsm _ => DAsm zero_asm
  | DFilterPtr _ => DFilterPtr None
  | DFilterVal _ => DFilterVal zero_filter
  | DSentinel _ => DSentinel zero_sentinel
  | DScript _ _ => DScript 0 []
  end.

Definition norm_desc (d : tdesc str) : tdesc str :=
  match d with
  | DProcess p => DProcess (norm_process p)
  | DDll x => DDll (norm_dll x)
  | DZombie z => DZombie (norm_zombie z)
  | DAsm a => DAsm (norm_asm a)
  | DFilterPtr f => DFilterPtr (norm_filter_ptr f)
  | DFilterVal f => DFilterVal (norm_filter_val f)
  | DSentinel x => DSentinel (norm_sentinel x)
  | DScript f es => DScript f es
  end.

(* ---- well-formed descriptions: every value fits its Go type ---------------------------------- *)
Definition wf_str (b : str) : Prop := len b <= MaxSlice.
Definition wf_list (l : list str) : Prop := Forall wf_str l /\ len l * 16 <= maxAlloc.
Definition is_u8 (v : Z) : Prop := 0 <= v < 256.
Definition is_u32 (v : Z) : Prop := 0 <= v < 4294967296.
Definition is_i64 (v : Z) : Prop := -9223372036854775808 <= v < 9223372036854775808.

Definition wf_filter (f : filter) : Prop :=
  is_u32 (f_pid f) /\ is_u8 (f_session f) /\ is_u8 (f_elevated f) /\ wf_list (f_exclude f) /\ wf_list (f_include f).
Definition wf_filter_opt (o : option filter) : Prop := match o with Some f => wf_filter f | None => True end.
Definition wf_process (p : process) : Prop :=
  wf_list (p_args p) /\ wf_str (p_dir p) /\ wf_list (p_env p) /\ is_u32 (p_flags p) /\ is_i64 (p_timeout p) /\
  wf_str (p_user p) /\ wf_str (p_domain p) /\ wf_str (p_pass p) /\ wf_filter_opt (p_filter p) /\ wf_str (p_stdin p).
Definition wf_dll (d : dll) : Prop :=
  wf_str (d_path d) /\ is_i64 (d_timeout d) /\ wf_filter_opt (d_filter d) /\ wf_str (d_data d).
Definition wf_zombie (z : zombie) : Prop :=
  wf_str (z_data z) /\ wf_list (z_args z) /\ wf_str (z_dir z) /\ wf_list (z_env z) /\ is_u32 (z_flags z) /\
  is_i64 (z_timeout z) /\ wf_str (z_user z) /\ wf_str (z_domain z) /\ wf_str (z_pass z) /\
  wf_filter_opt (z_filter z) /\ wf_str (z_stdin z).
Definition wf_asm (a : asm) : Prop := is_i64 (a_timeout a) /\ wf_filter_opt (a_filter a) /\ wf_str (a_data a).
Definition wf_spath (p : spath) : Prop := is_u8 (sp_t p) /\ wf_str (sp_path p) /\ wf_list (sp_extra p).
Definition wf_sentinel (x : sentinel) : Prop :=
  wf_filter (s_filter x) /\ Forall wf_spath (s_paths x) /\ len (s_paths x) <= 65535.
Definition wf_entry (e : Z * str) : Prop := is_u8 (fst e) /\ wf_str (snd e).

Definition wf_desc (d : tdesc str) : Prop :=
  match d with
  | DProcess p => wf_process p
  | DDll x => wf_dll x
  | DZombie z => wf_zombie z
  | DAsm a => wf_asm a
  | DFilterPtr f => wf_filter_opt f
  | DFilterVal f => wf_filter f
  | DSentinel x => wf_sentinel x
  | DScript f es => is_u8 f /\ Forall wf_entry es
  end.

(* ---- compact inputs and observed shapes ------------------------------------------------------- *)
(* a generated string: a literal, or (seed, length) of the byte generator below *)
Inductive sdesc := Lit (l : list Z) | Gen (seed n : Z).

(* byte i of Gen seed n is (seed + 131*i + i/256) mod 256, computed with additions only
   (Z division is far too slow under vm_compute for 10^5-byte strings) *)
Fixpoint gen_from (acc i : Z) (k : nat) : list Z :=
  match k with
  | O => []
  | S k' => Z.land (acc + Z.shiftr i 8) 255 :: gen_from (acc + 131) (i + 1) k'
  end.
Definition expand (d : sdesc) : str :=
  match d with Lit l => l | Gen seed n => gen_from seed 0 (Z.to_nat n) end.

(* checksum used to compare long byte strings: length and the position-weighted sum
   sum_i (n - i) * (b_i + 1)  (additions only, for the same reason) *)
Definition ck (l : list Z) : Z :=
  snd (fold_left (fun st b => let a := fst st + b + 1 in (a, snd st + a)) l (0, 0)).
Definition shp (l : str) : Z * Z := (len l, ck l).

Definition map_filter {S T} (g : S -> T) (f : filter_ S) : filter_ T :=
  mkFilter (f_pid f) (f_fallback f) (f_session f) (f_elevated f) (map g (f_exclude f)) (map g (f_include f)).
Definition map_process {S T} (g : S -> T) (p : process_ S) : process_ T :=
  mkProcess (map g (p_args p)) (g (p_dir p)) (map g (p_env p)) (p_wait p) (p_flags p) (p_timeout p) (p_hide p)
            (g (p_user p)) (g (p_domain p)) (g (p_pass p)) (option_map (map_filter g) (p_filter p)) (g (p_stdin p)).
Definition map_dll {S T} (g : S -> T) (d : dll_ S) : dll_ T :=
  mkDll (g (d_path d)) (d_wait d) (d_timeout d) (option_map (map_filter g) (d_filter d)) (g (d_data d)).
Definition map_zombie {S T} (g : S -> T) (z : zombie_ S) : zombie_ T :=
  mkZombie (g (z_data z)) (map g (z_args z)) (g (z_dir z)) (map g (z_env z)) (z_wait z) (z_flags z) (z_timeout z)
           (z_hide z) (g (z_user z)) (g (z_domain z)) (g (z_pass z)) (option_map (map_filter g) (z_filter z))
           (g (z_stdin z)).
Definition map_asm {S T} (g : S -> T) (a : asm_ S) : asm_ T :=
  mkAsm (a_wait a) (a_timeout a) (option_map (map_filter g) (a_filter a)) (g (a_data a)).
Definition map_spath {S T} (g : S -> T) (p : spath_ S) : spath_ T :=
  mkSpath (sp_t p) (g (sp_path p)) (map g (sp_extra p)).
Definition map_sentinel {S T} (g : S -> T) (x : sentinel_ S) : sentinel_ T :=
  mkSentinel (map_filter g (s_filter x)) (map (map_spath g) (s_paths x)).
Definition map_desc {S T} (g : S -> T) (d : tdesc S) : tdesc T :=
  match d with
  | DProcess p => DProcess (map_process g p)
  | DDll x => DDll (map_dll g x)
  | DZombie z => DZombie (map_zombie g z)
  | DAsm a => DAsm (map_asm g a)
  | DFilterPtr f => DFilterPtr (option_map (map_filter g) f)
  | DFilterVal f => DFilterVal (map_filter g f)
  | DSentinel x => DSentinel (map_sentinel g x)
  | DScript f es => DScript f (map (fun e => (fst e, g (snd e))) es)
  end.

(* equality of shapes *)
Section Eqb.
  Context {S : Type} (eqS : S -> S -> bool).
  Definition filter_eqb (a b : filter_ S) : bool :=
    (f_pid a =? f_pid b) && Bool.eqb (f_fallback a) (f_fallback b) && (f_session a =? f_session b) &&
    (f_elevated a =? f_elevated b) && list_eqb eqS (f_exclude a) (f_exclude b) && list_eqb eqS (f_include a) (f_include b).
  Definition process_eqb (a b : process_ S) : bool :=
    list_eqb eqS (p_args a) (p_args b) && eqS (p_dir a) (p_dir b) && list_eqb eqS (p_env a) (p_env b) &&
    Bool.eqb (p_wait a) (p_wait b) && (p_flags a =? p_flags b) && (p_timeout a =? p_timeout b) &&
    Bool.eqb (p_hide a) (p_hide b) && eqS (p_user a) (p_user b) && eqS (p_domain a) (p_domain b) &&
    eqS (p_pass a) (p_pass b) && option_eqb filter_eqb (p_filter a) (p_filter b) && eqS (p_stdin a) (p_stdin b).
  Definition dll_eqb (a b : dll_ S) : bool :=
    eqS (d_path a) (d_path b) && Bool.eqb (d_wait a) (d_wait b) && (d_timeout a =? d_timeout b) &&
    option_eqb filter_eqb (d_filter a) (d_filter b) && eqS (d_data a) (d_data b).
  Definition zombie_eqb (a b : zombie_ S) : bool :=
    eqS (z_data a) (z_data b) && list_eqb eqS (z_args a) (z_args b) && eqS (z_dir a) (z_dir b) &&
    list_eqb eqS (z_env a) (z_env b) && Bool.eqb (z_wait a) (z_wait b) && (z_flags a =? z_flags b) &&
    (z_timeout a =? z_timeout b) && Bool.eqb (z_hide a) (z_hide b) && eqS (z_user a) (z_user b) &&
    eqS (z_domain a) (z_domain b) && eqS (z_pass a) (z_pass b) && option_eqb filter_eqb (z_filter a) (z_filter b) &&
    eqS (z_stdin a) (z_stdin b).
  Definition asm_eqb (a b : asm_ S) : bool :=
    Bool.eqb (a_wait a) (a_wait b) && (a_timeout a =? a_timeout b) && option_eqb filter_eqb (a_filter a) (a_filter b) &&
    eqS (a_data a) (a_data b).
  Definition spath_eqb (a b : spath_ S) : bool :=
    (sp_t a =? sp_t b) && eqS (sp_path a) (sp_path b) && list_eqb eqS (sp_extra a) (sp_extra b).
  Definition sentinel_eqb (a b : sentinel_ S) : bool :=
    filter_eqb (s_filter a) (s_filter b) && list_eqb spath_eqb (s_paths a) (s_paths b).
  Definition desc_eqb (a b : tdesc S) : bool :=
    match a, b with
    | DProcess x, DProcess y => process_eqb x y
    | DDll x, DDll y => dll_eqb x y
    | DZombie x, DZombie y => zombie_eqb x y
    | DAsm x, DAsm y => asm_eqb x y
    | DFilterPtr x, DFilterPtr y => option_eqb filter_eqb x y
    | DFilterVal x, DFilterVal y => filter_eqb x y
    | DSentinel x, DSentinel y => sentinel_eqb x y
    | DScript f x, DScript g y => (f =? g) && list_eqb (fun e e' => (fst e =? fst e') && eqS (snd e) (snd e')) x y
    | _, _ => false
    end.
End Eqb.

Definition shape := tdesc (Z * Z).
Definition pair_eqb (a b : Z * Z) : bool := (fst a =? fst b) && (snd a =? snd b).

(* observed bytes: literally, or as length + checksum *)
Inductive obs := OBytes (l : list Z) | OSum (n h : Z).
Definition obs_ok (o : obs) (b : list Z) : bool :=
  match o with OBytes l => zlist_eqb b l | OSum n h => (len b =? n) && (ck b =? h) end.

(* a decode result as observed: the shape of the struct and the number of bytes left.  Two
   results agree when both are Ok with equal content or both are not Ok (which error or panic
   a malformed input produces is the business of C04 / C10, not of this property). *)
Definition out := res (shape * Z).
Definition out_of (r : res (tdesc str * list Z)) : out :=
  do '(d, rest) <- r; Ok (map_desc shp d, len rest).
Definition out_sim (a b : out) : bool :=
  match a, b with
  | Ok (x, n), Ok (y, m) => desc_eqb pair_eqb x y && (n =? m)
  | Ok _, _ | _, Ok _ => false
  | _, _ => true
  end.

Definition sent_of (d : tdesc str) : sentinel := match d with DSentinel x => x | _ => zero_sentinel end.
Definition wrap_sent (r : res (sentinel * list Z)) : res (tdesc str * list Z) :=
  do '(x, rest) <- r; Ok (DSentinel x, rest).

(* ---- correspondence cases ---------------------------------------------------------------- *)
Inductive case :=
(* d encoded by the real MarshalStream (bytes e), then enc ++ rest decoded by the real
   UnmarshalStream into a fresh struct *)
| CRound (d : tdesc sdesc) (rest : list Z) (e : obs) (o : out)
(* the same encoding decoded into the pre-populated value old *)
| CInto (old d : tdesc sdesc) (rest : list Z) (o : out)
(* arbitrary bytes decoded into old (malformed inputs) *)
| CRaw (old : tdesc sdesc) (input : list Z) (o : out)
(* Sentinel.Write with a cipher whose block function is given by tab: file bytes (the IV is the
   observed random IV), then Sentinel.Read of that file *)
| CFile (tab : list (list Z * list Z)) (iv : list Z) (x : sentinel_ sdesc) (file : obs) (o : out)
(* Sentinel.Read with a cipher of block size bs from a reader delivering the given chunks *)
| CFileSrc (tab : list (list Z * list Z)) (bs : Z) (chunks : list (list Z)) (o : out)
(* one CTR pass of the real crypto/cipher stream over data *)
| CCtr (tab : list (list Z * list Z)) (iv data : list Z) (outp : list Z).

Definition check (c : case) : bool :=
  match c with
  | CRound d rest e o =>
    let x := map_desc expand d in
    let b := enc_desc x in
    obs_ok e b && out_sim (out_of (dec_desc (zero_of d) (b ++ rest))) o
  | CInto old d rest o =>
    out_sim (out_of (dec_desc (map_desc expand old) (enc_desc (map_desc expand d) ++ rest))) o
  | CRaw old input o => out_sim (out_of (dec_desc (map_desc expand old) input)) o
  | CFile tab iv x file o =>
    let f := write_file (tab_lookup tab) iv (map_sentinel expand x) in
    obs_ok file f && out_sim (out_of (wrap_sent (read_file (tab_lookup tab) (len iv) zero_sentinel f))) o
  | CFileSrc tab bs chunks o =>
    out_sim (out_of (wrap_sent (read_file_src (tab_lookup tab) bs zero_sentinel chunks))) o
  | CCtr tab iv data outp => zlist_eqb (ctr_xor (tab_lookup tab) iv data) outp
  end.
