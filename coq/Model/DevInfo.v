(* Model/DevInfo.v -- C12: session settings and identity on every synchronisation path.
   c2/session.go writeDeviceInfo / readDeviceInfo (the six info* kinds), c2/u_proxy_single.go
   writeProxyData, c2/proxy.go readProxyData, device/machine.go, device/network.go,
   device/address.go, device/id.go, c2/cfg/workhours.go, data/crypto.go KeyPair.Marshal/Unmarshal,
   c2/session_no_implant.go SetDuration / SetKillDate / SetWorkHours / handleInfoResult,
   c2/task/v_task.go Duration / KillDate / WorkHours, c2/mux.go muxHandleInternal (MvTime).
   Definitions only.

   Writers are pure functions to byte lists (what either data.Writer appends).  Readers are
   written ONCE over a record of reader primitives and instantiated with the flat reader (the
   packet body, a data.Chunk) and with the stream reader (data.NewReader over a pipe that may
   return short reads), both from Model/Codec.v. *)
From XMT Require Import Base.Prelude Model.Codec.

(* ---- constants (c2/session.go, device/id.go, data/crypto.go) ---------------------------- *)
Definition infoHello : Z := 0.
Definition infoMigrate : Z := 1.
Definition infoRefresh : Z := 2.
Definition infoSync : Z := 3.
Definition infoProxy : Z := 4.
Definition infoSyncMigrate : Z := 5.
Definition timeSleepJitter : Z := 0.
Definition timeKillDate : Z := 1.
Definition timeWorkHours : Z := 2.
Definition IDSize : Z := 32.
Definition publicKeySize : Z := 133.
Definition privateKeySize : Z := 66.
Definition sharedKeySize : Z := 65.
Definition ErrNoProgress : Z := 7.
Definition ErrVerify : Z := 8.
(* Unix seconds of Go's zero time.Time (January 1, year 1 UTC): Time.IsZero() is "these seconds
   and no nanoseconds" *)
Definition zeroUnix : Z := -62135596800.

(* ---- state ------------------------------------------------------------------------------ *)
Record addr := mkAddr { a_hi : Z; a_lo : Z }.
Record netdev := mkDev { d_name : list Z; d_mac : Z; d_addrs : list addr }.
Record machine := mkMachine {
  m_id : list Z; m_system : Z; m_pid : Z; m_ppid : Z;
  m_user : list Z; m_version : list Z; m_host : list Z;
  m_elev : Z; m_caps : Z; m_net : list netdev }.
Record workhours := mkWork { w_days : Z; w_sh : Z; w_sm : Z; w_eh : Z; w_em : Z }.
(* a time.Time: Unix() seconds (int64, wrapping like Go's) and Nanosecond() *)
Record ktime := mkTime { t_sec : Z; t_nsec : Z }.
(* the attached Proxy of a client session: name, bind address, MarshalBinary() of its profile,
   and whether it is still active *)
Record proxy := mkProxy { p_name : list Z; p_addr : list Z; p_prof : list Z; p_active : bool }.
(* proxyData as the reader returns it *)
Record pdata := mkPData { pd_name : list Z; pd_addr : list Z; pd_prof : list Z }.
Record keys := mkKeys { k_pub : list Z; k_priv : list Z; k_share : list Z }.

Record session := mkSession {
  s_id : list Z;                 (* Session.ID *)
  s_dev : machine;               (* Session.Device *)
  s_jitter : Z;                  (* uint8 *)
  s_sleep : Z;                   (* time.Duration = int64 *)
  s_kill : ktime;
  s_work : option workhours;     (* *cfg.WorkHours, nil = None *)
  s_keys : keys;
  s_client : bool;               (* IsClient() && IsActive(): only such a session writes proxy data *)
  s_proxy : option proxy }.

Definition zero_time : ktime := mkTime zeroUnix 0.
Definition is_zero_time (t : ktime) : bool := (t_sec t =? zeroUnix) && (t_nsec t =? 0).

Definition set_dev (s : session) (m : machine) : session :=
  mkSession (s_id s) m (s_jitter s) (s_sleep s) (s_kill s) (s_work s) (s_keys s) (s_client s) (s_proxy s).
Definition set_id (s : session) (i : list Z) : session :=
  mkSession i (s_dev s) (s_jitter s) (s_sleep s) (s_kill s) (s_work s) (s_keys s) (s_client s) (s_proxy s).
Definition set_keys (s : session) (k : keys) : session :=
  mkSession (s_id s) (s_dev s) (s_jitter s) (s_sleep s) (s_kill s) (s_work s) k (s_client s) (s_proxy s).
Definition set_settings (s : session) (j sl : Z) (k : ktime) (w : option workhours) : session :=
  mkSession (s_id s) (s_dev s) j sl k w (s_keys s) (s_client s) (s_proxy s).
Definition set_duration (s : session) (j sl : Z) : session := set_settings s j sl (s_kill s) (s_work s).
Definition set_kill (s : session) (k : ktime) : session := set_settings s (s_jitter s) (s_sleep s) k (s_work s).
Definition set_work (s : session) (w : option workhours) : session :=
  set_settings s (s_jitter s) (s_sleep s) (s_kill s) w.

(* WorkHours.Empty / WorkHours.Verify *)
Definition work_empty (w : workhours) : bool :=
  (w_sh w =? 0) && (w_sm w =? 0) && (w_eh w =? 0) && (w_em w =? 0) && ((w_days w =? 0) || (126 <? w_days w)).
Definition work_verify (w : workhours) : bool :=
  (w_em w <=? 59) && (w_eh w <=? 23) && (w_sm w <=? 59) && (w_sh w <=? 23).
Definition norm_work (w : workhours) : option workhours := if work_empty w then None else Some w.

(* ---- writers ---------------------------------------------------------------------------- *)
Definition write_addr (a : addr) : list Z := enc_u64 (a_hi a) ++ enc_u64 (a_lo a).
(* l := uint8(len(x)); WriteUint8(l); for i < l: the count is one byte and only that many
   elements follow (256 elements write count 0 and nothing else) *)
Definition write_counted {A} (wr : A -> list Z) (l : list A) : list Z :=
  let n := u8 (len l) in enc_u8 n ++ concat (map wr (take n l)).
Definition write_dev (d : netdev) : list Z :=
  enc_bytes (d_name d) ++ enc_u64 (d_mac d) ++ write_counted write_addr (d_addrs d).
Definition write_net (n : list netdev) : list Z := write_counted write_dev n.
Definition write_machine (m : machine) : list Z :=
  m_id m ++ enc_u8 (m_system m) ++ enc_u32 (m_pid m) ++ enc_u32 (m_ppid m) ++
  enc_bytes (m_user m) ++ enc_bytes (m_version m) ++ enc_bytes (m_host m) ++
  enc_u8 (m_elev m) ++ enc_u32 (m_caps m) ++ write_net (m_net m).
Definition write_workhours (w : workhours) : list Z :=
  enc_u8 (w_days w) ++ enc_u8 (w_sh w) ++ enc_u8 (w_sm w) ++ enc_u8 (w_eh w) ++ enc_u8 (w_em w).
Definition write_work (w : option workhours) : list Z :=
  match w with Some w' => write_workhours w' | None => enc_u32 0 ++ enc_u8 0 end.
(* kill date: Unix seconds, 0 when the Time is zero *)
Definition kill_wire (t : ktime) : Z := if is_zero_time t then 0 else u64 (t_sec t).
Definition write_kill (t : ktime) : list Z := enc_u64 (kill_wire t).
(* writeProxyData(f, w): NOTHING unless the writer is an active client session; a proxy that is
   no longer active is dropped and counted as none *)
Definition write_proxy (f : bool) (s : session) : list Z :=
  if negb (s_client s) then [] else
  match s_proxy s with
  | None => enc_u8 0
  | Some p =>
    if negb (p_active p) then enc_u8 0
    else enc_u8 1 ++ enc_bytes (p_name p) ++ enc_bytes (p_addr p) ++ (if f then enc_bytes (p_prof p) else [])
  end.
Definition write_keys (k : keys) : list Z := k_pub k ++ k_priv k ++ k_share k.
Definition write_settings (s : session) : list Z :=
  enc_u8 (s_jitter s) ++ enc_u64 (u64 (s_sleep s)) ++ write_kill (s_kill s) ++ write_work (s_work s).

Definition has_device (k : Z) : bool := (k =? infoHello) || (k =? infoRefresh) || (k =? infoSyncMigrate).

Definition write_info (k : Z) (s : session) : list Z :=
  if k =? infoProxy then write_proxy false s else
  (if has_device k then write_machine (s_dev s) else if k =? infoMigrate then s_id s else []) ++
  write_settings s ++
  (if infoRefresh <? k then []
   else write_proxy true s ++ (if k =? infoMigrate then write_keys (s_keys s) else [])).

(* ---- readers, generic over the primitive reads ------------------------------------------ *)
Record ops (S : Type) := mkOps {
  r_u8 : S -> res (Z * S);              (* Uint8 *)
  r_uN : Z -> S -> res (Z * S);         (* Uint16/32/64: n bytes big endian *)
  r_bytes : S -> res (list Z * S);      (* Bytes / StringVal *)
  r_raw : Z -> S -> res (list Z * S) }. (* io.ReadFull(r, b[:n]) through the reader's Read *)
Arguments mkOps {S} _ _ _ _.
Arguments r_u8 {S} _ _.
Arguments r_uN {S} _ _ _.
Arguments r_bytes {S} _ _.
Arguments r_raw {S} _ _ _.

Definition rdr (S A : Type) : Type := S -> res (A * S).
Definition rret {S A} (a : A) : rdr S A := fun s => Ok (a, s).
Definition rfail {S A} (e : Z) : rdr S A := fun _ => Err e.
Definition rbind {S A B} (m : rdr S A) (f : A -> rdr S B) : rdr S B :=
  fun s => match m s with Ok (a, s') => f a s' | Err e => Err e | Panic => Panic end.
Notation "'rdo' x <- m ; k" := (rbind m (fun x => k))
  (at level 200, x name, m at level 100, k at level 200, right associativity).

Section Readers.
  Context {S : Type} (o : ops S).

  Fixpoint read_n {A} (rd : rdr S A) (n : nat) : rdr S (list A) :=
    match n with
    | O => rret []
    | Datatypes.S n' => rdo x <- rd; rdo l <- read_n rd n'; rret (x :: l)
    end.
  (* l, err := r.Uint8(); x = make(l); for i < l: read x[i] *)
  Definition read_counted {A} (rd : rdr S A) : rdr S (list A) :=
    rdo n <- r_u8 o; read_n rd (Z.to_nat n).

  Definition read_addr : rdr S addr := rdo h <- r_uN o 8; rdo l <- r_uN o 8; rret (mkAddr h l).
  Definition read_dev : rdr S netdev :=
    rdo nm <- r_bytes o; rdo mac <- r_uN o 8; rdo a <- read_counted read_addr; rret (mkDev nm mac a).
  (* ID.Read: io.ReadFull then "n != IDSize || i[0] == 0" is an error *)
  Definition read_id : rdr S (list Z) :=
    rdo b <- r_raw o IDSize;
    match b with
    | x :: _ => if x =? 0 then rfail ErrNoProgress else rret b
    | [] => rfail ErrNoProgress
    end.
  Definition read_machine : rdr S machine :=
    rdo id <- read_id; rdo sys <- r_u8 o; rdo pid <- r_uN o 4; rdo ppid <- r_uN o 4;
    rdo u <- r_bytes o; rdo v <- r_bytes o; rdo h <- r_bytes o;
    rdo e <- r_u8 o; rdo c <- r_uN o 4; rdo n <- read_counted read_dev;
    rret (mkMachine id sys pid ppid u v h e c n).
  Definition read_workhours : rdr S workhours :=
    rdo d <- r_u8 o; rdo sh <- r_u8 o; rdo sm <- r_u8 o; rdo eh <- r_u8 o; rdo em <- r_u8 o;
    rret (mkWork d sh sm eh em).
  Definition read_pdata (f : bool) : rdr S pdata :=
    rdo n <- r_bytes o; rdo b <- r_bytes o;
    if f then rdo p <- r_bytes o; rret (mkPData n b p) else rret (mkPData n b []).
  Definition read_proxies (f : bool) : rdr S (list pdata) := read_counted (read_pdata f).
  (* KeyPair.Unmarshal: three io.ReadFull (after the repair; see Proofs: the single Read call
     of the pinned tree fails on a short read) *)
  Definition read_keys : rdr S keys :=
    rdo a <- r_raw o publicKeySize; rdo b <- r_raw o privateKeySize; rdo c <- r_raw o sharedKeySize;
    rret (mkKeys a b c).
  Definition kill_of_wire (v : Z) : ktime := if v =? 0 then zero_time else mkTime v 0.
  Definition read_settings (r : session) : rdr S session :=
    rdo j <- r_u8 o; rdo sl <- r_uN o 8; rdo kv <- r_uN o 8; rdo w <- read_workhours;
    rret (set_settings r j (i64 sl) (kill_of_wire (i64 kv)) (norm_work w)).

  Definition read_info (k : Z) (r : session) : rdr S (session * list pdata) :=
    if k =? infoProxy then rdo p <- read_proxies false; rret (r, p) else
    rdo r1 <- (if has_device k then rdo m <- read_machine; rret (set_dev r m)
               else if k =? infoMigrate then rdo i <- read_id; rret (set_id r i)
               else rret r);
    rdo r2 <- read_settings r1;
    if infoRefresh <? k then rret (r2, []) else
    rdo p <- read_proxies true;
    if k =? infoMigrate then rdo ks <- read_keys; rret (set_keys r2 ks, p) else rret (r2, p).
End Readers.

Definition flat_ops : ops (list Z) := mkOps rd_u8 rd_uN rd_bytes rd_fixed.
Definition srd_raw (n : Z) (s : src) : res (list Z * src) := read_full (src_fuel s n) n s [].
Definition stream_ops : ops src := mkOps srd_u8 srd_uN srd_bytes srd_raw.

(* the pinned tree's KeyPair.Unmarshal: ONE Read call per array; fewer bytes than the array is
   io.ErrUnexpectedEOF.  Kept to document the repaired defect (Proofs: keys_single_read_refuted). *)
Definition srd_read_once (n : Z) (s : src) : res (list Z * src) :=
  match read1 n s with
  | None => Err EOF
  | Some (got, s') => if len got =? n then Ok (got, s') else Err ErrUnexpectedEOF
  end.
Definition read_keys_old : rdr src keys :=
  rdo a <- srd_read_once publicKeySize; rdo b <- srd_read_once privateKeySize; rdo c <- srd_read_once sharedKeySize;
  rret (mkKeys a b c).

(* ---- what each kind carries: the receiver r after absorbing sender s ---------------------- *)
Definition norm_kill (t : ktime) : ktime := kill_of_wire (i64 (kill_wire t)).
Definition norm_work_opt (w : option workhours) : option workhours :=
  match w with Some w' => norm_work w' | None => None end.
Definition absorb_settings (s r : session) : session :=
  set_settings r (s_jitter s) (s_sleep s) (norm_kill (s_kill s)) (norm_work_opt (s_work s)).
Definition absorb (k : Z) (s r : session) : session :=
  if k =? infoProxy then r else
  let r1 := if has_device k then set_dev r (s_dev s) else if k =? infoMigrate then set_id r (s_id s) else r in
  let r2 := absorb_settings s r1 in
  if k =? infoMigrate then set_keys r2 (s_keys s) else r2.
(* the proxy list the receiver obtains *)
Definition proxies_of (f : bool) (s : session) : list pdata :=
  match s_proxy s with
  | Some p => if p_active p then [mkPData (p_name p) (p_addr p) (if f then p_prof p else [])] else []
  | None => []
  end.
Definition carried_proxies (k : Z) (s : session) : list pdata :=
  if k =? infoProxy then proxies_of false s else if infoRefresh <? k then [] else proxies_of true s.

(* ---- well-formed senders ---------------------------------------------------------------- *)
Definition is_u8 (x : Z) : bool := (0 <=? x) && (x <? 256).
Definition is_u32 (x : Z) : bool := (0 <=? x) && (x <? 4294967296).
Definition is_u64 (x : Z) : bool := (0 <=? x) && (x <? 18446744073709551616).
Definition is_i64 (x : Z) : bool := (-9223372036854775808 <=? x) && (x <? 9223372036854775808).
Definition wf_raw (n : Z) (b : list Z) : bool := bytes_ok b && (len b =? n).
(* a device ID the reader accepts: 32 bytes, the first one not zero (ID.Empty() is "first byte 0") *)
Definition wf_id (b : list Z) : bool := wf_raw IDSize b && negb (is_nil b) && negb (hd 0 b =? 0).
Definition wf_addr (a : addr) : bool := is_u64 (a_hi a) && is_u64 (a_lo a).
Definition wf_dev (d : netdev) : bool :=
  wf_bytes (d_name d) && is_u64 (d_mac d) && (len (d_addrs d) <=? 255) && forallb wf_addr (d_addrs d).
Definition wf_machine (m : machine) : bool :=
  wf_id (m_id m) && is_u8 (m_system m) && is_u32 (m_pid m) && is_u32 (m_ppid m) &&
  wf_bytes (m_user m) && wf_bytes (m_version m) && wf_bytes (m_host m) &&
  is_u8 (m_elev m) && is_u32 (m_caps m) && (len (m_net m) <=? 255) && forallb wf_dev (m_net m).
Definition wf_workhours (w : workhours) : bool :=
  is_u8 (w_days w) && is_u8 (w_sh w) && is_u8 (w_sm w) && is_u8 (w_eh w) && is_u8 (w_em w).
Definition wf_work (w : option workhours) : bool := match w with Some w' => wf_workhours w' | None => true end.
Definition wf_time (t : ktime) : bool := is_i64 (t_sec t) && (0 <=? t_nsec t) && (t_nsec t <? 1000000000).
Definition wf_settings (s : session) : bool :=
  is_u8 (s_jitter s) && is_i64 (s_sleep s) && wf_time (s_kill s) && wf_work (s_work s).
Definition wf_proxy (p : proxy) : bool := wf_bytes (p_name p) && wf_bytes (p_addr p) && wf_bytes (p_prof p).
Definition wf_proxy_opt (p : option proxy) : bool := match p with Some p' => wf_proxy p' | None => true end.
Definition wf_keys (k : keys) : bool :=
  wf_raw publicKeySize (k_pub k) && wf_raw privateKeySize (k_priv k) && wf_raw sharedKeySize (k_share k).

Definition carries_proxy (k : Z) : bool := k <=? infoRefresh.
Definition is_kind (k : Z) : bool := (0 <=? k) && (k <=? 5).
(* wf k s: what the sender of kind k must satisfy for the message to be readable at all *)
Definition wf (k : Z) (s : session) : bool :=
  is_kind k &&
  (if k =? infoProxy then s_client s && wf_proxy_opt (s_proxy s) else
   (if has_device k then wf_machine (s_dev s) else if k =? infoMigrate then wf_id (s_id s) else true) &&
   wf_settings s &&
   (if carries_proxy k then s_client s && wf_proxy_opt (s_proxy s) else true) &&
   (if k =? infoMigrate then wf_keys (s_keys s) else true)).
(* the settings a real session can hold such that the receiver gets them back UNCHANGED: kill
   date none or whole seconds other than Unix 0, work hours none or non-empty *)
Definition exact_kill (t : ktime) : bool := is_zero_time t || ((t_nsec t =? 0) && negb (t_sec t =? 0)).
Definition exact_work (w : option workhours) : bool := match w with Some w' => negb (work_empty w') | None => true end.
Definition exact_settings (s : session) : bool := exact_kill (s_kill s) && exact_work (s_work s).

(* ---- MvTime: orders, server setters, client handler, echo --------------------------------- *)
Inductive order :=
| OSetDuration (t j : Z)                 (* Session.SetDuration(t, j) (SetSleep: j = -1, SetJitter: t = 0) *)
| OSetKill (k : ktime)                   (* Session.SetKillDate *)
| OSetWork (w : option workhours)        (* Session.SetWorkHours (nil = None) *)
| OTaskDuration (d j : Z)                (* Session.Tasklet/Task(task.Duration(d, j)) *)
| OTaskKill (k : ktime)                  (* task.KillDate *)
| OTaskWork (w : workhours).             (* task.WorkHours *)

Definition clear_work_packet : list Z := enc_u8 timeWorkHours ++ enc_u32 0 ++ enc_u8 0.
(* the server's own view after the call and the MvTime payload it queues (Err: Verify refused,
   nothing is sent) *)
Definition server_set (s : session) (o : order) : res (session * list Z) :=
  match o with
  | OSetDuration t j =>
    let jit := if j =? -1 then s_jitter s else if j <? 0 then 0 else if 100 <? j then 100 else u8 j in
    let sl := if 0 <? t then t else s_sleep s in
    Ok (set_duration s jit sl, enc_u16 (u16 jit) ++ enc_u64 (u64 sl))
  | OSetKill k => Ok (set_kill s k, enc_u8 timeKillDate ++ enc_u64 (kill_wire k))
  | OSetWork None => Ok (set_work s None, clear_work_packet)
  | OSetWork (Some w) =>
    if work_empty w then Ok (set_work s None, clear_work_packet)
    else if negb (work_verify w) then Err ErrVerify
    else Ok (set_work s (Some w), enc_u8 timeWorkHours ++ write_workhours w)
  | OTaskDuration d j =>
    (* task.Duration clamps like SetDuration before it keeps the low byte (-1 stays 0xFF = "keep") *)
    let j' := if j =? -1 then j else if j <? 0 then 0 else if 100 <? j then 100 else j in
    Ok (s, enc_u16 (u16 (Z.land j' 255)) ++ enc_u64 (u64 d))
  | OTaskKill k => Ok (s, enc_u8 timeKillDate ++ enc_u64 (kill_wire k))
  | OTaskWork w => Ok (s, enc_u16 (u16 (Z.lor 512 (Z.land (w_days w) 255))) ++ enc_u8 (w_sh w) ++ enc_u8 (w_sm w) ++
                          enc_u8 (w_eh w) ++ enc_u8 (w_em w))
  end.

Definition clamp_jitter (cur j : Z) : Z :=
  if j =? -1 then cur else if 100 <? j then 100 else if j <? 0 then 0 else j.

(* muxHandleInternal, case MvTime, on the packet payload p: the new client state and the echo
   (writeDeviceInfo(infoSync)) *)
Definition client_time (c : session) (p : list Z) : res (session * list Z) :=
  do '(t, p1) <- rd_u8 p;
  do c' <- (if t =? timeSleepJitter then
              do '(jb, p2) <- rd_u8 p1;
              do '(d0, _) <- rd_u64 p2;
              let d := i64 d0 in
              Ok (set_duration c (clamp_jitter (s_jitter c) (i8 jb)) (if 0 <? d then d else s_sleep c))
            else if t =? timeKillDate then
              do '(u0, _) <- rd_u64 p1; Ok (set_kill c (kill_of_wire (i64 u0)))
            else if t =? timeWorkHours then
              do '(w, _) <- read_workhours flat_ops p1; Ok (set_work c (norm_work w))
            else Ok c);
  Ok (c', write_info infoSync c').

(* handleInfoResult for MvTime / MvProfile: readDeviceInfo(infoSync) on the result packet *)
Definition server_absorb (s : session) (echo : list Z) : res session :=
  do '(r, _) <- read_info flat_ops infoSync s echo; Ok (fst r).

Definition exchange (srv cli : session) (o : order) : res (list Z * session * session) :=
  do '(srv1, pkt) <- server_set srv o;
  do '(cli1, echo) <- client_time cli pkt;
  do srv2 <- server_absorb srv1 echo;
  Ok (pkt, cli1, srv2).

(* what the order means, spelled out on the four settings *)
Definition order_jitter (j : Z) : Z := if j <? 0 then 0 else if 100 <? j then 100 else j.
Definition apply_order (c : session) (o : order) : session :=
  match o with
  | OSetDuration t j =>
    set_duration c (if j =? -1 then s_jitter c else order_jitter j) (if 0 <? t then t else s_sleep c)
  | OTaskDuration d j =>
    set_duration c (if j =? -1 then s_jitter c else order_jitter j) (if 0 <? d then d else s_sleep c)
  | OSetKill k | OTaskKill k => set_kill c (norm_kill k)
  | OSetWork None => set_work c None
  | OSetWork (Some w) | OTaskWork w => set_work c (norm_work w)
  end.
Definition settings_eqb (a b : session) : bool :=
  (s_jitter a =? s_jitter b) && (s_sleep a =? s_sleep b) &&
  (t_sec (s_kill a) =? t_sec (s_kill b)) && (t_nsec (s_kill a) =? t_nsec (s_kill b)) &&
  match s_work a, s_work b with
  | None, None => true
  | Some x, Some y => (w_days x =? w_days y) && (w_sh x =? w_sh y) && (w_sm x =? w_sm y) &&
                      (w_eh x =? w_eh y) && (w_em x =? w_em y)
  | _, _ => false
  end.

(* ---- the attached proxy as state: histories of proxy operations ---------------------------
   c2/u_proxy_single.go NewProxy, c2/proxy.go Proxy.Replace / Proxy.Close, the side effect of
   writeProxyData (a record whose Proxy is no longer active is dropped when a message that
   carries the list is written by an active client), c2/mux.go case MvProxy (operation, then the
   infoProxy echo when the operation succeeded).  addr is the EFFECTIVE bind string (the address
   argument, or the profile's host when that is empty), prof = MarshalBinary() of the profile. *)
Inductive pop :=
| PAttach (name addr prof : list Z)   (* Session.NewProxy: refused while a record is attached (even an inactive one) *)
| PReplace (addr prof : list Z)       (* Proxy.Replace(addr, profile): the record keeps its name, takes the NEW address and profile *)
| PClose                              (* Proxy.Close: the record stays attached, inactive *)
| PWrite (k : Z)                      (* writeDeviceInfo(k): only its side effect on the record *)
| PTask (o : pop).                    (* the MvProxy task: o, then - when o succeeded - the infoProxy echo *)

Definition set_proxy (s : session) (p : option proxy) : session :=
  mkSession (s_id s) (s_dev s) (s_jitter s) (s_sleep s) (s_kill s) (s_work s) (s_keys s) (s_client s) p.

Definition writes_proxy_list (k : Z) : bool := (k =? infoProxy) || (k <=? infoRefresh).
Definition pop_ok (s : session) (o : pop) : bool :=
  match o with
  | PAttach _ _ _ => s_client s && (match s_proxy s with None => true | Some _ => false end)
  | PReplace _ _ => match s_proxy s with Some p => p_active p | None => false end
  | PClose => match s_proxy s with Some _ => true | None => false end
  | _ => true
  end.
Definition pwrite (s : session) (k : Z) : session :=
  if s_client s && writes_proxy_list k then
    match s_proxy s with
    | Some px => if p_active px then s else set_proxy s None
    | None => s
    end
  else s.
Fixpoint run_pop (s : session) (o : pop) : session :=
  match o with
  | PAttach n a p => if pop_ok s o then set_proxy s (Some (mkProxy n a p true)) else s
  | PReplace a p =>
    match s_proxy s with
    | Some px => if p_active px then set_proxy s (Some (mkProxy (p_name px) a p true)) else s
    | None => s
    end
  | PClose =>
    match s_proxy s with
    | Some px => set_proxy s (Some (mkProxy (p_name px) (p_addr px) (p_prof px) false))
    | None => s
    end
  | PWrite k => pwrite s k
  | PTask o' => if pop_ok s o' then pwrite (run_pop s o') infoProxy else s
  end.
Definition run_pops (s : session) (h : list pop) : session := fold_left run_pop h s.

(* ---- every producer of a synchronisation message ---------------------------------------------
   The call sites of writeDeviceInfo in c2 and, for each, the consumer (a readDeviceInfo call site)
   that receives the bytes.  A kind is either fixed at the call site (KFixed k) or ANNOUNCED: the
   producer writes one kind byte and then the body of that kind, the consumer reads the byte and
   then reads that kind (SvResync, the notice a Script sends). *)
Inductive kexpr := KFixed (k : Z) | KAnnounced.
Definition kexpr_eqb (a b : kexpr) : bool :=
  match a, b with KFixed x, KFixed y => x =? y | KAnnounced, KAnnounced => true | _, _ => false end.
(* the functions (and, inside the two big switches, the case) that contain a call *)
Inductive site :=
| W_Connect                (* c2.go connect: SvHello of a new client *)
| W_Register               (* vars.go receiveSingle case SvRegister: the re-registration SvHello *)
| W_LoadContext            (* c2.go LoadContext: the RvResult of a finished migration *)
| W_Script                 (* mux.go muxHandleScript *)
| W_MvTime | W_MvProxy | W_MvRefresh | W_MvProfile      (* mux.go muxHandleInternal, by case *)
| W_Spawn | W_Migrate      (* session.go Session.Spawn / Session.Migrate: over the local pipe *)
| R_Load | R_LoadContext   (* c2.go: the spawned / migrated process reading the pipe *)
| R_Listener               (* listener.go: SvHello of an unknown device (talk and talkSub) *)
| R_Resync                 (* vars.go receiveSingle case SvResync *)
| R_MvProxy | R_MvMigrate | R_MvRefresh | R_MvTime      (* session_no_implant.go handleInfoResult, by case *)
| S_Other.                 (* a call site this table does not know *)
Definition site_code (x : site) : Z :=
  match x with
  | W_Connect => 1 | W_Register => 2 | W_LoadContext => 3 | W_Script => 4 | W_MvTime => 5 | W_MvProxy => 6
  | W_MvRefresh => 7 | W_MvProfile => 8 | W_Spawn => 9 | W_Migrate => 10 | R_Load => 11 | R_LoadContext => 12
  | R_Listener => 13 | R_Resync => 14 | R_MvProxy => 15 | R_MvMigrate => 16 | R_MvRefresh => 17 | R_MvTime => 18
  | S_Other => 0
  end.
Record producer := mkProducer { pr_site : site; pr_kind : kexpr; pr_consumer : option site; pr_ckind : kexpr }.
(* every writeDeviceInfo call, in source order per file, with the reader that consumes its bytes *)
Definition producers : list producer :=
  [ mkProducer W_LoadContext (KFixed infoSyncMigrate) (Some R_MvMigrate) (KFixed infoSyncMigrate);
    mkProducer W_Connect (KFixed infoHello) (Some R_Listener) (KFixed infoHello);
    mkProducer W_Script (KFixed infoSync) None (KFixed infoSync);        (* appended to the Script's own result: not absorbed *)
    mkProducer W_Script KAnnounced (Some R_Resync) KAnnounced;           (* SvResync: kind byte + body *)
    mkProducer W_MvTime (KFixed infoSync) (Some R_MvTime) (KFixed infoSync);
    mkProducer W_MvProxy (KFixed infoProxy) (Some R_MvProxy) (KFixed infoProxy);
    mkProducer W_MvProxy (KFixed infoProxy) (Some R_MvProxy) (KFixed infoProxy);
    mkProducer W_MvProxy (KFixed infoProxy) (Some R_MvProxy) (KFixed infoProxy);
    mkProducer W_MvRefresh (KFixed infoRefresh) (Some R_MvRefresh) (KFixed infoRefresh);
    mkProducer W_MvProfile (KFixed infoSync) (Some R_MvTime) (KFixed infoSync);
    mkProducer W_Spawn (KFixed infoSync) (Some R_Load) (KFixed infoSync);
    mkProducer W_Migrate (KFixed infoMigrate) (Some R_LoadContext) (KFixed infoMigrate);
    mkProducer W_Register (KFixed infoHello) (Some R_Listener) (KFixed infoHello) ].
(* every readDeviceInfo call *)
Definition consumers : list (site * kexpr) :=
  [ (R_LoadContext, KFixed infoMigrate); (R_Load, KFixed infoSync);
    (R_Listener, KFixed infoHello); (R_Listener, KFixed infoHello);
    (R_MvProxy, KFixed infoProxy); (R_MvMigrate, KFixed infoSyncMigrate); (R_MvRefresh, KFixed infoRefresh);
    (R_MvTime, KFixed infoSync); (R_Resync, KAnnounced) ].
(* a producer is paired when its consumer exists in the reader table with the kind the producer writes *)
Definition site_eqb (a b : site) : bool := site_code a =? site_code b.
Definition paired (p : producer) : bool :=
  match pr_consumer p with
  | None => true
  | Some c => kexpr_eqb (pr_kind p) (pr_ckind p) &&
              existsb (fun x => site_eqb (fst x) c && kexpr_eqb (snd x) (pr_ckind p)) consumers
  end.

(* SvResync: kind byte, then the body of that kind (c2/mux.go muxHandleScript; c2/vars.go receiveSingle) *)
Definition write_resync (z : Z) (c : session) : list Z := enc_u8 z ++ write_info z c.
Definition read_resync {S} (o : ops S) (r : session) : rdr S (session * list pdata) :=
  rdo t <- r_u8 o; read_info o t r.

(* a Script (task.Script run by muxHandleScript): the entries that matter for synchronisation *)
Inductive entry :=
| ETime (o : order)        (* a task.Duration / task.KillDate / task.WorkHours entry (OTask* orders) *)
| ERefresh (m : machine)   (* MvRefresh: m = the device details the client's refresh found *)
| EProfile                 (* MvProfile with a profile that parses: the settings are untouched *)
| EBad                     (* an MvTime entry whose body is cut after the type byte: fails *)
| EPlain.                  (* a task that succeeds and synchronises nothing (MvPwd) *)

(* one entry on the client: None = the entry failed; otherwise the client and the kind it asks to
   resynchronise (0 = none) *)
Definition run_entry (c : session) (e : entry) : option (session * Z) :=
  match e with
  | ETime o =>
    match server_set c o with
    | Ok (_, pkt) => match client_time c pkt with Ok (c', _) => Some (c', infoSync) | _ => None end
    | _ => None
    end
  | ERefresh m => Some (set_dev c m, infoRefresh)
  | EProfile => Some (c, infoSync)
  | EBad => None
  | EPlain => Some (c, 0)
  end.
(* the loop of muxHandleScript: z is the kind of the LAST successful synchronising entry; a failing
   entry ends the Script when stop-on-error is set and is skipped otherwise *)
Fixpoint run_script (stop : bool) (c : session) (z : Z) (es : list entry) : session * Z :=
  match es with
  | [] => (c, z)
  | e :: es' =>
    match run_entry c e with
    | Some (c', k) => run_script stop c' (if 0 <? k then k else z) es'
    | None => if stop then (c, z) else run_script stop c z es'
    end
  end.
(* Script on the client, SvResync (if any) absorbed by the server-side session: the notice's body, the
   client and the server afterwards *)
Definition script_exchange (stop : bool) (srv cli : session) (es : list entry) : res (option (list Z) * session * session) :=
  let '(cli', z) := run_script stop cli 0 es in
  if 0 <? z then
    let body := write_resync z cli' in
    match read_resync flat_ops srv body with
    | Ok (r, _) => Ok (Some body, cli', fst r)
    | Err _ => Ok (Some body, cli', srv)       (* the read error is only logged; fields read before it are NOT modelled *)
    | Panic => Panic
    end
  else Ok (None, cli', srv).
(* a single task sent directly (not in a Script): the result body is the echo of the handler, absorbed
   by handleInfoResult with the kind that belongs to the task *)
Definition direct_exchange (srv cli : session) (e : entry) : res (option (list Z) * session * session) :=
  match run_entry cli e with
  | Some (cli', k) =>
    if 0 <? k then
      let body := write_info k cli' in
      match read_info flat_ops k srv body with
      | Ok (r, _) => Ok (Some body, cli', fst r)
      | Err _ => Ok (Some body, cli', srv)
      | Panic => Panic
      end
    else Ok (None, cli', srv)
  | None => Err 1
  end.

(* ---- the migration hand-off end to end ------------------------------------------------------
   c2/session.go MigrateProfile (old process: writeDeviceInfo(infoMigrate) into the pipe), c2/c2.go
   LoadContext (new process: a fresh Session with the profile's defaults reads infoMigrate, takes the
   migrated ID as the process identity - local.UUID and local.Device.ID are overwritten with it - and
   THEN snapshots the local machine as its Device, so Device.ID = Session.ID = the migrated ID; it
   reports writeDeviceInfo(infoSyncMigrate) as the result of the MvMigrate job), handleInfoResult
   (server: readDeviceInfo(infoSyncMigrate)).  localm = the machine details of the new process. *)
Definition with_id (m : machine) (i : list Z) : machine :=
  mkMachine i (m_system m) (m_pid m) (m_ppid m) (m_user m) (m_version m) (m_host m) (m_elev m) (m_caps m) (m_net m).
Definition load_context (new0 : session) (localm : machine) (pipe : list Z) : res (session * list pdata) :=
  do '(r, _) <- read_info flat_ops infoMigrate new0 pipe;
  let s1 := fst r in
  Ok (set_dev s1 (with_id localm (s_id s1)), snd r).
Definition migrate_exchange (old new0 : session) (localm : machine) (srv : session) : res (session * list pdata * session) :=
  do '(ns, px) <- load_context new0 localm (write_info infoMigrate old);
  do '(r, _) <- read_info flat_ops infoSyncMigrate srv (write_info infoSyncMigrate ns);
  Ok (ns, px, fst r).

(* ---- the migration window: hand-off written, not yet confirmed --------------------------------
   c2/x_key.go keyNextSync: a client starts a key rotation in an idle exchange when its 1-in-N draw
   fires, no rotation is pending and the Session is NOT Moving; MigrateProfile sets Moving before it
   writes the hand-off.  The ECDH itself is not modelled: the key material a completed rotation leaves
   on both ends is an input (fresh).  roll = the draw fired. *)
Definition idle_exchange (moving : bool) (c : session) (x : bool * keys) : session :=
  if fst x && s_client c && negb moving then set_keys c (snd x) else c.
Definition exchanges (moving : bool) (c : session) (h : list (bool * keys)) : session :=
  fold_left (idle_exchange moving) h c.
(* exchanges before the migration starts, the hand-off, exchanges inside the window, then the new
   process reads the hand-off: the session it loads, and the old client at confirmation *)
Definition window_exchange (c : session) (pre win : list (bool * keys)) (new0 : session) : res (session * session) :=
  let c1 := exchanges false c pre in
  let c2 := exchanges true c1 win in
  do '(r, _) <- read_info flat_ops infoMigrate new0 (write_info infoMigrate c1);
  Ok (fst r, c2).

(* ---- the server's proxy list ----------------------------------------------------------------
   Session.proxies on the server: assigned from the list a message carries (registration in the
   listener, handleInfoResult for MvProxy and MvRefresh); a message kind that carries NO list (sync,
   syncMigrate: the MvTime / MvProfile / MvMigrate results, SvResync) leaves it alone. *)
Definition server_proxy_view (k : Z) (before got : list pdata) : list pdata :=
  if writes_proxy_list k then got else before.
Definition strip_profile (p : pdata) : pdata := mkPData (pd_name p) (pd_addr p) [].

(* ---- correspondence cases ----------------------------------------------------------------
   Long byte strings are described by a generator evaluated here (the harness builds the same
   bytes): byte i of gen_bytes n a b is (a + i*b) mod 256. *)
Fixpoint gen_from (n : nat) (x b : Z) : list Z :=
  match n with O => [] | Datatypes.S n' => (x mod 256) :: gen_from n' (x + b) b end.
Definition gen_bytes (n a b : Z) : list Z := gen_from (Z.to_nat n) a b.
(* a network of n interfaces; interface i has name gen_bytes (1 + i mod 7) i 3, mac m + i and
   (c + i) mod 4 addresses (hi = i, lo = 281470681743360 + j), except interface 0 which has c0 *)
Fixpoint gen_addrs (n : nat) (i j : Z) : list addr :=
  match n with O => [] | Datatypes.S n' => mkAddr i (281470681743360 + j) :: gen_addrs n' i (j + 1) end.
Fixpoint gen_devs (n : nat) (i m c c0 : Z) : list netdev :=
  match n with
  | O => []
  | Datatypes.S n' =>
    mkDev (gen_bytes (1 + i mod 7) i 3) (m + i) (gen_addrs (Z.to_nat (if i =? 0 then c0 else (c + i) mod 4)) i 0)
    :: gen_devs n' (i + 1) m c c0
  end.
Definition gen_net (n m c c0 : Z) : list netdev := gen_devs (Z.to_nat n) 0 m c c0.

(* the bytes a writer produced: literally, or as length + digest for long outputs *)
Inductive bobs := BLit (l : list Z) | BDig (n h : Z).
Definition digest (l : list Z) : Z := fold_left (fun h b => (h * 16777619 + b + 1) mod 4294967296) l 2166136261.
Definition bobs_ok (o : bobs) (l : list Z) : bool :=
  match o with BLit x => zlist_eqb x l | BDig n h => (len l =? n) && (digest l =? h) end.

(* how a stream delivers its bytes: one chunk, chunks of n bytes, or chunks of the given sizes
   used cyclically (all sizes >= 1) *)
Inductive split := SWhole | SEach (n : Z) | SSizes (l : list Z).
Fixpoint chop (fuel : nat) (sizes cur : list Z) (l : list Z) : src :=
  match fuel with
  | O => [l]
  | Datatypes.S f =>
    match l with
    | [] => []
    | _ => match cur with
           | [] => match sizes with [] => [l] | _ => chop f sizes sizes l end
           | n :: cur' => let n' := Z.max 1 n in take n' l :: chop f sizes cur' (drop n' l)
           end
    end
  end.
Definition split_bytes (sp : split) (l : list Z) : src :=
  match sp with
  | SWhole => match l with [] => [] | _ => [l] end
  | SEach n => chop (2 * length l + 2) [n] [n] l
  | SSizes s => chop (2 * length l + 2) s s l
  end.

(* observed result of a read: receiver state, proxy list, unread bytes left; any error is Err 1 *)
Definition robs := res (session * list pdata * Z).

Inductive case :=
| CWrite (k : Z) (s : session) (out : bobs)
  (* writeDeviceInfo(k) into a com.Packet and into data.NewWriter: both produced out *)
| CRoundFlat (k : Z) (s r0 : session) (rest : list Z) (out : robs)
  (* readDeviceInfo(k) by r0 from a Packet holding the written bytes followed by rest *)
| CRoundStream (k : Z) (s r0 : session) (rest : list Z) (sp : split) (out : robs)
  (* the same through data.NewReader over a reader delivering the bytes as sp says *)
| CReadFlat (k : Z) (r0 : session) (input : list Z) (out : robs)      (* arbitrary / damaged input *)
| CReadStream (k : Z) (r0 : session) (input : src) (out : robs)
| CTime (srv cli : session) (o : order) (out : res (list Z * session * session))
  (* server setter -> MvTime payload; client handler; echo absorbed: payload, client, server *)
| CProxyHist (s0 : session) (h : list pop) (k : Z) (r0 : session) (sp : split) (out : bobs) (rd : robs)
| CScript (stop : bool) (srv cli : session) (es : list entry) (out : res (option (list Z) * session * session))
  (* real task.Script through the client's muxHandleScript, SvResync through receiveSingle, result through handle *)
| CDirect (srv cli : session) (e : entry) (out : res (option (list Z) * session * session))
  (* one real task through muxHandleInternal and handleInfoResult *)
| CSites (writes reads : list (site * kexpr))
| CMigrate (old new0 : session) (localm : machine) (srv : session) (out : res (session * list pdata * session))
| CWindow (c : session) (pre win : list (bool * keys)) (new0 : session) (out : res (session * session))
| CServerProxies (k : Z) (before got after : list pdata).
  (* the server's Session.proxies before and after it absorbed a result of kind k that delivered got *)
  (* real key functions: forced re-key rolls before and inside the migration window; loaded session, old client *)
  (* a real in-process migration: MigrateProfile -> pipe -> LoadContext -> MvMigrate result -> server *)
  (* the call sites of writeDeviceInfo / readDeviceInfo found in the c2 sources of this run *)
  (* real proxy operations h on the client s0, then writeDeviceInfo(k): bytes, and what r0 reads back
     through a stream split sp *)

Definition addr_eqb (a b : addr) : bool := (a_hi a =? a_hi b) && (a_lo a =? a_lo b).
Definition dev_eqb (a b : netdev) : bool :=
  zlist_eqb (d_name a) (d_name b) && (d_mac a =? d_mac b) && list_eqb addr_eqb (d_addrs a) (d_addrs b).
Definition machine_eqb (a b : machine) : bool :=
  zlist_eqb (m_id a) (m_id b) && (m_system a =? m_system b) && (m_pid a =? m_pid b) && (m_ppid a =? m_ppid b) &&
  zlist_eqb (m_user a) (m_user b) && zlist_eqb (m_version a) (m_version b) && zlist_eqb (m_host a) (m_host b) &&
  (m_elev a =? m_elev b) && (m_caps a =? m_caps b) && list_eqb dev_eqb (m_net a) (m_net b).
Definition keys_eqb (a b : keys) : bool :=
  zlist_eqb (k_pub a) (k_pub b) && zlist_eqb (k_priv a) (k_priv b) && zlist_eqb (k_share a) (k_share b).
Definition pdata_eqb (a b : pdata) : bool :=
  zlist_eqb (pd_name a) (pd_name b) && zlist_eqb (pd_addr a) (pd_addr b) && zlist_eqb (pd_prof a) (pd_prof b).
(* the receiver-side observables: identity, device, the four settings, keys *)
Definition session_eqb (a b : session) : bool :=
  zlist_eqb (s_id a) (s_id b) && machine_eqb (s_dev a) (s_dev b) && settings_eqb a b && keys_eqb (s_keys a) (s_keys b).

Definition robs_of {S} (left : S -> Z) (r : res (session * list pdata * S)) : robs :=
  match r with Ok (x, st) => Ok (x, left st) | Err _ => Err 1 | Panic => Panic end.
Definition robs_eqb (a b : robs) : bool :=
  res_eqb (fun x y => session_eqb (fst (fst x)) (fst (fst y)) && list_eqb pdata_eqb (snd (fst x)) (snd (fst y)) &&
                      (snd x =? snd y)) a b.
Definition tobs_eqb (a b : res (list Z * session * session)) : bool :=
  res_eqb (fun x y => zlist_eqb (fst (fst x)) (fst (fst y)) && settings_eqb (snd (fst x)) (snd (fst y)) &&
                      settings_eqb (snd x) (snd y))
          (match a with Err _ => Err 1 | x => x end) b.

Definition sobs_eqb (a b : res (option (list Z) * session * session)) : bool :=
  res_eqb (fun x y => option_eqb zlist_eqb (fst (fst x)) (fst (fst y)) && session_eqb (snd (fst x)) (snd (fst y)) &&
                      session_eqb (snd x) (snd y))
          (match a with Err _ => Err 1 | x => x end) b.
Definition sk_eqb (a b : site * kexpr) : bool := site_eqb (fst a) (fst b) && kexpr_eqb (snd a) (snd b).
Definition check (c : case) : bool :=
  match c with
  | CWrite k s out => bobs_ok out (write_info k s)
  | CRoundFlat k s r0 rest out =>
    robs_eqb (robs_of len (read_info flat_ops k r0 (write_info k s ++ rest))) out
  | CRoundStream k s r0 rest sp out =>
    robs_eqb (robs_of src_len (read_info stream_ops k r0 (split_bytes sp (write_info k s ++ rest)))) out
  | CReadFlat k r0 input out => robs_eqb (robs_of len (read_info flat_ops k r0 input)) out
  | CReadStream k r0 input out => robs_eqb (robs_of src_len (read_info stream_ops k r0 input)) out
  | CTime srv cli o out => tobs_eqb (exchange srv cli o) out
  | CScript stop srv cli es out => sobs_eqb (script_exchange stop srv cli es) out
  | CDirect srv cli e out => sobs_eqb (direct_exchange srv cli e) out
  | CMigrate old new0 localm srv out =>
    res_eqb (fun x y => session_eqb (fst (fst x)) (fst (fst y)) && list_eqb pdata_eqb (snd (fst x)) (snd (fst y)) &&
                        session_eqb (snd x) (snd y))
            (match migrate_exchange old new0 localm srv with Err _ => Err 1 | x => x end) out
  | CWindow c pre win new0 out =>
    res_eqb (fun x y => session_eqb (fst x) (fst y) && session_eqb (snd x) (snd y))
            (match window_exchange c pre win new0 with Err _ => Err 1 | x => x end) out
  | CServerProxies k before got after => list_eqb pdata_eqb (server_proxy_view k before got) after
  | CSites ws rs =>
    list_eqb sk_eqb ws (map (fun p => (pr_site p, pr_kind p)) producers) && list_eqb sk_eqb rs consumers
  | CProxyHist s0 h k r0 sp out rd =>
    let s' := run_pops s0 h in
    bobs_ok out (write_info k s') &&
    robs_eqb (robs_of src_len (read_info stream_ops k r0 (split_bytes sp (write_info k s')))) rd
  end.
