(* Model/Chunk.v -- C11: data.Chunk, the packet buffer (data/chunk.go, chunk_base.go,
   chunk_writer.go, chunk_reader.go, error.go).  Definitions only.

   A Chunk is {buf []byte; rpos int; Limit int}.  The model keeps the WHOLE backing array:
     mem   = the array behind buf (|mem| = cap(buf)),   buf = take blen mem,
     isnil = (buf == nil)   (make([]byte, n, 64) on the first growth; Read resets only a non-nil buffer),
   so that the bytes a reslice or a slide exposes are determined (stale contents of mem, zeros
   after an allocation).  Every Go index / slice expression goes through a bound check
   (set_len, slice, idx, put): a Go run-time panic is Panic.  The capacity the allocator
   really returns for a reallocation is an input (the oracle, observed through the shim);
   the model uses max(request, oracle), i.e. it quantifies over every capacity >= request.

   The model follows the REPAIRED code (fix: commits in /repo, see notes/C11.md):
     - WriteBytes reserves header+payload with ONE checkWriteSize,
     - the slide branch of grow clamps the extension to the Limit,
     - Read on an empty Chunk is io.EOF also when the buffer was never written. *)
From XMT Require Import Base.Prelude Model.Codec.

(* error codes: EOF, ErrUnexpectedEOF, ErrInvalidType, ErrTooLarge, ErrLimit, ErrShortWrite come
   from Model.Codec (1..6) *)
Definition ErrInvalidIndex : Z := 7.
Definition ErrWhence : Z := 8.      (* xerr.Sub("invalid whence", 0x27) *)
Definition ErrSink : Z := 90.       (* the error of the harness' io.Writer (WriteTo) *)
Definition ErrFuel : Z := 77.       (* model-only: loop fuel exhausted; proved unreachable *)
Definition bufSize : Z := 16384.
Definition max_int : Z := 9223372036854775807.

Record state := St { mem : list Z; blen : Z; rpos : Z; limit : Z; isnil : bool }.

Definition cap (s : state) : Z := len (mem s).
Definition buf (s : state) : list Z := take (blen s) (mem s).
Definition with_len (s : state) (l : Z) : state := St (mem s) l (rpos s) (limit s) (isnil s).
Definition with_rpos (s : state) (r : Z) : state := St (mem s) (blen s) r (limit s) (isnil s).
Definition with_mem (s : state) (m : list Z) : state := St m (blen s) (rpos s) (limit s) (isnil s).

(* c.buf = c.buf[:k]   (Go checks 0 <= k <= cap) *)
Definition set_len (s : state) (k : Z) : res state :=
  if (k <? 0) || (cap s <? k) then Panic else Ok (with_len s k).

(* the array after storing d at index i (callers check i + |d| <= blen first) *)
Definition overwrite (m : list Z) (i : Z) (d : list Z) : list Z :=
  take i m ++ d ++ drop (i + len d) m.

(* ---- observers (chunk.go, chunk_base.go) ---------------------------------------------- *)
Definition size (s : state) : Z := blen s.
Definition empty (s : state) : bool := blen s <=? rpos s.
Definition remaining (s : state) : Z := if empty s then 0 else blen s - rpos s.
Definition space (s : state) : Z :=
  if limit s <=? 0 then -1 else if 0 <? limit s - blen s then limit s - blen s else 0.
Definition available (s : state) (n : Z) : bool := (limit s <=? 0) || (n <? limit s - blen s).
Definition payload (s : state) : res (list Z) :=
  if empty s || (blen s <? rpos s) then Ok []
  else do _ <- idx (buf s) (blen s - 1); slice (buf s) (rpos s) (blen s).

(* ---- reslice / grow / quickSlice (chunk.go) -------------------------------------------- *)
Definition reslice (s : state) (n : Z) : res (option (state * Z)) :=
  let l := blen s in
  if n <=? cap s - l then
    if (0 <? limit s) && (limit s <=? l) then Ok None
    else
      let n' := if (0 <? limit s) && (limit s <=? l + n) then limit s - l else n in
      do s' <- set_len s (l + n'); Ok (Some (s', l))
  else Ok None.

(* grow returns (state, (index, error code)); error code 0 = nil.  o = oracle capacity.
   grow_body is the part of grow after the "empty but read cursor not at 0" reset; x = len - rpos
   as computed on entry. *)
Definition grow_body (s1 : state) (x n o : Z) : res (state * (Z * Z)) :=
  let lim := limit s1 in
  if (0 <? lim) && (lim <=? x) then Ok (s1, (0, ErrLimit)) else
  let n := if (0 <? lim) && (lim <? n) then lim else n in
  do r <- reslice s1 n;
  match r with
  | Some (s2, i) => Ok (s2, (i, 0))
  | None =>
    if isnil s1 && (n <=? 64) then
      (* c.buf = make([]byte, n, 64) *)
      if n <? 0 then Panic else Ok (St (repeat 0 64%nat) n (rpos s1) lim false, (0, 0))
    else
      let m := cap s1 in
      if n <=? m / 2 - x then
        (* slide: copy(c.buf, c.buf[c.rpos:]) *)
        do src <- slice (buf s1) (rpos s1) (blen s1);
        let s2 := with_mem s1 (overwrite (mem s1) 0 src) in
        let n := if (0 <? lim) && (lim <? x + n) then lim - x else n in     (* repaired: clamp *)
        do s3 <- set_len (with_rpos s2 0) (x + n); Ok (s3, (x, 0))
      else if (0 <? lim) && ((lim + n <? m) || (lim <? x + n)) then Ok (s1, (0, ErrLimit))
      else if max_int - m - n <? m then Ok (s1, (0, ErrTooLarge))
      else
        (* trySlice(c.buf[c.rpos:], c.rpos+n) *)
        do b <- slice (buf s1) (rpos s1) (blen s1);
        let n2 := rpos s1 + n in
        if MaxSlice <? n2 then Ok (s1, (0, ErrTooLarge)) else
        let cb := cap s1 - rpos s1 in
        let c := if len b + n2 <? 2 * cb then 2 * cb else len b + n2 in
        let nc := Z.max c o in
        let s2 := St (b ++ repeat 0 (Z.to_nat (nc - len b))) (len b) 0 lim false in
        do s3 <- set_len s2 (x + n); Ok (s3, (x, 0))
  end.

Definition grow (s : state) (n : Z) (o : Z) : res (state * (Z * Z)) :=
  let x := blen s - rpos s in
  do s1 <- (if (x =? 0) && negb (rpos s =? 0) then set_len (with_rpos s 0) 0 else Ok s);
  grow_body s1 x n o.

Definition quick_slice (s : state) (n : Z) (o : Z) : res (state * (Z * Z)) :=
  do r <- reslice s n;
  match r with
  | Some (s', m) => Ok (s', (m, 0))
  | None => grow s n o
  end.

(* n := copy(c.buf[i:], b) *)
Definition copy_at (s : state) (i : Z) (b : list Z) : res (state * Z) :=
  do dst <- slice (buf s) i (blen s);
  let n := Z.min (len dst) (len b) in
  Ok (with_mem s (overwrite (mem s) i (take n b)), n).

(* ---- Write (chunk_base.go) -------------------------------------------------------------- *)
Definition write (s : state) (b : list Z) (o : Z) : res (state * (Z * Z)) :=
  do '(s1, (m, e)) <- quick_slice s (len b) o;
  if negb (e =? 0) then Ok (s1, (0, e)) else
  do '(s2, n) <- copy_at s1 m b;
  if (n <? len b) && (0 <? limit s2) && (limit s2 <=? blen s2) then Ok (s2, (n, ErrLimit))
  else Ok (s2, (n, 0)).

(* ---- typed writes (chunk_writer.go) ------------------------------------------------------ *)
Definition check_write_size (s : state) (n : Z) (o : Z) : res (state * (Z * Z)) :=
  if (0 <? limit s) && negb (available s n) then Ok (s, (-1, ErrLimit)) else
  do '(s1, (i, e)) <- quick_slice s n o;
  if (i =? 0) && negb (e =? 0) then Ok (s1, (-1, e))
  else if (limit s1 <=? 0) && (blen s1 <? i + n) then Ok (s1, (-1, ErrShortWrite))
  else Ok (s1, (i, e)).

(* bound-checked stores c.buf[i], c.buf[i+1], ... = bs *)
Definition put (s : state) (i : Z) (bs : list Z) : res state :=
  if is_nil bs then Ok s
  else if (i <? 0) || (blen s <? i + len bs) then Panic
  else Ok (with_mem s (overwrite (mem s) i bs)).

(* WriteUint8/16/32/64 (and the Int, Bool, Float wrappers): bs = big-endian bytes *)
Definition write_fixed (s : state) (bs : list Z) (o : Z) : res (state * Z) :=
  do '(s1, (i, e)) <- check_write_size s (len bs) o;
  if i =? -1 then Ok (s1, e) else
  do s2 <- put s1 i bs; Ok (s2, e).

(* WriteBytes / WriteString, repaired: one reservation for header and payload *)
Definition write_bytes (s : state) (b : list Z) (o : Z) : res (state * Z) :=
  let l := len b in
  if l =? 0 then write_fixed s [0] o else
  let hdr := enc_prefix l in
  do '(s1, (i, e)) <- check_write_size s (len hdr + l) o;
  if i =? -1 then Ok (s1, e) else
  do _ <- idx (buf s1) (i + len hdr + l - 1);
  do s2 <- put s1 i hdr;
  do '(s3, n) <- copy_at s2 (i + len hdr) b;
  if negb (n =? l) then Ok (s3, ErrShortWrite) else Ok (s3, e).

Definition be_bytes (w v : Z) : list Z :=
  if w =? 1 then enc_u8 v else if w =? 2 then enc_u16 v else if w =? 4 then enc_u32 v else enc_u64 v.

(* WriteUint8Pos/16/32/64Pos, WriteBoolPos *)
Definition write_pos (s : state) (w p v : Z) : res (state * Z) :=
  if (blen s <=? p) || (blen s <=? p + (w - 1)) then Ok (s, EOF)
  else if (0 <? limit s) && ((limit s <=? p) || (limit s <=? p + (w - 1))) then Ok (s, ErrLimit)
  else do s1 <- put s p (be_bytes w v); Ok (s1, 0).

(* ---- reads (chunk_base.go, chunk_reader.go) ------------------------------------------- *)
Definition read (s : state) (n : Z) : res (state * (list Z * Z)) :=
  if empty s then
    (* repaired: EOF also when the buffer was never written; Reset only when buf != nil *)
    do s1 <- (if isnil s then Ok s else set_len (with_rpos s 0) 0);
    if n =? 0 then Ok (s1, ([], 0)) else Ok (s1, ([], EOF))
  else
    do src <- slice (buf s) (rpos s) (blen s);
    let k := Z.min n (len src) in
    Ok (with_rpos s (rpos s + k), (take k src, 0)).

(* Uint8/16/32/64 *)
Definition read_fixed (s : state) (w : Z) : res (state * (Z * Z)) :=
  if blen s <? rpos s + w then Ok (s, (0, EOF)) else
  do _ <- idx (buf s) (rpos s + w - 1);
  do bs <- slice (buf s) (rpos s) (rpos s + w);
  Ok (with_rpos s (rpos s + w), (of_be bs 0, 0)).

Definition tag_width (t : Z) : Z :=
  if (t =? 1) || (t =? 2) then 1 else if (t =? 3) || (t =? 4) then 2
  else if (t =? 5) || (t =? 6) then 4 else if (t =? 7) || (t =? 8) then 8 else 0.

Definition read_bytes (s : state) : res (state * (list Z * Z)) :=
  do '(s1, (t, e)) <- read_fixed s 1;
  if negb (e =? 0) then Ok (s1, ([], e)) else
  if t =? 0 then Ok (s1, ([], 0)) else
  let w := tag_width t in
  if w =? 0 then Ok (s1, ([], ErrInvalidType)) else
  do '(s2, (l, e2)) <- read_fixed s1 w;
  if negb (e2 =? 0) then Ok (s2, ([], e2)) else
  if l =? 0 then Ok (s2, ([], ErrUnexpectedEOF)) else
  if MaxSlice <? l then Ok (s2, ([], ErrTooLarge)) else
  if blen s2 <? rpos s2 + l then
    do d <- slice (buf s2) (rpos s2) (blen s2); Ok (with_rpos s2 (blen s2), (d, EOF))
  else
    do d <- slice (buf s2) (rpos s2) (rpos s2 + l); Ok (with_rpos s2 (rpos s2 + l), (d, 0)).

(* ---- Seek / Truncate / Grow / Reset / Clear ------------------------------------------------ *)
Definition seek (s : state) (o w : Z) : state * (Z * Z) :=
  let bad := (s, (0, ErrInvalidIndex)) in
  let go o1 := if (o1 <? 0) || (blen s <? o1) then bad else (with_rpos s o1, (o1, 0)) in
  if w =? 0 then (if o <? 0 then bad else go o)
  else if w =? 1 then go (i64 (o + rpos s))
  else if w =? 2 then go (i64 (o + blen s))
  else (s, (0, ErrWhence)).

Definition reset (s : state) : res state := set_len (with_rpos s 0) 0.
Definition clear (s : state) : state := St [] 0 0 (limit s) true.

Definition truncate (s : state) (n : Z) : res (state * Z) :=
  if n =? 0 then do s1 <- reset s; Ok (s1, 0)
  else if (n <? 0) || (blen s - rpos s <? n) then Ok (s, ErrInvalidIndex)
  else do s1 <- set_len s (rpos s + n); Ok (s1, 0).

Definition grow_op (s : state) (n : Z) (o : Z) : res (state * Z) :=
  if n <=? 0 then Ok (s, ErrInvalidIndex) else
  do '(s1, (m, e)) <- grow s n o;
  if negb (e =? 0) then Ok (s1, e) else
  do s2 <- set_len s1 m; Ok (s2, 0).

(* ---- WriteTo: the io.Writer accepts `budget` bytes in total, then fails with ErrSink --------- *)
(* returns (n, err, lengths of the slices handed to the writer, bytes the writer accepted) *)
Fixpoint write_to_loop (fuel : nat) (s : state) (n sI eI budget : Z) (lens got : list Z)
  : res (Z * Z * list Z * list Z) :=
  match fuel with
  | O => Err ErrFuel
  | S f =>
    if negb (n <? blen s) then Ok (n, 0, lens, got) else
    let eI := if blen s <? eI then blen s else eI in
    if sI =? eI then Ok (n, 0, lens, got) else
    do p <- slice (buf s) sI eI;
    let '(v, err, budget') :=
      if len p <=? budget then (len p, 0, budget - len p) else (Z.max budget 0, ErrSink, 0) in
    let n := n + v in
    let got := got ++ take v p in
    let lens := lens ++ [len p] in
    if negb (err =? 0) then Ok (n, err, lens, got)
    else write_to_loop f s n eI (eI + v) budget' lens got
  end.

Definition write_to (s : state) (budget : Z) : res (state * (Z * Z * list Z * list Z)) :=
  if empty s then Ok (s, (0, 0, [], [])) else
  do '(n, e, lens, got) <- write_to_loop (S (Z.to_nat (blen s - rpos s))) s 0 (rpos s) (rpos s + bufSize) budget [] [];
  Ok (with_rpos s (rpos s + n), (n, e, lens, got)).

(* ---- ReadFrom: `reads` = what the successive r.Read calls return: (bytes, error code, the
   capacity oracle for the Write of these bytes).  An exhausted list reads as (0, EOF). ---- *)
Fixpoint read_from_loop (reads : list (list Z * Z * Z)) (s : state) (t : Z) (reqs : list Z)
  : res (state * (Z * Z * list Z)) :=
  let lim := limit s in
  if (0 <? lim) && (space s <=? 0) then Ok (s, (t, 0, reqs)) else
  let x := if 0 <? lim then Z.min (space s) bufSize else bufSize in
  let reqs := reqs ++ [x] in
  match reads with
  | [] => Ok (s, (t, 0, reqs))
  | (d, e, o) :: rest =>
    let n := len d in
    if bufSize <? n then Panic else        (* slicing the 16 KiB pool buffer to n *)
    do '(s1, (t1, e2)) <-
       (if 0 <? n then
          do '(s1, (w, e2)) <- write s d o;
          Ok (s1, (t + (if w <? n then w else n), e2))
        else Ok (s, (t, 0)));
    if negb (e2 =? 0) then Ok (s1, (t1, e, reqs))
    else if (n =? 0) || negb (e =? 0) || ((0 <? lim) && (lim <=? n)) then
      Ok (s1, (t1, (if (e =? EOF) || (e =? ErrLimit) then 0 else e), reqs))
    else read_from_loop rest s1 t1 reqs
  end.

(* ---- operations ---------------------------------------------------------------------------- *)
Inductive op :=
| OWrite (b : list Z)
| OWriteFixed (w v : Z)          (* WriteUint8/16/32/64 and wrappers; w = 1, 2, 4, 8 *)
| OWriteBytes (b : list Z)       (* WriteBytes, WriteString *)
| OWritePos (w p v : Z)
| ORead (n : Z)
| OReadFixed (w : Z)             (* Uint8/16/32/64 and wrappers *)
| OBytes                         (* Bytes, StringVal *)
| OSeek (o w : Z)
| OTruncate (n : Z)
| OGrow (n : Z)
| OReset
| OClear
| OWriteTo (budget : Z)
| OReadFrom (reads : list (list Z * Z * Z))
| OUnmarshal (r : option (list Z)) (e : Z)   (* UnmarshalStream(rd): what rd.ReadBytes returned: Some bytes | None and error e *)
| OMarshal.                                  (* MarshalStream(w) into a Writer that accepts everything *)

Inductive ret :=
| RNone
| RErr (e : Z)
| RNE (n e : Z)
| RVal (v e : Z)
| RData (d : list Z) (e : Z)
| RWriteTo (n e : Z) (lens got : list Z)
| RReadFrom (n e : Z) (reqs : list Z).

(* UnmarshalStream (chunk.go): c.buf = nil; err := r.ReadBytes(&c.buf); c.rpos = 0.  ReadBytes stores
   only on success (nil for the empty class); o = the capacity of the slice the reader made. *)
Definition unmarshal (s : state) (r : option (list Z)) (o : Z) : state :=
  match r with
  | Some b => if is_nil b then St [] 0 0 (limit s) true
              else St (b ++ repeat 0 (Z.to_nat (Z.max (len b) o - len b))) (len b) 0 (limit s) false
  | None => St [] 0 0 (limit s) true
  end.

Definition step (s : state) (o : op) (orc : Z) : res (state * ret) :=
  match o with
  | OWrite b => do '(s', (n, e)) <- write s b orc; Ok (s', RNE n e)
  | OWriteFixed w v => do '(s', e) <- write_fixed s (be_bytes w v) orc; Ok (s', RErr e)
  | OWriteBytes b => do '(s', e) <- write_bytes s b orc; Ok (s', RErr e)
  | OWritePos w p v => do '(s', e) <- write_pos s w p v; Ok (s', RErr e)
  | ORead n => do '(s', (d, e)) <- read s n; Ok (s', RData d e)
  | OReadFixed w => do '(s', (v, e)) <- read_fixed s w; Ok (s', RVal v e)
  | OBytes => do '(s', (d, e)) <- read_bytes s; Ok (s', RData d e)
  | OSeek o w => let '(s', (n, e)) := seek s o w in Ok (s', RNE n e)
  | OTruncate n => do '(s', e) <- truncate s n; Ok (s', RErr e)
  | OGrow n => do '(s', e) <- grow_op s n orc; Ok (s', RErr e)
  | OReset => do s' <- reset s; Ok (s', RNone)
  | OClear => Ok (clear s, RNone)
  | OWriteTo b => do '(s', (n, e, lens, got)) <- write_to s b; Ok (s', RWriteTo n e lens got)
  | OReadFrom rs => do '(s', (n, e, reqs)) <- read_from_loop rs s 0 []; Ok (s', RReadFrom n e reqs)
  | OUnmarshal r e => Ok (unmarshal s r orc, RErr (match r with Some _ => 0 | None => e end))
  | OMarshal => do d <- slice (buf s) (rpos s) (blen s); Ok (s, RData (enc_bytes d) 0)
  end.

(* a whole history: ops with their oracles *)
Fixpoint run (s : state) (l : list (op * Z)) : res (state * list ret) :=
  match l with
  | [] => Ok (s, [])
  | (o, orc) :: r =>
    do '(s1, x) <- step s o orc;
    do '(s2, xs) <- run s1 r;
    Ok (s2, x :: xs)
  end.

(* ---- the specification side: the plain byte queue ---------------------------------------------- *)
(* what a reader may still see *)
Definition abs (s : state) : list Z := drop (rpos s) (buf s).
(* bytes already read that the buffer still retains (Seek can re-expose them) *)
Definition past (s : state) : list Z := take (rpos s) (buf s).

Definition byte_list (l : list Z) : Prop := Forall (fun x => 0 <= x < 256) l.

Definition inv (s : state) : Prop :=
  0 <= rpos s /\ rpos s <= blen s /\ blen s <= len (mem s) /\ (isnil s = true -> mem s = []) /\
  byte_list (mem s).
Definition lim_ok (s : state) : Prop := 0 < limit s -> blen s <= limit s.

(* arguments a caller may pass: byte slices hold bytes, lengths are lengths, widths are 1/2/4/8,
   positions are non-negative (a negative index panics in Go like any negative index), a reader
   returns at most the 16 KiB it was offered *)
Definition width_ok (w : Z) : Prop := w = 1 \/ w = 2 \/ w = 4 \/ w = 8.
Definition op_ok (o : op) : Prop :=
  match o with
  | OWrite b => byte_list b
  | OWriteFixed w _ => width_ok w
  | OWriteBytes b => byte_list b
  | OWritePos w p _ => width_ok w /\ 0 <= p
  | ORead n => 0 <= n
  | OReadFixed w => width_ok w
  | OReadFrom rs => Forall (fun r => len (fst (fst r)) <= bufSize /\ byte_list (fst (fst r))) rs
  | OUnmarshal (Some b) _ => byte_list b
  | _ => True
  end.
(* UnmarshalStream replaces the buffer by what the stream holds and does not look at the Limit *)
Definition is_unmarshal (o : op) : bool := match o with OUnmarshal _ _ => true | _ => false end.

Definition is_write (o : op) : bool :=
  match o with OWrite _ | OWriteFixed _ _ | OWriteBytes _ | OReadFrom _ => true | _ => false end.
Definition is_read (o : op) : bool :=
  match o with ORead _ | OReadFixed _ | OBytes | OWriteTo _ => true | _ => false end.
(* reads that hand the raw bytes to the caller *)
Definition is_raw_read (o : op) : bool :=
  match o with ORead _ | OWriteTo _ => true | _ => false end.

(* everything the readers of a ReadFrom hand out, in order *)
Definition all_data (rs : list (list Z * Z * Z)) : list Z := concat (map (fun r => fst (fst r)) rs).

(* the bytes an operation appended to the queue, by its arguments and its return value *)
Definition accepted (o : op) (r : ret) : list Z :=
  match o, r with
  | OWrite b, RNE n _ => take n b
  | OWriteFixed w v, RErr e => if e =? 0 then be_bytes w v else []
  | OWriteBytes b, RErr e => if e =? 0 then enc_bytes b else []
  | OReadFrom rs, RReadFrom n _ _ => take n (all_data rs)
  | _, _ => []
  end.
(* the raw bytes an operation handed to its caller *)
Definition delivered (o : op) (r : ret) : list Z :=
  match o, r with
  | ORead _, RData d _ => d
  | OWriteTo _, RWriteTo _ _ _ got => got
  | _, _ => []
  end.

(* a is what is left of b after dropping a front part *)
Definition suffix_of (a b : list Z) : Prop := exists c, b = c ++ a.

(* errors a write may report: none, the limit error (only with a limit), too large *)
Definition wr_err (lim e : Z) : Prop := e = 0 \/ (e = ErrLimit /\ 0 < lim) \/ e = ErrTooLarge.

(* Seek: the target position from the cursor np and the size nb *)
Definition seek_pos (np nb off wh : Z) : option Z :=
  if wh =? 0 then (if off <? 0 then None else Some off)
  else if wh =? 1 then Some (i64 (off + np))
  else if wh =? 2 then Some (i64 (off + nb))
  else None.

(* THE SPECIFICATION: one step of the plain byte queue.  q = the unread bytes, p = the bytes
   already read that are still retained (only Seek and the positional writes can see them);
   lim = the Limit.  qstep lim p q o r p' q' says: operation o returning r takes the queue from
   (p, q) to (p', q').  Every return value is determined by (p, q) except the number of bytes a
   write accepts and how much of p is retained. *)
Definition qstep (lim : Z) (p q : list Z) (o : op) (r : ret) (p' q' : list Z) : Prop :=
  match o, r with
  | OWrite b, RNE n e =>
      0 <= n <= len b /\ q' = q ++ take n b /\ suffix_of p' p /\ wr_err lim e /\
      (e = 0 -> n = len b) /\ (e <> 0 -> n < len b \/ b = [])
  | OWriteFixed w v, RErr e =>
      wr_err lim e /\ q' = (if e =? 0 then q ++ be_bytes w v else q) /\ suffix_of p' p
  | OWriteBytes b, RErr e =>
      wr_err lim e /\ q' = (if e =? 0 then q ++ enc_bytes b else q) /\ suffix_of p' p
  | OWritePos w pos v, RErr e =>
      if e =? 0 then pos + w <= len (p ++ q) /\ len p' = len p /\ p' ++ q' = overwrite (p ++ q) pos (be_bytes w v)
      else p' = p /\ q' = q /\ (e = EOF \/ e = ErrLimit)
  | ORead n, RData d e =>
      d = take n q /\ q' = drop n q /\ suffix_of p' (p ++ d) /\
      ((e = EOF /\ q = [] /\ n <> 0) \/ (e = 0 /\ (q <> [] \/ n = 0)))
  | OReadFixed w, RVal v e =>
      (e = 0 /\ rd_uN w q = Ok (v, q') /\ p' = p ++ take w q) \/
      (e = EOF /\ rd_uN w q = Err EOF /\ v = 0 /\ q' = q /\ p' = p)
  | OBytes, RData d e =>
      ((e = 0 /\ rd_bytes q = Ok (d, q')) \/ (e <> 0 /\ rd_bytes q = Err e)) /\
      suffix_of q' q /\ p' ++ q' = p ++ q
  | OSeek off wh, RNE n e =>
      match seek_pos (len p) (len (p ++ q)) off wh with
      | Some t => if (t <? 0) || (len (p ++ q) <? t)
                  then e = ErrInvalidIndex /\ n = 0 /\ p' = p /\ q' = q
                  else e = 0 /\ n = t /\ p' = take t (p ++ q) /\ q' = drop t (p ++ q)
      | None => (e = ErrInvalidIndex \/ e = ErrWhence) /\ n = 0 /\ p' = p /\ q' = q
      end
  | OTruncate n, RErr e =>
      if n =? 0 then e = 0 /\ q' = [] /\ p' = []
      else if (n <? 0) || (len q <? n) then e = ErrInvalidIndex /\ q' = q /\ p' = p
      else e = 0 /\ q' = take n q /\ p' = p
  | OGrow n, RErr e =>
      q' = q /\ suffix_of p' p /\ (if n <=? 0 then e = ErrInvalidIndex else wr_err lim e)
  | OReset, RNone => q' = [] /\ p' = []
  | OClear, RNone => q' = [] /\ p' = []
  | OWriteTo _, RWriteTo n e _ got =>
      0 <= n <= len q /\ got = take n q /\ q' = drop n q /\ p' = p ++ got /\
      (e = 0 \/ e = ErrSink) /\ (e = 0 -> n = len q)
  | OReadFrom rs, RReadFrom n e _ =>
      0 <= n <= len (all_data rs) /\ q' = q ++ take n (all_data rs) /\ suffix_of p' p
  | OUnmarshal r e, RErr e' =>
      p' = [] /\ match r with Some b => e' = 0 /\ q' = b | None => e' = e /\ q' = [] end
  | OMarshal, RData d e => e = 0 /\ d = enc_bytes q /\ q' = q /\ p' = p
  | _, _ => False
  end.

(* a history of the specification *)
Fixpoint qsteps (lim : Z) (p q : list Z) (l : list (op * ret)) (p' q' : list Z) : Prop :=
  match l with
  | [] => p' = p /\ q' = q
  | (o, r) :: l' => exists p1 q1, qstep lim p q o r p1 q1 /\ qsteps lim p1 q1 l' p' q'
  end.

Fixpoint accepted_all (l : list (op * ret)) : list Z :=
  match l with [] => [] | (o, r) :: l' => accepted o r ++ accepted_all l' end.
Fixpoint delivered_all (l : list (op * ret)) : list Z :=
  match l with [] => [] | (o, r) :: l' => delivered o r ++ delivered_all l' end.

(* the history of an implementation run: its operations paired with what they returned *)
Definition history (l : list (op * Z)) (rs : list ret) : list (op * ret) := combine (map fst l) rs.

(* ---- the test data generator and the digest used by the correspondence run --------------------- *)
Fixpoint genb (k : nat) (v : Z) : list Z :=
  match k with O => [] | S k' => v :: genb k' (if v =? 250 then 0 else v + 1) end.
(* byte i = (seed + i) mod 251 *)
Definition gen (seed n : Z) : list Z := genb (Z.to_nat n) (seed mod 251).

Definition digest (l : list Z) : Z :=
  let '(a, b) := fold_left (fun '(a, b) x => let a' := a + x + 1 in (a', b + a')) l (0, 0) in
  (a mod 65521) + 65536 * (b mod 65521).

(* ---- correspondence cases ------------------------------------------------------------------------ *)
(* DAny: the wrapper dropped the value (StringVal / ReadBytes on error) *)
Inductive dobs := DLit (l : list Z) | DSum (n h : Z) | DAny.
Definition dmatch (l : list Z) (d : dobs) : bool :=
  match d with
  | DLit l' => zlist_eqb l l'
  | DSum n h => (len l =? n) && (digest l =? h)
  | DAny => true
  end.

Inductive oret :=
| XNone
| XErr (e : Z)
| XNE (n e : Z)
| XVal (v e : Z)
| XData (d : dobs) (e : Z)
| XWriteTo (n e : Z) (lens : list Z) (got : dobs)
| XReadFrom (n e : Z) (reqs : list Z)
| XPanic.

Definition ret_match (r : ret) (x : oret) : bool :=
  match r, x with
  | RNone, XNone => true
  | RErr e, XErr e' => e =? e'
  | RNE n e, XNE n' e' => (n =? n') && (e =? e')
  | RVal v e, XVal v' e' => (v =? v') && (e =? e')
  | RData d e, XData d' e' => dmatch d d' && (e =? e')
  | RWriteTo n e l g, XWriteTo n' e' l' g' => (n =? n') && (e =? e') && zlist_eqb l l' && dmatch g g'
  | RReadFrom n e q, XReadFrom n' e' q' => (n =? n') && (e =? e') && zlist_eqb q q'
  | _, _ => false
  end.

(* what the harness observes after an operation: return value, Size, Remaining, Space, Empty,
   cap(buf) and buf == nil (through the shim), Payload *)
Inductive obs := Obs (r : oret) (osize orem ospace : Z) (oempty : bool) (ocap : Z) (onil : bool) (opay : dobs).

Definition obs_cap (o : obs) : Z := match o with Obs _ _ _ _ _ c _ _ => c end.
Definition obs_panic (o : obs) : bool := match o with Obs XPanic _ _ _ _ _ _ _ => true | _ => false end.

Definition obs_match (s : state) (r : ret) (o : obs) : bool :=
  match o with
  | Obs x sz rm sp em cp nl py =>
    ret_match r x && (size s =? sz) && (remaining s =? rm) && (space s =? sp) && Bool.eqb (empty s) em
    && (cap s =? cp) && Bool.eqb (isnil s) nl
    && match payload s with Ok p => dmatch p py | _ => false end
  end.

Fixpoint run_check (s : state) (steps : list (op * obs)) : bool :=
  match steps with
  | [] => true
  | (o, ob) :: rest =>
    match step s o (obs_cap ob) with
    | Ok (s', r) => obs_match s' r ob && run_check s' rest
    | Panic => obs_panic ob && is_nil rest
    | Err _ => false
    end
  end.

Definition init_state (lim : Z) (init : option (list Z)) : state :=
  match init with
  | None => St [] 0 0 lim true
  | Some b => St b (len b) 0 lim false
  end.

(* one case = one history on a fresh Chunk{Limit: lim} (or NewChunk(init) with that Limit) *)
Inductive case := Case (lim : Z) (init : option (list Z)) (steps : list (op * obs)).

Definition check (c : case) : bool :=
  match c with Case lim init steps => run_check (init_state lim init) steps end.
