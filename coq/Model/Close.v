(* Model/Close.v -- C16: teardown of sessions, listeners and the server (definitions only).

   Source: c2/session.go (Close, close, listen, shutdown, Wake, queue), c2/vars.go (receiveSingle,
   case SvShutdown), c2/server.go (listen, shutdown, Close, Remove), c2/listener.go (listen,
   Close), c2/types.go (eventer.listen), c2/state.go (the Closing/SendClosed/... predicates).

   A goroutine is a program counter [pc]; [exec] gives the effect of ONE atomic step of the
   thread standing at that pc on the shared [world]: one sync/atomic call on the state word,
   one critical section of Session.lock / Server.lock, or one channel operation.  Unlocked
   test-then-act pairs are two steps.  Closing a closed channel and sending on a closed
   channel are faults (a Go run-time panic).  [run] interleaves any pool of threads along any
   schedule (a list of thread indices).

   [ver] selects the step list: [Old] is the tree before the five C16 repairs that the model covers
     (1) shutdown closed s.ch after Unlock and without a flag (two shutdowns => double close);
     (2) the eventer loop never noticed its closed channel (spins for ever);
     (3) Wake / queue: a send that loses the race against shutdown's close panicked
         (now recovered: the send is dropped, as if the flag test had seen the close);
     (4) the final exchange of a closing client ran on the base context unless that was
         already cancelled at the check: a cancel arriving later aborted the Connect and the
         shutdown notice was never sent (now: always on its own 10 s context);
     (5) Server.Remove tested IsActive and then sent on delSession without a lock, Server.shutdown
         closes delSession: the send hit a closed channel (now recovered like (3));
   [New] is the repaired tree: no fault is reachable any more (channels_closed_once). *)
From XMT Require Import Base.Prelude.

Inductive chan := Nil | Open | Closed.
Definition chan_eqb (a b : chan) : bool :=
  match a, b with Nil, Nil | Open, Open | Closed, Closed => true | _, _ => false end.
Definition is_closed (c : chan) : bool := chan_eqb c Closed.

Inductive cname := NSend | NWake | NRecv | NDone | NMux | NDelS | NDelL | NSrvNew | NSrvEvents | NSrvDone | NLsnDone.
Inductive fault := DoubleClose (c : cname) | CloseNil (c : cname) | SendOnClosed (c : cname) | NilSocket.
Definition is_send_fault (f : fault) : bool := match f with SendOnClosed _ => true | _ => false end.

Inductive ver := Old | New.
Definition mode := ver.
Definition is_new (m : mode) : bool := match m with New => true | Old => false end.

(* One session (either end).  The booleans are the bits of the state word that matter for
   closing; state.Set/Unset are taken as atomic (C13). *)
Record sess := Sess {
  closing : bool; shutdown_ : bool; closed : bool; sendc : bool; wakec : bool; recvc : bool;
  canrecv : bool; shutwait : bool; channel : bool;
  send : chan; wake : chan; recv : chan; done : chan; mux : chan;
  peek : bool;      (* s.peek holds an SvShutdown packet *)
  waketok : bool;   (* the one-slot wake channel holds a token *)
  lock : bool       (* Session.lock is held *)
}.

(* the derived predicates of state.go *)
Definition Closing (s : sess) : bool := closed s || closing s.
Definition Shutdown (s : sess) : bool := closed s || shutdown_ s.
Definition SendClosed (s : sess) : bool := closed s || sendc s.
Definition WakeClosed (s : sess) : bool := closed s || wakec s.
Definition RecvClosed (s : sess) : bool := closed s || recvc s.
Definition CanRecv (s : sess) : bool := negb (closed s) && negb (RecvClosed s) && canrecv s.

Record world := World {
  cli : sess; srv : sess;
  listed : bool;        (* Server.sessions holds the server-side session *)
  delq : nat;           (* entries waiting in Server.delSession *)
  ctxdone : bool;       (* the client's context is cancelled *)
  reach : bool;         (* the client can reach the server *)
  c2s : nat;            (* SvShutdown packets delivered to the server, not yet taken by a handler *)
  callsback : bool;     (* the client performs ordinary exchanges on its own (finite sleep) *)
  sent_shut : bool;     (* the client's last transmission carried SvShutdown *)
  cl_started : bool; ce_started : bool; lt_started : bool;   (* ghost: one goroutine each *)
  (* listener *)
  l_closing : bool; l_closed : bool; l_wakec : bool; l_done : chan; sock_closed : bool; lctx_done : bool;
  (* server *)
  run_ : nat;           (* Server.run: 0 not started, 1 loop running, 2 shut down *)
  sctx_done : bool; active : nat; dellq : nat;
  sv_new : chan; sv_dell : chan; sv_dels : chan; sv_events : chan; sv_done : chan;
  (* Listener.Replace: stateReplacing, l.listener == nil, Listener.lock held *)
  l_repl : bool; l_nil : bool; l_rlock : bool
}.

Inductive side := Cli | Srv.
Definition get (d : side) (w : world) : sess := match d with Cli => cli w | Srv => srv w end.
Definition put (d : side) (s : sess) (w : world) : world :=
  match d with
  | Cli => World s (srv w) (listed w) (delq w) (ctxdone w) (reach w) (c2s w) (callsback w) (sent_shut w)
             (cl_started w) (ce_started w) (lt_started w) (l_closing w) (l_closed w) (l_wakec w) (l_done w)
             (sock_closed w) (lctx_done w) (run_ w) (sctx_done w) (active w) (dellq w) (sv_new w) (sv_dell w)
             (sv_dels w) (sv_events w) (sv_done w) (l_repl w) (l_nil w) (l_rlock w)
  | Srv => World (cli w) s (listed w) (delq w) (ctxdone w) (reach w) (c2s w) (callsback w) (sent_shut w)
             (cl_started w) (ce_started w) (lt_started w) (l_closing w) (l_closed w) (l_wakec w) (l_done w)
             (sock_closed w) (lctx_done w) (run_ w) (sctx_done w) (active w) (dellq w) (sv_new w) (sv_dell w)
             (sv_dels w) (sv_events w) (sv_done w) (l_repl w) (l_nil w) (l_rlock w)
  end.

(* field updates of a session *)
Definition set_closing (s : sess) := Sess true (shutdown_ s) (closed s) (sendc s) (wakec s) (recvc s) (canrecv s) (shutwait s) (channel s) (send s) (wake s) (recv s) (done s) (mux s) (peek s) (waketok s) (lock s).
Definition set_shutdown (s : sess) := Sess (closing s) true (closed s) (sendc s) (wakec s) (recvc s) (canrecv s) (shutwait s) (channel s) (send s) (wake s) (recv s) (done s) (mux s) (peek s) (waketok s) (lock s).
Definition set_shutwait (s : sess) := Sess (closing s) (shutdown_ s) (closed s) (sendc s) (wakec s) (recvc s) (canrecv s) true (channel s) (send s) (wake s) (recv s) (done s) (mux s) (peek s) (waketok s) (lock s).
Definition unset_channel (s : sess) := Sess (closing s) (shutdown_ s) (closed s) (sendc s) (wakec s) (recvc s) (canrecv s) (shutwait s) false (send s) (wake s) (recv s) (done s) (mux s) (peek s) (waketok s) (lock s).
Definition set_peek (b : bool) (s : sess) := Sess (closing s) (shutdown_ s) (closed s) (sendc s) (wakec s) (recvc s) (canrecv s) (shutwait s) (channel s) (send s) (wake s) (recv s) (done s) (mux s) b (waketok s) (lock s).
Definition set_waketok (s : sess) := Sess (closing s) (shutdown_ s) (closed s) (sendc s) (wakec s) (recvc s) (canrecv s) (shutwait s) (channel s) (send s) (wake s) (recv s) (done s) (mux s) (peek s) true (lock s).
Definition set_lock (b : bool) (s : sess) := Sess (closing s) (shutdown_ s) (closed s) (sendc s) (wakec s) (recvc s) (canrecv s) (shutwait s) (channel s) (send s) (wake s) (recv s) (done s) (mux s) (peek s) (waketok s) b.
Definition set_done (c : chan) (s : sess) := Sess (closing s) (shutdown_ s) (closed s) (sendc s) (wakec s) (recvc s) (canrecv s) (shutwait s) (channel s) (send s) (wake s) (recv s) c (mux s) (peek s) (waketok s) (lock s).
Definition set_mux (c : chan) (s : sess) := Sess (closing s) (shutdown_ s) (closed s) (sendc s) (wakec s) (recvc s) (canrecv s) (shutwait s) (channel s) (send s) (wake s) (recv s) (done s) c (peek s) (waketok s) (lock s).

(* field updates of the world (everything that is not a session) *)
Definition upd_misc (w : world) (li : bool) (dq : nat) (cx rc : bool) (cs : nat) (sc ss : bool) : world :=
  World (cli w) (srv w) li dq cx rc cs sc ss (cl_started w) (ce_started w) (lt_started w) (l_closing w) (l_closed w)
        (l_wakec w) (l_done w) (sock_closed w) (lctx_done w) (run_ w) (sctx_done w) (active w) (dellq w) (sv_new w)
        (sv_dell w) (sv_dels w) (sv_events w) (sv_done w) (l_repl w) (l_nil w) (l_rlock w).
Definition set_listed b w := upd_misc w b (delq w) (ctxdone w) (reach w) (c2s w) (callsback w) (sent_shut w).
Definition set_delq n w := upd_misc w (listed w) n (ctxdone w) (reach w) (c2s w) (callsback w) (sent_shut w).
Definition set_ctxdone w := upd_misc w (listed w) (delq w) true (reach w) (c2s w) (callsback w) (sent_shut w).
Definition set_c2s n w := upd_misc w (listed w) (delq w) (ctxdone w) (reach w) n (callsback w) (sent_shut w).
Definition set_sent b w := upd_misc w (listed w) (delq w) (ctxdone w) (reach w) (c2s w) (callsback w) b.
Definition upd_ghost (w : world) (a b c : bool) : world :=
  World (cli w) (srv w) (listed w) (delq w) (ctxdone w) (reach w) (c2s w) (callsback w) (sent_shut w) a b c (l_closing w)
        (l_closed w) (l_wakec w) (l_done w) (sock_closed w) (lctx_done w) (run_ w) (sctx_done w) (active w) (dellq w)
        (sv_new w) (sv_dell w) (sv_dels w) (sv_events w) (sv_done w) (l_repl w) (l_nil w) (l_rlock w).
Definition upd_lsn (w : world) (lc ld lw : bool) (ch : chan) (sk lx : bool) : world :=
  World (cli w) (srv w) (listed w) (delq w) (ctxdone w) (reach w) (c2s w) (callsback w) (sent_shut w) (cl_started w)
        (ce_started w) (lt_started w) lc ld lw ch sk lx (run_ w) (sctx_done w) (active w) (dellq w) (sv_new w)
        (sv_dell w) (sv_dels w) (sv_events w) (sv_done w) (l_repl w) (l_nil w) (l_rlock w).
Definition upd_srv (w : world) (r : nat) (sx : bool) (ac dl : nat) (c1 c2 c3 c4 c5 : chan) : world :=
  World (cli w) (srv w) (listed w) (delq w) (ctxdone w) (reach w) (c2s w) (callsback w) (sent_shut w) (cl_started w)
        (ce_started w) (lt_started w) (l_closing w) (l_closed w) (l_wakec w) (l_done w) (sock_closed w) (lctx_done w)
        r sx ac dl c1 c2 c3 c4 c5 (l_repl w) (l_nil w) (l_rlock w).

Definition upd_repl (w : world) (r n k : bool) : world :=
  World (cli w) (srv w) (listed w) (delq w) (ctxdone w) (reach w) (c2s w) (callsback w) (sent_shut w) (cl_started w)
        (ce_started w) (lt_started w) (l_closing w) (l_closed w) (l_wakec w) (l_done w) (sock_closed w) (lctx_done w)
        (run_ w) (sctx_done w) (active w) (dellq w) (sv_new w) (sv_dell w) (sv_dels w) (sv_events w) (sv_done w) r n k.

(* where a nested call returns to *)
Inductive ret := RDone | RSrvShut2 (r : ret2) | RSrvShut3 (r : ret2) | RRepl
with ret2 := R2Done | R2SvcWait.

Inductive pc :=
| PDone
(* (s *Session).close(w) on a client session: Session.Close is close(true) *)
| CC0 (w : bool) | CC1 (w : bool) | CC2 (w : bool) | CC3 (w : bool) | CC4 (w : bool) | CC5
(* the client's listen goroutine *)
| CLs | CL0 | CR0 | CR1 | CR2 | CR3 | CR4 | CR5 | CL1 | CL2 | CL3 | CL4 | CL4o
(* the client's eventer goroutine; context cancellation *)
| CEs | CE0 | CX
(* (s *Session).shutdown() on either side; x = "Closed was already set" *)
| SD0 (d : side) (r : ret) | SD1 (d : side) (r : ret) (x : bool) | SD2 (d : side) (r : ret) (x : bool)
| SD3 (d : side) (r : ret) (x : bool) | SD4 (d : side) (r : ret)
(* Session.Close on a server-side session; Server.Remove(id, true) *)
| SC0 (r : ret) | SC1 (r : ret) | SC2 (r : ret) | SC3 (r : ret) | SC4 (r : ret) | SC5 (r : ret) | SC6 (r : ret)
| SR0 | SR1
(* a handler goroutine running receiveSingle(s, SvShutdown) on the server; g = waits for a delivered packet *)
| SH0 (g : bool) | SH1 | SH2 | SH3 | SH4 | SH5 | SH6 | SH7 | SH8 | SH9
(* Server.listen loop, Server.shutdown, Server.Close *)
| SLs | SL0 | SS0 (r : ret2) | SS1 (r : ret2) | SS2 (r : ret2) | SS3 (r : ret2) | SS4 (r : ret2) | SS5 (r : ret2)
| SS6 (r : ret2) | SS7 (r : ret2) | SS8 (r : ret2) | SS9 (r : ret2)
| SV0 | SV1 | SV2
(* Listener.Close, Listener.listen *)
| LC0 (r : ret) | LC1 (r : ret) | LC2 (r : ret) | LC3 (r : ret) | LC4 (r : ret)
| LTs | LT0 | LT1 | LT2 | LT3 | LT4
(* Listener.Replace(addr, p); ok = the new address can be bound *)
| LR0 (ok : bool) | LR1 (ok : bool) | LR2 (ok : bool) | LR3 (ok : bool) | LR4 | LR5.

Inductive outcome := Step (w : world) (p : pc) | Blocked | Fault (f : fault).

Definition ret2_pc (r : ret2) : pc := match r with R2Done => PDone | R2SvcWait => SV2 end.
Definition ret_pc (r : ret) : pc :=
  match r with RDone => PDone | RSrvShut2 r2 => SS2 r2 | RSrvShut3 r2 => SS3 r2 | RRepl => LR5 end.

Definition close_chan (n : cname) (c : chan) : res chan :=
  match c with Open => Ok Closed | Closed => Err 1 | Nil => Err 2 end.
(* close of a closed channel: Err 1, of a nil channel: Err 2 *)
Definition close_fault (n : cname) (c : chan) : option fault :=
  match c with Open => None | Closed => Some (DoubleClose n) | Nil => Some (CloseNil n) end.

Definition reachable (w : world) : bool := reach w && negb (sock_closed w).
Definition server_active (w : world) : bool := negb (is_closed (sv_done w)) && negb (sctx_done w).

(* the critical section of shutdown(): Lock ... Set(stateClosed) *)
Definition shutdown_section (s : sess) : sess + fault :=
  let snd := negb (SendClosed s) in
  let wk := negb (chan_eqb (wake s) Nil) && negb (WakeClosed s) in
  let rc := negb (chan_eqb (recv s) Nil) && negb (CanRecv s) && negb (RecvClosed s) in
  match (if snd then close_fault NSend (send s) else None),
        (if wk then close_fault NWake (wake s) else None),
        (if rc then close_fault NRecv (recv s) else None) with
  | Some f, _, _ => inr f
  | _, Some f, _ => inr f
  | _, _, Some f => inr f
  | None, None, None =>
      inl (Sess (closing s) (shutdown_ s) true (sendc s || snd) (wakec s || wk) (recvc s || rc) (canrecv s)
                (shutwait s) (channel s)
                (if snd then Closed else send s) (if wk then Closed else wake s) (if rc then Closed else recv s)
                (done s) (mux s) (peek s) (waketok s && negb wk) true)
  end.

Definition exec (m : mode) (p : pc) (w : world) : outcome :=
  let c := cli w in let v := srv w in
  match p with
  | PDone => Blocked
  (* ---- client close(w) --------------------------------------------------------------- *)
  | CC0 b => Step w (if Closing c then PDone else CC1 b)                      (* if s.state.Closing() return *)
  | CC1 b => Step (put Cli (unset_channel c) w) (CC2 b)                        (* Unset x3 (channel bits) *)
  | CC2 b => Step (put Cli (set_closing c) w) (CC3 b)                          (* Set(stateClosing) *)
  | CC3 b =>                                                                   (* Wake(): test WakeClosed *)
      if WakeClosed c then Step w (if b then CC5 else PDone) else Step w (CC4 b)
  | CC4 b =>                                                                   (* select { case s.wake <- wake: default: } *)
      if is_closed (wake c) then
        (if is_new m then Step w (if b then CC5 else PDone) else Fault (SendOnClosed NWake))
      else Step (put Cli (set_waketok c) w) (if b then CC5 else PDone)
  | CC5 => if is_closed (done c) then Step w PDone else Blocked                (* <-s.ch *)
  (* ---- client listen goroutine --------------------------------------------------------- *)
  | CLs => if cl_started w then Step w PDone
           else Step (upd_ghost w true (ce_started w) (lt_started w)) CL0
  | CL0 =>
      if Closing c then Step w CL1
      else if ctxdone w then Step (put Cli (set_closing c) w) CL0              (* wait(): case <-s.ctx.Done() *)
      else if callsback w then
        if reachable w then
          (if peek v then Step (put Srv (set_peek false v) w) CR0              (* an ordinary exchange; the reply is s.peek = SvShutdown *)
           else Blocked)
        else Step w (SD0 Cli RDone)                                            (* errors > maxErrors: break; shutdown() *)
      else Blocked
  | CR0 => Step w (if Closing c then CL0 else CR1)                             (* receiveSingle: if Closing return *)
  | CR1 => Step w (if Closing c then CL0 else CR2)                             (* close(false): if Closing return *)
  | CR2 => Step (put Cli (unset_channel c) w) CR3
  | CR3 => Step (put Cli (set_closing c) w) CR4
  | CR4 => if WakeClosed c then Step w CL0 else Step w CR5
  | CR5 => if is_closed (wake c) then (if is_new m then Step w CL0 else Fault (SendOnClosed NWake))
           else Step (put Cli (set_waketok c) w) CL0
  | CL1 => Step (put Cli (set_peek true c) w) CL2                              (* s.peek = SvShutdown *)
  | CL2 => Step (put Cli (set_shutdown c) w) CL3                               (* Set(stateShutdown) *)
  | CL3 =>                                                                     (* Unset x3; the context for the last exchange *)
      Step (put Cli (unset_channel c) w) (if is_new m then CL4 else if ctxdone w then CL4 else CL4o)
  | CL4 =>                                                                     (* Connect + session(): the last exchange *)
      if reachable w then
        Step (set_sent (peek c) (set_c2s (if peek c then S (c2s w) else c2s w) (put Cli (set_peek false c) w))) (SD0 Cli RDone)
      else Step w (SD0 Cli RDone)
  | CL4o =>                                                                    (* old: the last exchange on the base context *)
      if ctxdone w then Step w (SD0 Cli RDone)                                 (* Connect: context canceled; Closing => break *)
      else if reachable w then
        Step (set_sent (peek c) (set_c2s (if peek c then S (c2s w) else c2s w) (put Cli (set_peek false c) w))) (SD0 Cli RDone)
      else Step w (SD0 Cli RDone)
  (* ---- client eventer goroutine, context --------------------------------------------------- *)
  | CEs => if ce_started w then Step w PDone
           else Step (upd_ghost w (cl_started w) true (lt_started w)) CE0
  | CE0 =>
      if ctxdone w then Step w (CC0 true)                                      (* case <-ctx.Done(): s.Close(); return *)
      else if is_closed (mux c) then Step w (if is_new m then PDone else CE0)  (* receive on the closed channel *)
      else Blocked
  | CX => Step (set_ctxdone w) PDone
  (* ---- shutdown() ------------------------------------------------------------------------ *)
  | SD0 d r =>
      let s := get d w in
      if lock s then Blocked else
      match shutdown_section s with
      | inr f => Fault f
      | inl s' => Step (put d s' w) (match d with Cli => SD3 d r (closed s) | Srv => SD1 d r (closed s) end)
      end
  | SD1 d r x =>                                                               (* s.s.Remove(s.ID, false): IsActive *)
      Step w (if server_active w then SD2 d r x else SD3 d r x)
  | SD2 d r x =>                                                               (* s.delSession <- hash *)
      if is_closed (sv_dels w) then (if is_new m then Step w (SD3 d r x) else Fault (SendOnClosed NDelS))
      else Step (set_delq (S (delq w)) w) (SD3 d r x)
  | SD3 d r x =>                                                               (* s.m.close(); [close(s.ch)]; Unlock *)
      let s := get d w in
      match (match d with Cli => close_fault NMux (mux s) | Srv => None end) with
      | Some f => Fault f
      | None =>
          let s1 := match d with Cli => set_mux Closed s | Srv => s end in
          if is_new m then
            if x then Step (put d (set_lock false s1) w) (ret_pc r)
            else match close_fault NDone (done s1) with
                 | Some f => Fault f
                 | None => Step (put d (set_lock false (set_done Closed s1)) w) (ret_pc r)
                 end
          else Step (put d (set_lock false s1) w) (SD4 d r)
      end
  | SD4 d r =>                                                                 (* old: close(s.ch) after Unlock *)
      let s := get d w in
      match close_fault NDone (done s) with
      | Some f => Fault f
      | None => Step (put d (set_done Closed s) w) (ret_pc r)
      end
  (* ---- server-side Session.Close -------------------------------------------------------------- *)
  | SC0 r => Step w (if Closing v then ret_pc r else SC1 r)
  | SC1 r => Step w (if shutwait v then SC5 r else SC2 r)                      (* !IsClient && !ShutdownWait *)
  | SC2 r => Step (put Srv (set_peek true v) w) (SC3 r)                        (* s.peek = SvShutdown *)
  | SC3 r => Step w (SC4 r)                                                    (* drain s.send *)
  | SC4 r => Step (put Srv (unset_channel v) w) (ret_pc r)
  | SC5 r => Step (put Srv (unset_channel v) w) (SC6 r)
  | SC6 r => Step (put Srv (set_closing v) w) (SD0 Srv r)
  | SR0 => Step w (if server_active w then SR1 else PDone)
  | SR1 => Step w (if listed w then SC0 RDone else PDone)
  (* ---- server handler: receiveSingle(SvShutdown) ---------------------------------------------- *)
  | SH0 g =>
      if g then match c2s w with O => Blocked | S n => Step (set_c2s n w) SH1 end
      else Step w SH1
  | SH1 => Step w (if Closing v || SendClosed v then SH4 else SH2)             (* write(): Closing || SendClosed *)
  | SH2 => Step w (if SendClosed v then SH4 else SH3)                          (* queue(): SendClosed *)
  | SH3 =>                                                                     (* s.send <- ack *)
      if is_closed (send v) then (if is_new m then Step w SH4 else Fault (SendOnClosed NSend)) else Step w SH4
  | SH4 => Step w (if server_active w then SH5 else SH6)                       (* Remove(id, false): IsActive *)
  | SH5 => if is_closed (sv_dels w) then (if is_new m then Step w SH6 else Fault (SendOnClosed NDelS))
           else Step (set_delq (S (delq w)) w) SH6
  | SH6 => Step (put Srv (set_shutwait v) w) SH7
  | SH7 => Step w (if Closing v then PDone else SH8)
  | SH8 => Step (put Srv (unset_channel v) w) SH9
  | SH9 => Step (put Srv (set_closing v) w) (SD0 Srv RDone)
  (* ---- Server.listen, Server.shutdown, Server.Close --------------------------------------------- *)
  | SLs =>
      match run_ w with
      | O => Step (upd_srv w 1 (sctx_done w) (active w) (dellq w) (sv_new w) (sv_dell w) (sv_dels w) (sv_events w) (sv_done w)) SL0
      | _ => Step w PDone
      end
  | SL0 =>
      if sctx_done w then Step w (SS0 R2Done)
      else match delq w with
           | S n => Step (set_listed false (set_delq n w)) SL0
           | O => Blocked
           end
  | SS0 r =>                                                                   (* s.cancel() *)
      Step (upd_lsn (upd_srv w (run_ w) true (active w) (dellq w) (sv_new w) (sv_dell w) (sv_dels w) (sv_events w) (sv_done w))
                    (l_closing w) (l_closed w) (l_wakec w) (l_done w) (sock_closed w) true) (SS1 r)
  | SS1 r => Step w (if listed w then SC0 (RSrvShut2 r) else SS2 r)            (* for sessions: v.Close() *)
  | SS2 r => Step w (match active w with O => SS3 r | _ => LC0 (RSrvShut3 r) end)   (* for listeners: v.Close() *)
  | SS3 r =>                                                                   (* take the listeners' names from delListener: the model
                                                                                  counts them; the tree (3e67085) empties the channel after every
                                                                                  Listener.Close returned, the same from world0, where the listener
                                                                                  is registered before it can send its name *)
      match active w with
      | O => Step w (SS4 r)
      | S a => match dellq w with
               | O => Blocked
               | S q => Step (upd_srv w (run_ w) (sctx_done w) a q (sv_new w) (sv_dell w) (sv_dels w) (sv_events w) (sv_done w)) (SS3 r)
               end
      end
  | SS4 r =>                                                                   (* SwapUint32(&s.run, 2) == 2 *)
      let w' := upd_srv w 2 (sctx_done w) (active w) (dellq w) (sv_new w) (sv_dell w) (sv_dels w) (sv_events w) (sv_done w) in
      Step w' (match run_ w with S (S _) => ret2_pc r | _ => SS5 r end)
  | SS5 r => match close_fault NSrvNew (sv_new w) with Some f => Fault f | None =>
               Step (upd_srv w (run_ w) (sctx_done w) (active w) (dellq w) Closed (sv_dell w) (sv_dels w) (sv_events w) (sv_done w)) (SS6 r) end
  | SS6 r => match close_fault NDelL (sv_dell w) with Some f => Fault f | None =>
               Step (upd_srv w (run_ w) (sctx_done w) (active w) (dellq w) (sv_new w) Closed (sv_dels w) (sv_events w) (sv_done w)) (SS7 r) end
  | SS7 r => match close_fault NDelS (sv_dels w) with Some f => Fault f | None =>
               Step (upd_srv w (run_ w) (sctx_done w) (active w) (dellq w) (sv_new w) (sv_dell w) Closed (sv_events w) (sv_done w)) (SS8 r) end
  | SS8 r => match close_fault NSrvEvents (sv_events w) with Some f => Fault f | None =>
               Step (upd_srv w (run_ w) (sctx_done w) (active w) (dellq w) (sv_new w) (sv_dell w) (sv_dels w) Closed (sv_done w)) (SS9 r) end
  | SS9 r => match close_fault NSrvDone (sv_done w) with Some f => Fault f | None =>
               Step (upd_srv w (run_ w) (sctx_done w) (active w) (dellq w) (sv_new w) (sv_dell w) (sv_dels w) (sv_events w) Closed) (ret2_pc r) end
  | SV0 =>
      Step (upd_lsn (upd_srv w (run_ w) true (active w) (dellq w) (sv_new w) (sv_dell w) (sv_dels w) (sv_events w) (sv_done w))
                    (l_closing w) (l_closed w) (l_wakec w) (l_done w) (sock_closed w) true) SV1
  | SV1 => Step w (match run_ w with O => SS0 R2SvcWait | _ => SV2 end)
  | SV2 => if is_closed (sv_done w) then Step w PDone else Blocked
  (* ---- Listener.Close, Listener.listen ------------------------------------------------------------ *)
  | LC0 r => Step w (if l_closed w then ret_pc r else LC1 r)
  | LC1 r => Step (upd_lsn w true (l_closed w) (l_wakec w) (l_done w) (sock_closed w) (lctx_done w)) (LC2 r)
  | LC2 r => Step (upd_lsn w (l_closing w) (l_closed w) (l_wakec w) (l_done w) (sock_closed w) true) (LC3 r)
  | LC3 r =>                                                                   (* if !Replacing { l.listener.Close() } *)
      if l_repl w then Step w (LC4 r)
      else if l_nil w then Fault NilSocket
      else Step (upd_lsn w (l_closing w) (l_closed w) (l_wakec w) (l_done w) true (lctx_done w)) (LC4 r)
  | LC4 r => if is_closed (l_done w) then Step w (ret_pc r) else Blocked
  | LTs => if lt_started w then Step w PDone
           else Step (upd_ghost w (cl_started w) (ce_started w) true) LT0
  | LT0 =>                                                                     (* the guards in the order of the code: *)
      if lctx_done w && negb (l_closing w) then                                (* select <-ctx.Done(): Set(stateClosing) *)
        Step (upd_lsn w true (l_closed w) (l_wakec w) (l_done w) (sock_closed w) (lctx_done w)) LT0
      else if l_closed w || l_closing w then Step w LT1                        (* if Closing() break *)
      else if l_nil w then Blocked                                             (* v := l.listener; v == nil: nap 30 ms, continue (fab1fe0:
                                                                                  the socket is read once, before it was tested for nil together
                                                                                  with Replacing and read again for Accept) *)
      else Blocked                                                             (* in v.Accept() (an error while Replacing: continue) *)
  | LT1 => Step (upd_lsn w (l_closing w) (l_closed w) true (l_done w) (sock_closed w) true) LT2
  | LT2 =>                                                                     (* if l.listener != nil { l.listener.Close() } *)
      Step (if l_nil w then w else upd_lsn w (l_closing w) (l_closed w) (l_wakec w) (l_done w) true (lctx_done w)) LT3
  | LT3 =>                                                                     (* l.s.delListener <- l.name *)
      if is_closed (sv_dell w) then Fault (SendOnClosed NDelL)
      else Step (upd_srv w (run_ w) (sctx_done w) (active w) (S (dellq w)) (sv_new w) (sv_dell w) (sv_dels w) (sv_events w) (sv_done w)) LT4
  (* ---- Listener.Replace (serialised by Listener.lock) ------------------------------------------------ *)
  | LR0 b => if l_rlock w then Blocked else Step (upd_repl w (l_repl w) (l_nil w) true) (LR1 b)
  | LR1 b => Step (upd_repl w true (l_nil w) (l_rlock w)) (LR2 b)             (* Set(stateReplacing) *)
  | LR2 b =>                                                                   (* if l.listener != nil { Close() }; l.listener = nil *)
      let w1 := if l_nil w then w else upd_lsn w (l_closing w) (l_closed w) (l_wakec w) (l_done w) true (lctx_done w) in
      Step (upd_repl w1 (l_repl w1) true (l_rlock w1)) (LR3 b)
  | LR3 b =>                                                                   (* p.Listen(l.ctx, h): fails on a taken address (a canceled
                                                                                  context does not stop a TCP bind: observed) *)
      if b then Step (upd_repl w (l_repl w) false (l_rlock w)) LR4
      else Step w (LC0 RRepl)                                                  (* l.Close(); return err *)
  | LR4 => Step (upd_repl w false (l_nil w) (l_rlock w)) LR5                   (* Unset(stateReplacing) *)
  | LR5 => Step (upd_repl w (l_repl w) (l_nil w) false) PDone                  (* Unlock *)
  | LT4 =>                                                                     (* Set(stateClosed); close(l.ch) *)
      match close_fault NLsnDone (l_done w) with
      | Some f => Fault f
      | None => Step (upd_lsn w (l_closing w) true (l_wakec w) Closed (sock_closed w) (lctx_done w)) PDone
      end
  end.

(* ---- interleaving ----------------------------------------------------------------------------- *)
Fixpoint set_nth {A} (n : nat) (x : A) (l : list A) : list A :=
  match l, n with
  | [], _ => []
  | _ :: t, O => x :: t
  | h :: t, S k => h :: set_nth k x t
  end.

Inductive rstate := Running (pool : list pc) (w : world) | Faulted (f : fault) (by_thread : nat).

(* one scheduling decision: thread i takes a step if it can *)
Definition sched1 (m : mode) (i : nat) (pool : list pc) (w : world) : rstate :=
  match nth_error pool i with
  | None => Running pool w
  | Some p =>
      match exec m p w with
      | Step w' p' => Running (set_nth i p' pool) w'
      | Blocked => Running pool w
      | Fault f => Faulted f i
      end
  end.

Fixpoint run (m : mode) (sched : list nat) (pool : list pc) (w : world) : rstate :=
  match sched with
  | [] => Running pool w
  | i :: rest =>
      match sched1 m i pool w with
      | Running pool' w' => run m rest pool' w'
      | Faulted f t => Faulted f t
      end
  end.

(* ---- initial worlds ------------------------------------------------------------------------------ *)
Definition fresh_client (packets chan_mode : bool) : sess :=
  Sess false false false false false false packets false chan_mode
       Open Open (if packets then Open else Nil) Open Open false false false.
Definition fresh_server_side (packets chan_mode : bool) : sess :=
  Sess false false false false false false packets false chan_mode
       Open Open (if packets then Open else Nil) Open Nil false false false.

(* a registered pair: listener running, server loop running, both goroutines of the client started *)
Definition world0 (cpk spk chm rch cbk : bool) : world :=
  World (fresh_client cpk chm) (fresh_server_side spk chm) true 0 false rch 0 cbk false
        true true true false false false Open false false 1 false 1 0 Open Open Open Open Open false false false.

(* ---- correspondence -------------------------------------------------------------------------------- *)
(* round-robin: every thread gets one turn per round *)
Fixpoint rr (n : nat) : list nat := match n with O => [] | S k => rr k ++ [k] end.
Fixpoint repeat_sched (rounds : nat) (r : list nat) : list nat :=
  match rounds with O => [] | S k => r ++ repeat_sched k r end.

(* ---- Server.shutdown with n Listeners ------------------------------------------------------------- *)
(* The model above has one Listener.  What depends on their number is the hand-over of the
   Listeners' names: every Listener sends its name on delListener (capacity 16) when it stops
   and only then closes l.ch; Server.shutdown cancels the context (all Listeners start to
   stop), waits for every Listener's l.ch and empties delListener.  [Old]: it only emptied
   the channel after all the waits; [New] (4272f77): it takes names off the channel while it
   waits.  Thread 0 is Server.shutdown, thread k+1 is Listener k. *)
Inductive lph := LRun | LSend | LEnd.   (* accepting; stopping, about to send its name; l.ch closed *)
Record ns := NS { ns_cancel : bool; ns_ls : list lph; ns_buf : nat; ns_sp : nat; ns_fin : bool }.
Definition ns_cap : nat := 16.
Definition ns_init (n : nat) : ns := NS false (repeat LRun n) 0 0 false.
Definition ns_step (m : ver) (t : nat) (s : ns) : option ns :=
  match t with
  | O =>
      if ns_fin s then None
      else if negb (ns_cancel s) then Some (NS true (ns_ls s) (ns_buf s) (ns_sp s) false)      (* s.cancel() *)
      else match nth_error (ns_ls s) (ns_sp s) with
           | None => Some (NS true (ns_ls s) 0 (ns_sp s) true)            (* all waited for: empty delListener, close the channels *)
           | Some LEnd => Some (NS true (ns_ls s) (ns_buf s) (S (ns_sp s)) false)              (* <-v.ch *)
           | Some _ =>
               if is_new m then
                 match ns_buf s with
                 | S b => Some (NS true (ns_ls s) b (ns_sp s) false)      (* case <-s.delListener *)
                 | O => None
                 end
               else None                                                  (* old: v.Close() just waits *)
           end
  | S k =>
      match nth_error (ns_ls s) k with
      | Some LRun => if ns_cancel s then Some (NS (ns_cancel s) (set_nth k LSend (ns_ls s)) (ns_buf s) (ns_sp s) (ns_fin s)) else None
      | Some LSend =>
          if Nat.ltb (ns_buf s) ns_cap
          then Some (NS (ns_cancel s) (set_nth k LEnd (ns_ls s)) (S (ns_buf s)) (ns_sp s) (ns_fin s))   (* l.s.delListener <- l.name; close(l.ch) *)
          else None
      | _ => None
      end
  end.
Definition ns_do (m : ver) (t : nat) (s : ns) : ns := match ns_step m t s with Some s' => s' | None => s end.
Fixpoint ns_run (m : ver) (sched : list nat) (s : ns) : ns :=
  match sched with [] => s | t :: r => ns_run m r (ns_do m t s) end.
Definition lw (p : lph) : nat := match p with LRun => 3 | LSend => 2 | LEnd => 0 end.
Fixpoint sumw (l : list lph) : nat := match l with [] => O | p :: t => (lw p + sumw t)%nat end.
(* bounds the number of steps that are still possible *)
Definition ns_mu (s : ns) : nat :=
  ((if ns_fin s then 0 else 1 + (if ns_cancel s then 0 else 1) + (length (ns_ls s) - ns_sp s)) +
   ns_buf s + sumw (ns_ls s))%nat.
Definition ns_threads (n : nat) : list nat := seq 0 (S n).
Definition ns_fair (n : nat) : list nat := repeat_sched (ns_mu (ns_init n)) (ns_threads n).
Definition ns_stuck (m : ver) (s : ns) : bool :=
  negb (ns_fin s) && forallb (fun t => match ns_step m t s with None => true | Some _ => false end)
                             (ns_threads (length (ns_ls s))).

Definition pc_of_code (c : Z) : pc :=
  match c with
  | 1 => CC0 true | 2 => CC0 false | 3 => CX | 4 => SC0 RDone | 5 => SR0 | 6 => SH0 true | 7 => SH0 false
  | 9 => SV0 | 10 => LC0 RDone | 11 => CL0 | 12 => CE0 | 13 => SL0 | 14 => LT0 | 20 => LR0 true | 21 => LR0 false
  | _ => PDone
  end.
(* the goroutines that exist for a registered pair: client listen + eventer, server loop,
   listener, and the handler that serves a delivered SvShutdown *)
Definition service : list Z := [11; 12; 13; 14; 6].

Definition b2z (b : bool) : Z := if b then 1 else 0.
Definition chan_code (c : chan) : Z := match c with Nil => 0 | Open => 1 | Closed => 2 end.
(* observable projection of a session: the closing bits and the four channels *)
Definition obs_sess (s : sess) : list Z :=
  [b2z (closing s); b2z (shutdown_ s); b2z (closed s); b2z (sendc s); b2z (wakec s); b2z (recvc s); b2z (shutwait s);
   chan_code (send s); chan_code (wake s); chan_code (recv s); chan_code (done s)].
Definition live (p : option pc) : Z := match p with Some PDone | None => 0 | Some _ => 1 end.
(* the service goroutines come first in the pool: index 0 = client listen, 1 = client eventer *)
Definition obs_world (pool : list pc) (w : world) : list Z :=
  obs_sess (cli w) ++ obs_sess (srv w) ++
  [b2z (listed w); b2z (l_closed w); chan_code (l_done w); chan_code (sv_done w);
   live (nth_error pool 0%nat) + live (nth_error pool 1%nat)].
Definition quiescent_pc (p : pc) : bool :=
  match p with PDone => true | _ => false end.

(* the step list the tree is at *)
Definition tree_mode : mode := New.

(* A case: the initial protocol state (Packets() called on the client / on the server-side
   session, channel mode, network reachable, client calls back by itself), the calls that were
   issued, phase by phase (codes, see pc_of_code; the calls of one phase run concurrently, a
   phase starts when the previous one is quiescent), and what the harness observed on the
   implementation at the end: panicked?, every call returned?, the projection of the final
   state (the last element is the number of goroutines of the client session still alive). *)
Inductive case :=
| CRun (cpk spk chm rch cbk : bool) (phases : list (list Z)) (o_panic : bool) (o_returned : bool) (o_final : list Z)
(* racing groups through the real receiveSingle / Session.Close on a server-side session that
   was listed without a network: the calls of one group, did any group panic, was every session
   closed, released and unlisted afterwards *)
| CStress (calls : list Z) (o_panic : bool) (o_all_closed : bool)
(* a history of Listener.Close (10) / Replace to a free (20) or taken (21) address / Server.Close (9):
   panicked?, every call returned?, [l closed; l.ch; server ch; Replacing bit; socket nil] at the end *)
| CLsn (phases : list (list Z)) (o_panic : bool) (o_returned : bool) (o_final : list Z)
(* a Server with n Listeners torn down by Server.Close / a context cancel: did it finish? *)
| CMulti (n : Z) (o_finished : bool).

Fixpoint run_phases (m : mode) (phases : list (list Z)) (pool : list pc) (w : world) : rstate :=
  match phases with
  | [] => Running pool w
  | ph :: rest =>
      let pool1 := pool ++ map pc_of_code ph in
      match run m (repeat_sched 60 (rr (length pool1))) pool1 w with
      | Running pool2 w2 => run_phases m rest pool2 w2
      | Faulted f t => Faulted f t
      end
  end.

Definition model_run (m : mode) (cpk spk chm rch cbk : bool) (phases : list (list Z)) : rstate :=
  run_phases m phases (map pc_of_code service) (world0 cpk spk chm rch cbk).

Definition check (c : case) : bool :=
  match c with
  | CRun cpk spk chm rch cbk phases o_panic o_returned o_final =>
      match model_run tree_mode cpk spk chm rch cbk phases with
      | Faulted _ _ => o_panic
      | Running pool w =>
          negb o_panic && Bool.eqb (forallb quiescent_pc (skipn (length service) pool)) o_returned
          && zlist_eqb (obs_world pool w) o_final
      end
  | CLsn phases o_panic o_returned o_final =>
      match model_run tree_mode false false false true false phases with
      | Faulted _ _ => o_panic
      | Running pool w =>
          negb o_panic && Bool.eqb (forallb quiescent_pc (skipn (length service) pool)) o_returned
          && zlist_eqb [b2z (l_closed w); chan_code (l_done w); chan_code (sv_done w); b2z (l_repl w); b2z (l_nil w)] o_final
      end
  | CMulti n o_finished =>
      Bool.eqb (ns_fin (ns_run tree_mode (ns_fair (Z.to_nat n)) (ns_init (Z.to_nat n)))) o_finished
  | CStress calls o_panic o_all_closed =>
      match model_run tree_mode false false false true false [calls] with
      | Faulted _ _ => o_panic
      | Running pool w =>
          negb o_panic &&
          Bool.eqb (closed (srv w) && is_closed (done (srv w)) && negb (listed w)) o_all_closed
      end
  end.

(* ---- vocabulary of the theorems (Proofs/Close.v, Props/C16.v) ------------------------------------ *)
(* the calls a program can issue at any moment, any number of times, from any thread:
   Session.Close on the client (waiting or not), cancelling the client's context, Session.Close on
   the server-side session, Server.Remove(id, true), a handler goroutine running
   receiveSingle(SvShutdown) (for a delivered packet or one a peer sends on its own),
   Server.Close, Listener.Close, and second starts of the per-object goroutines (no-ops) *)
Definition entry (p : pc) : bool :=
  match p with
  | CC0 _ | CX | SC0 RDone | SR0 | SH0 _ | SV0 | LC0 RDone | LR0 _ | CLs | CEs | LTs | SLs | PDone => true
  | _ => false
  end.
(* the goroutines of a registered pair come first: 0 = client listen, 1 = client eventer,
   2 = server loop, 3 = listener, 4 = the handler serving delivered SvShutdown packets *)
Definition service_pool : list pc := map pc_of_code service.
Definition pool0 (calls : list pc) : list pc := service_pool ++ calls.

Definition faulted (r : rstate) : bool := match r with Faulted _ _ => true | Running _ _ => false end.
(* the fault of repair (5) *)
Definition is_remove_race (f : fault) : bool := match f with SendOnClosed NDelS => true | _ => false end.

Fixpoint count_occ_nat (i : nat) (l : list nat) : nat :=
  match l with [] => O | x :: t => (if Nat.eqb x i then 1 else 0) + count_occ_nat i t end.

(* "closed is final": every closing bit only ever gets set, every channel only ever goes from
   open to closed (a nil channel stays nil), an unlisted session stays unlisted *)
Definition chan_le (a b : chan) : bool :=
  match a, b with Nil, Nil | Open, Open | Open, Closed | Closed, Closed => true | _, _ => false end.
Definition sess_le (s s' : sess) : bool :=
  implb (closing s) (closing s') && implb (shutdown_ s) (shutdown_ s') && implb (closed s) (closed s') &&
  implb (sendc s) (sendc s') && implb (wakec s) (wakec s') && implb (recvc s) (recvc s') &&
  implb (shutwait s) (shutwait s') &&
  chan_le (send s) (send s') && chan_le (wake s) (wake s') && chan_le (recv s) (recv s') &&
  chan_le (done s) (done s') && chan_le (mux s) (mux s').
Definition world_le (w w' : world) : bool :=
  sess_le (cli w) (cli w') && sess_le (srv w) (srv w') && implb (listed w') (listed w) &&
  implb (ctxdone w) (ctxdone w') && implb (sock_closed w) (sock_closed w') &&
  implb (l_closing w) (l_closing w') && implb (l_closed w) (l_closed w') && chan_le (l_done w) (l_done w') &&
  implb (sctx_done w) (sctx_done w') &&
  chan_le (sv_new w) (sv_new w') && chan_le (sv_dell w) (sv_dell w') && chan_le (sv_dels w) (sv_dels w') &&
  chan_le (sv_events w) (sv_events w') && chan_le (sv_done w) (sv_done w').

(* schedules of the regression witnesses *)
Fixpoint rep (n : nat) (i : nat) : list nat := match n with O => [] | S k => i :: rep k i end.
