(* Model/Codec.v -- C10: the typed binary codec (data/chunk_writer.go, data/chunk_reader.go,
   data/data_writer.go, data/data_reader.go, data/util.go).  Definitions only.

   Encoders are pure functions to byte lists (what either writer appends).  There are two
   reader models:
     - the FLAT reader over the remaining bytes (the in-memory Chunk: buf[rpos:]),
     - the STREAM reader over a list of chunks = the results of the successive Read calls of
       the underlying io.Reader (short reads), built from Read / io.ReadFull. *)
From XMT Require Import Base.Prelude.

Definition EOF : Z := 1.
Definition ErrUnexpectedEOF : Z := 2.
Definition ErrInvalidType : Z := 3.
Definition ErrTooLarge : Z := 4.
Definition ErrLimit : Z := 5.
Definition ErrShortWrite : Z := 6.
Definition ErrOther : Z := 99.

Definition LimitSmall : Z := 256.
Definition LimitMedium : Z := 65536.
Definition LimitLarge : Z := 4294967296.
Definition MaxSlice : Z := 4398046511104.

(* ---- values ------------------------------------------------------------- *)
Inductive ty :=
| TBool | TU8 | TU16 | TU32 | TU64 | TI8 | TI16 | TI32 | TI64 | TF32 | TF64
| TBytes | TString | TStrList.

(* integers are carried as their mathematical value (signed for TI8..TI64), floats as bit patterns *)
Inductive value :=
| VBool (b : bool)
| VInt (t : ty) (v : Z)
| VBytes (t : ty) (b : list Z)        (* TBytes or TString *)
| VStrList (l : list (list Z)).

(* ---- encoders ------------------------------------------------------------ *)
Definition enc_u8 (v : Z) : list Z := [u8 v].
Definition enc_u16 (v : Z) : list Z := be16 v.
Definition enc_u32 (v : Z) : list Z := be32 v.
Definition enc_u64 (v : Z) : list Z := be64 v.
Definition enc_bool (b : bool) : list Z := [if b then 1 else 0].

(* length prefix: class byte 0 | 1,len8 | 3,len16 | 5,len32 | 7,len64 *)
Definition enc_prefix (l : Z) : list Z :=
  if l =? 0 then [0]
  else if l <? LimitSmall then [1; u8 l]
  else if l <? LimitMedium then 3 :: be16 l
  else if l <? LimitLarge then 5 :: be32 l
  else 7 :: be64 l.

Definition enc_bytes (b : list Z) : list Z := enc_prefix (len b) ++ b.
Definition enc_strlist (l : list (list Z)) : list Z := enc_prefix (len l) ++ concat (map enc_bytes l).

Definition width (t : ty) : Z :=
  match t with
  | TBool | TU8 | TI8 => 1 | TU16 | TI16 => 2 | TU32 | TI32 | TF32 => 4 | TU64 | TI64 | TF64 => 8
  | _ => 0 end.

Definition enc_int (t : ty) (v : Z) : list Z :=
  match width t with 1 => enc_u8 v | 2 => enc_u16 v | 4 => enc_u32 v | _ => enc_u64 v end.

Definition enc (v : value) : list Z :=
  match v with
  | VBool b => enc_bool b
  | VInt t x => enc_int t x
  | VBytes _ b => enc_bytes b
  | VStrList l => enc_strlist l
  end.
Definition enc_seq (vs : list value) : list Z := concat (map enc vs).

(* ---- the flat reader (Chunk) ---------------------------------------------
   Each reader returns the value and the remaining bytes.  A fixed-width read that does not
   fit is io.EOF and consumes nothing (checkBounds). *)
Definition rd_fixed (n : Z) (s : list Z) : res (list Z * list Z) :=
  if len s <? n then Err EOF else Ok (take n s, drop n s).

Definition rd_u8 (s : list Z) : res (Z * list Z) :=
  match s with [] => Err EOF | b :: r => Ok (b, r) end.
Definition rd_uN (n : Z) (s : list Z) : res (Z * list Z) :=
  do '(b, r) <- rd_fixed n s; Ok (of_be b 0, r).
Definition rd_u16 := rd_uN 2.
Definition rd_u32 := rd_uN 4.
Definition rd_u64 := rd_uN 8.
Definition rd_bool (s : list Z) : res (bool * list Z) :=
  do '(b, r) <- rd_u8 s; Ok (b =? 1, r).

(* the class byte and length of Bytes / ReadStringList *)
Definition rd_prefix (s : list Z) : res (option Z * list Z) :=
  do '(t, r) <- rd_u8 s;
  if t =? 0 then Ok (None, r)
  else if (t =? 1) || (t =? 2) then do '(n, r') <- rd_u8 r; Ok (Some n, r')
  else if (t =? 3) || (t =? 4) then do '(n, r') <- rd_u16 r; Ok (Some n, r')
  else if (t =? 5) || (t =? 6) then do '(n, r') <- rd_u32 r; Ok (Some n, r')
  else if (t =? 7) || (t =? 8) then do '(n, r') <- rd_u64 r; Ok (Some n, r')
  else Err ErrInvalidType.

(* Chunk.Bytes: nil for class 0; a non-zero class with length 0 is ErrUnexpectedEOF; more than
   MaxSlice is ErrTooLarge; a body that does not fit is io.EOF (ReadBytes drops the partial data) *)
Definition rd_bytes (s : list Z) : res (list Z * list Z) :=
  do '(ol, r) <- rd_prefix s;
  match ol with
  | None => Ok ([], r)
  | Some l =>
    if l =? 0 then Err ErrUnexpectedEOF
    else if MaxSlice <? l then Err ErrTooLarge
    else if len r <? l then Err EOF
    else Ok (take l r, drop l r)
  end.

(* ReadStringList: make([]string, l) then l ReadString calls.  The allocation of l strings
   happens BEFORE any element is read: alloc_words is the number of string headers requested.
   int(n) for a 64-bit n >= 2^63 is negative: nothing is allocated or read; a count whose byte
   size exceeds the address space panics in makeslice (the run-time check is l*16 > maxAlloc = 2^48). *)
Definition maxAlloc : Z := 281474976710656.
Fixpoint rd_strings (k : nat) (s : list Z) : res (list (list Z) * list Z) :=
  match k with
  | O => Ok ([], s)
  | S k' => do '(b, r) <- rd_bytes s; do '(l, r') <- rd_strings k' r; Ok (b :: l, r')
  end.
Definition rd_strlist (s : list Z) : res (list (list Z) * list Z) :=
  do '(ol, r) <- rd_prefix s;
  match ol with
  | None => Ok ([], r)
  | Some n => let l := i64 n in
              if l <? 0 then Ok ([], r)          (* the slice is not shorter than a negative l, and the loop does not run *)
              else if maxAlloc <? l * 16 then Panic
              else rd_strings (Z.to_nat l) r
  end.

Definition norm_int (t : ty) (raw : Z) : Z :=
  match t with TI8 => i8 raw | TI16 => i16 raw | TI32 => i32 raw | TI64 => i64 raw | _ => raw end.

Definition rd (t : ty) (s : list Z) : res (value * list Z) :=
  match t with
  | TBool => do '(b, r) <- rd_bool s; Ok (VBool b, r)
  | TBytes | TString => do '(b, r) <- rd_bytes s; Ok (VBytes t b, r)
  | TStrList => do '(l, r) <- rd_strlist s; Ok (VStrList l, r)
  | _ => do '(x, r) <- (if width t =? 1 then rd_u8 s else rd_uN (width t) s); Ok (VInt t (norm_int t x), r)
  end.

Fixpoint rd_seq (ts : list ty) (s : list Z) : res (list value * list Z) :=
  match ts with
  | [] => Ok ([], s)
  | t :: ts' => do '(v, r) <- rd t s; do '(vs, r') <- rd_seq ts' r; Ok (v :: vs, r')
  end.

(* ---- the stream reader (data.NewReader over an io.Reader) ------------------
   src = the chunks the underlying Read calls will deliver, in order; [] = io.EOF.  An empty
   chunk models a (0, nil) read. *)
Definition src := list (list Z).

(* one Read(p) with len p = k (k > 0): up to k bytes of the head chunk *)
Definition read1 (k : Z) (s : src) : option (list Z * src) :=
  match s with
  | [] => None                                                    (* (0, io.EOF) *)
  | c :: rest => if len c <=? k then Some (c, rest) else Some (take k c, drop k c :: rest)
  end.

(* io.ReadFull(r, buf[:k]): loops until k bytes; EOF with nothing read = io.EOF, with some
   bytes read = io.ErrUnexpectedEOF.  fuel bounds the number of Read calls (each call either
   delivers bytes or removes a chunk). *)
Fixpoint read_full (fuel : nat) (k : Z) (s : src) (acc : list Z) {struct fuel} : res (list Z * src) :=
  if k <=? 0 then Ok (acc, s) else
  match fuel with
  | O => Err ErrOther
  | S f =>
    match read1 k s with
    | None => if is_nil acc then Err EOF else Err ErrUnexpectedEOF
    | Some (got, s') => read_full f (k - len got) s' (acc ++ got)
    end
  end.

(* every Read either empties a chunk or completes the request: |s| + 1 calls suffice (never a nat of size k) *)
Definition src_fuel (s : src) (k : Z) : nat := S (S (length s)).

(* reader.Uint8: ONE Read call into buf[0:1]; n < 1 without error is io.EOF *)
Definition srd_u8 (s : src) : res (Z * src) :=
  match read1 1 s with
  | None => Err EOF
  | Some ([], _) => Err EOF
  | Some (b :: _, s') => Ok (b, s')
  end.
Definition srd_uN (n : Z) (s : src) : res (Z * src) :=
  do '(b, s') <- read_full (src_fuel s n) n s []; Ok (of_be b 0, s').
Definition srd_bool (s : src) : res (bool * src) := do '(b, r) <- srd_u8 s; Ok (b =? 1, r).

Definition srd_prefix (s : src) : res (option Z * src) :=
  do '(t, r) <- srd_u8 s;
  if t =? 0 then Ok (None, r)
  else if (t =? 1) || (t =? 2) then do '(n, r') <- srd_u8 r; Ok (Some n, r')
  else if (t =? 3) || (t =? 4) then do '(n, r') <- srd_uN 2 r; Ok (Some n, r')
  else if (t =? 5) || (t =? 6) then do '(n, r') <- srd_uN 4 r; Ok (Some n, r')
  else if (t =? 7) || (t =? 8) then do '(n, r') <- srd_uN 8 r; Ok (Some n, r')
  else Err ErrInvalidType.

(* reader.Bytes: make([]byte, l) then io.ReadFull; io.EOF / ErrUnexpectedEOF both end as io.EOF
   unless nothing at all was read ... the code maps: err == io.EOF kept silent, then n != l => io.EOF;
   io.ErrUnexpectedEOF is returned as is. *)
Definition srd_bytes (s : src) : res (list Z * src) :=
  do '(ol, r) <- srd_prefix s;
  match ol with
  | None => Ok ([], r)
  | Some l =>
    if l =? 0 then Err ErrUnexpectedEOF
    else if MaxSlice <? l then Err ErrTooLarge
    else read_full (src_fuel r l) l r []
  end.

Fixpoint srd_strings (k : nat) (s : src) : res (list (list Z) * src) :=
  match k with
  | O => Ok ([], s)
  | S k' => do '(b, r) <- srd_bytes s; do '(l, r') <- srd_strings k' r; Ok (b :: l, r')
  end.
Definition srd_strlist (s : src) : res (list (list Z) * src) :=
  do '(ol, r) <- srd_prefix s;
  match ol with
  | None => Ok ([], r)
  | Some n => let l := i64 n in
              if l <? 0 then Ok ([], r)
              else if maxAlloc <? l * 16 then Panic
              else srd_strings (Z.to_nat l) r
  end.

Definition srd (t : ty) (s : src) : res (value * src) :=
  match t with
  | TBool => do '(b, r) <- srd_bool s; Ok (VBool b, r)
  | TBytes | TString => do '(b, r) <- srd_bytes s; Ok (VBytes t b, r)
  | TStrList => do '(l, r) <- srd_strlist s; Ok (VStrList l, r)
  | _ => do '(x, r) <- (if width t =? 1 then srd_u8 s else srd_uN (width t) s); Ok (VInt t (norm_int t x), r)
  end.

Fixpoint srd_seq (ts : list ty) (s : src) : res (list value * src) :=
  match ts with
  | [] => Ok ([], s)
  | t :: ts' => do '(v, r) <- srd t s; do '(vs, r') <- srd_seq ts' r; Ok (v :: vs, r')
  end.

(* ---- what a round trip yields -------------------------------------------- *)
Definition ty_of (v : value) : ty :=
  match v with VBool _ => TBool | VInt t _ => t | VBytes t _ => t | VStrList _ => TStrList end.

(* well-formed values: integers in the range of their type; bytes are bytes; lengths below 2^63 *)
Definition in_range (t : ty) (v : Z) : bool :=
  match t with
  | TU8 => (0 <=? v) && (v <? 256) | TU16 => (0 <=? v) && (v <? 65536)
  | TU32 | TF32 => (0 <=? v) && (v <? 4294967296)
  | TU64 | TF64 => (0 <=? v) && (v <? 18446744073709551616)
  | TI8 => (-128 <=? v) && (v <? 128) | TI16 => (-32768 <=? v) && (v <? 32768)
  | TI32 => (-2147483648 <=? v) && (v <? 2147483648)
  | TI64 => (-9223372036854775808 <=? v) && (v <? 9223372036854775808)
  | _ => false end.
Definition wf_bytes (b : list Z) : bool := bytes_ok b && (len b <=? MaxSlice).
Definition wfv (v : value) : bool :=
  match v with
  | VBool _ => true
  | VInt t x => in_range t x
  | VBytes t b => (match t with TBytes | TString => true | _ => false end) && wf_bytes b
  | VStrList l => forallb wf_bytes l && (len l * 16 <=? maxAlloc)
  end.

(* ---- correspondence cases -------------------------------------------------
   observed result of a read sequence: the values read before the first error, and the error
   class (0 = none; errors of the two readers are compared up to EOF/UnexpectedEOF by the
   harness mapping both to 1) *)
Inductive case :=
| CEnc (vs : list value) (bytes : list Z)                       (* either writer *)
| CFlat (ts : list ty) (input : list Z) (out : res (list value * Z))  (* Chunk reader: values, bytes left *)
| CStream (ts : list ty) (input : src) (out : res (list value * Z)).  (* stream reader *)

Definition ty_eqb (a b : ty) : bool :=
  match a, b with
  | TBool, TBool | TU8, TU8 | TU16, TU16 | TU32, TU32 | TU64, TU64 | TI8, TI8 | TI16, TI16 | TI32, TI32
  | TI64, TI64 | TF32, TF32 | TF64, TF64 | TBytes, TBytes | TString, TString | TStrList, TStrList => true
  | _, _ => false end.
Definition value_eqb (a b : value) : bool :=
  match a, b with
  | VBool x, VBool y => Bool.eqb x y
  | VInt t x, VInt t' y => ty_eqb t t' && (x =? y)
  | VBytes t x, VBytes t' y => ty_eqb t t' && zlist_eqb x y
  | VStrList x, VStrList y => list_eqb zlist_eqb x y
  | _, _ => false end.

Definition norm_err {A} (r : res A) : res A :=
  match r with Err e => if e =? ErrUnexpectedEOF then Err EOF else Err e | x => x end.
Definition out_eqb (a b : res (list value * Z)) : bool :=
  res_eqb (fun x y => list_eqb value_eqb (fst x) (fst y) && (snd x =? snd y)) (norm_err a) (norm_err b).

Definition src_len (s : src) : Z := len (concat s).

Definition check (c : case) : bool :=
  match c with
  | CEnc vs bytes => zlist_eqb (enc_seq vs) bytes
  | CFlat ts input o => out_eqb (do '(vs, r) <- rd_seq ts input; Ok (vs, len r)) o
  | CStream ts input o => out_eqb (do '(vs, r) <- srd_seq ts input; Ok (vs, src_len r)) o
  end.
