(* Model/JobSched.v -- generic interleaving semantics used by the C14 model (definitions only).

   A thread is a program counter [PC] (it carries the thread's local variables); one call of
   [step] executes ONE atomic step of that thread on the shared state [St]: one critical
   section of a lock, or one unlocked read / write of a shared field.  A history is a list of
   events: [Spawn o] starts a new thread running operation [o] at its initial program point,
   [Run t] lets thread number [t] take its next atomic step.  Threads that have finished, or
   that are blocked, stutter.  [Panic] of a step is a Go run-time panic; it ends the run. *)
From XMT Require Import Base.Prelude.

Section Sched.
  Variables (St PC Op : Type).
  Variable step : PC -> St -> res (PC * St).
  Variable init : Op -> PC.

  Inductive ev := Spawn (o : Op) | Run (t : nat).

  Definition config : Type := (list PC * St)%type.

  Fixpoint upd {A} (l : list A) (n : nat) (x : A) : list A :=
    match l, n with
    | [], _ => []
    | _ :: r, O => x :: r
    | y :: r, S m => y :: upd r m x
    end.

  Definition exec (e : ev) (c : config) : res config :=
    match e with
    | Spawn o => Ok (fst c ++ [init o], snd c)
    | Run t =>
        match nth_error (fst c) t with
        | None => Ok c                      (* no such thread: nothing happens *)
        | Some p => do '(p', s') <- step p (snd c); Ok (upd (fst c) t p', s')
        end
    end.

  Fixpoint run_sched (es : list ev) (c : config) : res config :=
    match es with
    | [] => Ok c
    | e :: r => do c' <- exec e c; run_sched r c'
    end.
End Sched.

Arguments Spawn {Op} o.
Arguments Run {Op} t.
Arguments upd {A} l n x.
Arguments exec {St PC Op} step init e c.
Arguments run_sched {St PC Op} step init es c.
