(* Model/Sched.v -- property C19: work hours (c2/cfg/workhours.go), the jittered delay and the
   kill-date checks of Session.wait / listen (c2/session.go) and connectContextInner (c2/c2.go).
   Definitions only.  Z everywhere; durations and instants are nanoseconds; the zone is DST-free
   (the harness runs with time.Local = UTC), so time.Date(y,m,d,H,M,0,0,l) of "today" is
   (H*60+M) minutes after today's midnight and time.Date(y,m,d+1,0,...) is 24 h after it. *)
From Coq Require Import ZArith List Bool.
From XMT Require Import Base.Prelude.
Import ListNotations.
Open Scope Z_scope.

Definition ms : Z := 1000000.                 (* time.Millisecond *)
Definition min_ns : Z := 60000000000.         (* time.Minute *)
Definition day_ns : Z := 86400000000000.      (* 24 h *)

(* ------------------------------------------------------------------ WorkHours *)
Record rule := mkRule { r_days : Z; r_sh : Z; r_sm : Z; r_eh : Z; r_em : Z }.

Definition all_zero (w : rule) : bool :=
  (r_sh w =? 0) && (r_sm w =? 0) && (r_eh w =? 0) && (r_em w =? 0).
Definition days_any (w : rule) : bool := (r_days w =? 0) || (126 <? r_days w).

(* WorkHours.Empty *)
Definition empty (w : rule) : bool := all_zero w && days_any w.

(* WorkHours.Verify: 0 = nil, otherwise the xerr code of the first failing case of the switch *)
Definition verify (w : rule) : Z :=
  if 59 <? r_em w then 115 else if 23 <? r_eh w then 114 else
  if 59 <? r_sm w then 113 else if 23 <? r_sh w then 112 else 0.

(* w.Days > 0 && w.Days < 127 && w.Days&(1<<weekday) == 0 *)
Definition day_off (w : rule) (wd : Z) : bool :=
  (0 <? r_days w) && (r_days w <? 127) && negb (Z.testbit (r_days w) wd).

(* "Set start to today at zero": (StartHour == 0 && StartMin == 0) || StartHour > 23 || StartMin > 60 *)
Definition start_midnight (w : rule) : bool :=
  ((r_sh w =? 0) && (r_sm w =? 0)) || (23 <? r_sh w) || (60 <? r_sm w).
(* s, as ns after today's midnight (StartMin = 60 is accepted by the code: the next full hour) *)
Definition start_ns (w : rule) : Z :=
  if start_midnight w then 0 else (r_sh w * 60 + r_sm w) * min_ns.
(* (EndHour == 0 && EndMin == 0) || EndHour > 23 || EndMin > 60 : no end *)
Definition no_end (w : rule) : bool :=
  ((r_eh w =? 0) && (r_em w =? 0)) || (23 <? r_eh w) || (60 <? r_em w).
Definition end_ns (w : rule) : Z := (r_eh w * 60 + r_em w) * min_ns.

(* WorkHours.Work at weekday wd (0 = Sunday), ns nanoseconds after local midnight *)
Definition work (w : rule) (wd ns : Z) : Z :=
  if days_any w && all_zero w then 0
  else if day_off w wd then day_ns - ns
  else if all_zero w then 0
  else
    let s := start_ns w in
    if negb (start_midnight w) && (ns <? s) then s - ns
    else if no_end w then 0
    else
      let e := end_ns w in
      if e <? s then 0
      else if e <? ns then (s + day_ns) - ns
      else 0.

(* the specification side: the window the rule describes *)
Definition day_enabled (w : rule) (wd : Z) : Prop :=
  r_days w = 0 \/ 126 < r_days w \/ Z.testbit (r_days w) wd = true.
Definition end_before_start (w : rule) : Prop := no_end w = false /\ end_ns w < start_ns w.
Definition in_window (w : rule) (wd ns : Z) : Prop :=
  day_enabled w wd /\ start_ns w <= ns /\ (no_end w = false -> ns <= end_ns w).

(* ------------------------------------------------------------------ jitter (Session.wait) *)
(* the arithmetic after `w := s.sleep`; gate = util.FastRandN(100), d = util.Rand.Int63n(w/ms),
   sign = util.FastRandN(2); every int64 operation that can wrap is wrapped *)
Definition jitter_on (sleep jitter gate : Z) : bool :=
  (0 <? jitter) && (jitter <? 101) && ((jitter =? 100) || (u8 gate <? jitter)) && (ms <? sleep).

(* le0 = the final guard is `w <= 0` (repaired code) instead of `w == 0` (original code) *)
Definition jitter_delay_gen (le0 : bool) (sleep jitter gate d sign : Z) : Z :=
  if jitter_on sleep jitter gate then
    let d1 := if sign =? 1 then i64 (d * -1) else d in
    let w1 := i64 (sleep + i64 (d1 * ms)) in
    let w2 := if w1 <? 0 then i64 (w1 * -1) else w1 in
    if (if le0 then w2 <=? 0 else w2 =? 0) then sleep else w2
  else sleep.

(* the implementation as it is in /repo now *)
Definition impl_le0 : bool := true.
Definition jitter_delay := jitter_delay_gen impl_le0.

(* which draws wait() consumed: bit 0 = gate, bit 1 = amount, bit 2 = sign *)
Definition jitter_uses (sleep jitter gate : Z) : Z :=
  (if (0 <? jitter) && (jitter <? 101) && negb (jitter =? 100) then 1 else 0) +
  (if jitter_on sleep jitter gate then 6 else 0).

(* the argument wait() passes to Int63n *)
Definition jitter_range (sleep : Z) : Z := sleep / ms.

(* ------------------------------------------------------------------ kill date, listen loop *)
(* absolute instants: ns since a Sunday 00:00 UTC *)
Definition work_at (w : rule) (now : Z) : Z := work w ((now / day_ns) mod 7) (now mod day_ns).

(* the work-hours loop of wait(): wait as long as Work() > 0 *)
Fixpoint work_loop (fuel : nat) (w : rule) (now : Z) : Z :=
  match fuel with
  | O => now
  | S f => let d := work_at w now in if 0 <? d then work_loop f w (now + d) else now
  end.

Record kcfg := mkK { k_sleep : Z; k_kill : option Z; k_work : option rule }.

(* !s.kill.IsZero() && now.After(s.kill) *)
Definition kill_passed (c : kcfg) (now : Z) : bool :=
  match k_kill c with Some k => k <? now | None => false end.
(* s.work is only set for a non-empty rule *)
Definition eff_work (c : kcfg) : option rule :=
  match k_work c with Some w => if empty w then None else Some w | None => None end.

(* one Session.wait on the client: (now, closing) -> (now', closing').  dl = the delay wait()
   computed (jitter_delay).  recheck = the kill date is tested again after the sleep. *)
Definition wait_step (recheck : bool) (c : kcfg) (dl : Z) (now : Z) (closing : bool) : Z * bool :=
  if closing then (now, true)
  else
    let now1 := match eff_work c with Some w => work_loop 16 w now | None => now end in
    if kill_passed c now1 then (now1, true)
    else if k_sleep c <? 1 then (now1, false)
    else
      let now2 := now1 + dl in
      if recheck && kill_passed c now2 then (now2, true) else (now2, false).

(* one scripted pass of the listen loop: the delay of the wait, how long the exchange takes,
   whether Connect fails, whether Close() is called while this Connect runs *)
Record item := mkI { i_dl : Z; i_dur : Z; i_fail : bool; i_close : bool }.

(* Connect events: (instant, notice) with notice = true for the Connect that delivers SvShutdown *)
Fixpoint listen (recheck : bool) (c : kcfg) (script : list item) (now : Z) (closing : bool) (errors : Z)
  : list (Z * bool) :=
  match script with
  | [] => []
  | it :: rest =>
    let '(now1, cl1) := wait_step recheck c (i_dl it) now closing in
    if cl1 then [(now1, true)]          (* final exchange: Shutdown is set, the loop ends whatever Connect returns *)
    else if i_fail it then
      (* `if s.state.Shutdown() break` is false here; at most maxErrors + 1 failures in a row *)
      if errors <=? 5 then (now1, false) :: listen recheck c rest (now1 + i_dur it) (i_close it) (errors + 1)
      else [(now1, false)]
    else (now1, false) :: listen recheck c rest (now1 + i_dur it) (i_close it) 0
  end.

(* connectContextInner (no migration reader): optional work-hours sleep, then the kill-date test,
   then Connect.  None = "killdate expired", no Connect *)
Definition initial_connect (c : kcfg) (now : Z) : option Z :=
  let now1 := match eff_work c with
              | Some w => let v := work_at w now in if 0 <? v then now + v else now
              | None => now end in
  if kill_passed c now1 then None else Some now1.

(* the SPAWN path (LoadContext, job id 0 -> connectContextInner with the parent's infoSync block):
   readDeviceInfo REPLACES jitter, sleep, kill date (0 = none) and work hours (empty = none) by the
   parent's; there is no work-hours sleep on this path; the gate then uses the kill date IN FORCE,
   i.e. the inherited one.  inh = the inherited kill date *)
Definition absorb_kill (c : kcfg) (inh : option Z) : kcfg := mkK (k_sleep c) inh (k_work c).
Definition spawn_connect (c : kcfg) (inh : option Z) (now : Z) : option Z :=
  if kill_passed (absorb_kill c inh) now then None else Some now.

(* the runtime kill-date update (muxHandleInternal, MvTime / timeKillDate): u = Unix seconds,
   0 clears, every other value is stored as it is -- also one that has already passed (the next
   wait() then shuts the client down).  Instants of the model are ns since 2023-01-01 00:00 UTC *)
Definition epoch0_unix : Z := 1672531200.
Definition kill_update (u : Z) : option Z :=
  if u =? 0 then None else Some ((u - epoch0_unix) * 1000000000).
Definition with_kill (c : kcfg) (k : option Z) : kcfg := mkK (k_sleep c) k (k_work c).

(* the whole client: first script item = the initial Connect (only i_dur / i_fail are used) *)
Definition client (recheck : bool) (c : kcfg) (script : list item) (t0 : Z) : list (Z * bool) :=
  match script with
  | [] => []
  | it :: rest =>
    match initial_connect c t0 with
    | None => []
    | Some t => if i_fail it then [(t, false)]
                else (t, false) :: listen recheck c rest (t + i_dur it) false 0
    end
  end.

(* the implementation as it is in /repo now: the kill date is re-checked after the sleep *)
Definition impl_recheck : bool := true.

Definition after_kill (c : kcfg) (e : Z * bool) : bool := kill_passed c (fst e).
Definition count_after_kill (c : kcfg) (l : list (Z * bool)) : Z := len (filter (after_kill c) l).

(* ------------------------------------------------------------------ the sleep ticker of wait() *)
(* s.tick is a time.Ticker under the module's `go 1.18` semantics: its channel has a buffer of ONE;
   a tick that fires while nobody receives stays in the buffer (later ones are dropped), and Reset
   does NOT clear it.  t_next = the instant of the next fire. *)
Record ticker := mkT { t_pending : bool; t_next : Z; t_period : Z }.

(* time passes until `now` with nobody receiving *)
Definition tick_advance (t : ticker) (now : Z) : ticker :=
  if t_next t <=? now
  then mkT true (t_next t + ((now - t_next t) / t_period t + 1) * t_period t) (t_period t)
  else t.
(* `for len(s.tick.C) > 0 { <-s.tick.C }` *)
Definition tick_drain (t : ticker) : ticker := mkT false (t_next t) (t_period t).
(* s.tick.Reset(w) at instant now *)
Definition tick_reset (t : ticker) (now w : Z) : ticker := mkT (t_pending t) (now + w) w.
(* `<-s.tick.C` started at instant now: the instant it returns *)
Definition tick_recv (t : ticker) (now : Z) : Z := if t_pending t then now else Z.max now (t_next t).

(* the sleep section of wait() entered at instant now with the computed delay w: drain (or not),
   Reset(w), receive; the result is the instant wait() returns when nothing else wakes it *)
Definition wait_wakes (drain : bool) (t : ticker) (now w : Z) : Z :=
  let t1 := tick_advance t now in
  let t2 := if drain then tick_drain t1 else t1 in
  tick_recv (tick_reset t2 now w) now.

(* the implementation as it is in /repo: the drain loop is there *)
Definition impl_drain : bool := true.

(* ------------------------------------------------------------------ Profile swap (listen) *)
(* the timing values a client Session runs with *)
Record settings := mkS { s_sleep : Z; s_jitter : Z; s_kill : option Z; s_work : option rule }.
(* what the new Profile answers: Sleep() (<= 0: not set), Jitter() (an int8; -1: not set),
   KillDate() (None: ok = false; Some None: ok with the zero time; Some (Some k)),
   WorkHours() (None: nil) *)
Record pvals := mkP { p_sleep : Z; p_jitter : Z; p_kill : option (option Z); p_work : option rule }.

(* the settings update of the `s.swap != nil` block of listen *)
Definition swap_settings (old : settings) (p : pvals) : settings :=
  mkS (if 0 <? p_sleep p then p_sleep p else s_sleep old)
      (if (0 <=? p_jitter p) && (p_jitter p <=? 100) then u8 (p_jitter p) else s_jitter old)
      (match p_kill p with Some k => k | None => s_kill old end)
      (match p_work p with Some w => if empty w then None else Some w | None => s_work old end).

(* the delay the next wait() computes with the settings in force *)
Definition delay_with (st : settings) (gate d sign : Z) : Z :=
  jitter_delay (s_sleep st) (s_jitter st) gate d sign.

(* ------------------------------------------------------------------ correspondence cases *)
(* observations are records, not tuples: they elaborate much faster in the generated case files *)
Record wobs := mkW { wo_wd : Z; wo_ns : Z; wo_res : Z }.            (* weekday, ns of day, Work() observed *)
Record jobs := mkJ { jo_gate : Z; jo_d : Z; jo_sign : Z; jo_res : Z; jo_used : Z }.  (* draws, delay observed, draws used *)
Record kev := mkE { ke_t : Z; ke_notice : bool }.                    (* a Connect observed *)

Inductive case :=
| CWork (w : rule) (obs : list wobs)
| CRule (w : rule) (is_empty : bool) (ver : Z)
| CJit (sleep jitter : Z) (obs : list jobs)
| CJitN (sleep n : Z)                                   (* the range wait() passed to Int63n *)
| CWait (c : kcfg) (dl now : Z) (closing : bool) (now' : Z) (closing' : bool)   (* one wait() *)
| CKill (c : kcfg) (t0 : Z) (script : list item) (obs : list kev)
(* a Profile swap in the real listen loop: settings before, the Profile's answers, settings
   observed after, the draws of the next wait() and the delay it computed *)
| CSwap (old : settings) (p : pvals) (obs : settings) (gate d sign delay : Z)
(* the spawn path: the Profile's settings, the inherited kill date, the instant, the Connect instants observed *)
| CSpawn (c : kcfg) (inh : option Z) (now : Z) (obs : list Z)
(* a runtime kill-date update with value u, the kill date stored afterwards, then one wait() *)
| CKillUpd (c : kcfg) (u : Z) (stored : option Z) (dl now : Z) (now' : Z) (closing' : bool)
(* real time: a ticker armed with `sleep`, then a contact of `contact` ns during which nobody
   receives, then wait() with delay `sleep`; gaps = the measured ns between the end of an attempt and
   the start of the next.  Only "not (much) earlier than the model says" is compared. *)
| CTick (sleep contact : Z) (gaps : list Z).

Definition ev_eqb (a : Z * bool) (b : kev) : bool := (fst a =? ke_t b) && Bool.eqb (snd a) (ke_notice b).
Fixpoint evs_eqb (a : list (Z * bool)) (b : list kev) : bool :=
  match a, b with
  | [], [] => true
  | x :: a', y :: b' => ev_eqb x y && evs_eqb a' b'
  | _, _ => false
  end.

Definition oz_eqb (a b : option Z) : bool :=
  match a, b with Some x, Some y => x =? y | None, None => true | _, _ => false end.
Definition rule_eqb (a b : rule) : bool :=
  (r_days a =? r_days b) && (r_sh a =? r_sh b) && (r_sm a =? r_sm b) && (r_eh a =? r_eh b) && (r_em a =? r_em b).
Definition orule_eqb (a b : option rule) : bool :=
  match a, b with Some x, Some y => rule_eqb x y | None, None => true | _, _ => false end.
Definition settings_eqb (a b : settings) : bool :=
  (s_sleep a =? s_sleep b) && (s_jitter a =? s_jitter b) && oz_eqb (s_kill a) (s_kill b) && orule_eqb (s_work a) (s_work b).

Definition check (c : case) : bool :=
  match c with
  | CWork w obs => forallb (fun o => work w (wo_wd o) (wo_ns o) =? wo_res o) obs
  | CRule w e v => Bool.eqb (empty w) e && (verify w =? v)
  | CJit sl j obs =>
      forallb (fun o => (jitter_delay sl j (jo_gate o) (jo_d o) (jo_sign o) =? jo_res o) &&
                        (jitter_uses sl j (jo_gate o) =? jo_used o)) obs
  | CJitN sl n => jitter_range sl =? n
  | CWait c dl now cl now' cl' =>
      let '(n2, c2) := wait_step impl_recheck c dl now cl in (n2 =? now') && Bool.eqb c2 cl'
  | CKill c t0 sc obs => evs_eqb (client impl_recheck c sc t0) obs
  | CKillUpd c u st dl now now' cl' =>
      oz_eqb (kill_update u) st &&
      (let '(n2, c2) := wait_step impl_recheck (with_kill c (kill_update u)) dl now false in (n2 =? now') && Bool.eqb c2 cl')
  | CSpawn c inh now obs =>
      match spawn_connect c inh now with
      | None => match obs with [] => true | _ => false end
      | Some t => match obs with [t'] => t =? t' | _ => false end
      end
  | CTick sl ct gaps =>
      let now := sl + ct in
      let m := wait_wakes impl_drain (mkT false sl sl) now sl - now in
      forallb (fun g => 8 * m <=? 10 * g) gaps
  | CSwap o p obs g d sg dl =>
      settings_eqb (swap_settings o p) obs && (delay_with (swap_settings o p) g d sg =? dl)
  end.
