(* Model/Table.v -- C15: the hash-keyed session table of c2/server.go and the per-device
   dispatch of c2/listener.go (talk, talkSub, resolve), c2/channel.go (process, processSingle,
   processMultiple, conn.resolve), c2/vars.go (receive: s.ID != n.Device), c2/proxy.go (accept,
   talk, talkSub) and device/id.go (ID.Hash).  Definitions only (std++ style: the tables are
   gmap Z _).

   What is modelled is WHICH session a packet is handled in and WHAT is answered:
   - a device ID is the list of its bytes; hash is ID.Hash (32-bit FNV-1 style fold);
   - a session is its ID, its queue of outbound packets (device, packet ID, job), the tag of the
     last remote address that touched it (Session.host / Last) and a tag for its key material
     (keys.Public is overwritten by any packet carrying FlagCrypt and a payload);
   - every function returns the new table, the list of effects (which session did what on
     behalf of a packet naming which device) and the answer (error, re-registration request,
     or the outbound leaf packets written to the connection).
   Every function that looks a table up by the 32-bit hash takes a flag chk:
   - chk = true is the code as it is now (after the fix: commits): the entry found under the hash
     is used only if its full ID is the ID asked for; an entry of another device is left alone and
     the sender is treated as unregistered (and cannot register: the slot is taken);
   - chk = false is the code as it was (hash only), kept so that the regression stays stated.
   talk, talk_sub, server_session, proxy_* without suffix are the chk = true instances; these are
   what the correspondence run evaluates and what the theorems are about.
   Not modelled: fragments, oneshot packets, Multi inside Multi, SvShutdown traffic, channels,
   the proxy flag, packet payloads beyond the five body shapes below, batching limits of
   nextPacket (queues hold fewer than limits.Packets small packets). *)
From stdpp Require Import gmap.
From XMT Require Import Base.Prelude.

(* ---- device IDs -------------------------------------------------------- *)
Definition id := list Z.
Definition id_empty (d : id) : bool := match d with [] => true | b :: _ => b =? 0 end.
Definition id_eqb (a b : id) : bool := zlist_eqb a b.

(* device.ID.Hash: h = 2166136261; for each byte: h *= 16777619 (uint32); h ^= b *)
Definition hash_step (h b : Z) : Z := Z.lxor (u32 (h * 16777619)) b.
Definition hash (d : id) : Z := fold_left hash_step d 2166136261.

(* ---- packets ----------------------------------------------------------- *)
Definition SvHello : Z := 2.
Definition SvRegister : Z := 3.
Definition SvComplete : Z := 4.
Definition SvShutdown : Z := 5.
Definition MvRefresh : Z := 7.

(* error classes returned by talk / talkSub *)
Definition EClosed : Z := 1.     (* empty device: io.ErrClosedPipe / io.ErrShortBuffer *)
Definition EMalformed : Z := 2.  (* ErrMalformedPacket *)
Definition EMismatch : Z := 3.   (* receive: "received Packet that does not match our own device ID" (0x57) *)
Definition ECount : Z := 4.      (* ErrInvalidPacketCount *)
Definition ETag : Z := 5.        (* com.ErrMalformedTag *)
Definition EOther : Z := 9.      (* read errors: bad hello payload, sub-packet with an empty device *)

Inductive body :=
| BEmpty            (* no payload *)
| BHello            (* a well-formed device-info payload (written by Session.writeDeviceInfo) *)
| BBadHello         (* one byte: too short for device info *)
| BData             (* some payload, no FlagCrypt *)
| BKey (k : Z).     (* FlagCrypt + 133 bytes [0xEE; k; 0...]: read into keys.Public *)

Record leaf := Leaf { l_dev : id; l_pid : Z; l_job : Z; l_body : body }.

Inductive pkt :=
| Single (n : leaf) (tags : list Z)
| Batch (d : id) (job : Z) (subs : list leaf) (tags : list Z)      (* FlagMulti, ID 0 *)
| MultiDev (d : id) (job : Z) (subs : list leaf) (tags : list Z).  (* FlagMulti|FlagMultiDevice, ID 0 *)

Definition p_dev (p : pkt) : id :=
  match p with Single n _ => l_dev n | Batch d _ _ _ => d | MultiDev d _ _ _ => d end.
Definition p_tags (p : pkt) : list Z :=
  match p with Single _ t => t | Batch _ _ _ t => t | MultiDev _ _ _ t => t end.
Definition p_subdevs (p : pkt) : list id :=
  match p with Single _ _ => [] | Batch _ _ l _ => map l_dev l | MultiDev _ _ l _ => map l_dev l end.
Definition p_pid (p : pkt) : Z := match p with Single n _ => l_pid n | _ => 0 end.
Definition p_job (p : pkt) : Z :=
  match p with Single n _ => l_job n | Batch _ j _ _ => j | MultiDev _ j _ _ => j end.
(* Packet.Empty(): no payload *)
Definition p_empty (p : pkt) : bool :=
  match p with
  | Single n _ => match l_body n with BEmpty => true | _ => false end
  | Batch _ _ l _ => is_nil l
  | MultiDev _ _ l _ => is_nil l
  end.

Definition body_empty (b : body) : bool := match b with BEmpty => true | _ => false end.
Definition body_key (b : body) : option Z := match b with BKey k => Some k | _ => None end.
(* isPacketNoP: ID < 2, no payload, no flags (BKey carries FlagCrypt but is never empty) *)
Definition is_nop (n : leaf) : bool := (l_pid n <? 2) && body_empty (l_body n).

(* an outbound leaf packet as seen on the wire: device, packet ID, job *)
Definition out := (id * Z * Z)%type.

(* ---- sessions and the table -------------------------------------------- *)
Record session := Session { s_id : id; s_out : list out; s_host : Z; s_key : Z }.
Definition table := gmap Z session.

Definition set_out (s : session) (q : list out) : session := Session (s_id s) q (s_host s) (s_key s).
Definition set_host (s : session) (a : Z) : session := Session (s_id s) (s_out s) a (s_key s).
Definition set_key (s : session) (k : Z) : session := Session (s_id s) (s_out s) (s_host s) k.

(* the hash lookup and (repaired code) the comparison of the full ID that follows it *)
Inductive slot := Free | Own (s : session) | Other (s : session).
Definition lookup (chk : bool) (t : table) (d : id) : slot :=
  match t !! hash d with
  | None => Free
  | Some s => if chk && negb (id_eqb (s_id s) d) then Other s else Own s
  end.

(* effects: what happened in which session, on behalf of a packet naming which device *)
Inductive eff :=
| ENew (sid : id)                      (* Server.New fires for a freshly registered session *)
| ETouch (sid pdev : id)               (* s.host.Set(a); s.Last = now *)
| ERekey (sid pdev : id) (k : Z)       (* keyCryptAndUpdate overwrote keys.Public *)
| EHandle (sid pdev : id) (job : Z)    (* receive -> receiveSingle -> the session's handler / Receive callback *)
| EFetch (sid : id) (tag : Z)          (* a tag drained the outbound queue of session sid (conn.resolve) *)
| EDrop (sid : id).                    (* Server.Shutdown fires: session removed from the table *)

Inductive ans :=
| AErr (e : Z)
| ARegister (d : id)                               (* conn{next: SvRegister for d} *)
| AReply (known : bool) (l : list out)             (* the leaf packets of conn.next, in order *)
| ASub (k : option id) (q : Z) (reg : option id) (l : list out)  (* talkSub: host, hash, register request, next *)
| AFound (s : option id)                           (* Server.Session / the session a send went to *)
| AList (l : list (Z * id))                        (* Server.Sessions, with the key each is stored under *)
| ABool (b : bool).                                (* Proxy.accept *)

(* Session.next: an empty queue answers a NoP naming the session (next(false)) or nothing
   (next(true)).  Otherwise the head of the queue is picked; a head that carries key material
   (FlagCrypt) and names the session is sent alone and the rest stays queued; any other head is
   merged with everything that is queued (nextPacket; the queues here are far below limits.Packets
   and limits.Frag).  The only packet with FlagCrypt the modelled code queues is keyHostSync's
   SvComplete, so "carries key material" is read off the packet ID. *)
Definition o_crypt (o : out) : bool := let '(_, pid, _) := o in pid =? SvComplete.
Definition o_names (o : out) (d : id) : bool := let '(x, _, _) := o in id_eqb x d.
Definition take_next (s : session) (x : out) (q : list out) : session * list out :=
  if o_crypt x && o_names x (s_id s) then (set_out s q, [x]) else (set_out s [], x :: q).
Definition next_false (s : session) : session * list out :=
  match s_out s with [] => (s, [(s_id s, 0, 0)]) | x :: q => take_next s x q end.
Definition next_true (s : session) : session * list out :=
  match s_out s with [] => (s, []) | x :: q => take_next s x q end.

(* keyCryptAndUpdate(l, n, _): any non-empty packet with FlagCrypt overwrites keys.Public *)
Definition rekey (s : session) (n : leaf) : session * list eff :=
  match body_key (l_body n) with
  | Some k => (set_key s k, [ERekey (s_id s) (l_dev n) k])
  | None => (s, [])
  end.

(* receive(s, l, n) for a leaf packet (no Multi/Frag flags): the session afterwards, effects, error.
   SvComplete with FlagCrypt and a payload: receiveSingle calls keySessionSync, which reads the
   payload into keys.Public as long as the pair is not synced (in the harness the key material is
   never a valid curve point, so Sync fails and the pair never counts as synced). *)
Definition recv_leaf (s : session) (n : leaf) : session * list eff * option Z :=
  if id_empty (l_dev n) || is_nop n then (s, [], None)
  else if negb (id_eqb (s_id s) (l_dev n)) then (s, [], Some EMismatch)
  else if l_pid n =? SvComplete then
    match body_key (l_body n) with
    | Some k => (set_key s k, [ERekey (s_id s) (l_dev n) k], None)
    | None => (s, [], None)
    end
  else if l_pid n <? MvRefresh then (s, [], None)
  else (s, [EHandle (s_id s) (l_dev n) (l_job n)], None).

(* receive of a FlagMulti packet: each sub-packet through receive again; the first error aborts *)
Fixpoint recv_batch (s : session) (subs : list leaf) : session * list eff * option Z :=
  match subs with
  | [] => (s, [], None)
  | v :: r =>
    if id_empty (l_dev v) then (s, [], Some EOther)       (* UnmarshalStream: ID.Read refuses an empty ID *)
    else match recv_leaf s v with
         | (s1, e, Some err) => (s1, e, Some err)
         | (s1, e, None) => let '(s2, e', r') := recv_batch s1 r in (s2, e ++ e', r')
         end
  end.

(* the freshly registered session of Listener.talk / talkSub: keyHostSync queued (SvComplete, job of the hello) *)
Definition new_session (a : Z) (n_dev : id) (n_job : Z) : session :=
  Session n_dev [(n_dev, SvComplete, n_job)] a 0.

(* ---- Listener.talkSub --------------------------------------------------- *)
Definition talk_sub_g (chk : bool) (a : Z) (t : table) (n : leaf) (o : bool) : table * list eff * ans :=
  if id_empty (l_dev n) then (t, [], AErr EClosed) else
  let i := hash (l_dev n) in
  match lookup chk t (l_dev n) with
  | Other _ =>
    if body_empty (l_body n) && (l_pid n =? SvHello) then (t, [], AErr EMalformed)
    else (t, [], ASub None 0 (Some (l_dev n)) [])
  | Free =>
    if body_empty (l_body n) && (l_pid n =? SvHello) then (t, [], AErr EMalformed)
    else if negb (l_pid n =? SvHello) then (t, [], ASub None 0 (Some (l_dev n)) [])
    else match l_body n with
         | BHello =>
           let s := new_session a (l_dev n) (l_job n) in
           let e := [ETouch (s_id s) (l_dev n); ENew (s_id s)] in
           (* receive: a hello is below MvRefresh, nothing fires *)
           if o then (<[i := s]> t, e, ASub (Some (s_id s)) i None [])
           else let '(s', l) := next_true s in (<[i := s']> t, e, ASub (Some (s_id s)) i None l)
         | _ => (t, [], AErr EOther)
         end
  | Own s =>
    let s1 := set_host s a in
    let '(s2, ek) := rekey s1 n in
    let e0 := ETouch (s_id s) (l_dev n) :: ek in
    match recv_leaf s2 n with
    | (s2', e, Some err) => (<[i := s2']> t, e0 ++ e, AErr err)
    | (s2', e, None) =>
      if o then (<[i := s2']> t, e0 ++ e, ASub (Some (s_id s)) i None [])
      else let '(s3, l) := next_true s2' in (<[i := s3]> t, e0 ++ e, ASub (Some (s_id s)) i None l)
    end
  end.

(* ---- conn.resolve (o = false): tags fetch the queues of other sessions --- *)
(* state: table, tags already taken, packets added, effects *)
Fixpoint resolve_tags (a : Z) (host : id) (t : table) (tags seen : list Z) (add : list out) (e : list eff)
  : table * list out * list eff * option Z :=
  match tags with
  | [] => (t, add, e, None)
  | x :: r =>
    if x =? 0 then (t, add, e, Some ETag)
    else if existsb (Z.eqb x) seen then resolve_tags a host t r seen add e
    else match t !! x with
         | None => resolve_tags a host t r seen add e
         | Some v =>
           if id_eqb (s_id v) host then resolve_tags a host t r seen add e
           else let '(v', l) := next_true (set_host v a) in
                resolve_tags a host (<[x := v']> t) r (x :: seen) (add ++ l) (e ++ [EFetch (s_id v) x])
         end
  end.

(* ---- conn.processMultiple (o = false) ----------------------------------- *)
(* hk is the key the host session is stored under; the host session is re-read from the table
   at each step (Go holds a pointer to it). *)
Fixpoint process_multiple (chk : bool) (a : Z) (hk : Z) (t : table) (subs : list leaf) (acc : list out) (e : list eff)
  : table * list out * list eff * option Z :=
  match subs with
  | [] => (t, acc, e, None)
  | v :: r =>
    if id_empty (l_dev v) then (t, acc, e, Some EOther) else
    match t !! hk with
    | None => (t, acc, e, Some EOther)       (* unreachable: the host is in the table *)
    | Some h =>
      if id_eqb (s_id h) (l_dev v) then
        let '(h1, ek) := rekey h v in
        let '(h1', er, _) := recv_leaf h1 v in    (* the error is only logged *)
        let '(h2, l) := next_false h1' in
        process_multiple chk a hk (<[hk := h2]> t) r (acc ++ l) (e ++ ek ++ er)
      else
        match talk_sub_g chk a t v false with
        | (t', e', AErr err) => (t', acc, e ++ e', Some err)
        | (t', e', ASub _ _ (Some d) _) => process_multiple chk a hk t' r (acc ++ [(d, SvRegister, 0)]) (e ++ e')
        | (t', e', ASub _ _ None l) => process_multiple chk a hk t' r (acc ++ l) (e ++ e')
        | (t', e', _) => (t', acc, e ++ e', Some EOther)   (* unreachable *)
        end
    end
  end.

(* ---- Listener.talk ------------------------------------------------------- *)
(* the lookup / registration part: Err 0 stands for the re-registration request *)
Definition talk_enter (chk : bool) (a : Z) (t : table) (p : pkt) : res (table * list eff * bool) :=
  let d := p_dev p in
  let i := hash d in
  match lookup chk t d with
  | Own s => Ok (<[i := set_host s a]> t, [ETouch (s_id s) d], true)
  | Other _ => if p_empty p && (p_pid p =? SvHello) then Err EMalformed else Err 0
  | Free =>
    if p_empty p && (p_pid p =? SvHello) then Err EMalformed
    else if negb (p_pid p =? SvHello) then Err 0
    else match p with
         | Single (Leaf _ _ j BHello) _ => Ok (<[i := new_session a d j]> t, [ETouch d d; ENew d], false)
         | _ => Err EOther
         end
  end.

(* conn.process on the host session stored under key i (re-read from the table: Go holds a pointer) *)
Definition talk_process (chk : bool) (a i : Z) (t2 : table) (p : pkt) (add : list out) (known : bool)
  : table * list eff * ans :=
  match t2 !! i with
  | None => (t2, [], AErr EOther)    (* unreachable *)
  | Some h =>
    match p with
    | Single n _ =>
      (* talk: keyCryptAndUpdate if known; notify: keyCryptAndUpdate; receive *)
      let '(h1, ek) := rekey h n in
      match recv_leaf h1 n with
      | (h1', er, Some err) => (<[i := h1']> t2, ek ++ er, AErr err)
      | (h1', er, None) =>
        let '(h2, l) := next_false h1' in
        (<[i := h2]> t2, ek ++ er, AReply known (l ++ add))
      end
    | Batch d _ subs _ =>
      if negb (id_eqb (s_id h) d) then (t2, [], AErr EMismatch)
      else if is_nil subs then (t2, [], AErr ECount)
      else match recv_batch h subs with
           | (h1, er, Some err) => (<[i := h1]> t2, er, AErr err)
           | (h1, er, None) =>
             let '(h2, l) := next_false h1 in
             (<[i := h2]> t2, er, AReply known (l ++ add))
           end
    | MultiDev _ _ subs _ =>
      if is_nil subs then (t2, [], AErr ECount)
      else match process_multiple chk a i t2 subs [] [] with
           | (t3, acc, e3, Some err) => (t3, e3, AErr err)
           | (t3, acc, e3, None) =>
             let l := acc ++ add in
             (t3, e3, AReply known (if is_nil l then [(s_id h, 0, 0)] else l))
           end
    end
  end.

Definition talk_g (chk : bool) (a : Z) (t : table) (p : pkt) : table * list eff * ans :=
  let d := p_dev p in
  if id_empty d then (t, [], AErr EClosed) else
  let i := hash d in
  match talk_enter chk a t p with
  | Panic => (t, [], AErr EOther)    (* unreachable *)
  | Err e => if e =? 0 then (t, [], ARegister d) else (t, [], AErr e)
  | Ok (t1, e1, known) =>
    (* l.resolve(s, a, n.Tags) *)
    match t1 !! i with
    | None => (t1, e1, AErr EOther)  (* unreachable *)
    | Some h0 =>
      match resolve_tags a (s_id h0) t1 (p_tags p) [] [] [] with
      | (t2, add, e2, Some err) => (t2, e1 ++ e2, AErr err)
      | (t2, add, e2, None) =>
        let '(t3, e3, r) := talk_process chk a i t2 p add known in (t3, e1 ++ e2 ++ e3, r)
      end
    end
  end.

(* ---- Server.Session / Sessions / Remove, and a send through the lookup ---- *)
(* Server.Session: (repaired) the entry under the hash is returned only if its ID is the one asked for *)
Definition server_session_g (chk : bool) (t : table) (d : id) : option session :=
  if id_empty d then None
  else match lookup chk t d with Own s => Some s | _ => None end.

Definition server_sessions (t : table) : list (Z * id) := map (fun kv => (fst kv, s_id (snd kv))) (map_to_list t).

(* Server.Remove(d, false) followed by the delSession branch of Server.listen: by hash *)
Definition server_remove (t : table) (d : id) : table * list eff :=
  match t !! hash d with
  | Some s => (delete (hash d) t, [EDrop (s_id s)])
  | None => (t, [])
  end.

(* the operator looks the session of d up and writes a packet naming d to it *)
Definition server_send_g (chk : bool) (t : table) (d : id) (pid job : Z) : table * option id :=
  match server_session_g chk t d with
  | Some s => (<[hash d := set_out s (s_out s ++ [(d, pid, job)])]> t, Some (s_id s))
  | None => (t, None)
  end.

(* ---- histories on a server ------------------------------------------------ *)
Inductive op :=
| OTalk (p : pkt)
| OTalkSub (n : leaf) (o : bool)
| OSend (d : id) (pid job : Z)
| OLookup (d : id)
| ORemove (d : id)
| OSessions.

(* the k-th operation of a history uses k+1 as its address tag *)
Definition step_g (chk : bool) (a : Z) (t : table) (o : op) : table * list eff * ans :=
  match o with
  | OTalk p => talk_g chk a t p
  | OTalkSub n b => talk_sub_g chk a t n b
  | OSend d pid job => let '(t', r) := server_send_g chk t d pid job in (t', [], AFound r)
  | OLookup d => (t, [], AFound (option_map s_id (server_session_g chk t d)))
  | ORemove d => let '(t', e) := server_remove t d in (t', e, ABool true)
  | OSessions => (t, [], AList (server_sessions t))
  end.

(* the code as it is *)
Definition talk := talk_g true.
Definition talk_sub := talk_sub_g true.
Definition server_session := server_session_g true.
Definition server_send := server_send_g true.
Definition step := step_g true.

(* a whole history from address tag a: the final table and what each step did and answered *)
Fixpoint run_g (chk : bool) (a : Z) (t : table) (ops : list op) : table * list (list eff * ans) :=
  match ops with
  | [] => (t, [])
  | o :: r => let '(t', e, x) := step_g chk a t o in
              let '(t'', l) := run_g chk (a + 1) t' r in (t'', (e, x) :: l)
  end.
Definition run := run_g true.

(* ---- the proxy: clients keyed by hash, packets forwarded upstream ----------- *)
Record pclient := PClient { c_id : id; c_out : list out }.
Record proxy := Proxy { x_clients : gmap Z pclient; x_up : list out }.

Definition pnext_false (c : pclient) : pclient * list out :=
  match c_out c with [] => (c, [(c_id c, 0, 0)]) | q => (PClient (c_id c) [], q) end.
Definition pnext_true (c : pclient) : pclient * list out :=
  match c_out c with [] => (c, []) | q => (PClient (c_id c) [], q) end.

Inductive pslot := PFree | POwn (c : pclient) | POther (c : pclient).
Definition plookup (chk : bool) (cl : gmap Z pclient) (d : id) : pslot :=
  match cl !! hash d with
  | None => PFree
  | Some c => if chk && negb (id_eqb (c_id c) d) then POther c else POwn c
  end.

(* Proxy.accept: (repaired) a packet is queued for a client only if the client's ID is the packet's device *)
Definition proxy_accept_g (chk : bool) (x : proxy) (n : leaf) : proxy * bool :=
  match plookup chk (x_clients x) (l_dev n) with
  | POwn c =>
    if is_nop n then (x, true)
    else (Proxy (<[hash (l_dev n) := PClient (c_id c) (c_out c ++ [(l_dev n, l_pid n, l_job n)])]> (x_clients x)) (x_up x), true)
  | _ => (x, false)
  end.

Fixpoint presolve_tags (host : id) (cl : gmap Z pclient) (tags seen : list Z) (add : list out)
  : gmap Z pclient * list out * option Z :=
  match tags with
  | [] => (cl, add, None)
  | t :: r =>
    if t =? 0 then (cl, add, Some ETag)
    else if existsb (Z.eqb t) seen then presolve_tags host cl r seen add
    else match cl !! t with
         | None => presolve_tags host cl r seen add
         | Some v =>
           if id_eqb (c_id v) host then presolve_tags host cl r seen add
           else let '(v', l) := pnext_true v in presolve_tags host (<[t := v']> cl) r (t :: seen) (add ++ l)
         end
  end.

(* Proxy.talk for a single packet (the proxy parses nothing: every hello of a free slot registers) *)
(* a registered client announces its shutdown: the packet is passed on upstream, acknowledged, and
   p.close <- hash makes Proxy.prune delete the entry under that hash (the entry of this very
   client: the full-ID check comes first) *)
Definition p_is_own (chk : bool) (x : proxy) (d : id) : bool :=
  match plookup chk (x_clients x) d with POwn _ => true | _ => false end.
Definition proxy_shutdown (x : proxy) (n : leaf) : proxy :=
  Proxy (delete (hash (l_dev n)) (x_clients x)) (x_up x ++ [(l_dev n, l_pid n, l_job n)]).

Definition proxy_talk_g (chk : bool) (x : proxy) (n : leaf) (tags : list Z) : proxy * ans :=
  let d := l_dev n in
  if id_empty d then (x, AErr EClosed) else
  let i := hash d in
  if (l_pid n =? SvShutdown) && p_is_own chk x d then (proxy_shutdown x n, AReply false [(d, SvShutdown, l_job n)]) else
  match (match plookup chk (x_clients x) d with
         | POwn c => Some (x, true)
         | POther _ => None
         | PFree =>
           if negb (l_pid n =? SvHello) then None
           else Some (Proxy (<[i := PClient d [(d, SvComplete, l_job n)]]> (x_clients x))
                            (x_up x ++ [(d, l_pid n, l_job n)]), false)
         end) with
  | None => (x, ARegister d)
  | Some (x1, known) =>
    match x_clients x1 !! i with
    | None => (x1, AErr EOther)   (* unreachable *)
    | Some c0 =>
      match presolve_tags (c_id c0) (x_clients x1) tags [] [] with
      | (cl2, add, Some err) => (Proxy cl2 (x_up x1), AErr err)
      | (cl2, add, None) =>
        match cl2 !! i with
        | None => (Proxy cl2 (x_up x1), AErr EOther)  (* unreachable *)
        | Some c =>
          (* notify: forwarded upstream unless it is a NoP; then the client's own queue *)
          let up := if is_nop n then x_up x1 else x_up x1 ++ [(d, l_pid n, l_job n)] in
          let '(c', l) := pnext_false c in
          (Proxy (<[i := c']> cl2) up, AReply known (l ++ add))
        end
      end
    end
  end.

(* Proxy.talkSub *)
Definition proxy_talk_sub_g (chk : bool) (x : proxy) (n : leaf) (o : bool) : proxy * ans :=
  let d := l_dev n in
  if id_empty d then (x, AErr EClosed) else
  let i := hash d in
  if (l_pid n =? SvShutdown) && p_is_own chk x d then (proxy_shutdown x n, ASub None 0 None [(d, SvShutdown, l_job n)]) else
  match (match plookup chk (x_clients x) d with
         | POwn c => Some x
         | POther _ => None
         | PFree =>
           if negb (l_pid n =? SvHello) then None
           else Some (Proxy (<[i := PClient d [(d, SvComplete, l_job n)]]> (x_clients x)) (x_up x))
         end) with
  | None => (x, ASub None 0 (Some d) [])
  | Some x1 =>
    match x_clients x1 !! i with
    | None => (x1, AErr EOther)   (* unreachable *)
    | Some c =>
      let up := if is_nop n then x_up x1 ++ [(d, l_pid n, l_job n)] else x_up x1 in
      if o then (Proxy (x_clients x1) up, ASub (Some (c_id c)) i None [])
      else let '(c', l) := pnext_true c in
           (Proxy (<[i := c']> (x_clients x1)) up, ASub (Some (c_id c)) i None l)
    end
  end.

Inductive pop :=
| PTalk (n : leaf) (tags : list Z)
| PTalkSub (n : leaf) (o : bool)
| PAccept (n : leaf).

Definition pstep_g (chk : bool) (x : proxy) (o : pop) : proxy * ans :=
  match o with
  | PTalk n tags => proxy_talk_g chk x n tags
  | PTalkSub n b => proxy_talk_sub_g chk x n b
  | PAccept n => let '(x', b) := proxy_accept_g chk x n in (x', ABool b)
  end.

Definition proxy_accept := proxy_accept_g true.
Definition proxy_talk := proxy_talk_g true.
Definition proxy_talk_sub := proxy_talk_sub_g true.
Definition pstep := pstep_g true.

(* ---- Channels: the tag routing a connection keeps ------------------------------ *)
(* While a host is in Channel mode, conn.channelRead calls conn.resolve(..., n.Tags, true) for EVERY
   packet of the Channel.  conn.subs is the set of tags (= table keys) the connection currently
   routes: for each of them Session.chn of the session under that key points to the host's send
   queue (Listener.clientSet), so that Session.queue pushes its outbound packets into the host's
   Channel.  Each call resets all marks, marks the registered tags of the new list (not the host
   itself), withdraws the routing of every key that is no longer marked (clientClear: chn = nil) --
   for the EMPTY list that is everything -- and (re)installs the routing of the marked ones
   (clientSet: only if chn is nil; what is already queued there moves to the host's queue).
   A zero tag is an error: the reader stops and conn.stop withdraws everything in conn.subs.
   w_route: key of a session -> key of the host whose send queue its chn is;
   w_subs: key of a host with a running Channel -> the keys in its conn.subs.
   Not modelled here: channelWrite (the host's queue is left to be looked at), multi-device packets
   inside a Channel, lists beyond com.PacketMaxTags, Server.Remove during a Channel, the address /
   last-seen updates of resolve. *)
Record cworld := CW { w_tbl : table; w_route : gmap Z Z; w_subs : gmap Z (list Z) }.

Definition tag_valid (t : table) (hid : id) (x : Z) : bool :=
  match t !! x with Some v => negb (id_eqb (s_id v) hid) | None => false end.

(* the marking loop of resolve: the marked keys (in order) and false if a zero tag was met *)
Fixpoint mark_tags (t : table) (hid : id) (tags marked : list Z) : list Z * bool :=
  match tags with
  | [] => (marked, true)
  | x :: r =>
    if x =? 0 then (marked, false)
    else if existsb (Z.eqb x) marked then mark_tags t hid r marked
    else if tag_valid t hid x then mark_tags t hid r (marked ++ [x])
    else mark_tags t hid r marked
  end.

(* Listener.clientClear (w_route only ever has keys of the table: client_set) *)
Definition client_clear (w : cworld) (i : Z) : cworld := CW (w_tbl w) (delete i (w_route w)) (w_subs w).
(* Listener.clientSet(i, the send queue of the host under key hk) *)
Definition client_set (hk : Z) (w : cworld) (i : Z) : cworld :=
  match w_tbl w !! i, w_route w !! i with
  | Some v, None =>
    let t1 := <[i := set_out v []]> (w_tbl w) in
    let t2 := match t1 !! hk with Some h => <[hk := set_out h (s_out h ++ s_out v)]> t1 | None => t1 end in
    CW t2 (<[i := hk]> (w_route w)) (w_subs w)
  | _, _ => w
  end.

(* conn.stop: everything in conn.subs (extra: the keys marked by an aborted resolve) is withdrawn *)
Definition chan_stop (w : cworld) (hk : Z) (extra : list Z) : cworld :=
  let old := default [] (w_subs w !! hk) in
  let w1 := fold_left client_clear (old ++ extra) w in
  CW (w_tbl w1) (w_route w1) (delete hk (w_subs w1)).

(* conn.resolve(.., tags, true) on the connection of the host (ID hid) under key hk *)
Definition chan_resolve (w : cworld) (hk : Z) (hid : id) (tags : list Z) : cworld * bool :=
  let old := default [] (w_subs w !! hk) in
  let '(marked, ok) := mark_tags (w_tbl w) hid tags [] in
  if ok then
    let w1 := fold_left client_clear (List.filter (fun k => negb (existsb (Z.eqb k) marked)) old) w in
    let w2 := fold_left (client_set hk) marked w1 in
    (CW (w_tbl w2) (w_route w2) (<[hk := marked]> (w_subs w2)), true)
  else (chan_stop w hk marked, false).

Inductive cop :=
| KReg (d : id) (j : Z)              (* d's hello through Listener.talk *)
| KOpen (d : id)                     (* d's connection switches to Channel mode *)
| KPkt (d : id) (tags : list Z)      (* a Channel packet of d with this tag list *)
| KClose (d : id)                    (* d's Channel connection ends *)
| KSend (d : id) (pid job : Z)       (* the operator queues a packet for d: Server.Session(d).Send *)
| KSendAs (d lbl : id) (pid job : Z) (* the same with a packet that has NO Device: Session.queue stamps it
                                        with local.UUID (lbl: on a server that is the server's own ID) *)
| KDrain (d : id)                    (* what d's Channel connection sends next: Session.next(false) of the host *)
| KPoll (d : id).                    (* d polls the Listener on a connection of its own *)

(* the key of d's running Channel *)
Definition chan_open_key (w : cworld) (d : id) : option Z :=
  match server_session (w_tbl w) d with
  | Some _ => match w_subs w !! hash d with Some _ => Some (hash d) | None => None end
  | None => None
  end.
Definition push_out (t : table) (k : Z) (o : out) : table :=
  match t !! k with Some s => <[k := set_out s (s_out s ++ [o])]> t | None => t end.
(* a host with a running Channel is not polled / re-registered on a second connection (the real
   Session.next waits there); such operations are skipped: ABool false *)
Definition cstep (w : cworld) (o : cop) : cworld * ans :=
  match o with
  | KReg d j =>
    match chan_open_key w d with
    | Some _ => (w, ABool false)
    | None => let '(t', _, r) := talk 0 (w_tbl w) (Single (Leaf d SvHello j BHello) []) in
              (CW t' (w_route w) (w_subs w), r)
    end
  | KOpen d =>
    match server_session (w_tbl w) d with
    | Some _ => match w_subs w !! hash d with
                | Some _ => (w, ABool false)
                | None => (CW (w_tbl w) (w_route w) (<[hash d := []]> (w_subs w)), ABool true)
                end
    | None => (w, ABool false)
    end
  | KPkt d tags =>
    match chan_open_key w d with
    | Some hk =>
      (* a zero tag never reaches resolve on this path: Packet.Unmarshal refuses it, the reader stops *)
      if existsb (Z.eqb 0) tags then (chan_stop w hk [], AErr ETag)
      else let '(w', ok) := chan_resolve w hk d tags in (w', if ok then ABool true else AErr ETag)
    | None => (w, ABool false)
    end
  | KClose d =>
    match chan_open_key w d with
    | Some hk => (chan_stop w hk [], ABool true)
    | None => (w, ABool false)
    end
  | KSend d pid job =>
    match server_session (w_tbl w) d with
    | Some s =>
      let q := match w_route w !! hash d with Some hk => hk | None => hash d end in
      (CW (push_out (w_tbl w) q (d, pid, job)) (w_route w) (w_subs w), AFound (Some (s_id s)))
    | None => (w, AFound None)
    end
  | KSendAs d lbl pid job =>
    match server_session (w_tbl w) d with
    | Some s =>
      let q := match w_route w !! hash d with Some hk => hk | None => hash d end in
      (CW (push_out (w_tbl w) q (lbl, pid, job)) (w_route w) (w_subs w), AFound (Some (s_id s)))
    | None => (w, AFound None)
    end
  | KDrain d =>
    match chan_open_key w d with
    | Some hk =>
      match w_tbl w !! hk with
      | Some h => if is_nil (s_out h) then (w, ABool false)
                  else let '(h', l) := next_false h in (CW (<[hk := h']> (w_tbl w)) (w_route w) (w_subs w), AReply true l)
      | None => (w, ABool false)
      end
    | None => (w, ABool false)
    end
  | KPoll d =>
    match chan_open_key w d with
    | Some _ => (w, ABool false)
    | None => let '(t', _, r) := talk 0 (w_tbl w) (Single (Leaf d 0 0 BEmpty) []) in
              (CW t' (w_route w) (w_subs w), r)
    end
  end.
Fixpoint crun (w : cworld) (ops : list cop) : cworld :=
  match ops with [] => w | o :: r => crun (cstep w o).1 r end.
Definition cw0 : cworld := CW ∅ ∅ ∅.

(* ---- Forwarding: a proxied client's packets on their way to the server ------------------------ *)
(* Device A (a client Session) runs a Proxy; device B talks to that Proxy.  Proxy.notify hands every
   packet of B that is not a NoP to A's Session.write, which queues it on A's send queue -- whole if
   its Size() is at most limits.Frag, else as fragments, each of which carries the device of the
   ORIGINAL packet (not the ID of the Session that writes).  A's Session.next packs the queue into
   containers, Listener.talk / processMultiple hand every entry to the session of the device the
   entry names (talkSub), whose receive() collects the fragments of a group and handles the packet
   when the group is complete.
   A queued packet: device, ID, job, position, number of fragments (0: not a fragment).
   Not modelled: the replies going back down, out-of-order / duplicate / dropped fragments (C02),
   two big packets with the same job (the group number is random in the code, the job stands for
   it here). *)
Record wpkt := WP { wp_dev : id; wp_pid : Z; wp_job : Z; wp_pos : Z; wp_len : Z }.

(* Session.write(_, n) of the Session with ID sid, for a packet n naming dev with Size() = size *)
Definition frag_count (F size : Z) : Z :=
  let m := size / F in (if (m + 1) * F <? size then m + 1 else m) + 1.
Fixpoint frag_list (dev : id) (pid job len : Z) (n : nat) (pos : Z) : list wpkt :=
  match n with O => [] | S n' => WP dev pid job pos len :: frag_list dev pid job len n' (pos + 1) end.
Definition session_write (F : Z) (sid dev : id) (pid job size : Z) : list wpkt :=
  if (F <=? 0) || (size <=? F) then [WP dev pid job 0 0]
  else let m := frag_count F size in frag_list dev pid job m (Z.to_nat m) 0.

(* the server side: fragment groups being collected: (key of the session, job, pieces so far) *)
Definition frs := list (Z * Z * Z).
Fixpoint fr_get (fr : frs) (k g : Z) : option Z :=
  match fr with
  | [] => None
  | (k', g', c) :: r => if (k =? k') && (g =? g') then Some c else fr_get r k g
  end.
Fixpoint fr_del (fr : frs) (k g : Z) : frs :=
  match fr with
  | [] => []
  | (k', g', c) :: r => if (k =? k') && (g =? g') then fr_del r k g else (k', g', c) :: fr_del r k g
  end.
(* receive(s, l, n) for a packet with FlagFrag *)
Definition recv_frag (fr : frs) (k : Z) (s : session) (w : wpkt) : frs * list eff :=
  let handle := if wp_pid w <? MvRefresh then [] else [EHandle (s_id s) (wp_dev w) (wp_job w)] in
  if negb (id_eqb (s_id s) (wp_dev w)) then (fr, [])
  else if wp_len w =? 1 then (fr, handle)
  else match fr_get fr k (wp_job w) with
       | None => if 0 <? wp_pos w then (fr, []) else ((k, wp_job w, 1) :: fr, [])
       | Some c => if c + 1 =? wp_len w then (fr_del fr k (wp_job w), handle)
                   else ((k, wp_job w, c + 1) :: fr_del fr k (wp_job w), [])
       end.

(* one entry of A's containers reaching the Listener *)
Definition deliver (A : id) (t : table) (fr : frs) (w : wpkt) : table * frs * list eff :=
  if wp_len w =? 0 then
    let n := Leaf (wp_dev w) (wp_pid w) (wp_job w) (if wp_pid w =? SvHello then BHello else BData) in
    let '(t', e, _) := if id_eqb (wp_dev w) A then talk 0 t (Single n []) else talk_sub 0 t n false in
    (t', fr, e)
  else match lookup true t (wp_dev w) with
       | Own s => let '(fr', e) := recv_frag fr (hash (wp_dev w)) s w in (t, fr', e)
       | _ => (t, fr, [])       (* an unregistered device: re-registration request, nothing is handled *)
       end.
Fixpoint deliver_all (A : id) (t : table) (fr : frs) (q : list wpkt) : table * frs * list eff :=
  match q with
  | [] => (t, fr, [])
  | w :: r => let '(t1, fr1, e1) := deliver A t fr w in
              let '(t2, fr2, e2) := deliver_all A t1 fr1 r in (t2, fr2, e1 ++ e2)
  end.

Record fworld := FW { fw_tbl : table; fw_cl : gmap Z pclient; fw_q : list wpkt; fw_fr : frs }.
Inductive fop :=
| FHello (d : id) (j : Z)                 (* d's hello at A's Proxy *)
| FSend (d : id) (pid job size : Z)       (* d hands A's Proxy a packet with this Size() *)
| FPump.                                  (* A sends everything it has queued to the Listener *)

(* Proxy.talk as far as forwarding goes: a reply (ABool true), a re-registration request, an error *)
Definition fstep (F : Z) (A : id) (w : fworld) (o : fop) : fworld * list eff * ans :=
  match o with
  | FHello d j =>
    if id_empty d then (w, [], AErr EClosed) else
    match plookup true (fw_cl w) d with
    | POwn _ => (FW (fw_tbl w) (fw_cl w) (fw_q w ++ session_write F A d SvHello j 0) (fw_fr w), [], ABool true)
    | POther _ => (w, [], ARegister d)
    | PFree =>
      (* registered at the Proxy; the hello is forwarded by talk and again by notify *)
      (FW (fw_tbl w) (<[hash d := PClient d []]> (fw_cl w))
          (fw_q w ++ session_write F A d SvHello j 0 ++ session_write F A d SvHello j 0) (fw_fr w), [], ABool true)
    end
  | FSend d pid job size =>
    if id_empty d then (w, [], AErr EClosed) else
    match plookup true (fw_cl w) d with
    | POwn _ => (FW (fw_tbl w) (fw_cl w) (fw_q w ++ session_write F A d pid job size) (fw_fr w), [], ABool true)
    | _ => (w, [], ARegister d)
    end
  | FPump =>
    let '(t', fr', e) := deliver_all A (fw_tbl w) (fw_fr w) (fw_q w) in
    (FW t' (fw_cl w) [] fr', e, ABool true)
  end.
Fixpoint frun (F : Z) (A : id) (w : fworld) (ops : list fop) : fworld * list (list eff) :=
  match ops with
  | [] => (w, [])
  | o :: r => let '(w1, e, _) := fstep F A w o in let '(w2, l) := frun F A w1 r in (w2, e :: l)
  end.
(* the world after A registered directly (job 1) *)
Definition fw0 (A : id) : fworld :=
  FW (talk 0 ∅ (Single (Leaf A SvHello 1 BHello) [])).1.1 ∅ [] [].

(* ---- Flags: how conn.process / receive dispatch on each flag ----------------------------------- *)
(* A data packet (ID >= MvRefresh or any ID; a payload) with ANY combination of FlagMulti,
   FlagMultiDevice, FlagFrag, FlagProxy, any count in Flags.Len() and any device, arriving on the Channel
   connection of host h (conn.channelRead: no table lookup, c.host = h) or on a polling connection
   (Listener.talk: the host is the session found for the packet's device).
   conn.process:  FlagMultiDevice (alone!) => processMultiple, else processSingle -> notify -> receive.
   receive(h, n): the device check  h.ID != n.Device  is made unless FlagMultiDevice is set; then
                  FlagMulti => every entry through receive again; else FlagFrag => count 0: error, count 1:
                  the packet itself, more: collected (nothing is handled yet); else the handler.
   processMultiple: count 0: error; every entry to the session of the device IT names (the host's own
                  entries through receive on the host, the others through talkSub).
   The body: XPlain / XBad: a payload that is not a sequence of packets; XCont: well-formed entries
   (flag-less data packets).  xp_cnt is Flags.Len() (for XCont the number of entries). *)
Definition xsub := (id * Z * Z)%type.
Inductive xbody := XPlain | XCont (subs : list xsub) | XBad.
Record xpkt := XP { xp_dev : id; xp_pid : Z; xp_job : Z; xp_multi : bool; xp_mdev : bool; xp_frag : bool;
                    xp_proxy : bool; xp_cnt : Z; xp_body : xbody }.

Definition x_hand (s : session) (d : id) (pid job : Z) : list eff :=
  if pid <? MvRefresh then [] else [EHandle (s_id s) d job].
(* receive(h, l, v) for a flag-less entry *)
Definition recv_plain (h : session) (v : xsub) : list eff * option Z :=
  let '(d, pid, job) := v in
  if id_empty d then ([], None)
  else if negb (id_eqb (s_id h) d) then ([], Some EMismatch)
  else (x_hand h d pid job, None).
Fixpoint recv_subs (h : session) (subs : list xsub) : list eff * option Z :=
  match subs with
  | [] => ([], None)
  | v :: r =>
    if id_empty (v.1.1) then ([], Some EOther)
    else match recv_plain h v with
         | (e, Some err) => (e, Some err)
         | (e, None) => let '(e', r') := recv_subs h r in (e ++ e', r')
         end
  end.
Definition recv_x (h : session) (n : xpkt) : list eff * option Z :=
  if id_empty (xp_dev n) then ([], None)
  else if negb (xp_mdev n) && negb (id_eqb (s_id h) (xp_dev n)) then ([], Some EMismatch)
  else if xp_multi n then
    if xp_cnt n =? 0 then ([], Some ECount)
    else match xp_body n with XCont l => recv_subs h l | _ => ([], Some EOther) end
  else if xp_frag n then
    if xp_cnt n =? 0 then ([], Some ECount)
    else if xp_cnt n =? 1 then (x_hand h (xp_dev n) (xp_pid n) (xp_job n), None)
    else ([], None)
  else (x_hand h (xp_dev n) (xp_pid n) (xp_job n), None).
(* processMultiple's loop: the error of the host's own entries is only logged *)
Fixpoint pm_subs (t : table) (h : session) (subs : list xsub) : list eff * option Z :=
  match subs with
  | [] => ([], None)
  | v :: r =>
    if id_empty (v.1.1) then ([], Some EOther)
    else if id_eqb (s_id h) (v.1.1) then
      let '(e, _) := recv_plain h v in let '(e', r') := pm_subs t h r in (e ++ e', r')
    else match lookup true t (v.1.1) with
         | Own s => match recv_plain s v with
                    | (e, Some err) => (e, Some err)
                    | (e, None) => let '(e', r') := pm_subs t h r in (e ++ e', r')
                    end
         | _ => pm_subs t h r           (* unregistered: re-registration request *)
         end
  end.
Definition process_x (t : table) (h : session) (n : xpkt) : list eff * option Z :=
  if xp_mdev n then
    if xp_cnt n =? 0 then ([], Some ECount)
    else match xp_body n with XCont l => pm_subs t h l | _ => ([], Some EOther) end
  else recv_x h n.

Record xworld := XW { xw_tbl : table; xw_open : list Z }.
Inductive xop :=
| XReg (d : id) (j : Z)           (* hello through Listener.talk *)
| XOpen (d : id)                  (* d's connection becomes a Channel *)
| XChan (d : id) (n : xpkt)       (* the packet n arrives on d's Channel connection *)
| XPoll (n : xpkt).               (* the packet n arrives on a polling connection (Listener.talk) *)
Definition x_is_open (w : xworld) (d : id) : bool :=
  match server_session (xw_tbl w) d with Some _ => existsb (Z.eqb (hash d)) (xw_open w) | None => false end.
Definition xstep (w : xworld) (o : xop) : xworld * list eff * ans :=
  match o with
  | XReg d j =>
    if x_is_open w d then (w, [], ABool false)
    else let '(t', e, r) := talk 0 (xw_tbl w) (Single (Leaf d SvHello j BHello) []) in (XW t' (xw_open w), e, r)
  | XOpen d =>
    match server_session (xw_tbl w) d with
    | Some _ => if x_is_open w d then (w, [], ABool false) else (XW (xw_tbl w) (hash d :: xw_open w), [], ABool true)
    | None => (w, [], ABool false)
    end
  | XChan d n =>
    match server_session (xw_tbl w) d with
    | Some h =>
      if x_is_open w d then
        match process_x (xw_tbl w) h n with
        | (e, Some err) => (XW (xw_tbl w) (List.filter (fun k => negb (k =? hash d)) (xw_open w)), e, AErr EOther)   (* the reader logs the error and stops: conn.stop *)
        | (e, None) => (w, e, ABool true)
        end
      else (w, [], ABool false)
    | None => (w, [], ABool false)
    end
  | XPoll n =>
    let d := xp_dev n in
    if id_empty d then (w, [], AErr EClosed)
    else if x_is_open w d then (w, [], ABool false)
    else match lookup true (xw_tbl w) d with
         | Own h => match process_x (xw_tbl w) h n with
                    | (e, Some err) => (w, e, AErr err)
                    | (e, None) => (w, e, ABool true)
                    end
         | _ => (w, [], ARegister d)
         end
  end.
Fixpoint xrun (w : xworld) (ops : list xop) : xworld * list (list eff) :=
  match ops with
  | [] => (w, [])
  | o :: r => let '(w1, e, _) := xstep w o in let '(w2, l) := xrun w1 r in (w2, e :: l)
  end.

(* ---- correspondence cases --------------------------------------------------- *)
(* observable events of one step, in the order the server's event loop delivered them *)
Inductive ev := VNew (sid : id) | VRecv (sid pdev : id) (job : Z) | VDrop (sid : id).
Definition ev_of (e : eff) : list ev :=
  match e with
  | ENew s => [VNew s] | EHandle s p j => [VRecv s p j] | EDrop s => [VDrop s] | _ => []
  end.
(* one session of a table snapshot: key, ID, address tag, key tag, queued outbound packets *)
Definition snap := (Z * id * Z * Z * list out)%type.
Definition snapshot (t : table) : list snap :=
  map (fun kv => (fst kv, s_id (snd kv), s_host (snd kv), s_key (snd kv), s_out (snd kv))) (map_to_list t).
Definition psnapshot (x : proxy) : list (Z * id * list out) :=
  map (fun kv => (fst kv, c_id (snd kv), c_out (snd kv))) (map_to_list (x_clients x)).

Record obs := Obs { o_ans : ans; o_evs : list ev; o_tbl : list snap }.
Record pobs := PObs { po_ans : ans; po_up : list out; po_tbl : list (Z * id * list out) }.

(* one step of a Channel history: answer, per session (key, ID, key of the host it is routed to or 0,
   queue sorted by job/ID), per running Channel (key of the host, conn.subs ascending).  The queues are
   compared sorted because clientSet runs over a Go map: the order in which several queues are
   moved into the host's queue is not determined. *)
Definition csnap := (Z * id * Z * list out)%type.
Record cobs := CObs { co_ans : ans; co_tbl : list csnap; co_conns : list (Z * list Z) }.

(* one step of a forwarding history: answer, handler events, A's send queue afterwards *)
Record fobs := FObs { fo_ans : ans; fo_evs : list ev; fo_q : list wpkt }.

(* one step of a flag history: answer, handler events *)
Record xobs := XObs { xo_ans : ans; xo_evs : list ev }.

Inductive case :=
| CHash (d : id) (h : Z)                                        (* ID.Hash *)
| CConsts (hello register complete refresh shutdown : Z)        (* SvHello, SvRegister, SvComplete, MvRefresh, SvShutdown *)
| CHist (ops : list op) (o : list obs)                          (* a history on a fresh Server + Listener *)
| CProxy (ops : list pop) (o : list pobs)                       (* a history on a fresh Proxy *)
| CChan (ops : list cop) (o : list cobs)                        (* a history with Channels on a fresh Server + Listener *)
| CFwd (F : Z) (A : id) (ops : list fop) (o : list fobs)        (* a client behind A's Proxy, limits.Frag = F *)
| CFlag (ops : list xop) (o : list xobs).                       (* packets with every flag combination *)

Definition out_eqb (a b : out) : bool :=
  let '(d, p, j) := a in let '(d', p', j') := b in id_eqb d d' && (p =? p') && (j =? j').
Definition outs_eqb := list_eqb out_eqb.
Definition oid_eqb := option_eqb id_eqb.

Definition ans_eqb (a b : ans) : bool :=
  match a, b with
  | AErr e, AErr f => e =? f
  | ARegister d, ARegister d' => id_eqb d d'
  | AReply k l, AReply k' l' => Bool.eqb k k' && outs_eqb l l'
  | ASub k q r l, ASub k' q' r' l' => oid_eqb k k' && (q =? q') && oid_eqb r r' && outs_eqb l l'
  | AFound s, AFound s' => oid_eqb s s'
  | AList l, AList l' => list_eqb (fun x y => (fst x =? fst y) && id_eqb (snd x) (snd y)) l l'
  | ABool x, ABool y => Bool.eqb x y
  | _, _ => false
  end.
Definition ev_eqb (a b : ev) : bool :=
  match a, b with
  | VNew s, VNew s' => id_eqb s s'
  | VRecv s p j, VRecv s' p' j' => id_eqb s s' && id_eqb p p' && (j =? j')
  | VDrop s, VDrop s' => id_eqb s s'
  | _, _ => false
  end.
Definition snap_eqb (a b : snap) : bool :=
  let '(k, d, h, y, q) := a in let '(k', d', h', y', q') := b in
  (k =? k') && id_eqb d d' && (h =? h') && (y =? y') && outs_eqb q q'.
Definition psnap_eqb (a b : Z * id * list out) : bool :=
  let '(k, d, q) := a in let '(k', d', q') := b in (k =? k') && id_eqb d d' && outs_eqb q q'.

(* the harness lists tables by ascending key, as map_to_list of a gmap Z does not: sort here *)
Fixpoint insert_by {A} (key : A -> Z) (x : A) (l : list A) : list A :=
  match l with
  | [] => [x]
  | y :: r => if key x <=? key y then x :: l else y :: insert_by key x r
  end.
Definition sort_by {A} (key : A -> Z) (l : list A) : list A := fold_right (insert_by key) [] l.

Definition sort_ans (a : ans) : ans :=
  match a with AList l => AList (sort_by fst l) | _ => a end.

Fixpoint run_check (chk : bool) (a : Z) (t : table) (ops : list op) (o : list obs) : bool :=
  match ops, o with
  | [], [] => true
  | x :: ops', y :: o' =>
    let '(t', e, r) := step_g chk a t x in
    ans_eqb (sort_ans r) (o_ans y)
    && list_eqb ev_eqb (flat_map ev_of e) (o_evs y)
    && list_eqb snap_eqb (sort_by (fun s : snap => let '(k, _, _, _, _) := s in k) (snapshot t')) (o_tbl y)
    && run_check chk (a + 1) t' ops' o'
  | _, _ => false
  end.

Fixpoint prun_check (chk : bool) (x : proxy) (ops : list pop) (o : list pobs) : bool :=
  match ops, o with
  | [], [] => true
  | p :: ops', y :: o' =>
    let '(x', r) := pstep_g chk x p in
    ans_eqb r (po_ans y)
    && outs_eqb (x_up x') (po_up y)
    && list_eqb psnap_eqb (sort_by (fun s : Z * id * list out => let '(k, _, _) := s in k) (psnapshot x')) (po_tbl y)
    && prun_check chk x' ops' o'
  | _, _ => false
  end.

Definition out_key (o : out) : Z := let '(_, pid, job) := o in job * 256 + pid.
Definition csnapshot (w : cworld) : list csnap :=
  sort_by (fun s : csnap => let '(k, _, _, _) := s in k)
    (map (fun kv => (fst kv, s_id (snd kv), default 0 (w_route w !! fst kv), sort_by out_key (s_out (snd kv))))
         (map_to_list (w_tbl w))).
Definition cconns (w : cworld) : list (Z * list Z) :=
  sort_by fst (map (fun kv => (fst kv, sort_by (fun x : Z => x) (snd kv))) (map_to_list (w_subs w))).
Definition sort_reply (a : ans) : ans :=
  match a with AReply k l => AReply k (sort_by out_key l) | _ => a end.
Definition csnap_eqb (a b : csnap) : bool :=
  let '(k, d, r, q) := a in let '(k', d', r', q') := b in (k =? k') && id_eqb d d' && (r =? r') && outs_eqb q q'.
Fixpoint crun_check (w : cworld) (ops : list cop) (o : list cobs) : bool :=
  match ops, o with
  | [], [] => true
  | x :: ops', y :: o' =>
    let '(w', r) := cstep w x in
    ans_eqb (sort_reply r) (co_ans y)
    && list_eqb csnap_eqb (csnapshot w') (co_tbl y)
    && list_eqb (fun a b => (fst a =? fst b) && zlist_eqb (snd a) (snd b)) (cconns w') (co_conns y)
    && crun_check w' ops' o'
  | _, _ => false
  end.

Definition wpkt_eqb (a b : wpkt) : bool :=
  id_eqb (wp_dev a) (wp_dev b) && (wp_pid a =? wp_pid b) && (wp_job a =? wp_job b) && (wp_pos a =? wp_pos b) && (wp_len a =? wp_len b).
Fixpoint frun_check (F : Z) (A : id) (w : fworld) (ops : list fop) (o : list fobs) : bool :=
  match ops, o with
  | [], [] => true
  | x :: ops', y :: o' =>
    let '(w', e, r) := fstep F A w x in
    ans_eqb r (fo_ans y) && list_eqb ev_eqb (flat_map ev_of e) (fo_evs y) && list_eqb wpkt_eqb (fw_q w') (fo_q y)
    && frun_check F A w' ops' o'
  | _, _ => false
  end.

Fixpoint xrun_check (w : xworld) (ops : list xop) (o : list xobs) : bool :=
  match ops, o with
  | [], [] => true
  | x :: ops', y :: o' =>
    let '(w', e, r) := xstep w x in
    ans_eqb (match r with AReply _ _ => ABool true | _ => r end) (xo_ans y)
    && list_eqb ev_eqb (flat_map ev_of e) (xo_evs y) && xrun_check w' ops' o'
  | _, _ => false
  end.

Definition check_g (chk : bool) (c : case) : bool :=
  match c with
  | CHash d h => hash d =? h
  | CConsts a b c d e => (a =? SvHello) && (b =? SvRegister) && (c =? SvComplete) && (d =? MvRefresh) && (e =? SvShutdown)
  | CHist ops o => run_check chk 1 ∅ ops o
  | CProxy ops o => prun_check chk (Proxy ∅ []) ops o
  | CChan ops o => crun_check cw0 ops o
  | CFwd F A ops o => frun_check F A (fw0 A) ops o
  | CFlag ops o => xrun_check (XW ∅ []) ops o
  end.
(* the code as it is *)
Definition check := check_g true.
(* the code as it was before the fix: commits (used once to validate the chk = false instances) *)
Definition check_hash_only := check_g false.
