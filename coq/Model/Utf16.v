(* Model/Utf16.v -- C20: device/winapi/utf16.go (encoder loops, decoder, FNV-1) and
   device/regedit/entry.go (registry value reinterpretation).  Definitions only.
   Runes and UTF-16 units are Z; a rune is any int32 (negative, surrogate and > U+10FFFF included). *)
From XMT Require Import Base.Prelude.

Definition utfSelf  : Z := 65536.     (* 0x10000 *)
Definition utfSurgA : Z := 55296.     (* 0xd800 *)
Definition utfSurgB : Z := 56320.     (* 0xdc00 *)
Definition utfSurgC : Z := 57344.     (* 0xe000 *)
Definition utfRuneMax : Z := 1114111. (* 0x10FFFF *)
Definition utfRepl : Z := 65533.      (* 0xFFFD *)
Definition EINVAL : Z := 22.

(* utf16EncodeRune *)
Definition encode_rune (r : Z) : Z * Z :=
  if (r <? utfSelf) || (utfRuneMax <? r) then (utfRepl, utfRepl)
  else let r' := r - utfSelf in
       (u16 (utfSurgA + Z.land (Z.shiftr r' 10) 1023), u16 (utfSurgB + Z.land r' 1023)).

(* utf16DecodeRune *)
Definition decode_rune (r1 r2 : Z) : Z :=
  if (utfSurgA <=? r1) && (r1 <? utfSurgB) && (utfSurgB <=? r2) && (r2 <? utfSurgC)
  then Z.lor (Z.shiftl (r1 - utfSurgA) 10) (r2 - utfSurgB) + utfSelf
  else utfRepl.


(* First loop of utf16Encode (strict = true) / UTF16EncodeStd (strict = false): the size of
   the output array, starting from n = len(s); in strict mode a zero anywhere but at the last
   index is EINVAL. *)
Fixpoint size_pass (strict : bool) (s : list Z) (n : Z) : res Z :=
  match s with
  | [] => Ok n
  | r :: rest =>
    if strict && (r =? 0) && negb (is_nil rest) then Err EINVAL
    else size_pass strict rest (if r <? utfSelf then n else n + 1)
  end.

(* Second loop: input index walks s, n is the output index into b (|b| = cap); every write
   b[n] is bound-checked as Go does.  out is the written prefix, reversed. *)
Fixpoint enc_loop (strict : bool) (cap : Z) (s : list Z) (n : Z) (out : list Z) : res (list Z) :=
  match s with
  | [] => if n <=? cap then Ok (rev out) else Panic          (* b[:n] *)
  | r :: rest =>
    if strict && (r =? 0) && negb (is_nil rest) then Err EINVAL
    else if ((0 <=? r) && (r <? utfSurgA)) || ((utfSurgC <=? r) && (r <? utfSelf)) then
      if n <? cap then enc_loop strict cap rest (n + 1) (u16 r :: out) else Panic
    else if (utfSelf <=? r) && (r <=? utfRuneMax) then
      if n + 1 <? cap then
        let '(a, b) := encode_rune r in enc_loop strict cap rest (n + 2) (b :: a :: out)
      else Panic
    else
      if n <? cap then enc_loop strict cap rest (n + 1) (utfRepl :: out) else Panic
  end.

Definition utf16_encode_gen (strict : bool) (s : list Z) : res (list Z) :=
  do cap <- size_pass strict s (len s); enc_loop strict cap s 0 [].

Definition utf16_encode := utf16_encode_gen true.     (* utf16Encode *)
Definition utf16_encode_std := utf16_encode_gen false. (* UTF16EncodeStd *)

(* UTF16FromString on a string whose rune sequence is rs (the []rune conversion is Go's) *)
Definition utf16_from_runes (rs : list Z) : res (list Z) :=
  match rs with [] => Ok [0] | _ => utf16_encode (rs ++ [0]) end.

(* UTF16Decode: i+1 < len(s) is "there is a second element" *)
Fixpoint utf16_decode (s : list Z) : list Z :=
  match s with
  | [] => []
  | r :: rest =>
    if r =? 0 then []
    else if (r <? utfSurgA) || (utfSurgC <=? r) then r :: utf16_decode rest
    else match rest with
         | r2 :: rest' =>
           if (utfSurgA <=? r) && (r <? utfSurgB) && (utfSurgB <=? r2) && (r2 <? utfSurgC)
           then decode_rune r r2 :: utf16_decode rest'
           else utfRepl :: utf16_decode rest
         | [] => [utfRepl]
         end
  end.

(* FnvHash *)
Definition fnv_step (h c : Z) : Z := Z.lxor (u32 (h * 16777619)) c.
Definition fnv (s : list Z) : Z := fold_left fnv_step s 2166136261.

(* ---- registry values (device/regedit/entry.go) ------------------------- *)
Definition TypeString : Z := 1.
Definition TypeExpandString : Z := 2.
Definition TypeBinary : Z := 3.
Definition TypeDword : Z := 4.
Definition TypeStringList : Z := 7.
Definition TypeQword : Z := 11.
Definition ErrUnexpectedType : Z := 1.
Definition ErrUnexpectedSize : Z := 2.

(* element i of the uint16 view of the value: reads bytes 2i and 2i+1 OF THE VALUE; a read
   outside the value is Panic *)
Definition v_at (d : list Z) (i : Z) : res Z :=
  do lo <- idx d (2 * i); do hi <- idx d (2 * i + 1); Ok (lo + 256 * hi).

Fixpoint view_from (d : list Z) (i : Z) (k : nat) : res (list Z) :=
  match k with
  | O => Ok []
  | S k' => do x <- v_at d i; do r <- view_from d (i + 1) k'; Ok (x :: r)
  end.
(* the uint16 slice over Data with length and capacity len/2 *)
Definition view (d : list Z) : res (list Z) := view_from d 0 (Z.to_nat (len d / 2)).

Definition entry_to_string (ty : Z) (d : list Z) : res (list Z) :=
  if negb (ty =? TypeString) && negb (ty =? TypeExpandString) then Err ErrUnexpectedType
  else if len d <? 3 then Err ErrUnexpectedSize
  else do v <- view d; Ok (utf16_decode v).

(* the i/n loop of ToStringList: cur = v[n:i] reversed *)
Fixpoint split_loop (v cur : list Z) : list (list Z) :=
  match v with
  | [] => []                                   (* an unterminated tail is not appended *)
  | x :: r => if 0 <? x then split_loop r (x :: cur)
              else utf16_decode (rev cur) :: split_loop r []
  end.

Definition strip_last_zero (v : list Z) : list Z :=
  match rev v with 0 :: r => rev r | _ => v end.

Definition entry_to_string_list (ty : Z) (d : list Z) : res (list (list Z)) :=
  if negb (ty =? TypeStringList) then Err ErrUnexpectedType
  else if len d <? 3 then Err ErrUnexpectedSize
  else do v <- view d;
       if is_nil v then Ok [] else Ok (split_loop (strip_last_zero v) []).

Fixpoint of_le (l : list Z) : Z := match l with [] => 0 | b :: r => b + 256 * of_le r end.

Definition entry_to_integer (ty : Z) (d : list Z) : res Z :=
  if ty =? TypeDword then (if negb (len d =? 4) then Err ErrUnexpectedSize else Ok (of_le d))
  else if ty =? TypeQword then (if negb (len d =? 8) then Err ErrUnexpectedSize else Ok (of_le d))
  else Err ErrUnexpectedType.

(* ---- the independent specification: standard UTF-16 (arithmetic, no bit operations) ---- *)
Definition scalar (r : Z) : bool :=
  ((0 <=? r) && (r <? utfSurgA)) || ((utfSurgC <=? r) && (r <=? utfRuneMax)).
Definition std_enc_rune (r : Z) : list Z :=
  if negb (scalar r) then [utfRepl]
  else if r <? utfSelf then [r]
  else [utfSurgA + (r - utfSelf) / 1024; utfSurgB + (r - utfSelf) mod 1024].
Definition std_enc (rs : list Z) : list Z := flat_map std_enc_rune rs.

(* ---- correspondence cases ---------------------------------------------- *)
Inductive case :=
| CEnc (strict : bool) (s : list Z) (out : res (list Z))
| CFromRunes (rs : list Z) (out : res (list Z))
| CDec (s : list Z) (out : list Z)
| CFnv (s : list Z) (out : Z)
| CEntStr (ty : Z) (d : list Z) (out : res (list Z))
| CEntList (ty : Z) (d : list Z) (out : res (list (list Z)))
| CEntInt (ty : Z) (d : list Z) (out : res Z).

Definition check (c : case) : bool :=
  match c with
  | CEnc st s o => res_eqb zlist_eqb (utf16_encode_gen st s) o
  | CFromRunes rs o => res_eqb zlist_eqb (utf16_from_runes rs) o
  | CDec s o => zlist_eqb (utf16_decode s) o
  | CFnv s o => Z.eqb (fnv s) o
  | CEntStr ty d o => res_eqb zlist_eqb (entry_to_string ty d) o
  | CEntList ty d o => res_eqb (list_eqb zlist_eqb) (entry_to_string_list ty d) o
  | CEntInt ty d o => res_eqb Z.eqb (entry_to_integer ty d) o
  end.
