(* Model/State.v -- C13: c2/state.go, the session state word.  Definitions only.
   A state is a Z below 2^32: low 16 bits are the flags, high 16 bits the last fragment group.
   Every predicate and mutator is written after the Go method of the same name (same order of
   tests, same early exits); `ld_and w m` is `atomic.LoadUint32(s) & m != 0` (s cast to its uint32 pointer).  The functions
   here are the SEQUENTIAL meaning of the methods (every load of one call sees the same word
   unless the call itself stored in between); the atomic shape of Set/Unset/SetLast is not
   fixed here, it is translated from the Go source into Gen/StateAtomics.v and given a
   semantics in Model/Interleave.v. *)
From XMT Require Import Base.Prelude.

(* const ( stateCanRecv uint32 = 1 << iota ... ) *)
Definition stateCanRecv        : Z := 1.
Definition stateReady          : Z := 2.
Definition stateClosed         : Z := 4.
Definition stateClosing        : Z := 8.
Definition stateShutdown       : Z := 16.
Definition stateSendClose      : Z := 32.
Definition stateRecvClose      : Z := 64.
Definition stateWakeClose      : Z := 128.
Definition stateChannel        : Z := 256.
Definition stateChannelValue   : Z := 512.
Definition stateChannelUpdated : Z := 1024.
Definition stateChannelProxy   : Z := 2048.
Definition stateSeen           : Z := 4096.
Definition stateMoving         : Z := 8192.
Definition stateReplacing      : Z := 16384.
Definition stateShutdownWait   : Z := 32768.

Definition state_bits : list Z :=
  [stateCanRecv; stateReady; stateClosed; stateClosing; stateShutdown; stateSendClose; stateRecvClose;
   stateWakeClose; stateChannel; stateChannelValue; stateChannelUpdated; stateChannelProxy; stateSeen;
   stateMoving; stateReplacing; stateShutdownWait].

Definition word_ok (w : Z) : Prop := 0 <= w < 4294967296.
Definition half_ok (v : Z) : Prop := 0 <= v < 65536.

(* the two halves *)
Definition st_flags (w : Z) : Z := w mod 65536.
Definition st_group (w : Z) : Z := w / 65536.
Definition mk_word (g f : Z) : Z := g * 65536 + f.

(* atomic.LoadUint32(s) & m != 0 *)
Definition ld_and (w m : Z) : bool := negb (Z.land w m =? 0).

(* ---- mutators ---------------------------------------------------------- *)
(* Set:     store(load | v)                                  (uint32 | uint32: no wrap) *)
Definition st_set (w v : Z) : Z := Z.lor w v.
(* Unset:   store(load &^ v) *)
Definition st_unset (w v : Z) : Z := Z.ldiff w v.
(* SetLast: store((uint32(v) << 16) | uint32(uint16(load)))  (v is a uint16; the shift wraps at 32 bits) *)
Definition st_setlast (w v : Z) : Z := Z.lor (u32 (Z.shiftl (u32 v) 16)) (u32 (u16 w)).

(* ---- plain getters ----------------------------------------------------- *)
Definition st_seen (w : Z) := ld_and w stateSeen.
Definition st_moving (w : Z) := ld_and w stateMoving.
Definition st_closed (w : Z) := ld_and w stateClosed.
Definition st_channel (w : Z) := ld_and w stateChannel.
Definition st_replacing (w : Z) := ld_and w stateReplacing.
Definition st_shutdown_wait (w : Z) := ld_and w stateShutdownWait.
Definition st_channel_value (w : Z) := ld_and w stateChannelValue.
Definition st_channel_proxy (w : Z) := ld_and w stateChannelProxy.
Definition st_channel_updated (w : Z) := ld_and w stateChannelUpdated.
(* Last: uint16(load >> 16) *)
Definition st_last (w : Z) : Z := u16 (Z.shiftr w 16).

(* ---- predicates dominated by the closed bit ----------------------------- *)
Definition st_ready (w : Z) : bool := if st_closed w then false else ld_and w stateReady.
Definition st_closing (w : Z) : bool := if st_closed w then true else ld_and w stateClosing.
Definition st_shutdown (w : Z) : bool := if st_closed w then true else ld_and w stateShutdown.
Definition st_recv_closed (w : Z) : bool := if st_closed w then true else ld_and w stateRecvClose.
Definition st_send_closed (w : Z) : bool := if st_closed w then true else ld_and w stateSendClose.
Definition st_wake_closed (w : Z) : bool := if st_closed w then true else ld_and w stateWakeClose.
Definition st_can_recv (w : Z) : bool :=
  if st_closed w || st_recv_closed w then false else ld_and w stateCanRecv.

(* ---- the channel request protocol and Tag (these mutate) ---------------- *)
(* Tag *)
Definition st_tag (w : Z) : bool * Z :=
  if negb (st_seen w) then (false, w) else (true, st_unset w stateSeen).

(* ChannelCanStart *)
Definition st_channel_can_start (w : Z) : bool :=
  if st_closed w then false else if st_channel w then true else st_channel_value w.

(* ChannelCanStop: clears the 'updated' notice when it sees it, then reads the value again *)
Definition st_channel_can_stop (w : Z) : bool * Z :=
  if st_closing w || negb (st_channel w) then (true, w)
  else if st_channel_updated w then
         let w' := st_unset w stateChannelUpdated in (negb (st_channel_value w'), w')
       else (negb (st_channel w), w).

(* SetChannel(e) *)
Definition st_set_channel (e : bool) (w : Z) : bool * Z :=
  if e then
    if st_channel_value w then (false, w)
    else (true, st_set (st_set w stateChannelValue) stateChannelUpdated)
  else
    if (negb (st_channel w) || negb (st_channel_proxy w)) && negb (st_channel_value w) then (false, w)
    else (true, st_set (st_unset w stateChannelValue) stateChannelUpdated).

(* ---- what the rest of c2 does to the word ---------------------------------- *)
(* Session.close(w) (c2/session.go): nothing when already closing; a server-side Session that has
   not yet queued its shutdown notice drops the channel request, its notice and the channel mode and
   keeps running; otherwise the same three flags are dropped and Closing is raised (the calls that
   follow -- shutdown / Wake -- are not part of this model: the harness only drives the branches
   that stop there) *)
Definition teardown_mask : Z := 1792.   (* ChannelValue | ChannelUpdated | Channel *)
Definition st_teardown (w : Z) : Z :=
  st_unset (st_unset (st_unset w stateChannelValue) stateChannelUpdated) stateChannel.
Definition st_close (server : bool) (w : Z) : Z :=
  if st_closing w then w
  else if server && negb (st_shutdown_wait w) then st_teardown w
  else st_set (st_teardown w) stateClosing.

(* the connHost view of the word (c2/channel.go, c2/proxy.go): kind 0 = a client-side *Session,
   1 = a *proxyClient, 2 = a server-side *Session.  Ops: 0 stateSet v, 1 stateUnset v, 2 chanRunning,
   3 chanStart, 4 chanStop, 5 close(false) (Sessions only) *)
Definition host_op (kind : Z) (w : Z) (o : Z * Z) : bool * Z :=
  let '(op, v) := o in
  if op =? 0 then (false, st_set w v)
  else if op =? 1 then (false, st_unset w v)
  else if op =? 2 then (st_channel w, w)
  else if op =? 3 then ((if kind =? 0 then negb (st_moving w) else true) && st_channel_can_start w, w)
  else if op =? 4 then st_channel_can_stop w
  else (false, st_close (kind =? 2) w).

Fixpoint run_host (kind : Z) (w : Z) (ops : list (Z * Z)) : Z * list bool :=
  match ops with
  | [] => (w, [])
  | o :: r => let '(b, w1) := host_op kind w o in let '(w2, bs) := run_host kind w1 r in (w2, b :: bs)
  end.

(* ---- specification of the predicates (the truth table) ------------------- *)
(* Every predicate written once more, directly in terms of the bits of the word (bit i =
   Z.testbit w i, numbered as in the const block: 0 CanRecv 1 Ready 2 Closed 3 Closing 4 Shutdown
   5 SendClose 6 RecvClose 7 WakeClose 8 Channel 9 ChannelValue 10 ChannelUpdated 11 ChannelProxy
   12 Seen 13 Moving 14 Replacing 15 ShutdownWait).  `table_ok w` says that the methods as the
   code computes them (mask, compare, early exits) agree with this table on the word w. *)
Definition table_ok (w : Z) : bool :=
  let b := Z.testbit w in
  let closed := b 2 in
  eqb (st_closed w) closed &&
  eqb (st_ready w) (negb closed && b 1) &&
  eqb (st_can_recv w) (negb closed && negb (b 6) && b 0) &&
  eqb (st_closing w) (closed || b 3) &&
  eqb (st_shutdown w) (closed || b 4) &&
  eqb (st_send_closed w) (closed || b 5) &&
  eqb (st_recv_closed w) (closed || b 6) &&
  eqb (st_wake_closed w) (closed || b 7) &&
  eqb (st_channel w) (b 8) &&
  eqb (st_channel_value w) (b 9) &&
  eqb (st_channel_updated w) (b 10) &&
  eqb (st_channel_proxy w) (b 11) &&
  eqb (st_seen w) (b 12) &&
  eqb (st_moving w) (b 13) &&
  eqb (st_replacing w) (b 14) &&
  eqb (st_shutdown_wait w) (b 15) &&
  eqb (st_channel_can_start w) (negb closed && (b 8 || b 9)) &&
  (* return values of the mutating calls *)
  eqb (fst (st_tag w)) (b 12) &&
  eqb (fst (st_channel_can_stop w))
      (closed || b 3 || negb (b 8) || (b 10 && negb (b 9))) &&
  eqb (fst (st_set_channel true w)) (negb (b 9)) &&
  eqb (fst (st_set_channel false w)) (b 9 || (b 8 && b 11)).

(* SetChannel(e): does the request differ from the standing one?  `off` while a proxy-induced
   channel is running (Channel and ChannelProxy set, no request bit) counts as differing: it differs
   from the running MODE and raises the notice without touching the request bit. *)
Definition request_differs (e : bool) (w : Z) : bool :=
  if e then negb (st_channel_value w)
  else st_channel_value w || (st_channel w && st_channel_proxy w).

(* all flag states *)
Fixpoint zrange (n : nat) (start : Z) : list Z :=
  match n with O => [] | S n' => start :: zrange n' (start + 1) end.
Definition flag_states : list Z := zrange (Z.to_nat 65536) 0.

(* ---- correspondence cases ------------------------------------------------ *)
(* every bool-valued method in a fixed order, packed little-endian into one integer *)
Definition b2z (b : bool) : Z := if b then 1 else 0.
Fixpoint pack (l : list bool) : Z :=
  match l with [] => 0 | b :: r => b2z b + 2 * pack r end.

Definition pred_vector (w : Z) : Z :=
  pack [st_seen w; st_ready w; st_moving w; st_closed w; st_can_recv w; st_closing w; st_channel w;
        st_shutdown w; st_replacing w; st_recv_closed w; st_send_closed w; st_wake_closed w;
        st_shutdown_wait w; st_channel_value w; st_channel_proxy w; st_channel_updated w;
        st_channel_can_start w;
        (* return values of the four mutating calls, each made on a fresh copy of w *)
        fst (st_tag w); fst (st_channel_can_stop w); fst (st_set_channel true w); fst (st_set_channel false w)].

(* order-sensitive digest of a list of result words (compared with the same digest computed by
   the harness over the results of the real methods) *)
(* reduction mod 2^64 written as a mask: Z.land is linear where Z.modulo is quadratic under vm_compute *)
Definition mix (h x : Z) : Z := Z.land (h * 1000003 + x + 1) 18446744073709551615.
Definition digest (l : list Z) : Z := fold_left mix l 0.

(* the word after all the getters ran on it (they do not store), the words left by Tag,
   ChannelCanStop, SetChannel(true), SetChannel(false) (each on a fresh copy of w), then the
   words after Set(b), then Unset(b), for each of the 16 single-bit arguments b, then after
   SetLast(g) for the group values gs *)
Definition sweep (w : Z) (gs : list Z) : list Z :=
  w :: snd (st_tag w) :: snd (st_channel_can_stop w) :: snd (st_set_channel true w) :: snd (st_set_channel false w) ::
  map (st_set w) state_bits ++ map (st_unset w) state_bits ++ map (st_setlast w) gs.

(* the packed bool results (21 bits) with Last() above them *)
Definition row_vector (w : Z) : Z := pred_vector w + 2097152 * st_last w.

(* ---- blocks of consecutive flag states ------------------------------------- *)
(* The exhaustive walk over the 2^16 flag states is emitted as blocks of consecutive flag states:
   the group half and the two SetLast arguments of flag state f are derived from a block seed s by
   the functions below (the harness computes the same values), and the implementation's results
   of ALL rows of the block are folded into one digest.  A literal CRow per flag state costs Coq
   more time to parse than to evaluate. *)
Definition edge_groups : list Z := [0; 65535; 1; 32768; 255; 65280].
Definition edge_group (i : Z) : Z := nth (Z.to_nat (i mod 6)) edge_groups 0.
Definition blk_hash (s f : Z) : Z := Z.land (Z.shiftr ((f + 1) * (2 * s + 1) * 40503) 3) 65535.
(* every fourth flag state gets a boundary group value *)
Definition blk_group (s f : Z) : Z :=
  if Z.land f 3 =? 0 then edge_group (Z.shiftr f 2 + s) else blk_hash s f.
(* SetLast arguments: a hashed value (every eighth state: the current group itself) and a boundary value *)
Definition blk_args (s f : Z) : list Z :=
  [if Z.land f 7 =? 1 then blk_group s f else blk_hash (s + 1) f; edge_group (f + s)].
Definition blk_word (s f : Z) : Z := mk_word (blk_group s f) f.
(* one row folded into the running digest: the packed results, then every word of the sweep *)
Definition row_digest (h w : Z) (gs : list Z) : Z := fold_left mix (row_vector w :: sweep w gs) h.
Definition block_digest (s f0 n : Z) : Z :=
  fold_left (fun h f => row_digest h (blk_word s f) (blk_args s f)) (zrange (Z.to_nat n) f0) 0.

Inductive case : Type :=
(* one row of the table: the word, the packed results of every bool-valued method and Last(),
   the group arguments used for SetLast, and the digest of the sweep (every word left by a
   mutating call) *)
| CRow (w rv : Z) (gs : list Z) (dg : Z)
(* the n rows of the flag states f0 .. f0+n-1 under block seed s, and the digest of all their results *)
| CBlock (s f0 n dg : Z)
(* one mutator call with an arbitrary (multi-bit, possibly > 16 bit) argument: 0 Set 1 Unset 2 SetLast *)
| CMut (op w v w' : Z)
(* a sequence of calls on one word: op codes as above plus 3 Tag, 4 ChannelCanStop, 5 SetChannel(true),
   6 SetChannel(false); observed: final word and the packed return values (non-bool calls count as 0) *)
| CSeq (w : Z) (ops : list (Z * Z)) (w' rets : Z)
(* a sequence of calls made THROUGH the connHost methods of a *Session / *proxyClient holding the word *)
| CHost (kind w : Z) (ops : list (Z * Z)) (w' rets : Z).

Definition apply_op (w : Z) (o : Z * Z) : bool * Z :=
  let '(op, v) := o in
  if op =? 0 then (false, st_set w v)
  else if op =? 1 then (false, st_unset w v)
  else if op =? 2 then (false, st_setlast w v)
  else if op =? 3 then st_tag w
  else if op =? 4 then st_channel_can_stop w
  else if op =? 5 then st_set_channel true w
  else st_set_channel false w.

Fixpoint run_ops (w : Z) (ops : list (Z * Z)) : Z * list bool :=
  match ops with
  | [] => (w, [])
  | o :: r => let '(b, w1) := apply_op w o in let '(w2, bs) := run_ops w1 r in (w2, b :: bs)
  end.

Definition check (c : case) : bool :=
  match c with
  | CRow w rv gs dg => (row_vector w =? rv) && (digest (sweep w gs) =? dg)
  | CBlock s f0 n dg => block_digest s f0 n =? dg
  | CMut op w v w' => snd (apply_op w (op, v)) =? w'
  | CSeq w ops w' rets => let '(w2, bs) := run_ops w ops in (w2 =? w') && (pack bs =? rets)
  | CHost kind w ops w' rets => let '(w2, bs) := run_host kind w ops in (w2 =? w') && (pack bs =? rets)
  end.
