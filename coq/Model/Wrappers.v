(* Model/Wrappers.v -- C07: the wrapper elements, the order in which cfg.MultiWrapper composes them,
   the two transforms, and the correspondence cases.  Definitions only.

   A wrapper is a pair (enc, dec) of functions on byte lists: enc is what arrives in the sink after
   Wrap / Write... / Close, dec is what the reader returned by Unwrap yields until EOF.

   Fully modelled here: hex (encoding/hex, lower case), base64 (StdEncoding, padded), the B64 shift
   transform, CFB mode over ANY block function (crypto/cipher NewCFBEncrypter/NewCFBDecrypter as
   wrapper.XOR and wrapper.Block use them) and the XOR block function with the IV NewXOR derives.
   CBK is in Model/Cbk.v, the DNS framing in Model/Dns.v.  zlib, gzip and the AES block function are
   not modelled: the theorems take them as Section variables (Proofs/Wrappers.v). *)
From XMT Require Import Base.Prelude Model.Cbk Model.Dns.

Definition EBadInput : Z := 5.     (* any decode error of hex / base64 (never on a round trip) *)

(* ---- hex ------------------------------------------------------------------------------------ *)
Definition hexdigit (n : Z) : Z := if n <? 10 then 48 + n else 87 + n.          (* "0123456789abcdef" *)
Definition unhex (c : Z) : option Z :=
  if (48 <=? c) && (c <=? 57) then Some (c - 48)
  else if (97 <=? c) && (c <=? 102) then Some (c - 87)
  else if (65 <=? c) && (c <=? 70) then Some (c - 55)
  else None.

Fixpoint hex_enc (x : list Z) : list Z :=
  match x with
  | [] => []
  | b :: r => hexdigit (b / 16) :: hexdigit (b mod 16) :: hex_enc r
  end.

Fixpoint hex_dec (w : list Z) : res (list Z) :=
  match w with
  | [] => Ok []
  | [_] => Err EBadInput
  | a :: b :: r =>
    match unhex a, unhex b with
    | Some h, Some l => do t <- hex_dec r; Ok (h * 16 + l :: t)
    | _, _ => Err EBadInput
    end
  end.

(* ---- base64, standard alphabet, '=' padding --------------------------------------------------- *)
Definition b64char (n : Z) : Z :=
  if n <? 26 then 65 + n else if n <? 52 then 71 + n else if n <? 62 then n - 4
  else if n =? 62 then 43 else 47.
Definition b64val (c : Z) : option Z :=
  if (65 <=? c) && (c <=? 90) then Some (c - 65)
  else if (97 <=? c) && (c <=? 122) then Some (c - 71)
  else if (48 <=? c) && (c <=? 57) then Some (c + 4)
  else if c =? 43 then Some 62
  else if c =? 47 then Some 63
  else None.
Definition PAD : Z := 61.

Fixpoint b64_enc (x : list Z) : list Z :=
  match x with
  | [] => []
  | [a] => [b64char (a / 4); b64char ((a mod 4) * 16); PAD; PAD]
  | [a; b] => [b64char (a / 4); b64char ((a mod 4) * 16 + b / 16); b64char ((b mod 16) * 4); PAD]
  | a :: b :: c :: r =>
    b64char (a / 4) :: b64char ((a mod 4) * 16 + b / 16) :: b64char ((b mod 16) * 4 + c / 64)
    :: b64char (c mod 64) :: b64_enc r
  end.

Fixpoint b64_dec (w : list Z) : res (list Z) :=
  match w with
  | [] => Ok []
  | c1 :: c2 :: c3 :: c4 :: r =>
    match b64val c1, b64val c2 with
    | Some p, Some q =>
      if c4 =? PAD then
        if negb (is_nil r) then Err EBadInput
        else if c3 =? PAD then Ok [p * 4 + q / 16]
        else match b64val c3 with
             | Some s => Ok [p * 4 + q / 16; (q mod 16) * 16 + s / 4]
             | None => Err EBadInput
             end
      else
        match b64val c3, b64val c4 with
        | Some s, Some t =>
          do y <- b64_dec r; Ok (p * 4 + q / 16 :: (q mod 16) * 16 + s / 4 :: (s mod 4) * 64 + t :: y)
        | _, _ => Err EBadInput
        end
    | _, _ => Err EBadInput
    end
  | _ => Err EBadInput
  end.

(* ---- the B64 transform: p[i] += shift, encode; decode, o[i] -= shift --------------------------- *)
Definition b64t_enc (shift : Z) (x : list Z) : list Z := b64_enc (map (fun b => (b + shift) mod 256) x).
Definition b64t_dec (shift : Z) (w : list Z) : res (list Z) :=
  do y <- b64_dec w; Ok (map (fun b => (b - shift) mod 256) y).

(* ---- CFB over a block function E -------------------------------------------------------------- *)
(* xorBytes(dst, a, k) for len a <= len k; a key stream that ran out counts as zeros (never happens:
   the block function fills a buffer of the block size) *)
Fixpoint xorl (a k : list Z) : list Z :=
  match a with
  | [] => []
  | x :: a' => Z.lxor x (hd 0 k) :: xorl a' (tl k)
  end.

(* cfb.XORKeyStream, encrypting: out = E(next); dst = src ^ out; next = dst *)
Fixpoint cfb_enc_f (fuel : nat) (E : list Z -> list Z) (n : nat) (next x : list Z) : list Z :=
  match fuel with
  | O => []
  | S f =>
    match x with
    | [] => []
    | _ => let c := xorl (firstn n x) (E next) in c ++ cfb_enc_f f E n c (skipn n x)
    end
  end.
(* decrypting: out = E(next); next = src; dst = src ^ out *)
Fixpoint cfb_dec_f (fuel : nat) (E : list Z -> list Z) (n : nat) (next w : list Z) : list Z :=
  match fuel with
  | O => []
  | S f =>
    match w with
    | [] => []
    | _ => let c := firstn n w in xorl c (E next) ++ cfb_dec_f f E n c (skipn n w)
    end
  end.
(* the block size is the length of the IV (NewCFB panics otherwise) *)
Definition cfb_enc (E : list Z -> list Z) (iv x : list Z) : list Z := cfb_enc_f (length x) E (length iv) iv x.
Definition cfb_dec (E : list Z -> list Z) (iv w : list Z) : list Z := cfb_dec_f (length w) E (length iv) iv w.

(* crypto.XOR as a cipher.Block: dst[i] = key[i] ^ src[i];  wrapper.NewXOR: iv[i] = (k[i] + byte(i)) ^ 2 *)
Definition xor_block (key b : list Z) : list Z := xorl b key.
Definition xor_iv (key : list Z) : list Z := mapi (fun i k => Z.lxor ((k + Z.of_nat i mod 256) mod 256) 2) 0 key.
Definition xor_enc (key x : list Z) : list Z := cfb_enc (xor_block key) (xor_iv key) x.
Definition xor_dec (key w : list Z) : list Z := cfb_dec (xor_block key) (xor_iv key) w.

(* ---- wrappers and the stack ------------------------------------------------------------------- *)
Record wrapper : Type := { w_enc : list Z -> list Z; w_dec : list Z -> res (list Z) }.

(* MultiWrapper.Wrap: the writer handed out is m[0]'s, which writes into m[1]'s, ... into the sink:
   wire = enc_{n-1}(... enc_0(x)).  MultiWrapper.Unwrap: m[n-1] reads the wire, m[0] is read by the caller. *)
Definition wrap_stack (ws : list wrapper) (x : list Z) : list Z := fold_left (fun acc w => w_enc w acc) ws x.
Definition unwrap_stack (ws : list wrapper) (y : list Z) : res (list Z) :=
  fold_right (fun w acc => do a <- acc; w_dec w a) (Ok y) ws.

Definition hex_w : wrapper := {| w_enc := hex_enc; w_dec := hex_dec |}.
Definition b64_w : wrapper := {| w_enc := b64_enc; w_dec := b64_dec |}.
Definition xor_w (key : list Z) : wrapper := {| w_enc := xor_enc key; w_dec := fun w => Ok (xor_dec key w) |}.
Definition cbk_w (sz : nat) (offs : list Z) (consts : nat -> kconst) : wrapper :=
  {| w_enc := cbk_enc sz offs consts; w_dec := cbk_dec sz offs consts |}.

(* ---- transforms -------------------------------------------------------------------------------- *)
Inductive tr : Type :=
| TNone
| TB64 (shift : Z)
| TDns (server : bool) (domains : list (list Z)).

(* ---- correspondence cases ---------------------------------------------------------------------- *)
Inductive pay : Type := PLit (l : list Z) | PGen (kind seed n : Z) | PCat (a b : pay).
(* the observed wire: literal, or length and digest; for the DNS transform additionally the random
   bytes drawn for each packet, in order (2 per packet, 7 in the server role) *)
Inductive wire : Type := WLit (l : list Z) | WHash (n h : Z) | WDns (w : wire) (draws : list (list Z)).
Inductive elem : Type :=
| EHex
| EB64
| EXor (key : list Z)
| ECbk (size : Z) (offs : list Z) (items : list (list Z * list (Z * Z))).  (* items j: constants of block j (j < 31) *)

Definition M64 : Z := 18446744073709551615.
(* one xorshift64 step (13, 7, 17) *)
Definition xs64 (x : Z) : Z :=
  let x := Z.lxor x (Z.land (Z.shiftl x 13) M64) in
  let x := Z.lxor x (Z.shiftr x 7) in
  Z.lxor x (Z.land (Z.shiftl x 17) M64).
Fixpoint gen_f (n : nat) (kind s i : Z) : list Z :=
  match n with
  | O => []
  | S m =>
    if kind =? 0 then let s' := xs64 s in Z.land s' 255 :: gen_f m kind s' (i + 1)
    else if kind =? 1 then 0 :: gen_f m kind s (i + 1)
    else if kind =? 2 then 255 :: gen_f m kind s (i + 1)
    else if kind =? 3 then u8 (i + s) :: gen_f m kind s (i + 1)
    else let s' := xs64 s in 65 + Z.land s' 3 :: gen_f m kind s' (i + 1)
  end.
Fixpoint pay_bytes (p : pay) : list Z :=
  match p with
  | PLit l => l
  | PGen kind seed n => gen_f (Z.to_nat n) kind seed 0
  | PCat a b => pay_bytes a ++ pay_bytes b
  end.

(* the digest long wires are compared by (harness: hash64) *)
Definition hash64 (l : list Z) : Z := fold_left (fun h c => Z.lxor (xs64 h) c) l 88172645463325252.
Fixpoint wire_eqb (model : list Z) (w : wire) : bool :=
  match w with
  | WLit l => zlist_eqb model l
  | WHash n h => if len model =? n then hash64 model =? h else false    (* the digest only when the length agrees *)
  | WDns w' _ => wire_eqb model w'
  end.

Definition steps_of (gh : list (Z * Z)) : list (nat * nat) := map (fun p => (Z.to_nat (fst p), Z.to_nat (snd p))) gh.
Definition consts_of (items : list (list Z * list (Z * Z))) (k : nat) : kconst :=
  let it := nth (Nat.modulo k 31) items ([], []) in (fst it, steps_of (snd it)).

Definition elem_w (e : elem) : wrapper :=
  match e with
  | EHex => hex_w
  | EB64 => b64_w
  | EXor key => xor_w key
  | ECbk size offs items => cbk_w (Z.to_nat size) offs (consts_of items)
  end.

(* the DNS transform picks one of its domains at random: the wire must be the encoding for one of
   them, with the random bytes that were observed *)
Definition tr_enc_ok (t : tr) (x : list Z) (w : wire) : bool :=
  match t with
  | TNone => wire_eqb x w
  | TB64 s => wire_eqb (b64t_enc s x) w
  | TDns server ds =>
    match w with
    | WDns w' draws =>
      let rnd := fun k f => nth (Z.to_nat f) (nth (Z.to_nat k) draws []) 0 in
      existsb (fun d => wire_eqb (dns_encode server d rnd x) w') ds
    | _ => false
    end
  end.
Definition tr_dec (t : tr) (w : list Z) : res (list Z) :=
  match t with
  | TNone => Ok w
  | TB64 s => b64t_dec s w
  | TDns _ _ => dns_decode w
  end.
(* the model's decoder on the model's own wire (equal to the observed one by the encoder check) *)
Definition tr_roundtrip_ok (t : tr) (x : list Z) (w : wire) : bool :=
  match t, w with
  | TNone, _ => true
  | TB64 s, _ => res_eqb zlist_eqb (b64t_dec s (b64t_enc s x)) (Ok x)
  | TDns server ds, WDns _ draws =>
    let rnd := fun k f => nth (Z.to_nat f) (nth (Z.to_nat k) draws []) 0 in
    forallb (fun d => res_eqb zlist_eqb (dns_decode (dns_encode server d rnd x)) (Ok x)) (firstn 3 ds)
  | TDns _ _, _ => false
  end.

(* ---- the send and receive paths (c2.writePacket / c2.readPacket) -------------------------------- *)
(* what Transform.Write may put on the connection for the bytes x: the DNS transform picks any of
   its domains and draws random bytes *)
Definition tr_sends (t : tr) (x w : list Z) : Prop :=
  match t with
  | TNone => w = x
  | TB64 s => w = b64t_enc s x
  | TDns server ds => exists d rnd, In d ds /\ w = dns_encode server d rnd x
  end.

Section Path.
  Variable packet : Type.
  Variable marshal : packet -> list Z.                 (* com.Packet.Marshal (property C01) *)
  Variable unmarshal : list Z -> res packet.           (* com.Packet.Unmarshal *)

  (* writePacket: marshal through the wrapper stack into a buffer, the transform writes the buffer *)
  Definition path_sends (ws : list wrapper) (t : tr) (p : packet) (w : list Z) : Prop :=
    tr_sends t (wrap_stack ws (marshal p)) w.
  (* readPacket: the transform reads the whole input into a buffer, the stack unwraps it, Unmarshal *)
  Definition path_recv (ws : list wrapper) (t : tr) (w : list Z) : res packet :=
    do y <- tr_dec t w; do plain <- unwrap_stack ws y; unmarshal plain.
End Path.

(* ---- the buffer pool of c2/vars.go (`buffers`, a sync.Pool of *data.Chunk) as state ------------
   A pool is the list of the contents of the Chunks it holds.  Every user (writePacket, readPacket)
   takes a Chunk, APPENDS to it, and gives it back with returnBuffer (= Clear; Put).  Which Chunk
   sync.Pool.Get hands out is unspecified: `pick` (an index; beyond the pool = a new Chunk). *)
Definition pool : Type := list (list Z).

Fixpoint remove_nth {A} (n : nat) (l : list A) : list A :=
  match n, l with
  | _, [] => []
  | O, _ :: r => r
  | S m, x :: r => x :: remove_nth m r
  end.
Definition pool_get (pick : nat) (p : pool) : list Z * pool :=
  match nth_error p pick with
  | Some b => (b, remove_nth pick p)
  | None => ([], p)                                  (* Pool.New: new(data.Chunk) *)
  end.
(* returnBuffer: c.Clear(); buffers.Put(c) *)
Definition return_buffer (b : list Z) (p : pool) : pool := [] :: p.
(* buffers.Put(c) alone: what none of the code's return paths does *)
Definition put_uncleared (b : list Z) (p : pool) : pool := b :: p.

(* Transform.Read: the bytes handed to the output writer, and whether it returned nil.  B64 writes
   only after a successful decode; DNS writes record by record *)
Definition tr_read (t : tr) (w : list Z) : list Z * bool :=
  match t with
  | TNone => (w, true)
  | TB64 s => match b64t_dec s w with Ok y => (y, true) | _ => ([], false) end
  | TDns _ _ => (dns_out w, is_ok (dns_decode w))
  end.

(* where readPacket gave up: 1 nothing read from the stream, 2 the transform, 3 unwrap / unmarshal *)
Inductive rstage : Type := ROk | RStream | RTransform | RLater.

Section PoolPath.
  Variable packet : Type.
  Variable marshal : packet -> list Z.
  Variable unmarshal : list Z -> res packet.
  Variable ws : list wrapper.
  Variable t : tr.
  (* how the error path of the transform gives the output Chunk back: true = returnBuffer (the code) *)
  Variable clear_on_transform_error : bool.

  Definition direct : bool := is_nil ws && match t with TNone => true | _ => false end.

  (* writePacket: b = Get; writePacketTo appends wrap(marshal n) to b; the transform writes
     b.Payload() to the connection (enc: the transform's encoder with the draws of this call);
     returnBuffer(b) *)
  Definition write_packet (enc : list Z -> list Z) (pick : nat) (p : pool) (n : packet) : pool * list Z :=
    if direct then (p, marshal n)
    else
      let '(b, p1) := pool_get pick p in
      let b1 := b ++ wrap_stack ws (marshal n) in
      (return_buffer b1 p1, enc b1).

  (* readPacket on the bytes `conn` the connection delivers before the timeout / EOF *)
  Definition read_packet (pick1 pick2 : nat) (p : pool) (conn : list Z) : pool * rstage * res packet :=
    if direct then
      match unmarshal conn with Ok n => (p, ROk, Ok n) | r => (p, RLater, r) end
    else
      let '(b, p1) := pool_get pick1 p in
      let b1 := b ++ conn in                                        (* b.ReadDeadline(c, ...) appends *)
      if is_nil conn then (return_buffer b1 p1, RStream, Err EOF_)  (* d == 0 *)
      else
        let finish (buf : list Z) (pl : pool) :=                    (* readPacketFrom; returnBuffer(b) *)
          match (do plain <- unwrap_stack ws buf; unmarshal plain) with
          | Ok n => (return_buffer buf pl, ROk, Ok n)
          | r => (return_buffer buf pl, RLater, r)
          end in
        match t with
        | TNone => finish b1 p1
        | _ =>
          let '(o, p2) := pool_get pick2 p1 in
          let '(out, ok) := tr_read t b1 in
          let o1 := o ++ out in                                     (* t.Read(b.Payload(), o) appends *)
          let p3 := return_buffer b1 p2 in
          if ok then finish o1 p3
          else ((if clear_on_transform_error then return_buffer o1 p3 else put_uncleared o1 p3),
                RTransform, Err EBadInput)
        end.
End PoolPath.

Definition pool_clean (p : pool) : bool := forallb is_nil p.

(* ---- history cases: one process, one profile, a sequence of good round trips and faulty receives *)
Inductive hstep : Type :=
| HGood (plain : pay) (ok : bool)                 (* the marshalled packet; did Go read back the identical packet *)
| HBad (conn : list Z) (stage : Z)                (* bytes put on the connection; Go: 0 ok, 1 stream, 2 transform, 3 later *)
| HProbe (sizes : list Z).                        (* sizes of the Chunks found in the pool *)

Definition tr_enc0 (t : tr) (x : list Z) : list Z :=
  match t with
  | TNone => x
  | TB64 s => b64t_enc s x
  | TDns server ds => dns_encode server (hd [] ds) (fun _ _ => 0) x
  end.

(* the packet codec is not modelled here: a packet is its marshalled bytes *)
Definition h_write (ws : list wrapper) (t : tr) := write_packet (list Z) (fun p => p) ws t (tr_enc0 t) 0.
Definition h_read (ws : list wrapper) (t : tr) := read_packet (list Z) (fun w => Ok w) ws t true 0 0.

Definition stage_ok (model : rstage) (observed : Z) : bool :=
  match model with
  | RStream => observed =? 1
  | RTransform => observed =? 2
  | _ => (observed =? 0) || (observed =? 3)       (* whether unwrap / unmarshal accept a damaged input is not modelled *)
  end.

Fixpoint hist_ok (ws : list wrapper) (t : tr) (steps : list hstep) (p : pool) : bool :=
  match steps with
  | [] => pool_clean p
  | HGood plain ok :: r =>
    let x := pay_bytes plain in
    let '(p1, w) := h_write ws t p x in
    let '(p2, _, res) := h_read ws t p1 w in
    ok && res_eqb zlist_eqb res (Ok x) && pool_clean p2 && hist_ok ws t r p2
  | HBad conn stage :: r =>
    let '(p1, st, _) := h_read ws t p conn in
    stage_ok st stage && pool_clean p1 && hist_ok ws t r p1
  | HProbe sizes :: r =>
    pool_clean p && forallb (fun s => s =? 0) sizes && hist_ok ws t r p
  end.

(* ---- the cases and their check ------------------------------------------------------------------ *)
Inductive case : Type :=
| CStack (ws : list elem) (p : pay) (w : wire)
| CTrans (t : tr) (p : pay) (w : wire)
| CFull (ws : list elem) (t : tr) (p : pay) (w : wire)        (* p = the bytes of Packet.Marshal *)
| CBlock (offs : list Z) (gh : list (Z * Z)) (blk enc dec2 : list Z)
(* the CBK writer driven by the Write calls the harness made: ks = the length of every call *)
| CCbkW (size : Z) (offs : list Z) (items : list (list Z * list (Z * Z))) (p : pay) (ks : list Z) (w : wire)
(* Transform.Read on damaged input: the bytes it wrote and whether it returned nil *)
| CTrRead (t : tr) (conn out : list Z) (ok : bool)
(* a history of good round trips, faulty receives and pool probes in one process *)
| CHist (ws : list elem) (t : tr) (steps : list hstep).

Fixpoint split_by (ks : list Z) (x : list Z) : list (list Z) :=
  match ks with
  | [] => []
  | k :: r => take k x :: split_by r (drop k x)
  end.

Definition check (c : case) : bool :=
  match c with
  | CStack es p w =>
    let ws := map elem_w es in
    let x := pay_bytes p in
    let m := wrap_stack ws x in
    wire_eqb m w && res_eqb zlist_eqb (unwrap_stack ws m) (Ok x)
  | CTrans t p w =>
    let x := pay_bytes p in tr_enc_ok t x w && tr_roundtrip_ok t x w
  | CFull es t p w =>
    let ws := map elem_w es in
    let x := pay_bytes p in
    let m := wrap_stack ws x in
    tr_enc_ok t m w && tr_roundtrip_ok t m w && res_eqb zlist_eqb (unwrap_stack ws m) (Ok x)
  | CBlock offs gh blk enc dec2 =>
    zlist_eqb (blk_encrypt offs (steps_of gh) blk) enc && zlist_eqb (blk_decrypt offs (steps_of gh) blk) dec2
  | CCbkW size offs items p ks w =>
    wire_eqb (cbk_run (Z.to_nat size) offs (consts_of items) (split_by ks (pay_bytes p))) w
  | CTrRead t conn out ok =>
    let '(o, k) := tr_read t conn in zlist_eqb o out && Bool.eqb k ok
  | CHist es t steps => hist_ok (map elem_w es) t steps []
  end.

