(* Model/Dns.v -- C07: the DNS transform of c2/transform/dns.go (encodePackets/encodePacket,
   decodePackets/decodePacket).  Definitions only.

   The two id bytes of every packet (and, in the server role, five bytes of the answer record)
   are random draws (util.FastRand): the encoder takes `rnd k f`, the f-th byte drawn while packet
   number k is built (f = 0, 1: the id; f = 2..6: the answer record); the theorems quantify over
   every rnd, the correspondence run reads the draws off the observed wire.  `server` is the
   build-time constant dnsServer.

   The decoder walks the buffer with an index s exactly as decodePacket does; it is written over
   the suffix rem = b[s:] together with s and len(b), so that b[s] is the head of rem (Panic when
   s = len(b), as in Go; unreachable since the length checks of commit d9f26ba) and every
   comparison of s with len(b) is the one in the source.

   Not modelled: the 4096-byte staging buffer of dnsPacket (a profile carries domains of at most
   255 bytes, so a packet is at most 12+256+5+16+8*(12+256) = 2433 bytes). *)
From XMT Require Import Base.Prelude.

Definition EOF_ : Z := 2.          (* io.ErrUnexpectedEOF *)
Definition ENoProgress : Z := 4.   (* io.ErrNoProgress *)
Definition EFuel : Z := 99.        (* never produced: fuel is always sufficient *)

(* strings.Split(s, ".") *)
Fixpoint split_dots (s : list Z) (cur : list Z) : list (list Z) :=
  match s with
  | [] => [rev cur]
  | c :: r => if c =? 46 then rev cur :: split_dots r [] else split_dots r (c :: cur)
  end.

(* the label loop of encodePacket: empty labels are skipped, a label is cut to the 63 bytes a
   DNS label can have; then length byte and bytes *)
Definition dns_label (e : list Z) : list Z :=
  if is_nil e then []
  else let e' := take 63 e in len e' :: e'.

Definition dns_labels (domain : list Z) : list Z := flat_map dns_label (split_dots domain []).

(* the encoder as it was before the repair (kept for the regression example): every label is
   written, cut to 250 bytes when longer than 256, its length byte truncated to 8 bits *)
Definition dns_label_old (e : list Z) : list Z :=
  let e' := if 256 <? len e then take 250 e else e in
  u8 (len e') :: take 255 e'.
Definition dns_labels_old (domain : list Z) : list Z := flat_map dns_label_old (split_dots domain []).

Fixpoint chunks256 (fuel : nat) (x : list Z) : list (list Z) :=
  match fuel with
  | O => []
  | S f => match x with [] => [] | _ => take 256 x :: chunks256 f (drop 256 x) end
  end.

Definition dns_header (server : bool) (id0 id1 t : Z) : list Z :=
  if server then [id0; id1; 132; 128; 0; 1; 0; 1; 0; 0; u8 (t / 256); u8 t]
  else [id0; id1; 1; 0; 0; 1; 0; 0; 0; 0; u8 (t / 256); u8 t].

Definition dns_question_end : list Z := [0; 0; 1; 0; 1].

Definition dns_answer (r : Z -> Z) : list Z :=
  [192; 12; 0; 1; 0; 1; 0; 0; 3; r 2; 0; 4; r 3; r 4; r 5; r 6].

Definition dns_seg (d : list Z) : list Z :=
  [192; 12; 0; 10; 0; 1; 0; 0; 0; 0; u8 (len d / 256); u8 (len d)] ++ d.

(* encodePacket for the (non-empty) data c = b[:min(len b, 2048)]; r = the draws of this packet *)
Definition dns_packet (server : bool) (labels : list Z) (r : Z -> Z) (c : list Z) : list Z :=
  let segs := chunks256 (length c) c in
  let t := len segs in
  dns_header server (r 0) (r 1) t ++ labels ++ dns_question_end
  ++ (if server then dns_answer r else [])
  ++ flat_map dns_seg segs.

Fixpoint dns_encode_f (fuel : nat) (server : bool) (labels : list Z) (rnd : Z -> Z -> Z) (k : Z) (b : list Z) : list Z :=
  match fuel with
  | O => []
  | S f =>
    if is_nil b then []
    else dns_packet server labels (rnd k) (take 2048 b)
         ++ dns_encode_f f server labels rnd (k + 1) (drop 2048 b)
  end.

(* encodePackets with the labels already computed *)
Definition dns_encode_with (server : bool) (labels : list Z) (rnd : Z -> Z -> Z) (b : list Z) : list Z :=
  dns_encode_f (length b) server labels rnd 0 b.
(* DNSTransform.Write with the picked domain *)
Definition dns_encode (server : bool) (domain : list Z) (rnd : Z -> Z -> Z) (b : list Z) : list Z :=
  dns_encode_with server (dns_labels domain) rnd b.

(* ---- decodePacket (with the length checks of commit d9f26ba) -------------------------------- *)
Definition rd (rem : list Z) : res Z := match rem with x :: _ => Ok x | [] => Panic end.
Definition rd16 (rem : list Z) : res Z :=                      (* int(b[s])<<8 | int(b[s+1]) *)
  do a <- rd rem; do b <- rd (drop 1 rem); Ok (a * 256 + b).

(* for i := 0; i < 64; { if i >= len(b) || s >= len(b) {EOF}; if i = int(b[s]); i == 0 { s++; break }; s += i + 1 } *)
Fixpoint dns_walk (fuel : nat) (lenb : Z) (i s : Z) (rem : list Z) : res (Z * list Z) :=
  match fuel with
  | O => Err EFuel
  | S f =>
    if negb (i <? 64) then Ok (s, rem)
    else if (lenb <=? i) || (lenb <=? s) then Err EOF_
    else do i' <- rd rem;
         if i' =? 0 then Ok (s + 1, drop 1 rem)
         else dns_walk f lenb i' (s + i' + 1) (drop (i' + 1) rem)
  end.

Fixpoint dns_questions (q : nat) (lenb : Z) (s : Z) (rem : list Z) : res (Z * list Z) :=
  match q with
  | O => Ok (s, rem)
  | S q' =>
    do '(s1, rem1) <- dns_walk (S (length rem)) lenb 0 s rem;
    let s2 := s1 + 4 in
    if lenb <=? s2 then Err EOF_
    else dns_questions q' lenb s2 (drop 4 rem1)
  end.

(* for ; c > 0; c-- { if s += 10; s+1 >= len(b) {EOF}; s += int(b[s])<<8 | int(b[s+1]) + 2 } *)
Fixpoint dns_answers (c : nat) (lenb : Z) (s : Z) (rem : list Z) : res (Z * list Z) :=
  match c with
  | O => Ok (s, rem)
  | S c' =>
    let s1 := s + 10 in let rem1 := drop 10 rem in
    if lenb <=? s1 + 1 then Err EOF_
    else do n <- rd16 rem1;
         dns_answers c' lenb (s1 + n + 2) (drop (n + 2) rem1)
  end.

Definition seg_magic : list Z := [192; 12; 0; 10; 0; 1].

Fixpoint dns_additional (t : nat) (lenb : Z) (s : Z) (rem : list Z) (acc : list Z) : res (list Z * Z * list Z) :=
  match t with
  | O => Ok (acc, s, rem)
  | S t' =>
    if lenb <=? s + 6 then Err EOF_
    else if negb (list_eqb Z.eqb (take 6 rem) seg_magic) then Err ENoProgress
    else let rem1 := drop 10 rem in
         if lenb <=? s + 10 + 1 then Err EOF_
         else
         do i <- rd16 rem1;
         let rem2 := drop 2 rem1 in
         if lenb <? s + 12 + i then Err EOF_                 (* s+i > len(b) before b[s : s+i] *)
         else dns_additional t' lenb (s + 12 + i) (drop i rem2) (acc ++ take i rem2)
  end.

(* returns the data written and the number of bytes consumed *)
Definition dns_decode_packet (b : list Z) : res (list Z * Z) :=
  let lenb := len b in
  if lenb <? 12 then Err EOF_
  else
    do q <- rd16 (drop 4 b); do c <- rd16 (drop 6 b); do t <- rd16 (drop 10 b);
    do '(s1, rem1) <- dns_questions (Z.to_nat q) lenb 12 (drop 12 b);
    do '(s2, rem2) <- dns_answers (Z.to_nat c) lenb s1 rem1;
    do '(d, s3, _) <- dns_additional (Z.to_nat t) lenb s2 rem2 [];
    Ok (d, s3).

Fixpoint dns_decode_f (fuel : nat) (b : list Z) : res (list Z) :=
  match fuel with
  | O => Err EFuel
  | S f =>
    if is_nil b then Ok []
    else do '(d, n) <- dns_decode_packet b;
         do r <- dns_decode_f f (drop n b);
         Ok (d ++ r)
  end.

(* DNSTransform.Read: every byte must be consumed (decodePackets stops when i >= len(b); a
   packet cannot consume more than is there without an error or a panic above) *)
Definition dns_decode (b : list Z) : res (list Z) := dns_decode_f (S (length b)) b.

(* ---- what DNSTransform.Read has handed to its writer when it returns, error or not: decodePacket
        writes every record as it walks the stream, so a stream that fails part-way leaves the records
        decoded so far in the output ------------------------------------------------------------- *)
Fixpoint dns_additional_out (t : nat) (lenb : Z) (s : Z) (rem : list Z) (acc : list Z) : list Z :=
  match t with
  | O => acc
  | S t' =>
    if lenb <=? s + 6 then acc
    else if negb (list_eqb Z.eqb (take 6 rem) seg_magic) then acc
    else let rem1 := drop 10 rem in
         if lenb <=? s + 10 + 1 then acc
         else match rd16 rem1 with
              | Ok i =>
                let rem2 := drop 2 rem1 in
                if lenb <? s + 12 + i then acc
                else dns_additional_out t' lenb (s + 12 + i) (drop i rem2) (acc ++ take i rem2)
              | _ => acc
              end
  end.

Definition dns_packet_out (b : list Z) : list Z :=
  let lenb := len b in
  if lenb <? 12 then []
  else match (do q <- rd16 (drop 4 b); do c <- rd16 (drop 6 b); do t <- rd16 (drop 10 b);
              do '(s1, rem1) <- dns_questions (Z.to_nat q) lenb 12 (drop 12 b);
              do '(s2, rem2) <- dns_answers (Z.to_nat c) lenb s1 rem1;
              Ok (t, s2, rem2)) with
       | Ok (t, s2, rem2) => dns_additional_out (Z.to_nat t) lenb s2 rem2 []
       | _ => []
       end.

Fixpoint dns_out_f (fuel : nat) (b : list Z) : list Z :=
  match fuel with
  | O => []
  | S f =>
    if is_nil b then []
    else match dns_decode_packet b with
         | Ok (d, n) => d ++ dns_out_f f (drop n b)
         | _ => dns_packet_out b
         end
  end.
Definition dns_out (b : list Z) : list Z := dns_out_f (S (length b)) b.
