(* Model/Job.v -- model of the server-side job table of a Session (definitions only).

   Go sources: c2/job.go (Job.Cancel, Wait, IsDone), c2/session_no_implant.go
   (Session.Task, newJobID, handle, accept, frag, Jobs, Job, hasJob).

   Shared state: a heap of jobs (a job is named by its index, the model of the *Job pointer)
   and the pending table Session.jobs (job number -> job).  Each operation is a small state
   machine; ONE call of [step] is ONE atomic step: either one critical section of
   Session.lock (RLock or Lock) or one unlocked access to a shared field.  The cuts follow the
   Go code exactly (see the comment next to every program point).  Closing a channel that is
   closed or nil is [Panic].

   Job.Wait / IsDone (and the caller who then looks at Status / Error / Result) read WITHOUT the
   lock, so the order of the writes INSIDE the write-locked sections of handle and Cancel is
   observable: those sections are cut into their individual writes.  The shared state carries
   [held]: None, or what is left of the critical section of the one thread that holds the write
   lock ([cs]); while it is Some, every step that has to take the lock (read or write) stutters,
   the unlocked accesses of all threads go on.

   [step] is the code as it is in /repo now; [Pinned.step] is a copy of the code as it was on
   the pinned tree (before the two repairs), kept for the refutation lemmas. *)
From XMT Require Import Base.Prelude Model.JobSched.
From XMT Require Model.Codec.

(* ---- job status (c2/job.go) ---------------------------------------------------------- *)
Definition StWaiting   : Z := 0.
Definition StAccepted  : Z := 1.
Definition StReceiving : Z := 2.
Definition StCompleted : Z := 3.
Definition StError     : Z := 4.
Definition StCanceled  : Z := 5.

(* Job.done: the field still holds the open channel / holds the channel and it was closed /
   the field is nil (the code only ever stores nil after closing the channel). *)
Inductive chan := Open | Closed | Nil.
Definition chan_code (c : chan) : Z := match c with Open => 0 | Closed => 1 | Nil => 2 end.
Definition close_chan (c : chan) : res chan :=
  match c with Open => Ok Closed | _ => Panic end.

Record job := mkJob {
  jid     : Z;      (* Job.ID, immutable *)
  jstatus : Z;      (* Job.Status *)
  jdone   : chan;   (* Job.done *)
  jres    : Z;      (* Job.Result: 0 = nil, otherwise the tag of the result packet *)
  jerr    : bool;   (* len(Job.Error) > 0 *)
  jfrags  : Z;      (* Job.Frags *)
  jorph   : bool    (* ghost: the table entry of this job was overwritten by a later Task *)
}.

(* what is left of the write-locked section of handle (H..) / Cancel (C..), next write first *)
Inductive cs :=
| HRes (h : nat) (err : bool) (tag : Z) (pl : list Z)  (* j.Result (and Complete) = p *)
| HSt (h : nat) (err : bool) (tag : Z) (pl : list Z)   (* j.Status = StatusCompleted *)
| HErrSt (h : nat) (tag : Z) (pl : list Z)             (* FlagError: j.Status = StatusError *)
| HErrTxt (h : nat) (tag : Z) (pl : list Z)            (* p.ReadString(&j.Error) / j.Error = err.Error() *)
| HInfo (h : nat) (tag : Z)                            (* else: handleInfoResult(j.ID, j.Type, j.Result) reads j.Result *)
| HDel (h : nat) (err : bool) (tag : Z)                (* delete(s.jobs, j.ID) *)
| HClose (h : nat) (err : bool) (tag : Z)              (* if j.done != nil { close(j.done) *)
| HNil (h : nat)                                       (* j.done = nil }; Unlock *)
| CSt (h : nat)                                        (* Cancel: j.Status = StatusCanceled; which branch? *)
| CDel (h : nat)                                       (* tracked branch: j.s.jobs[j.ID] = nil; delete(j.s.jobs, j.ID) *)
| CClose (h : nat)                                     (* close(j.done) *)
| CStNil (h : nat).                                    (* j.Status, j.done = StatusCanceled, nil; Unlock *)

Definition cs_job (c : cs) : nat :=
  match c with
  | HRes h _ _ _ | HSt h _ _ _ | HErrSt h _ _ | HErrTxt h _ _ | HInfo h _ | HDel h _ _ | HClose h _ _
  | HNil h | CSt h | CDel h | CClose h | CStNil h => h
  end.

Record sess := mkSess {
  jobs  : list job;          (* every Job ever created, in creation order *)
  table : list (Z * nat);    (* Session.jobs: job number -> job *)
  held  : option cs          (* Session.lock is write-locked by a handle / Cancel: what it still has to do *)
}.
Definition s0 : sess := mkSess [] [] None.

Fixpoint lookup (i : Z) (t : list (Z * nat)) : option nat :=
  match t with
  | [] => None
  | (k, h) :: r => if k =? i then Some h else lookup i r
  end.
Fixpoint remove (i : Z) (t : list (Z * nat)) : list (Z * nat) :=
  match t with
  | [] => []
  | (k, h) :: r => if k =? i then remove i r else (k, h) :: remove i r
  end.
Definition mem (i : Z) (t : list (Z * nat)) : bool :=
  match lookup i t with Some _ => true | None => false end.

Definition getj (s : sess) (h : nat) : option job := nth_error (jobs s) h.
Definition setj (s : sess) (h : nat) (j : job) : sess := mkSess (upd (jobs s) h j) (table s) (held s).
Definition set_table (s : sess) (t : list (Z * nat)) : sess := mkSess (jobs s) t (held s).
Definition set_held (s : sess) (c : option cs) : sess := mkSess (jobs s) (table s) c.
Definition is_held (s : sess) : bool := match held s with Some _ => true | None => false end.

Definition with_status (j : job) (st : Z) : job :=
  mkJob (jid j) st (jdone j) (jres j) (jerr j) (jfrags j) (jorph j).
Definition with_done (j : job) (c : chan) : job :=
  mkJob (jid j) (jstatus j) c (jres j) (jerr j) (jfrags j) (jorph j).
Definition with_res (j : job) (r : Z) : job :=
  mkJob (jid j) (jstatus j) (jdone j) r (jerr j) (jfrags j) (jorph j).
Definition with_err (j : job) (e : bool) : job :=
  mkJob (jid j) (jstatus j) (jdone j) (jres j) e (jfrags j) (jorph j).
Definition with_frags (j : job) (f : Z) : job :=
  mkJob (jid j) (jstatus j) (jdone j) (jres j) (jerr j) f (jorph j).
Definition with_orph (j : job) : job :=
  mkJob (jid j) (jstatus j) (jdone j) (jres j) (jerr j) (jfrags j) true.

(* newJobID: at most 512 draws i = uint16(FastRand()); the first one with i > 1 that is not a
   key of the table is returned, 0 if there is none.  The draws are an input of the model. *)
Fixpoint pick_id (fuel : nat) (draws : list Z) (t : list (Z * nat)) : Z :=
  match fuel, draws with
  | S f, d :: r => let i := u16 d in
                   if negb (mem i t) && (1 <? i) then i else pick_id f r t
  | _, _ => 0
  end.
Definition new_job_id (draws : list Z) (t : list (Z * nat)) : Z := pick_id 512 draws t.

(* ---- operations and their results -------------------------------------------------- *)
Inductive op :=
| OTask (id : Z) (draws : list Z) (full : bool)  (* Session.Task(n): n.Job = id (0: allocate); full: send queue full *)
| ONew (draws : list Z)                          (* Session.newJobID() *)
| OHandle (wf : bool) (id : Z) (err : bool) (tag : Z) (pl : list Z)
     (* Session.handle(p): wf = (p.ID = RvResult and p.Device not empty), p.Job = id,
        err = FlagError set, tag names the packet, pl = the payload bytes of p *)
| OCancel (h : nat)                              (* Job.Cancel *)
| OWait (h : nat)                                (* Job.Wait *)
| OIsDone (h : nat)                              (* Job.IsDone *)
| OJobs                                          (* Session.Jobs *)
| OJob (id : Z)                                  (* Session.Job(id) *)
| OHasJob (id : Z)                               (* Session.hasJob(id) *)
| OAccept (id : Z)                               (* Session.accept(id) *)
| OFrag (id : Z) (max : Z).                      (* Session.frag(id, _, max, _) *)

Inductive ret :=
| RUnit
| RBool (b : bool)
| RId (i : Z)
| RJob (h : nat)
| RErr (code : Z)            (* 90 = cannot assign a Job ID, 91 = job already registered, 1 = ErrFullBuffer *)
| RJobs (l : list (Z * nat)) (* sorted by job number *)
| RJobOpt (o : option nat)
| RBlocked.                  (* Wait did not return *)

Definition E_NOID : Z := 90.
Definition E_DUP  : Z := 91.
Definition E_FULL : Z := 1.

Fixpoint ins_sorted (x : Z * nat) (l : list (Z * nat)) : list (Z * nat) :=
  match l with
  | [] => [x]
  | y :: r => if fst x <=? fst y then x :: l else y :: ins_sorted x r
  end.
Definition sort_table (t : list (Z * nat)) : list (Z * nat) := fold_right ins_sorted [] t.

(* ==================================================================================== *)
(* The code as it is now in /repo (after the repairs).                                  *)
(* ==================================================================================== *)
Inductive pc :=
(* Task *)
| PTask0 (id : Z) (draws : list Z) (full : bool)  (* n.Job == 0 ? newJobID() [RLock] *)
| PTask1 (id : Z) (full : bool)                   (* [RLock] _, ok := s.jobs[n.Job] *)
| PTask2 (id : Z) (full : bool)                   (* s.write(false, n) *)
| PTask3 (id : Z)                                 (* [Lock] s.jobs[n.Job] = j *)
(* newJobID *)
| PNew (draws : list Z)                           (* [RLock] the whole loop *)
(* handle *)
| PH0 (wf : bool) (id : Z) (err : bool) (tag : Z) (pl : list Z) (* packet checks; unlocked len(s.jobs) == 0 *)
| PH1 (id : Z) (err : bool) (tag : Z) (pl : list Z)             (* [RLock] j, ok := s.jobs[p.Job] *)
| PH2 (h : nat) (err : bool) (tag : Z) (pl : list Z)            (* [Lock] re-check membership; not tracked: Unlock, false *)
| PCS (r : ret)                                   (* inside the write-locked section: the next write of [held]; returns r after Unlock *)
(* Cancel *)
| PC0 (h : nat)                                   (* unlocked: j.done == nil ? *)
| PC1 (h : nat)                                   (* [Lock] j.done == nil ? Unlock *)
(* Wait *)
| PW0 (h : nat)                                   (* unlocked: load j.done; nil ? *)
| PW1 (h : nat)                                   (* <-done on the loaded channel *)
(* IsDone *)
| PI0 (h : nat)                                   (* unlocked: load j.done; nil ? *)
| PI1 (h : nat)                                   (* select on the loaded channel *)
(* Jobs / Job / hasJob *)
| PJobs0 | PJobs1
| PJob0 (id : Z) | PJob1 (id : Z)
| PHas (id : Z)
(* accept / frag *)
| PA0 (id : Z) | PA1 (id : Z) | PA2 (h : nat)
| PF0 (id : Z) (max : Z) | PF1 (id : Z) (max : Z) | PF2 (h : nat) (max : Z)
| PDone (r : ret).

Definition init_pc (o : op) : pc :=
  match o with
  | OTask id draws full => PTask0 id draws full
  | ONew draws => PNew draws
  | OHandle wf id err tag pl => PH0 wf id err tag pl
  | OCancel h => PC0 h
  | OWait h => PW0 h
  | OIsDone h => PI0 h
  | OJobs => PJobs0
  | OJob id => PJob0 id
  | OHasJob id => PHas id
  | OAccept id => PA0 id
  | OFrag id max => PF0 id max
  end.

Definition new_job (id : Z) : job := mkJob id StWaiting Open 0 false 0 false.

(* [Lock] s.jobs[id] = j.  The ghost flag marks a job whose entry is overwritten. *)
Definition insert_job (s : sess) (id : Z) : sess :=
  let js := match lookup id (table s) with
            | Some h' => match nth_error (jobs s) h' with
                         | Some j' => upd (jobs s) h' (with_orph j')
                         | None => jobs s
                         end
            | None => jobs s
            end in
  mkSess (js ++ [new_job id]) ((id, length (jobs s)) :: remove id (table s)) (held s).

(* the steps shared by both versions of the code *)
Definition step_common (p : pc) (s : sess) : res (pc * sess) :=
  match p with
  | PTask0 id draws full =>
      if id =? 0 then
        let i := new_job_id draws (table s) in
        if i =? 0 then Ok (PDone (RErr E_NOID), s) else Ok (PTask1 i full, s)
      else Ok (PTask1 (u16 id) full, s)
  | PTask1 id full =>
      if mem id (table s) then Ok (PDone (RErr E_DUP), s) else Ok (PTask2 id full, s)
  | PTask2 id full =>
      if full then Ok (PDone (RErr E_FULL), s) else Ok (PTask3 id, s)
  | PTask3 id => Ok (PDone (RJob (length (jobs s))), insert_job s id)
  | PNew draws => Ok (PDone (RId (new_job_id draws (table s))), s)
  | PW0 h =>
      match getj s h with
      | None => Ok (PDone RUnit, s)
      | Some j => match jdone j with Nil => Ok (PDone RUnit, s) | _ => Ok (PW1 h, s) end
      end
  | PW1 h =>
      match getj s h with
      | None => Ok (PDone RUnit, s)
      | Some j => match jdone j with Open => Ok (PW1 h, s) | _ => Ok (PDone RUnit, s) end
      end
  | PI0 h =>
      match getj s h with
      | None => Ok (PDone (RBool true), s)
      | Some j => match jdone j with Nil => Ok (PDone (RBool true), s) | _ => Ok (PI1 h, s) end
      end
  | PI1 h =>
      match getj s h with
      | None => Ok (PDone (RBool true), s)
      | Some j => match jdone j with Open => Ok (PDone (RBool false), s) | _ => Ok (PDone (RBool true), s) end
      end
  | PJobs0 => if is_nil (table s) then Ok (PDone (RJobs []), s) else Ok (PJobs1, s)
  | PJobs1 => Ok (PDone (RJobs (sort_table (table s))), s)
  | PJob0 id => if (id <? 2) || is_nil (table s) then Ok (PDone (RJobOpt None), s) else Ok (PJob1 id, s)
  | PJob1 id => Ok (PDone (RJobOpt (lookup id (table s))), s)
  | PHas id => Ok (PDone (RBool (mem id (table s))), s)
  | PA0 id => if (id <? 2) || is_nil (table s) then Ok (PDone RUnit, s) else Ok (PA1 id, s)
  | PA1 id => match lookup id (table s) with None => Ok (PDone RUnit, s) | Some h => Ok (PA2 h, s) end
  | PA2 h =>
      match getj s h with
      | None => Ok (PDone RUnit, s)
      | Some j => Ok (PDone RUnit, setj s h (with_status j StAccepted))
      end
  | PF0 id max => if (id <? 2) || is_nil (table s) then Ok (PDone RUnit, s) else Ok (PF1 id max, s)
  | PF1 id max => match lookup id (table s) with None => Ok (PDone RUnit, s) | Some h => Ok (PF2 h max, s) end
  | PF2 h max =>
      match getj s h with
      | None => Ok (PDone RUnit, s)
      | Some j =>
          let j1 := if jfrags j =? 0 then with_status j StReceiving else j in
          Ok (PDone RUnit, setj s h (with_frags j1 max))
      end
  | PDone r => Ok (PDone r, s)
  | _ => Ok (p, s)
  end.

(* close(j.done); j.done = nil -- the old code (Pinned) in one piece *)
Definition close_nil (j : job) : res job :=
  do _ <- close_chan (jdone j); Ok (with_done j Nil).

(* len(j.Error) > 0 after `if err := p.ReadString(&j.Error); err != nil { j.Error = err.Error() }`:
   ReadString = Chunk.Bytes on the payload (Model/Codec.v rd_bytes); every failure has a non-empty text *)
Definition err_nonempty (pl : list Z) : bool :=
  match Codec.rd_bytes pl with
  | Ok (b, _) => negb (is_nil b)
  | _ => true
  end.

(* one write of the lock holder; the last one also unlocks *)
Definition cs_step (c : cs) (s : sess) : res sess :=
  match getj s (cs_job c) with
  | None => Ok (set_held s None)
  | Some j =>
    let h := cs_job c in
    match c with
    | HRes _ err tag pl => Ok (set_held (setj s h (with_res j tag)) (Some (HSt h err tag pl)))
    | HSt _ err tag pl =>
        Ok (set_held (setj s h (with_status j StCompleted)) (Some (if err then HErrSt h tag pl else HInfo h tag)))
    | HErrSt _ tag pl => Ok (set_held (setj s h (with_status j StError)) (Some (HErrTxt h tag pl)))
    | HErrTxt _ tag pl => Ok (set_held (setj s h (with_err j (err_nonempty pl))) (Some (HDel h true tag)))
    | HInfo _ tag => Ok (set_held s (Some (HDel h false tag)))
    | HDel _ err tag => Ok (set_held (set_table s (remove (jid j) (table s))) (Some (HClose h err tag)))
    | HClose _ err tag =>
        match jdone j with
        | Nil => Ok (set_held s None)
        | d => do d' <- close_chan d; Ok (set_held (setj s h (with_done j d')) (Some (HNil h)))
        end
    | HNil _ => Ok (set_held (setj s h (with_done j Nil)) None)
    | CSt _ =>
        let tracked := match lookup (jid j) (table s) with Some h' => Nat.eqb h' h | None => false end in
        Ok (set_held (setj s h (with_status j StCanceled)) (Some (if tracked then CDel h else CClose h)))
    | CDel _ => Ok (set_held (set_table s (remove (jid j) (table s))) (Some (CClose h)))
    | CClose _ => do d' <- close_chan (jdone j); Ok (set_held (setj s h (with_done j d')) (Some (CStNil h)))
    | CStNil _ => Ok (set_held (setj s h (with_done (with_status j StCanceled) Nil)) None)
    end
  end.

(* the steps that have to take Session.lock (RLock or Lock): they wait while it is write-locked *)
Definition needs_lock (p : pc) : bool :=
  match p with
  | PTask0 id _ _ => id =? 0
  | PTask1 _ _ | PTask3 _ | PNew _ | PH1 _ _ _ _ | PH2 _ _ _ _ | PC1 _
  | PJobs1 | PJob1 _ | PA1 _ | PF1 _ _ => true
  | _ => false
  end.

Definition step_free (p : pc) (s : sess) : res (pc * sess) :=
  match p with
  | PH0 wf id err tag pl =>
      if negb wf || (id <? 2) then Ok (PDone (RBool false), s)
      else if is_nil (table s) then Ok (PDone (RBool false), s)
      else Ok (PH1 id err tag pl, s)
  | PH1 id err tag pl =>
      match lookup id (table s) with
      | None => Ok (PDone (RBool false), s)
      | Some h => Ok (PH2 h err tag pl, s)
      end
  | PH2 h err tag pl =>
      match getj s h with
      | None => Ok (PDone (RBool false), s)
      | Some j =>
          match lookup (jid j) (table s) with
          | Some h' =>
              if Nat.eqb h' h then Ok (PCS (RBool true), set_held s (Some (HRes h err tag pl)))
              else Ok (PDone (RBool false), s)
          | None => Ok (PDone (RBool false), s)
          end
      end
  | PCS r =>
      match held s with
      | None => Ok (PDone r, s)
      | Some c =>
          do s' <- cs_step c s;
          Ok (match held s' with None => PDone r | Some _ => PCS r end, s')
      end
  | PC0 h =>
      match getj s h with
      | None => Ok (PDone RUnit, s)
      | Some j => match jdone j with Nil => Ok (PDone RUnit, s) | _ => Ok (PC1 h, s) end
      end
  | PC1 h =>
      match getj s h with
      | None => Ok (PDone RUnit, s)
      | Some j =>
          match jdone j with
          | Nil => Ok (PDone RUnit, s)
          | _ => Ok (PCS RUnit, set_held s (Some (CSt h)))
          end
      end
  | _ => step_common p s
  end.

Definition step (p : pc) (s : sess) : res (pc * sess) :=
  if needs_lock p && is_held s then Ok (p, s) else step_free p s.

(* ==================================================================================== *)
(* The code as it was on the pinned tree (copy kept for the refutation lemmas).         *)
(* ==================================================================================== *)
Module Pinned.
  (* extra program points of the old handle / Cancel, embedded through tags of PH2/PC1:
     the old code is expressed with its own program-counter type *)
  Inductive opc :=
  | Com (p : pc)              (* a program point shared with the current code *)
  | QH2 (h : nat) (err : bool) (tag : Z)  (* unlocked: j.Result, j.Status = p, StatusCompleted *)
  | QH3 (h : nat)             (* unlocked: j.Status = StatusError; j.Error = ... *)
  | QH4 (h : nat)             (* [Lock] delete(s.jobs, j.ID) *)
  | QH5 (h : nat)             (* unlocked: j.done != nil ? *)
  | QH6 (h : nat)             (* close(j.done) *)
  | QH7 (h : nat)             (* j.done = nil *)
  | QC1 (h : nat)             (* unlocked: j.Status >= StatusCompleted ? *)
  | QC2 (h : nat)             (* unlocked: j.done != nil ? *)
  | QC3 (h : nat)             (* close(j.done); return *)
  | QC4 (h : nat).            (* [Lock] the three branches *)

  Definition init_pc (o : op) : opc := Com (init_pc o).

  Definition lift (r : res (pc * sess)) : res (opc * sess) :=
    match r with Ok (p, s) => Ok (Com p, s) | Err e => Err e | Panic => Panic end.

  Definition step (q : opc) (s : sess) : res (opc * sess) :=
    match q with
    | Com (PH0 wf id err tag pl) => lift (step (PH0 wf id err tag pl) s)
    | Com (PH1 id err tag pl) =>
        match lookup id (table s) with
        | None => Ok (Com (PDone (RBool false)), s)
        | Some h => Ok (QH2 h err tag, s)
        end
    | QH2 h err tag =>
        match getj s h with
        | None => Ok (Com (PDone (RBool false)), s)
        | Some j => Ok (if err then QH3 h else QH4 h, setj s h (with_status (with_res j tag) StCompleted))
        end
    | QH3 h =>
        match getj s h with
        | None => Ok (Com (PDone (RBool false)), s)
        | Some j => Ok (QH4 h, setj s h (with_err (with_status j StError) true))
        end
    | QH4 h =>
        match getj s h with
        | None => Ok (Com (PDone (RBool false)), s)
        | Some j => Ok (QH5 h, set_table s (remove (jid j) (table s)))
        end
    | QH5 h =>
        match getj s h with
        | None => Ok (Com (PDone (RBool true)), s)
        | Some j => match jdone j with Nil => Ok (Com (PDone (RBool true)), s) | _ => Ok (QH6 h, s) end
        end
    | QH6 h =>
        match getj s h with
        | None => Ok (Com (PDone (RBool true)), s)
        | Some j => do c <- close_chan (jdone j); Ok (QH7 h, setj s h (with_done j c))
        end
    | QH7 h =>
        match getj s h with
        | None => Ok (Com (PDone (RBool true)), s)
        | Some j => Ok (Com (PDone (RBool true)), setj s h (with_done j Nil))
        end
    | Com (PC0 h) =>
        match getj s h with
        | None => Ok (Com (PDone RUnit), s)
        | Some j => match jdone j with Nil => Ok (Com (PDone RUnit), s) | _ => Ok (QC1 h, s) end
        end
    | QC1 h =>
        match getj s h with
        | None => Ok (Com (PDone RUnit), s)
        | Some j => if StCompleted <=? jstatus j then Ok (QC2 h, s) else Ok (QC4 h, s)
        end
    | QC2 h =>
        match getj s h with
        | None => Ok (Com (PDone RUnit), s)
        | Some j => match jdone j with Nil => Ok (Com (PDone RUnit), s) | _ => Ok (QC3 h, s) end
        end
    | QC3 h =>
        match getj s h with
        | None => Ok (Com (PDone RUnit), s)
        | Some j => do c <- close_chan (jdone j); Ok (Com (PDone RUnit), setj s h (with_done j c))
        end
    | QC4 h =>
        match getj s h with
        | None => Ok (Com (PDone RUnit), s)
        | Some j =>
            if is_nil (table s) || negb (mem (jid j) (table s)) then
              do j1 <- close_nil j; Ok (Com (PDone RUnit), setj s h (with_status j1 StCanceled))
            else
              (* delete(j.s.jobs, j.ID); close(j.done); j.done = nil -- Status is NOT touched *)
              do j1 <- close_nil j;
              Ok (Com (PDone RUnit), set_table (setj s h j1) (remove (jid j) (table s)))
        end
    | Com (PH2 _ _ _ _) | Com (PC1 _) | Com (PCS _) => Ok (q, s)     (* not program points of the old code *)
    | Com p => lift (step_common p s)
    end.
End Pinned.

(* ---- running one operation alone (the sequential semantics) ------------------------- *)
Definition is_done_pc (p : pc) : option ret := match p with PDone r => Some r | _ => None end.

Fixpoint run_solo (fuel : nat) (p : pc) (s : sess) : res (ret * sess) :=
  match p with
  | PDone r => Ok (r, s)
  | _ => match fuel with
         | O => Ok (RBlocked, s)
         | S f => do '(p', s') <- step p s; run_solo f p' s'
         end
  end.
Definition apply_op (o : op) (s : sess) : res (ret * sess) := run_solo 16 (init_pc o) s.

Fixpoint run_ops (os : list op) (s : sess) : res (list ret * sess) :=
  match os with
  | [] => Ok ([], s)
  | o :: r => do '(x, s1) <- apply_op o s; do '(xs, s2) <- run_ops r s1; Ok (x :: xs, s2)
  end.

Module PinnedSeq.
  Fixpoint run_solo (fuel : nat) (q : Pinned.opc) (s : sess) : res (ret * sess) :=
    match q with
    | Pinned.Com (PDone r) => Ok (r, s)
    | _ => match fuel with
           | O => Ok (RBlocked, s)
           | S f => do '(q', s') <- Pinned.step q s; run_solo f q' s'
           end
    end.
  Definition apply_op (o : op) (s : sess) : res (ret * sess) := run_solo 12 (Pinned.init_pc o) s.
End PinnedSeq.

(* ---- histories: interleaved execution of the same [step] (Model/JobSched.v) --------------- *)
Definition hist : Type := list (ev op).
Definition cfg : Type := config sess pc.          (* thread pool (program counters), shared state *)
Definition cfg0 : cfg := ([], s0).
Definition run_from (c : cfg) (es : hist) : res cfg := run_sched step init_pc es c.
Definition run (es : hist) : res cfg := run_from cfg0 es.

(* ---- correspondence cases ----------------------------------------------------------- *)
(* what the harness observes of one job: Status, done (0 open / 1 closed / 2 nil), result tag,
   Frags, len(Error) > 0 *)
Definition jobobs : Type := (Z * Z * Z * Z * bool)%type.
Definition obs_job (j : job) : jobobs := (jstatus j, chan_code (jdone j), jres j, jfrags j, jerr j).

Definition jobobs_eqb (a b : jobobs) : bool :=
  match a, b with
  | (a1, a2, a3, a4, a5), (b1, b2, b3, b4, b5) =>
      (a1 =? b1) && (a2 =? b2) && (a3 =? b3) && (a4 =? b4) && Bool.eqb a5 b5
  end.
Definition entry_eqb (a b : Z * nat) : bool := (fst a =? fst b) && Nat.eqb (snd a) (snd b).

Definition ret_eqb (a b : ret) : bool :=
  match a, b with
  | RUnit, RUnit => true
  | RBool x, RBool y => Bool.eqb x y
  | RId x, RId y => x =? y
  | RJob x, RJob y => Nat.eqb x y
  | RErr x, RErr y => x =? y
  | RJobs x, RJobs y => list_eqb entry_eqb x y
  | RJobOpt x, RJobOpt y => option_eqb Nat.eqb x y
  | RBlocked, RBlocked => true
  | _, _ => false
  end.

(* one observed step: the operation, what it returned (or that it panicked), and the whole
   observable state afterwards (every job created so far, the table sorted by number) *)
Inductive ostep := OStep (o : op) (r : res ret) (js : list jobobs) (t : list (Z * nat)).

(* Deterministic interleavings.  The implementation can be parked (through the Session logger,
   see harness/overlay/c2--c14.go) inside handle between the read-locked lookup and the
   write-locked finish, and inside Task between the duplicate check and the insert.  A case is a
   list of SEGMENTS: [SSpawn o k] starts a new thread with operation o and lets it take k atomic
   steps, [SResume t k] lets thread t take k more (a thread that has returned, or that is blocked in
   Wait, stutters).  After every segment the harness observed whether the thread has returned
   (and what) or is parked / blocked, every job and the table. *)
Inductive seg := SSpawn (o : op) (k : nat) | SResume (t : nat) (k : nat).
Inductive tobs := TParked | TRet (r : ret).
Inductive cstep := CStep (g : seg) (ob : tobs) (js : list jobobs) (t : list (Z * nat)).

Inductive case :=
| CSeq (steps : list ostep)
| CSched (steps : list cstep).

Definition seg_events (g : seg) (c : cfg) : nat * hist :=
  match g with
  | SSpawn o k => (length (fst c), Spawn o :: repeat (Run (length (fst c))) k)
  | SResume t k => (t, repeat (Run t) k)
  end.

Definition tobs_ok (p : option pc) (ob : tobs) : bool :=
  match p with
  | Some (PDone r) => match ob with TRet y => ret_eqb r y | TParked => false end
  | Some _ => match ob with TParked => true | TRet _ => false end
  | None => false
  end.

Fixpoint check_sched (steps : list cstep) (c : cfg) : bool :=
  match steps with
  | [] => true
  | CStep g ob js t :: rest =>
      let '(tid, es) := seg_events g c in
      match run_from c es with
      | Ok c1 =>
          tobs_ok (nth_error (fst c1) tid) ob
          && list_eqb jobobs_eqb (map obs_job (jobs (snd c1))) js
          && list_eqb entry_eqb (sort_table (table (snd c1))) t
          && check_sched rest c1
      | _ => false
      end
  end.

Fixpoint check_steps (apply : op -> sess -> res (ret * sess)) (steps : list ostep) (s : sess) : bool :=
  match steps with
  | [] => true
  | OStep o r js t :: rest =>
      match apply o s, r with
      | Ok (x, s1), Ok y =>
          ret_eqb x y && list_eqb jobobs_eqb (map obs_job (jobs s1)) js
          && list_eqb entry_eqb (sort_table (table s1)) t && check_steps apply rest s1
      | Panic, Panic => is_nil rest
      | _, _ => false
      end
  end.

Definition check (c : case) : bool :=
  match c with
  | CSeq steps => check_steps apply_op steps s0
  | CSched steps => check_sched steps cfg0
  end.
Definition check_pinned (c : case) : bool :=
  match c with
  | CSeq steps => check_steps PinnedSeq.apply_op steps s0
  | CSched _ => true
  end.

(* ==================================================================================== *)
(* Histories: the interleaving semantics of the SAME [step] (Model/JobSched.v), and the  *)
(* vocabulary in which Props/C14.v states the property.                                  *)
(* ==================================================================================== *)
(* [hist], [cfg], [cfg0], [run_from], [run] are defined above (before the correspondence cases). *)

(* a job (named by its handle) is pending: its done channel is open; finished: done is nil *)
Definition pending (s : sess) (h : nat) : Prop := exists j, getj s h = Some j /\ jdone j = Open.
Definition finished (s : sess) (h : nat) : Prop := exists j, getj s h = Some j /\ jdone j = Nil.
(* the pending table holds the job *)
Definition tracked (s : sess) (h : nat) : Prop := exists k, lookup k (table s) = Some h.
(* the table entry of the job was overwritten by a later Task with the same number *)
Definition orphaned (s : sess) (h : nat) : Prop := exists j, getj s h = Some j /\ jorph j = true.
Definition final (st : Z) : Prop := st = StCompleted \/ st = StError \/ st = StCanceled.

(* The operations of the property's quantifier.  accept / frag (the receive path's unlocked
   writes of Job.Status / Job.Frags) are outside it; the theorems about panics, waiters and the
   table hold with them as well, the theorems about the status exclude them. *)
Definition c14_op (o : op) : bool := match o with OAccept _ | OFrag _ _ => false | _ => true end.
Definition c14_ev (e : ev op) : bool := match e with Spawn o => c14_op o | Run _ => true end.
Definition c14_pc (p : pc) : bool :=
  match p with PA0 _ | PA1 _ | PA2 _ | PF0 _ _ | PF1 _ _ | PF2 _ _ => false | _ => true end.

(* the finishing events.  A job is RELEASED (its waiters return, IsDone says true) by the one
   write that closes done: [publishes c] = the job that write releases, the status and the
   result tag (None: Result is left alone) of the event whose critical section it belongs to *)
Definition publishes (c : cs) : option (nat * Z * option Z) :=
  match c with
  | HClose h err tag => Some (h, if err then StError else StCompleted, Some tag)
  | CClose h => Some (h, StCanceled, None)
  | _ => None
  end.
Definition released (s : sess) (h : nat) : Prop := exists j, getj s h = Some j /\ jdone j <> Open.
(* the job whose write-locked section (handle / Cancel) is in progress *)
Definition in_progress (s : sess) (h : nat) : bool :=
  match held s with Some c => Nat.eqb (cs_job c) h | None => false end.
(* what a reader sees of the outcome *)
Definition outcome (j : job) : Z * Z * bool := (jstatus j, jres j, jerr j).

(* the job record after a finishing event: status st, done = nil, result tag r, error flag e *)
Definition fin_job (j : job) (st r : Z) (e : bool) : job :=
  mkJob (jid j) st Nil r e (jfrags j) (jorph j).

(* Task: the window between the duplicate check (RLock) and the insert (Lock) *)
Definition in_window (p : pc) : option Z :=
  match p with PTask2 id _ => Some id | PTask3 id => Some id | _ => None end.
(* no two Task calls with the same number are inside their windows at the same time *)
Definition task_excl (ps : list pc) : Prop :=
  forall t1 t2 p1 p2 i, nth_error ps t1 = Some p1 -> nth_error ps t2 = Some p2 ->
    in_window p1 = Some i -> in_window p2 = Some i -> t1 = t2.
(* ... at every point of the history [es] started in [c] *)
Fixpoint tasks_serial (c : cfg) (es : hist) : Prop :=
  task_excl (fst c) /\
  match es with
  | [] => True
  | e :: r => match exec step init_pc e c with Ok c' => tasks_serial c' r | _ => True end
  end.

(* the same for the pinned code *)
Definition pinned_run (es : hist) : res (config sess Pinned.opc) :=
  run_sched Pinned.step Pinned.init_pc es ([], s0).
