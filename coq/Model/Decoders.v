(* Model/Decoders.v -- C04: every XMT-authored decoder of network-supplied bytes as a TOTAL
   function on arbitrary byte lists.  Definitions only.

   Each decoder returns an outcome (Ok digest | Err code | Panic) and `alloc`, the number of
   bytes requested from make() BEFORE the input justifies them (bytes that are copies of input
   bytes actually present are not counted; reslicing is 0).

   Two versions of a function exist where the pinned tree was repaired: the current one
   (`strict = true` / `guard = true`) and the pinned-tree one (`false`), kept so that the
   `_refuted` lemmas document the regression.  `run` (what the correspondence run evaluates and
   what the theorems of Props/C04.v are about) is the CURRENT code.

   Flat reader = data.Chunk (the rd_ functions of Codec); stream reader = data.NewReader over an io.Reader that
   never returns short reads (bytes.Reader): the srd_ functions of Codec on the one-chunk source. *)
From Coq Require String Ascii.
From XMT Require Import Base.Prelude Model.Codec.
Import String.StringSyntax.
Delimit Scope string_scope with string.

(* ---- error codes (Codec: EOF 1, ErrUnexpectedEOF 2, ErrInvalidType 3, ErrTooLarge 4, ErrLimit 5) *)
Definition ENoProgress : Z := 7.       (* io.ErrNoProgress *)
Definition EMalformedTag : Z := 8.     (* com.ErrMalformedTag *)
Definition EMalformedPacket : Z := 9.  (* c2.ErrMalformedPacket *)
Definition EInvalidCount : Z := 10.    (* c2.ErrInvalidPacketCount *)
Definition EFuel : Z := 98.            (* model fuel exhausted: never produced on real input *)

(* ---- outcome + allocation ---------------------------------------------------------------- *)
Definition A (X : Type) : Type := (res X * Z)%type.
Definition ret {X} (x : X) : A X := (Ok x, 0).
Definition lift {X} (r : res X) : A X := (r, 0).
Definition mk (n : Z) : A unit := (Ok tt, n).          (* make() of n bytes not yet justified by input *)
Definition abind {X Y} (m : A X) (f : X -> A Y) : A Y :=
  match fst m with
  | Ok x => let r := f x in (fst r, snd m + snd r)
  | Err e => (Err e, snd m)
  | Panic => (Panic, snd m)
  end.
Notation "'al' x <- r ; k" := (abind r (fun x => k))
  (at level 200, x name, r at level 100, k at level 200, right associativity).
Notation "'al' ' p <- r ; k" := (abind r (fun x => match x with p => k end))
  (at level 200, p pattern, r at level 100, k at level 200, right associativity).

Definition outcome {X} (a : A X) : res X := fst a.
Definition alloc {X} (a : A X) : Z := snd a.

(* =========================================================================================
   1. DNS transform: c2/transform/dns.go decodePacket / decodePackets / DNSTransform.Read
   strict = true : the repaired walker (length checks return io.ErrUnexpectedEOF)
   strict = false: the pinned tree (`_ = b[12]`, b[s], b[s+1], b[s:s+i] unchecked); the slice
                   passed in is taken to have cap = len.
   alloc = the bytes handed to w.Write (copies of input bytes; counted here so that
   "the output never exceeds the input" is part of the allocation theorem).
   ========================================================================================= *)

(* inner label walk of the question loop:
     for i := 0; i < 64; { if i >= len(b) || s >= len(b) {EOF}; if i = int(b[s]); i == 0 {s++; break}; s += i+1 } *)
Fixpoint dns_labels (strict : bool) (fuel : nat) (b : list Z) (i s : Z) : res Z :=
  if 64 <=? i then Ok s else
  match fuel with
  | O => Err EFuel
  | S f =>
    if (len b <=? i) || (if strict then len b <=? s else len b <? s) then Err ErrUnexpectedEOF else
    do x <- idx b s;
    if x =? 0 then Ok (s + 1) else dns_labels strict f b x (s + x + 1)
  end.

Fixpoint dns_q (strict : bool) (q : nat) (b : list Z) (s : Z) : res Z :=
  match q with
  | O => Ok s
  | S q' =>
    do s1 <- dns_labels strict (S (length b)) b 0 s;
    let s2 := s1 + 4 in
    if len b <=? s2 then Err ErrUnexpectedEOF else dns_q strict q' b s2
  end.

(* answer records: if s += 10; s+1 >= len(b) {EOF}; s += (int(b[s])<<8 | int(b[s+1])) + 2 *)
Fixpoint dns_c (strict : bool) (c : nat) (b : list Z) (s : Z) : res Z :=
  match c with
  | O => Ok s
  | S c' =>
    let s1 := s + 10 in
    if (if strict then len b <=? s1 + 1 else len b <? s1) then Err ErrUnexpectedEOF else
    do hi <- idx b s1;
    do lo <- idx b (s1 + 1);
    dns_c strict c' b (s1 + (hi * 256 + lo) + 2)
  end.

(* data records: C0 0C 00 0A 00 01 ttl(4) len(2) data; the data is written to w *)
Fixpoint dns_t (strict : bool) (t : nat) (b : list Z) (s : Z) (acc : list Z) : A (Z * list Z) :=
  match t with
  | O => ret (s, acc)
  | S t' =>
    if len b <=? s + 6 then lift (Err ErrUnexpectedEOF) else
    al b0 <- lift (idx b s); al b1 <- lift (idx b (s + 1)); al b2 <- lift (idx b (s + 2));
    al b3 <- lift (idx b (s + 3)); al b4 <- lift (idx b (s + 4)); al b5 <- lift (idx b (s + 5));
    if negb ((b0 =? 192) && (b1 =? 12) && (b2 =? 0) && (b3 =? 10) && (b4 =? 0) && (b5 =? 1))
    then lift (Err ENoProgress) else
    let s1 := s + 10 in
    if strict && (len b <=? s1 + 1) then lift (Err ErrUnexpectedEOF) else
    al hi <- lift (idx b s1);
    al lo <- lift (idx b (s1 + 1));
    let i := hi * 256 + lo in
    let s2 := s1 + 2 in
    if strict && (len b <? s2 + i) then lift (Err ErrUnexpectedEOF) else
    al d <- lift (slice b s2 (s2 + i));
    al _ <- mk (len d);
    dns_t strict t' b (s2 + i) (acc ++ d)
  end.

Definition dns_packet (strict : bool) (b : list Z) : A (Z * list Z) :=
  al _ <- lift (if strict then (if len b <? 12 then Err ErrUnexpectedEOF else Ok 0) else idx b 12);
  al q1 <- lift (idx b 4); al q0 <- lift (idx b 5);
  al c1 <- lift (idx b 6); al c0 <- lift (idx b 7);
  al t1 <- lift (idx b 10); al t0 <- lift (idx b 11);
  al s1 <- lift (dns_q strict (Z.to_nat (q1 * 256 + q0)) b 12);
  al s2 <- lift (dns_c strict (Z.to_nat (c1 * 256 + c0)) b s1);
  dns_t strict (Z.to_nat (t1 * 256 + t0)) b s2 [].

(* decodePackets: for i < len(b) { n, err := decodePacket(w, b[i:]); i += n } *)
Fixpoint dns_packets (strict : bool) (fuel : nat) (b : list Z) (i : Z) (acc : list Z) : A (Z * list Z) :=
  if len b <=? i then ret (i, acc) else
  match fuel with
  | O => lift (Err EFuel)
  | S f =>
    al '(n, w) <- dns_packet strict (drop i b);
    dns_packets strict f b (i + n) (acc ++ w)
  end.

(* DNSTransform.Read: the bytes written to w *)
Definition dns_read (strict : bool) (b : list Z) : A (list Z) :=
  al '(n, w) <- dns_packets strict (S (length b)) b 0 [];
  if n =? len b then ret w else lift (Err ErrUnexpectedEOF).

(* =========================================================================================
   2. data.ReadStringList (data/util.go) and Bytes (chunk_reader.go / data_reader.go)
   ========================================================================================= *)

(* k strings, k a Z (possibly astronomically large), fuel = bytes available + 1 *)
Fixpoint rd_strings_n (fuel : nat) (k : Z) (s : list Z) : res (list (list Z) * list Z) :=
  if k <=? 0 then Ok ([], s) else
  match fuel with
  | O => Err EFuel
  | S f => do '(b, r) <- rd_bytes s; do '(l, r') <- rd_strings_n f (k - 1) r; Ok (b :: l, r')
  end.

Definition SliceHdr : Z := 16.      (* unsafe.Sizeof(string) *)
(* amortised cost of ONE append step of the repaired loop (the list grows by one empty string): growslice doubles below
   256 elements, then grows by a quarter plus 192, rounded up to a size class (at most an eighth):
   all the backing arrays allocated while a slice of 16-byte elements grows to m entries hold at
   most 7*m + 70 elements, i.e. less than 112 bytes per entry plus 2 KiB. *)
Definition StrGrow : Z := 112.

(* guard = true : repaired: the list grows by append with the entries that are actually read;
   guard = false: pinned tree, make([]string, l) from the unchecked count: makeslice panics when
   l*16 exceeds the address space, and allocates l*16 bytes otherwise.  A count that is negative
   as an int skips both the allocation and the loop. *)
Fixpoint rd_strings_g (fuel : nat) (k : Z) (s : list Z) : A (list (list Z) * list Z) :=
  if k <=? 0 then ret ([], s) else
  match fuel with
  | O => lift (Err EFuel)
  | S f => al _ <- mk StrGrow; al '(b, r) <- lift (rd_bytes s);
           al '(l, r') <- rd_strings_g f (k - 1) r; ret (b :: l, r')
  end.

Definition strlist_flat (guard : bool) (s : list Z) : A (list (list Z) * list Z) :=
  al '(ol, r) <- lift (rd_prefix s);
  match ol with
  | None => ret ([], r)
  | Some n =>
    let l := i64 n in
    if l <=? 0 then ret ([], r) else
    if guard then rd_strings_g (S (length r)) l r
    else if maxAlloc <? l * SliceHdr then (Panic, 0)
    else al _ <- mk (l * SliceHdr); lift (rd_strings_n (S (length r)) l r)
  end.

(* the stream reader over a source without short reads *)
Definition one (s : list Z) : src := match s with [] => [] | _ => [s] end.

(* reader.Bytes: make([]byte, l) from the length prefix alone (l <= MaxSlice = 4 TiB) *)
Definition bytes_stream (s : src) : A (list Z * src) :=
  al '(ol, r) <- lift (srd_prefix s);
  match ol with
  | None => ret ([], r)
  | Some l =>
    if l =? 0 then lift (Err ErrUnexpectedEOF)
    else if MaxSlice <? l then lift (Err ErrTooLarge)
    else al _ <- mk l;
         match read_full (src_fuel r l) l r [] with
         | Ok x => ret x
         | Err e => lift (Err e)
         | Panic => lift Panic
         end
  end.

Fixpoint srd_strings_n (grow : bool) (fuel : nat) (k : Z) (s : src) : A (list (list Z) * src) :=
  if k <=? 0 then ret ([], s) else
  match fuel with
  | O => lift (Err EFuel)
  | S f => al _ <- mk (if grow then StrGrow else 0); al '(b, r) <- bytes_stream s;
           al '(l, r') <- srd_strings_n grow f (k - 1) r; ret (b :: l, r')
  end.

Definition strlist_stream (guard : bool) (s : src) : A (list (list Z) * src) :=
  al '(ol, r) <- lift (srd_prefix s);
  match ol with
  | None => ret ([], r)
  | Some n =>
    let l := i64 n in
    if l <=? 0 then ret ([], r) else
    if guard then srd_strings_n true (S (length (concat r))) l r
    else if maxAlloc <? l * SliceHdr then (Panic, 0)
    else al _ <- mk (l * SliceHdr); srd_strings_n false (S (length (concat r))) l r
  end.

(* =========================================================================================
   3. com.Packet: wire form (Unmarshal = readHeader + readBody over an io.Reader without
      short reads) and stream form (UnmarshalStream over a Chunk)
   ========================================================================================= *)
Definition IDSize : Z := 32.
Definition PacketMaxTags : Z := 32768.

(* io.ReadFull(r, buf[:n]) on the remaining bytes: nothing at all = io.EOF, some = ErrUnexpectedEOF *)
Definition read_full_flat (n : Z) (s : list Z) : res (list Z * list Z) :=
  if n <=? 0 then Ok ([], s)
  else if is_nil s then Err EOF
  else if len s <? n then Err ErrUnexpectedEOF
  else Ok (take n s, drop n s).

(* device.ID.Read: 32 bytes, first byte non-zero *)
Definition rd_devid (s : list Z) : res (list Z * list Z) :=
  do '(i, r) <- read_full_flat IDSize s;
  match i with
  | x :: _ => if x =? 0 then Err ENoProgress else Ok (i, r)
  | [] => Err ENoProgress
  end.

Fixpoint rd_tags_wire (k : nat) (s : list Z) : res (list Z * list Z) :=
  match k with
  | O => Ok ([], s)
  | S k' =>
    do '(b, r) <- read_full_flat 4 s;
    let t := of_be b 0 in
    if t =? 0 then Err EMalformedTag else
    do '(ts, r') <- rd_tags_wire k' r; Ok (t :: ts, r')
  end.

Record packet := { p_id : Z; p_job : Z; p_flags : Z; p_ntags : Z; p_tags : list Z; p_body : list Z; p_dev : list Z }.

Definition pkt_digest (p : packet) (rest : Z) : list Z :=
  [p_id p; p_job p; p_flags p; p_ntags p] ++ p_tags p ++ [len (p_body p)] ++ p_body p ++ [rest].

Definition packet_wire (s : list Z) : A (packet * list Z) :=
  al '(dev, r0) <- lift (rd_devid s);
  al '(h, r1) <- lift (read_full_flat 14 r0);
  al id <- lift (idx h 0);
  al '(job, _) <- lift (rd_uN 2 (drop 1 h));
  al '(flags, _) <- lift (rd_uN 8 (drop 3 h));
  al '(nt, _) <- lift (rd_uN 2 (drop 11 h));
  al cls <- lift (idx h 13);
  al _ <- mk (4 * nt);                                       (* p.Tags = make([]uint32, l) *)
  al '(blen, r2) <- lift (
      if cls =? 0 then Ok (0, r1)
      else if cls =? 1 then do '(b, r) <- read_full_flat 1 r1; Ok (of_be b 0, r)
      else if cls =? 3 then do '(b, r) <- read_full_flat 2 r1; Ok (of_be b 0, r)
      else if cls =? 5 then do '(b, r) <- read_full_flat 4 r1; Ok (of_be b 0, r)
      else if cls =? 7 then do '(b, r) <- read_full_flat 8 r1; Ok (of_be b 0, r)
      else Err ErrInvalidType);
  al '(tags, r3) <- lift (rd_tags_wire (Z.to_nat nt) r2);
  (* the body is read in 16 KiB pieces into a buffer that grows with the bytes received *)
  if blen =? 0 then ret (Build_packet id job flags nt tags [] dev, r3)
  else if len r3 <? blen then lift (Err ErrUnexpectedEOF)
  else ret (Build_packet id job flags nt tags (take blen r3) dev, drop blen r3).

(* tags of the stream form: for i := 0; i < t && i < PacketMaxTags; i++ *)
Fixpoint rd_tags_stream (k : nat) (s : list Z) : res (list Z * list Z) :=
  match k with
  | O => Ok ([], s)
  | S k' =>
    do '(t, r) <- rd_u32 s;
    if t =? 0 then Err EMalformedTag else
    do '(ts, r') <- rd_tags_stream k' r; Ok (t :: ts, r')
  end.

(* io.ReadFull over Chunk.Read (the chunk holds at least one byte already consumed, so its
   buffer is not nil): drained = io.EOF, partial = io.ErrUnexpectedEOF *)
Definition packet_stream (s : list Z) : A (packet * list Z) :=
  al '(id, r0) <- lift (rd_u8 s);
  al '(job, r1) <- lift (rd_u16 r0);
  al '(nt, r2) <- lift (rd_u16 r1);
  al '(flags, r3) <- lift (rd_u64 r2);
  al '(dev, r4) <- lift (rd_devid r3);
  al _ <- mk (4 * nt);
  al '(tags, r5) <- lift (rd_tags_stream (Z.to_nat (Z.min nt PacketMaxTags)) r4);
  al '(body, r6) <- lift (rd_bytes r5);
  ret (Build_packet id job flags nt tags body dev, r6).

(* =========================================================================================
   4. c2/task/result: the exported decoders of client-supplied result payloads.
      The payload is the packet body; an empty body is c2.ErrMalformedPacket.
   ========================================================================================= *)
Inductive field := FU8 | FU16 | FU32 | FU64 | FBytes.

Definition rd_field (f : field) (s : list Z) : res (unit * list Z) :=
  match f with
  | FU8 => do '(_, r) <- rd_u8 s; Ok (tt, r)
  | FU16 => do '(_, r) <- rd_u16 s; Ok (tt, r)
  | FU32 => do '(_, r) <- rd_u32 s; Ok (tt, r)
  | FU64 => do '(_, r) <- rd_u64 s; Ok (tt, r)
  | FBytes => do '(_, r) <- rd_bytes s; Ok (tt, r)
  end.
Fixpoint rd_fields (fs : list field) (s : list Z) : res (unit * list Z) :=
  match fs with
  | [] => Ok (tt, s)
  | f :: fs' => do '(_, r) <- rd_field f s; rd_fields fs' r
  end.

(* c elements, c a Z; fuel = bytes available + 1 *)
Fixpoint rd_elems (fuel : nat) (c : Z) (fs : list field) (s : list Z) : res (unit * list Z) :=
  if c <=? 0 then Ok (tt, s) else
  match fuel with
  | O => Err EFuel
  | S f => do '(_, r) <- rd_fields fs s; rd_elems f (c - 1) fs r
  end.

(* the one combinator: read a cw-byte count, make(count * esz), decode the elements.
   guard = true : the repaired decoders refuse a count larger than the bytes that remain
                  (every element takes at least one byte) with io.ErrUnexpectedEOF before allocating;
   guard = false: the pinned tree. *)
Definition counted (guard : bool) (c : Z) (esz : Z) (fs : list field) (r : list Z) : A (list Z) :=
  if guard && (len r <? c) then lift (Err ErrUnexpectedEOF) else
  al _ <- mk (c * esz);
  al '(_, r') <- lift (rd_elems (S (length r)) c fs r);
  ret [c; len r'].

Inductive rdec :=
| RPwd | RSpawn | RCheckDLL | RMounts | RLs | RWindowList | RFuncRemapList | RUserLogins
| RProcessList | RRegistry | RUpload | RWhoami | RSystemIO | RPull | RAssembly | RProcess | RDownload.

Definition F_ls := [FBytes; FU32; FU64; FU64].
Definition F_window := [FU64; FBytes; FU8; FU32; FU32; FU32; FU32].
Definition F_func := [FU32; FU64; FU64].
Definition F_login := [FU32; FU8; FU64; FU64; FU64; FU64; FBytes; FBytes].
Definition F_proc := [FU32; FU32; FBytes; FBytes].
Definition F_reg := [FBytes; FU32; FBytes].
(* unsafe.Sizeof of the element types on amd64 *)
Definition Z_ls : Z := 16.      (* os.FileInfo interface value *)
Definition Z_window : Z := 48.
Definition Z_func : Z := 24.
Definition Z_login : Z := 104.
Definition Z_proc : Z := 40.
Definition Z_reg : Z := 48.

Definition plain (fs : list field) (s : list Z) : A (list Z) :=
  al '(_, r) <- lift (rd_fields fs s); ret [len r].

Definition result_dec (guard : bool) (d : rdec) (s : list Z) : A (list Z) :=
  if is_nil s then lift (Err EMalformedPacket) else
  match d with
  | RPwd => plain [FBytes] s
  | RSpawn => plain [FU32] s
  | RCheckDLL => plain [FU8] s
  | RMounts => al '(l, r) <- strlist_flat guard s; ret [len r]
  | RLs => al '(c, r) <- lift (rd_u32 s); if c =? 0 then ret [0; len r] else counted guard c Z_ls F_ls r
  | RWindowList => al '(c, r) <- lift (rd_u32 s); counted guard c Z_window F_window r
  | RFuncRemapList => al '(c, r) <- lift (rd_u32 s); counted guard c Z_func F_func r
  | RUserLogins => al '(c, r) <- lift (rd_u16 s); counted guard c Z_login F_login r
  | RProcessList => al '(c, r) <- lift (rd_u32 s); counted guard c Z_proc F_proc r
  | RRegistry =>
    al '(o, r) <- lift (rd_u8 s);
    if 1 <? o then ret [0; len r]
    else if o =? 0 then
      al '(c, r') <- lift (rd_u32 r); if c =? 0 then ret [0; len r'] else counted guard c Z_reg F_reg r'
    else counted guard 1 Z_reg F_reg r
  | RUpload => plain [FBytes; FU64] s
  | RWhoami => plain [FBytes; FBytes] s
  | RSystemIO =>
    al '(o, r) <- lift (rd_u8 s);
    if negb ((o =? 2) || (o =? 3)) then ret [len r] else plain [FBytes; FU64] r
  | RPull => plain [FBytes; FU64] s
  | RAssembly => plain [FU64; FU32; FU32] s
  | RProcess => plain [FU32; FU32] s
  | RDownload => plain [FBytes; FU8; FU64] s
  end.

(* =========================================================================================
   5. registration data: device.Machine / Network / readProxyData / Session.readDeviceInfo
      (all counts are one byte: the allocation is bounded by a constant per count byte)
   ========================================================================================= *)
Definition Z_address : Z := 16.
Definition Z_device : Z := 48.      (* Name string, Address slice header, Mac *)
Definition Z_proxy : Z := 56.       (* two strings and one byte slice header *)

Fixpoint rd_addrs (k : nat) (s : list Z) : res (unit * list Z) :=
  match k with O => Ok (tt, s) | S k' => do '(_, r) <- rd_fields [FU64; FU64] s; rd_addrs k' r end.

Definition rd_netdev (s : list Z) : A (unit * list Z) :=
  al '(_, r) <- lift (rd_fields [FBytes; FU64] s);
  al '(l, r') <- lift (rd_u8 r);
  al _ <- mk (l * Z_address);
  lift (rd_addrs (Z.to_nat l) r').

Fixpoint rd_netdevs (k : nat) (s : list Z) : A (unit * list Z) :=
  match k with O => ret (tt, s) | S k' => al '(_, r) <- rd_netdev s; rd_netdevs k' r end.

Definition rd_network (s : list Z) : A (Z * list Z) :=
  al '(l, r) <- lift (rd_u8 s);
  al _ <- mk (l * Z_device);
  al '(_, r') <- rd_netdevs (Z.to_nat l) r;
  ret (l, r').

Definition rd_machine (s : list Z) : A (Z * list Z) :=
  al '(_, r0) <- lift (rd_devid s);
  al '(_, r1) <- lift (rd_fields [FU8; FU32; FU32; FBytes; FBytes; FBytes; FU8; FU32] r0);
  rd_network r1.

Fixpoint rd_proxies (k : nat) (full : bool) (s : list Z) : res (unit * list Z) :=
  match k with
  | O => Ok (tt, s)
  | S k' => do '(_, r) <- rd_fields (if full then [FBytes; FBytes; FBytes] else [FBytes; FBytes]) s;
            rd_proxies k' full r
  end.
Definition rd_proxydata (full : bool) (s : list Z) : A (Z * list Z) :=
  al '(n, r) <- lift (rd_u8 s);
  al _ <- mk (n * Z_proxy);
  al '(_, r') <- lift (rd_proxies (Z.to_nat n) full r);
  ret (n, r').

(* info kinds of c2/session.go *)
Definition infoHello : Z := 0.
Definition infoMigrate : Z := 1.
Definition infoRefresh : Z := 2.
Definition infoSync : Z := 3.
Definition infoProxy : Z := 4.
Definition infoSyncMigrate : Z := 5.

(* Session.readDeviceInfo(t, r) on a non-empty chunk; digest = [proxies; bytes left] *)
Definition devinfo (t : Z) (s : list Z) : A (list Z) :=
  if t =? infoProxy then al '(n, r) <- rd_proxydata false s; ret [n; len r] else
  al r0 <- (if (t =? infoHello) || (t =? infoRefresh) || (t =? infoSyncMigrate)
            then al '(_, r) <- rd_machine s; ret r
            else if t =? infoMigrate then al '(_, r) <- lift (rd_devid s); ret r
            else ret s);
  (* jitter, sleep, kill date, work hours (five bytes) *)
  al '(_, r1) <- lift (rd_fields [FU8; FU64; FU64; FU8; FU8; FU8; FU8; FU8] r0);
  if infoRefresh <? t then ret [0; len r1] else
  al '(n, r2) <- rd_proxydata true r1;
  (* infoMigrate continues with KeyPair.Unmarshal; that kind only travels over the local
     migration pipe and is not driven by the harness *)
  ret [n; len r2].

(* =========================================================================================
   6. transform.B64.Read / decodeShift (c2/transform/base64.go).  encoding/base64 is not
      modelled: what StdEncoding.Decode answers for the input is an OBSERVED input `dec` (the
      decoded bytes, or an error); its contract (at most DecodedLen(len p) bytes) is a hypothesis of
      the theorems.  The buffer is the pooled one (at least 512 bytes, grown to n) or a fresh
      make([]byte, n) above bufMax: at least max(n, 512) bytes either way.
   ========================================================================================= *)
Definition b64_decoded_len (n : Z) : Z := n / 4 * 3.

(* for x := 0; x < n; x++ { o[x] -= b }   (o is the buffer behind the pointer) *)
Fixpoint shift_loop (k : nat) (o : list Z) (x b : Z) : res (list Z) :=
  match k with
  | O => Ok o
  | S k' => do v <- idx o x; shift_loop k' (take x o ++ u8 (v - b) :: drop (x + 1) o) (x + 1) b
  end.

Definition b64_read (shift : Z) (dec : res (list Z)) (p : list Z) : A (list Z) :=
  let n := b64_decoded_len (len p) in
  let blen := Z.max n 512 in
  al _ <- mk n;
  match dec with
  | Err e => lift (Err e)
  | Panic => lift Panic
  | Ok d =>
    let o := take blen (d ++ repeat 0 (Z.to_nat (blen - len d))) in
    al o' <- lift (if shift =? 0 then Ok o else shift_loop (Z.to_nat (len d)) o 0 shift);
    al w <- lift (slice o' 0 (len d));
    ret w
  end.

(* =========================================================================================
   7. receive(s, l, n) on a server-side Session (c2/vars.go): the Multi container walk over the
      BYTES of a body (x sub-packets decoded with UnmarshalStream, nested containers walked
      recursively) and the fragment dispatch.  The result is the error (or nil) and the state
      of Session.frags; what the handlers do with delivered packets is not part of it.
      Not produced on a server (l.s.Oneshot == nil, no proxy): events for oneshot packets.
   ========================================================================================= *)
Definition EOther : Z := 99.          (* xerr.Sub(...) errors: wrong device 0x57, not-belongs 0x52 *)
Definition fl_bit (k : Z) (f : Z) : bool := Z.testbit f k.
Definition fl_len (f : Z) : Z := (f / 281474976710656) mod 65536.
Definition fl_pos (f : Z) : Z := (f / 4294967296) mod 65536.
Definition fl_group (f : Z) : Z := (f / 65536) mod 65536.
Definition fl_clear (f : Z) : Z := Z.lxor (f mod 65536) 1.      (* Flag.Clear: Flag(uint16(f)) ^ FlagFrag *)

(* Session.frags: group id -> cluster {data []*Packet; max, e uint16} (c2/types.go).  cluster.add
   COUNTS a fragment with an empty body in e and appends only the others to data. *)
Record clus := { c_max : Z; c_e : Z; c_data : list packet }.
Definition fstate := list (Z * clus).
Fixpoint f_lookup (g : Z) (st : fstate) : option clus :=
  match st with [] => None | (k, c) :: r => if k =? g then Some c else f_lookup g r end.
Definition f_remove (g : Z) (st : fstate) : fstate := filter (fun kc => negb (fst kc =? g)) st.

Definition with_flags (f : Z) (p : packet) : packet :=
  Build_packet (p_id p) (p_job p) f (p_ntags p) (p_tags p) (p_body p) (p_dev p).

(* Packet.Belongs: both flag words >= FlagFrag, same ID, Job and group *)
Definition belongs (d0 p : packet) : bool :=
  (1 <=? p_flags d0) && (1 <=? p_flags p) && (p_id d0 =? p_id p) && (p_job d0 =? p_job p) &&
  (fl_group (p_flags d0) =? fl_group (p_flags p)).

(* cluster.add *)
Definition cl_add (c : clus) (p : packet) : res clus :=
  let bad := match c_data c with d0 :: _ => negb (belongs d0 p) | [] => false end in
  if bad then Err EOther else
  let mx := u16 (fl_len (p_flags p) - 1) in
  if is_nil (p_body p) then Ok (Build_clus mx (u16 (c_e c + 1)) (c_data c))
  else Ok (Build_clus mx (c_e c) (c_data c ++ [p])).

(* sort.Sort(c) by Flags.Position() (insertion sort; which of two members with the same position
   comes first cannot be observed here: all members have the ID and Job of data[0]) *)
Fixpoint insert_pos (q : packet) (l : list packet) : list packet :=
  match l with
  | [] => [q]
  | x :: r => if fl_pos (p_flags x) <=? fl_pos (p_flags q) then x :: insert_pos q r else q :: l
  end.
Definition sort_pos (l : list packet) : list packet := fold_right insert_pos [] l.

(* n.Add(x) for x in data[1:]: an empty x or one with another ID is skipped; the payload is
   appended and the low 16 flag bits are or-ed in; then n.Flags.Clear() *)
Definition padd (n x : packet) : packet :=
  if is_nil (p_body x) || negb (p_id n =? p_id x) then n
  else Build_packet (p_id n) (p_job n) (Z.lor (p_flags n) (p_flags x mod 65536)) (p_ntags n) (p_tags n)
                    (p_body n ++ p_body x) (p_dev n).
Definition merge (n : packet) (tl : list packet) : packet :=
  let v := fold_left padd tl n in with_flags (fl_clear (p_flags v)) v.

(* cluster.done.  guard = true: the code (`if len(c.data) == 0 { return nil }` first);
   guard = false: without that line, kept to show what it is there for: a group whose parts are
   ALL empty reaches `n := c.data[0]` with an empty slice. *)
Definition cl_done_g (guard : bool) (c : clus) : res (option packet) :=
  if guard && is_nil (c_data c) then Ok None
  else if c_max c <? u16 (u16 (len (c_data c)) + c_e c) then
    let sorted := sort_pos (c_data c) in
    do n <- idx sorted 0;
    Ok (Some (merge n (drop 1 sorted)))
  else Ok None.
Definition cl_done := cl_done_g true.

(* `clob`: a sub-packet decoded by UnmarshalStream is a WINDOW into the buffer of its container
   (Chunk.Bytes reslices), so when a fragment group completes, Packet.Add appends the other parts
   behind the head's payload IN PLACE if the capacity allows, i.e. over the bytes that follow it in
   the container: bytes of the container that are not decoded yet can change under the walk.  The
   model takes what the rest of the body looks like after each sub-packet as an oracle
   (clob step rest); the theorems hold for EVERY oracle that keeps bytes bytes and the length;
   the correspondence run uses `no_clob` and the harness reports the cases in which the
   implementation really wrote into its input buffer (they are then judged by the oracle only). *)
Definition no_clob : nat -> list Z -> list Z := fun _ r => r.

Fixpoint recv_b (clob : nat -> list Z -> list Z) (fuel : nat) (self : list Z) (st : fstate) (p : packet) : A fstate :=
  match fuel with
  | O => lift (Err EFuel)
  | S f =>
    let fl := p_flags p in
    if (p_id p <? 2) && is_nil (p_body p) && ((fl =? 0) || (fl =? 4)) then ret st     (* isPacketNoP *)
    else if negb (fl_bit 7 fl) && negb (zlist_eqb self (p_dev p)) then lift (Err EOther)
    else if fl_bit 6 fl then ret st                                                     (* oneshot *)
    else if (p_id p =? 4) && negb (fl_bit 8 fl) then ret st                             (* SvComplete *)
    else if fl_bit 1 fl then
      if fl_len fl =? 0 then lift (Err EInvalidCount) else unpack_b clob f self st (fl_len fl) (p_body p)
    else if fl_bit 0 fl then
      if (p_id p =? 6) || (p_id p =? 3) then ret st
      else if fl_len fl =? 0 then lift (Err EInvalidCount)
      else if fl_len fl =? 1 then recv_b clob f self st (with_flags (fl_clear fl) p)
      else
        let g := fl_group fl in
        let go (c : clus) :=
          match cl_add c p with
          | Ok c' =>
            match cl_done c' with
            | Ok (Some v) => recv_b clob f self (f_remove g st) v         (* delete(s.frags, g); receive(s, l, v) *)
            | Ok None => ret ((g, c') :: f_remove g st)
            | Err e => lift (Err e)
            | Panic => lift Panic
            end
          | Err e => lift (Err e)
          | Panic => lift Panic
          end in
        match f_lookup g st with
        | None => if 0 <? fl_pos fl then ret st                                        (* write(SvDrop) *)
                  else go (Build_clus 0 0 [])                                          (* new(cluster) *)
        | Some c => go c
        end
    else ret st                                                                         (* receiveSingle *)
  end
with unpack_b (clob : nat -> list Z -> list Z) (fuel : nat) (self : list Z) (st : fstate) (x : Z) (body : list Z) : A fstate :=
  match fuel with
  | O => lift (Err EFuel)
  | S f =>
    if x <=? 0 then ret st else
    al '(v, r) <- packet_stream body;
    al st' <- recv_b clob f self st v;
    unpack_b clob f self st' (x - 1) (clob f r)
  end.

(* a sequence of Packets handed to receive() one after the other on ONE Session (one per
   connection, or one per Packet of a channel): the state of Session.frags is carried along *)
Definition recv_fuel (p : packet) : nat := S (S (S (length (p_body p)))).
Fixpoint recv_packets (clob : nat -> list Z -> list Z) (self : list Z) (st : fstate) (ps : list packet) : A fstate :=
  match ps with
  | [] => ret st
  | p :: r => al st' <- recv_b clob (recv_fuel p) self st p; recv_packets clob self st' r
  end.

(* the same with the Packets given as bytes: stream forms one behind the other *)
Fixpoint recv_stream (clob : nat -> list Z -> list Z) (fuel : nat) (self : list Z) (st : fstate) (s : list Z) : A fstate :=
  match fuel with
  | O => lift (Err EFuel)
  | S f =>
    if is_nil s then ret st else
    al '(p, r) <- packet_stream s;
    al st' <- recv_b clob (recv_fuel p) self st p;
    recv_stream clob f self st' r
  end.
(* The server-side Session value is built in two places: Listener.talk (a hello that arrives on
   its own connection) and Listener.talkSub (a hello forwarded inside a Multi container of a
   registered peer).  Of its fields, receive() and the fragment dispatch touch only Session.frags:
   both literals must start it as an EMPTY, non-nil map. *)
Definition session_of_talk : fstate := [].
Definition session_of_talkSub : fstate := [].

Definition receive_seq_c (clob : nat -> list Z -> list Z) (self : list Z) (s : list Z) : A (list Z) :=
  al st <- recv_stream clob (S (length s)) self session_of_talk s; ret [len st].
Definition receive_seq := receive_seq_c no_clob.
(* the same for a Session that was registered through the forwarded path *)
Definition receive_seqf_c (clob : nat -> list Z -> list Z) (self : list Z) (s : list Z) : A (list Z) :=
  al st <- recv_stream clob (S (length s)) self session_of_talkSub s; ret [len st].
Definition receive_seqf := receive_seqf_c no_clob.

(* the harness: the input is the stream form of the top packet; then receive(s, l, &p) on the
   Session of device `self` *)
Definition receive_bytes_c (clob : nat -> list Z -> list Z) (self : list Z) (s : list Z) : A (list Z) :=
  al '(p, r) <- packet_stream s;
  al st <- recv_b clob (recv_fuel p) self [] p;
  ret [len st].
Definition receive_bytes := receive_bytes_c no_clob.

(* =========================================================================================
   8. Session.JSON (c2/z_no_implant.go): the view an operator gets of a Session.  The text is the
      concatenation the Go code writes, in its order; the LEAVES (what ID.String, util.Uitoa,
      escape.JSON, Time.Format ... return) are inputs.  Client-supplied strings (user, hostname,
      version, interface names, proxy names and addresses) only enter through escape.JSON.
   ========================================================================================= *)
Definition lit (s : String.string) : list Z :=
  map (fun c => Z.of_N (Ascii.N_of_ascii c)) (String.list_ascii_of_string s).
Arguments lit s%string.

(* a JSON string literal at byte level: quote, then bytes >= 0x20 other than quote and backslash,
   or an escape (backslash and one of: quote, backslash, slash, b f n r t; or u and four hex digits), then the closing quote
   and nothing behind it *)
Definition is_hex (c : Z) : bool :=
  ((48 <=? c) && (c <=? 57)) || ((65 <=? c) && (c <=? 70)) || ((97 <=? c) && (c <=? 102)).
Fixpoint jstr_body (s : list Z) : bool :=
  match s with
  | [] => false
  | 34 :: r => is_nil r
  | 92 :: e :: r =>
    if (e =? 34) || (e =? 92) || (e =? 47) || (e =? 98) || (e =? 102) || (e =? 110) || (e =? 114) || (e =? 116) then jstr_body r
    else if e =? 117 then
      match r with
      | a :: b :: c :: d :: r' => is_hex a && is_hex b && is_hex c && is_hex d && jstr_body r'
      | _ => false
      end
    else false
  | c :: r => (32 <=? c) && negb (c =? 92) && jstr_body r
  end.
Definition is_jstr (s : list Z) : bool := match s with 34 :: r => jstr_body r | _ => false end.
(* what may stand between two quotes without escaping *)
Definition plainb (c : Z) : bool := (32 <=? c) && negb (c =? 34) && negb (c =? 92).
Definition is_plain (s : list Z) : bool := forallb plainb s.
(* util.Uitoa: a non-empty run of digits without a leading zero (or "0") *)
Definition is_jnum (s : list Z) : bool :=
  match s with
  | [] => false
  | [48] => true
  | d :: r => (49 <=? d) && (d <=? 57) && forallb (fun c => (48 <=? c) && (c <=? 57)) r
  end.

Fixpoint join (sep : list Z) (l : list (list Z)) : list Z :=
  match l with [] => [] | [x] => x | x :: r => x ++ sep ++ join sep r end.

Definition jbool (b : bool) : list Z := if b then lit "true" else lit "false".

Record netdev := { n_name : list Z; n_mac : list Z; n_ips : list (list Z) }.
Record workh := { w_sh : list Z; w_sm : list Z; w_eh : list Z; w_em : list Z; w_days : list Z }.
Record sess := {
  j_id : list Z; j_hash : list Z; j_channel : bool; j_full : list Z;
  j_user : list Z; j_host : list Z; j_ver : list Z;           (* escape.JSON(...) *)
  j_arch : list Z; j_os : list Z (* escaped *); j_elev : bool; j_caps : list Z; j_domain : bool;
  j_pid : list Z; j_ppid : list Z; j_net : list netdev;
  j_created : list Z; j_last : list Z; j_via : list Z (* escaped *); j_sleep : list Z; j_jitter : list Z;
  j_kill : list Z;                                               (* empty when the kill date is zero *)
  j_work : option workh; j_cname : option (list Z); j_conn : option (list Z);   (* escaped *)
  j_proxies : list (list Z * list Z) }.                          (* escaped name, escaped address *)

Definition Q : list Z := lit """".     (* quote *)
Definition CM : list Z := lit ",".
Definition CL : list Z := lit ":".

(* The text below is written token by token (key, colon, value, comma ...), right-nested; it is
   the same byte string as the Go code's concatenation of longer literals (the correspondence
   run compares it with what JSON() wrote).  The loops write a comma before every element but
   the first. *)
Fixpoint ips_loop (first : bool) (l : list (list Z)) : list Z :=
  match l with
  | [] => []
  | x :: r => if first then Q ++ x ++ Q ++ ips_loop false r else CM ++ Q ++ x ++ Q ++ ips_loop false r
  end.
Definition netdev_json (d : netdev) (k : list Z) : list Z :=
  lit "{" ++ lit """name""" ++ CL ++ n_name d ++
  CM ++ lit """mac""" ++ CL ++ Q ++ n_mac d ++ Q ++
  CM ++ lit """ip""" ++ CL ++ lit "[" ++ ips_loop true (n_ips d) ++ lit "]" ++ lit "}" ++ k.
Fixpoint net_loop (first : bool) (l : list netdev) : list Z :=
  match l with
  | [] => []
  | d :: r => if first then netdev_json d (net_loop false r) else CM ++ netdev_json d (net_loop false r)
  end.
Definition proxy_json (p : list Z * list Z) (k : list Z) : list Z :=
  lit "{" ++ lit """name""" ++ CL ++ fst p ++ CM ++ lit """address""" ++ CL ++ lit " " ++ snd p ++ lit "}" ++ k.
Fixpoint proxy_loop (first : bool) (l : list (list Z * list Z)) : list Z :=
  match l with
  | [] => []
  | p :: r => if first then proxy_json p (proxy_loop false r) else CM ++ proxy_json p (proxy_loop false r)
  end.

Definition work_json (w : option workh) (k : list Z) : list Z :=
  match w with
  | Some w => lit "{" ++ lit """start_hour""" ++ CL ++ w_sh w ++ CM ++ lit """start_min""" ++ CL ++ w_sm w ++
              CM ++ lit """end_hour""" ++ CL ++ w_eh w ++ CM ++ lit """end_min""" ++ CL ++ w_em w ++
              CM ++ lit """days""" ++ CL ++ Q ++ w_days w ++ Q ++ lit "}" ++ k
  | None => lit "{" ++ lit "}" ++ k
  end.
Definition opt_member (key : list Z) (o : option (list Z)) (k : list Z) : list Z :=
  match o with Some v => CM ++ key ++ CL ++ v ++ k | None => k end.
Definition proxies_member (l : list (list Z * list Z)) (k : list Z) : list Z :=
  match l with [] => k | _ => CM ++ lit """proxy""" ++ CL ++ lit "[" ++ proxy_loop true l ++ lit "]" ++ k end.

Definition session_json (f : sess) : list Z :=
  lit "{" ++ lit """id""" ++ CL ++ Q ++ j_id f ++ Q ++
  CM ++ lit """hash""" ++ CL ++ Q ++ j_hash f ++ Q ++
  CM ++ lit """channel""" ++ CL ++ jbool (j_channel f) ++
  CM ++ lit """device""" ++ CL ++
    lit "{" ++ lit """id""" ++ CL ++ Q ++ j_full f ++ Q ++
    CM ++ lit """user""" ++ CL ++ j_user f ++
    CM ++ lit """hostname""" ++ CL ++ j_host f ++
    CM ++ lit """version""" ++ CL ++ j_ver f ++
    CM ++ lit """arch""" ++ CL ++ Q ++ j_arch f ++ Q ++
    CM ++ lit """os""" ++ CL ++ j_os f ++
    CM ++ lit """elevated""" ++ CL ++ jbool (j_elev f) ++
    CM ++ lit """capabilities""" ++ CL ++ Q ++ j_caps f ++ Q ++
    CM ++ lit """domain""" ++ CL ++ jbool (j_domain f) ++
    CM ++ lit """pid""" ++ CL ++ j_pid f ++
    CM ++ lit """ppid""" ++ CL ++ j_ppid f ++
    CM ++ lit """network""" ++ CL ++ lit "[" ++ net_loop true (j_net f) ++ lit "]" ++ lit "}" ++
  CM ++ lit """created""" ++ CL ++ Q ++ j_created f ++ Q ++
  CM ++ lit """last""" ++ CL ++ Q ++ j_last f ++ Q ++
  CM ++ lit """via""" ++ CL ++ j_via f ++
  CM ++ lit """sleep""" ++ CL ++ j_sleep f ++
  CM ++ lit """jitter""" ++ CL ++ j_jitter f ++
  CM ++ lit """kill_date""" ++ CL ++ Q ++ j_kill f ++ Q ++
  CM ++ lit """work_hours""" ++ CL ++ work_json (j_work f) (
  opt_member (lit """connector_name""") (j_cname f) (
  opt_member (lit """connector""") (j_conn f) (
  proxies_member (j_proxies f) (lit "}")))).

(* the contract of the leaves, as a boolean so that the correspondence run checks it on what the
   implementation really produced *)
Definition netdev_okb (d : netdev) : bool := is_jstr (n_name d) && is_plain (n_mac d) && forallb is_plain (n_ips d).
Definition work_okb (w : option workh) : bool :=
  match w with
  | Some w => is_jnum (w_sh w) && is_jnum (w_sm w) && is_jnum (w_eh w) && is_jnum (w_em w) && is_plain (w_days w)
  | None => true end.
Definition opt_okb (o : option (list Z)) : bool := match o with Some v => is_jstr v | None => true end.
Definition sess_okb (f : sess) : bool :=
  is_plain (j_id f) && is_plain (j_hash f) && is_plain (j_full f) &&
  is_jstr (j_user f) && is_jstr (j_host f) && is_jstr (j_ver f) && is_plain (j_arch f) && is_jstr (j_os f) &&
  is_plain (j_caps f) && is_jnum (j_pid f) && is_jnum (j_ppid f) && forallb netdev_okb (j_net f) &&
  is_plain (j_created f) && is_plain (j_last f) && is_jstr (j_via f) && is_jnum (j_sleep f) && is_jnum (j_jitter f) &&
  is_plain (j_kill f) && work_okb (j_work f) && opt_okb (j_cname f) && opt_okb (j_conn f) &&
  forallb (fun p => is_jstr (fst p) && is_jstr (snd p)) (j_proxies f).

(* =========================================================================================
   correspondence cases
   ========================================================================================= *)
Inductive dec :=
| DDns                       (* transform.DNS.Read: digest = the bytes written *)
| DStrListC | DStrListS      (* data.ReadStringList over a Chunk / over the stream reader *)
| DBytesC | DBytesS          (* Bytes over a Chunk / over the stream reader *)
| DPacketWire | DPacketStream
| DResult (d : rdec)
| DMachine | DNetwork | DProxyData (full : bool) | DDevInfo (t : Z).

Definition strs_digest (l : list (list Z)) (rest : Z) : list Z :=
  [len l] ++ concat (map (fun b => len b :: b) l) ++ [rest].

Definition on_ok {X} (a : A X) (f : X -> list Z) : A (list Z) := al x <- a; ret (f x).

(* the CURRENT code *)
Definition run (d : dec) (s : list Z) : A (list Z) :=
  match d with
  | DDns => dns_read true s
  | DStrListC => on_ok (strlist_flat true s) (fun x => strs_digest (fst x) (len (snd x)))
  | DStrListS => on_ok (strlist_stream true (one s)) (fun x => strs_digest (fst x) (src_len (snd x)))
  | DBytesC => on_ok (lift (rd_bytes s)) (fun x => len (fst x) :: fst x ++ [len (snd x)])
  | DBytesS => on_ok (bytes_stream (one s)) (fun x => len (fst x) :: fst x ++ [src_len (snd x)])
  | DPacketWire => on_ok (packet_wire s) (fun x => pkt_digest (fst x) (len (snd x)))
  | DPacketStream => on_ok (packet_stream s) (fun x => pkt_digest (fst x) (len (snd x)))
  | DResult r => result_dec true r s
  | DMachine => on_ok (rd_machine s) (fun x => [fst x; len (snd x)])
  | DNetwork => on_ok (rd_network s) (fun x => [fst x; len (snd x)])
  | DProxyData f => on_ok (rd_proxydata f s) (fun x => [fst x; len (snd x)])
  | DDevInfo t => devinfo t s
  end.

(* the PINNED tree (before the fix: commits), for the regression lemmas *)
Definition run_pinned (d : dec) (s : list Z) : A (list Z) :=
  match d with
  | DDns => dns_read false s
  | DStrListC => on_ok (strlist_flat false s) (fun x => strs_digest (fst x) (len (snd x)))
  | DStrListS => on_ok (strlist_stream false (one s)) (fun x => strs_digest (fst x) (src_len (snd x)))
  | DResult r => result_dec false r s
  | _ => run d s
  end.

(* allocation classes observed by the harness: TotalAlloc delta of the call
     0 = at most T(n) = 128 n + 1 MiB,  1 = more than T(n),  2 = the process died (out of memory).
   The measured figure includes justified copies of input bytes and run-time noise, so the model
   figure is compared with a factor-two dead zone around the threshold. *)
Definition MiB : Z := 1048576.
Definition thr (n : Z) : Z := 128 * n + MiB.
Definition alloc_class_ok (a n cls : Z) : bool :=
  if cls =? 0 then a <? 2 * thr n
  else if cls =? 1 then thr n / 2 <? a
  else 256 * MiB <? a.

(* input, observed outcome (digest), observed allocation class.  With class 2 there is no outcome. *)
Inductive case :=
| C (d : dec) (input : list Z) (out : res (list Z)) (cls : Z)
| CB64 (shift : Z) (input : list Z) (observed_decode : res (list Z)) (out : res (list Z)) (cls : Z)
| CRecv (self : list Z) (input : list Z) (out : res (list Z)) (cls : Z)
| CRecvSeq (self : list Z) (input : list Z) (out : res (list Z)) (cls : Z)
| CRecvSeqF (self : list Z) (input : list Z) (out : res (list Z)) (cls : Z)   (* Session made by talkSub *)
| CJson (f : sess) (text : list Z).           (* the leaves read from a Session, and what JSON() wrote *)

(* errors: the two EOF flavours are compared exactly; EFuel never matches anything observed *)
Definition check (c : case) : bool :=
  match c with
  | C d input out cls =>
    let r := run d input in
    alloc_class_ok (alloc r) (len input) cls &&
    ((cls =? 2) || res_eqb zlist_eqb (outcome r) out)
  | CB64 shift input dec out cls =>
    let r := b64_read shift dec input in
    alloc_class_ok (alloc r) (len input) cls &&
    ((cls =? 2) || res_eqb zlist_eqb (outcome r) out)
  | CRecv self input out cls =>
    let r := receive_bytes self input in
    alloc_class_ok (alloc r) (len input) cls &&
    ((cls =? 2) || res_eqb zlist_eqb (outcome r) out)
  | CRecvSeq self input out cls =>
    let r := receive_seq self input in
    alloc_class_ok (alloc r) (len input) cls &&
    ((cls =? 2) || res_eqb zlist_eqb (outcome r) out)
  | CRecvSeqF self input out cls =>
    let r := receive_seqf self input in
    alloc_class_ok (alloc r) (len input) cls &&
    ((cls =? 2) || res_eqb zlist_eqb (outcome r) out)
  | CJson f text => zlist_eqb (session_json f) text && sess_okb f

  end.
