(* Model/Frag.v -- C02: fragmentation by the sender (Session.write + queue, c2/session.go) and
   reassembly by the receiver (receive()'s FlagFrag branch in c2/vars.go, cluster.add / cluster.done
   in c2/types.go, com.Packet.Add / Size, com.Flag setters, markSweepFrags).  Definitions only.

   Conventions: every integer is a Z; uint16 / uint8 arithmetic is wrapped explicitly (u16, u8).
   The flag word is the record {len, pos, group, bits}: the three setters replace exactly their
   own 16-bit field and set bit 0 (FlagFrag) -- see com/flag.go; bits are the low 16 bits.
   A device id is a Z, 0 being the empty id.  Payloads are polymorphic lists.  The fragment limit
   F (limits.Frag) and the capacity of the send channel are arguments, the group id (a random
   draw in the code) is an observed input. *)
From XMT Require Import Base.Prelude.

(* ---- com.Flag ------------------------------------------------------------ *)
Record flags := mkFlags { f_len : Z; f_pos : Z; f_group : Z; f_bits : Z }.

Definition flags_eqb (a b : flags) : bool :=
  (f_len a =? f_len b) && (f_pos a =? f_pos b) && (f_group a =? f_group b) && (f_bits a =? f_bits b).
(* the 64-bit word is zero *)
Definition f_zero (f : flags) : bool :=
  (f_len f =? 0) && (f_pos f =? 0) && (f_group f =? 0) && (f_bits f =? 0).
Definition has_frag (f : flags) : bool := Z.testbit (f_bits f) 0.        (* FlagFrag        = 1 << 0 *)
Definition has_multi (f : flags) : bool := Z.testbit (f_bits f) 1.       (* FlagMulti       = 1 << 1 *)
Definition has_multidev (f : flags) : bool := Z.testbit (f_bits f) 7.    (* FlagMultiDevice = 1 << 7 *)
Definition has_crypt (f : flags) : bool := Z.testbit (f_bits f) 8.       (* FlagCrypt       = 1 << 8 *)
Definition set_group (n : Z) (f : flags) : flags := mkFlags (f_len f) (f_pos f) n (Z.lor (f_bits f) 1).
Definition set_len (n : Z) (f : flags) : flags := mkFlags n (f_pos f) (f_group f) (Z.lor (f_bits f) 1).
Definition set_pos (n : Z) (f : flags) : flags := mkFlags (f_len f) n (f_group f) (Z.lor (f_bits f) 1).
(* Flag.Clear: Flag(uint16(f)) ^ FlagFrag *)
Definition fclear (f : flags) : flags := mkFlags 0 0 0 (Z.lxor (f_bits f) 1).

(* ---- com.Packet ---------------------------------------------------------- *)
Record packet (A : Type) := mkPacket {
  p_id : Z; p_job : Z; p_dev : Z; p_flags : flags;
  p_tags : Z;                (* number of tags; fragments never carry any *)
  p_data : list A }.
Arguments mkPacket {A}.
Arguments p_id {A}. Arguments p_job {A}. Arguments p_dev {A}.
Arguments p_flags {A}. Arguments p_tags {A}. Arguments p_data {A}.

Definition with_flags {A} (f : flags) (p : packet A) : packet A :=
  mkPacket (p_id p) (p_job p) (p_dev p) f (p_tags p) (p_data p).
Definition with_dev {A} (d : Z) (p : packet A) : packet A :=
  mkPacket (p_id p) (p_job p) d (p_flags p) (p_tags p) (p_data p).

Definition HeaderSize : Z := 46.     (* com.PacketHeaderSize *)
(* Packet.Size(): header + tags + payload + the length prefix of the payload *)
Definition size {A} (p : packet A) : Z :=
  if is_nil (p_data p) then HeaderSize
  else let s := len (p_data p) + HeaderSize + 4 * p_tags p in
       if s <? 256 then s + 1 else if s <? 65536 then s + 2 else if s <? 4294967296 then s + 4 else s + 8.

(* Packet.Belongs *)
Definition belongs {A} (p n : packet A) : bool :=
  negb (f_zero (p_flags p)) && negb (f_zero (p_flags n)) && (p_id p =? p_id n) && (p_job p =? p_job n)
  && (f_group (p_flags p) =? f_group (p_flags n)).

(* the loop of cluster.done over data[1:]: n.Add(x) ignores an empty x and an x with another ID,
   appends the payload of every other x and ors the low 16 flag bits in.  p_id n never changes, so
   the loop is this filter + one concatenation (Proofs.Frag.join_is_fold_padd links the two). *)
Definition padd {A} (n x : packet A) : packet A :=
  if is_nil (p_data x) || negb (p_id n =? p_id x) then n
  else mkPacket (p_id n) (p_job n) (p_dev n)
         (mkFlags (f_len (p_flags n)) (f_pos (p_flags n)) (f_group (p_flags n))
                  (Z.lor (f_bits (p_flags n)) (f_bits (p_flags x))))
         (p_tags n) (p_data n ++ p_data x).
Definition joinable {A} (n x : packet A) : bool := negb (is_nil (p_data x) || negb (p_id n =? p_id x)).
Definition join {A} (n : packet A) (tl : list (packet A)) : packet A :=
  let xs := filter (joinable n) tl in
  mkPacket (p_id n) (p_job n) (p_dev n)
    (mkFlags (f_len (p_flags n)) (f_pos (p_flags n)) (f_group (p_flags n))
             (fold_left Z.lor (map (fun x => f_bits (p_flags x)) xs) (f_bits (p_flags n))))
    (p_tags n) (p_data n ++ concat (map p_data xs)).

(* ---- sender: Session.write and queue ---------------------------------- *)
Definition ErrFullBuffer : Z := 76.          (* 0x4C *)

Section Sender.
  Context {A : Type}.
  Variable F : Z.       (* limits.Frag *)
  Variable cap : Z.     (* cap(s.send) *)

  (* c := &com.Packet{ID, Job, Flags, Device: n.Device, Chunk{Limit: F}}; SetGroup; SetLen; SetPosition *)
  Definition mkfrag (n : packet A) (g m i : Z) (d : list A) : packet A :=
    mkPacket (p_id n) (p_job n) (p_dev n)
      (set_pos (u16 i) (set_len (u16 m) (set_group g (p_flags n)))) 0 d.

  (* for i := 0; i < m && t < x; i++ { v = n.WriteTo(c); t += v; queue(c) }.  WriteTo into a chunk
     whose Limit is F moves min(F, remaining) elements (data.Chunk, property C11). *)
  Fixpoint carve (fuel : nat) (n : packet A) (g m x i t : Z) (rest : list A) : list (packet A) :=
    match fuel with
    | O => []
    | S k =>
      if (i <? m) && (t <? x) then
        let d := take F rest in
        mkfrag n g m i d :: carve k n g m x (i + 1) (t + len d) (drop F rest)
      else []
    end.

  (* the fragments of n (used when size n > F) *)
  Definition split (g : Z) (n : packet A) : list (packet A) :=
    let m := size n / F + 1 in carve (Z.to_nat m) n g m (size n) 0 0 (p_data n).

  (* write(w, n) up to the calls of queue: the error it returns (0 = nil) and the packets queued *)
  Definition write_plan (w : bool) (qlen g : Z) (n : packet A) : Z * list (packet A) :=
    if (F <=? 0) || (size n <=? F) then
      if negb w && (cap <=? qlen + 1) then (ErrFullBuffer, []) else (0, [n])
    else
      let m0 := size n / F in
      let m1 := if (m0 + 1) * F <? size n then m0 + 1 else m0 in
      if negb w && (cap <=? qlen + m1) then (ErrFullBuffer, [])
      else let m := m1 + 1 in (0, carve (Z.to_nat m) n g m (size n) 0 0 (p_data n)).

  (* queue(): an empty Device is replaced by the local id; non-blocking send into s.send, so
     whatever does not fit into the free slots is dropped without any error *)
  Definition stamp (local : Z) (p : packet A) : packet A :=
    if p_dev p =? 0 then with_dev local p else p.
  Definition enqueue (local qlen : Z) (ps : list (packet A)) : list (packet A) :=
    take (cap - qlen) (map (stamp local) ps).

  Definition write (w : bool) (local qlen g : Z) (n : packet A) : Z * list (packet A) :=
    let '(e, ps) := write_plan w qlen g n in (e, enqueue local qlen ps).
End Sender.

(* ---- receiver ------------------------------------------------------------ *)
Record cluster (A : Type) := mkCluster {
  c_max : Z; c_e : Z; c_c : Z; c_data : list (packet A) }.
Arguments mkCluster {A}.
Arguments c_max {A}. Arguments c_e {A}. Arguments c_c {A}. Arguments c_data {A}.

Definition fragMaxMisses : Z := 5.
Definition ErrNotBelongs : Z := 82.           (* 0x52 *)
Definition ErrInvalidPacketCount : Z := 77.   (* 0x4D *)
Definition ErrWrongDevice : Z := 87.          (* 0x57 *)
Definition ErrOutOfFuel : Z := -99.           (* never produced: Proofs.Frag.recv_fuel_enough *)
Definition ErrUnmodelled : Z := -2.           (* branches of receive() outside this property *)
Definition SvResync : Z := 1.
Definition SvRegister : Z := 3.
Definition SvComplete : Z := 4.
Definition SvShutdown : Z := 5.
Definition SvDrop : Z := 6.
Definition MvRefresh : Z := 7.

Section Receiver.
  Context {A : Type}.

  (* cluster.add *)
  Definition cl_add (c : cluster A) (p : packet A) : res (cluster A) :=
    let bad := match c_data c with d0 :: _ => negb (belongs d0 p) | [] => false end in
    if bad then Err ErrNotBelongs
    else let mx := u16 (f_len (p_flags p) - 1) in
         if is_nil (p_data p) then Ok (mkCluster mx (u16 (c_e c + 1)) fragMaxMisses (c_data c))
         else Ok (mkCluster mx (c_e c) fragMaxMisses (c_data c ++ [p])).

  (* sort.Sort(c) by Flags.Position().  Insertion sort (stable); the code's sort is not stable, which
     cannot be observed while the positions inside a cluster are distinct. *)
  Fixpoint insert_pos (q : packet A) (l : list (packet A)) : list (packet A) :=
    match l with
    | [] => [q]
    | x :: r => if f_pos (p_flags x) <=? f_pos (p_flags q) then x :: insert_pos q r else q :: l
    end.
  Definition sort_pos (l : list (packet A)) : list (packet A) := fold_right insert_pos [] l.

  (* cluster.done: uint16(len(c.data)) + c.e > c.max *)
  Definition cl_done (c : cluster A) : option (packet A) :=
    if is_nil (c_data c) then None
    else if c_max c <? u16 (u16 (len (c_data c)) + c_e c) then
      match sort_pos (c_data c) with
      | [] => None
      | n :: tl => let v := join n tl in Some (with_flags (fclear (p_flags v)) v)
      end
    else None.

  (* the part of receive()'s frag branch that works on the cluster of the packet's group *)
  Inductive fout := FNone | FDrop (f : flags) | FErr (e : Z) | FAgain (v : packet A).

  Definition frag_step (oc : option (cluster A)) (p : packet A) : option (cluster A) * fout :=
    let go (c : cluster A) :=
      match cl_add c p with
      | Ok c' => match cl_done c' with
                 | Some v => (None, FAgain v)          (* delete(s.frags, g); receive(s, l, v) *)
                 | None => (Some c', FNone)            (* s.frag(...) only reports progress of a Job *)
                 end
      | Err e => (Some c, FErr e)
      | Panic => (Some c, FErr ErrUnmodelled)
      end in
    match oc with
    | None => if 0 <? f_pos (p_flags p) then (None, FDrop (p_flags p))   (* write(SvDrop) *)
              else go (mkCluster 0 0 0 [])                               (* new(cluster) *)
    | Some c => go c
    end.

  (* Session.frags: group id -> cluster, as an association list with unique keys *)
  Definition state := list (Z * cluster A).
  Fixpoint lookup (g : Z) (st : state) : option (cluster A) :=
    match st with [] => None | (k, c) :: r => if k =? g then Some c else lookup g r end.
  Definition remove (g : Z) (st : state) : state := filter (fun kc => negb (fst kc =? g)) st.
  Definition set (g : Z) (oc : option (cluster A)) (st : state) : state :=
    match oc with None => remove g st | Some c => (g, c) :: remove g st end.

  Inductive out :=
  | ODeliver (p : packet A)          (* queued to the mux: reaches the handler *)
  | ODrop (f : flags) (dev : Z)      (* an SvDrop packet with these flags is queued for the peer *)
  | ONone
  | OErr (e : Z).

  Definition is_nop (p : packet A) : bool :=
    (p_id p <? 2) && is_nil (p_data p) &&
    (f_zero (p_flags p) || flags_eqb (p_flags p) (mkFlags 0 0 0 4)).

  (* receiveSingle for the ids this property is about *)
  Definition recv_single (p : packet A) : out :=
    if (p_id p =? SvResync) || (p_id p =? SvRegister) || (p_id p =? SvShutdown) then OErr ErrUnmodelled
    else if (p_id p =? SvComplete) && negb (is_nil (p_data p)) && has_crypt (p_flags p) then OErr ErrUnmodelled
    else if p_id p <? MvRefresh then ONone
    else ODeliver p.

  (* receive(s, nil, n) with s.ID = self, no proxy *)
  Fixpoint recv_f (fuel : nat) (self : Z) (st : state) (p : packet A) : state * out :=
    match fuel with
    | O => (st, OErr ErrOutOfFuel)
    | S k =>
      if (p_dev p =? 0) || is_nop p then (st, ONone)
      else if negb (has_multidev (p_flags p)) && negb (self =? p_dev p) then (st, OErr ErrWrongDevice)
      else if (p_id p =? SvComplete) && negb (has_crypt (p_flags p)) then (st, ONone)
      else if has_multi (p_flags p) then (st, OErr ErrUnmodelled)
      else if has_frag (p_flags p) then
        if (p_id p =? SvDrop) || (p_id p =? SvRegister) then (st, OErr ErrUnmodelled)
        else if f_len (p_flags p) =? 0 then (st, OErr ErrInvalidPacketCount)
        else if f_len (p_flags p) =? 1 then recv_f k self st (with_flags (fclear (p_flags p)) p)
        else
          let g := f_group (p_flags p) in
          let '(oc, fo) := frag_step (lookup g st) p in
          let st' := set g oc st in
          match fo with
          | FNone => (st', ONone)
          | FDrop f => (st', ODrop f self)
          | FErr e => (st', OErr e)
          | FAgain v => recv_f k self st' v
          end
      else (st, recv_single p)
    end.
  Definition recv := recv_f 3.

  (* markSweepFrags: v.c-- (uint8); a cluster whose counter reaches 0 is removed *)
  Fixpoint sweep (st : state) : state :=
    match st with
    | [] => []
    | (g, c) :: r =>
      let n := u8 (c_c c - 1) in
      if n =? 0 then sweep r else (g, mkCluster (c_max c) (c_e c) n (c_data c)) :: sweep r
    end.

  Inductive ev := EvPkt (p : packet A) | EvSweep.
  Fixpoint run (self : Z) (st : state) (evs : list ev) : state * list out :=
    match evs with
    | [] => (st, [])
    | EvPkt p :: r => let '(st1, o) := recv self st p in
                      let '(st2, os) := run self st1 r in (st2, o :: os)
    | EvSweep :: r => let '(st2, os) := run self (sweep st) r in (st2, ONone :: os)
    end.
End Receiver.
Arguments fout A : clear implicits.
Arguments out A : clear implicits.
Arguments ev A : clear implicits.
Arguments state A : clear implicits.

(* ---- Session.listen: which wake-ups sweep ------------------------------------------------
   One pass of the loop: wait; `if s.errors == 0 { markSweepFrags() }` -- the test is on the counter as
   the PREVIOUS pass left it; `if p.Switch(e) { ...; s.errors-- }` (uint8); Connect: on an error
   `if s.errors <= maxErrors { s.errors++; continue }` else the loop ends; session(c): false (nothing
   received, or receive() returned an error) => s.errors++, true => s.errors = 0; the loop ends when
   s.errors > maxErrors.  A wake-up is described by what happened in it. *)
Definition maxErrors : Z := 5.
Inductive lwake (A : Type) :=
| LRefused (sw : bool)                  (* Connect failed *)
| LLost (sw : bool)                     (* connected, the exchange failed before a packet was read *)
| LPkt (sw : bool) (p : packet A).      (* the exchange brought p, which went to receive() *)
Arguments LRefused {A}. Arguments LLost {A}. Arguments LPkt {A}.
Definition lw_sw {A} (w : lwake A) : bool :=
  match w with LRefused sw => sw | LLost sw => sw | LPkt sw _ => sw end.
Definition is_err {A} (o : out A) : bool := match o with OErr _ => true | _ => false end.

(* the receiver-side history (wake-up sweeps and arrivals) the loop produces from a list of wake-ups,
   the error counter after each pass, and whether the loop ended ("too many errors") *)
Fixpoint listen_sim {A} (self errs : Z) (st : state A) (ws : list (lwake A)) : list (ev A) * list Z * bool :=
  match ws with
  | [] => ([], [], false)
  | w :: r =>
    let pre := if errs =? 0 then [EvSweep] else [] in
    let st1 := if errs =? 0 then sweep st else st in
    let e1 := if lw_sw w then u8 (errs - 1) else errs in
    match w with
    | LRefused _ =>
      if e1 <=? maxErrors then
        let e2 := u8 (e1 + 1) in
        let '(evs, el, sp) := listen_sim self e2 st1 r in (pre ++ evs, e2 :: el, sp)
      else (pre, [e1], true)
    | LLost _ =>
      let e2 := u8 (e1 + 1) in
      if maxErrors <? e2 then (pre, [e2], true)
      else let '(evs, el, sp) := listen_sim self e2 st1 r in (pre ++ evs, e2 :: el, sp)
    | LPkt _ p =>
      let e2 := if is_err (snd (recv self st1 p)) then u8 (e1 + 1) else 0 in
      if maxErrors <? e2 then (pre ++ [EvPkt p], [e2], true)
      else let '(evs, el, sp) := listen_sim self e2 (fst (recv self st1 p)) r in
           (pre ++ EvPkt p :: evs, e2 :: el, sp)
    end
  end.
Definition listen_evs {A} (self errs : Z) (st : state A) (ws : list (lwake A)) : list (ev A) :=
  fst (fst (listen_sim self errs st ws)).


(* ---- correspondence cases ------------------------------------------------
   Payloads are described by a generator: len elements of the sequence s, nxt s, nxt (nxt s), ...
   (period 251, coprime to every F); byte strings are compared through their run-length encoding
   relative to nxt, which is lossless. *)
Definition nxt (x : Z) : Z := if x =? 250 then 0 else x + 1.
Fixpoint gen (n : nat) (s : Z) : list Z :=
  match n with O => [] | S k => s :: gen k (nxt s) end.
Fixpoint rle_go (prev start cnt : Z) (l : list Z) : list (Z * Z) :=
  match l with
  | [] => [(start, cnt)]
  | y :: r => if y =? nxt prev then rle_go y start (cnt + 1) r else (start, cnt) :: rle_go y y 1 r
  end.
Definition rle (l : list Z) : list (Z * Z) :=
  match l with [] => [] | x :: r => rle_go x x 1 r end.

(* observed packet: ((id, job, dev), (len, pos, group, bits), tags, runs of the payload) *)
Definition opkt : Type := (Z * Z * Z) * (Z * Z * Z * Z) * Z * list (Z * Z).
Definition oflags (f : flags) : Z * Z * Z * Z := (f_len f, f_pos f, f_group f, f_bits f).
Definition obs_pkt (p : packet Z) : opkt :=
  ((p_id p, p_job p, p_dev p), oflags (p_flags p), p_tags p, rle (p_data p)).
Definition z3_eqb (a b : Z * Z * Z) : bool :=
  let '(a1, a2, a3) := a in let '(b1, b2, b3) := b in (a1 =? b1) && (a2 =? b2) && (a3 =? b3).
Definition z4_eqb (a b : Z * Z * Z * Z) : bool :=
  let '(a1, a2, a3, a4) := a in let '(b1, b2, b3, b4) := b in (a1 =? b1) && (a2 =? b2) && (a3 =? b3) && (a4 =? b4).
Definition z2_eqb (a b : Z * Z) : bool := (fst a =? fst b) && (snd a =? snd b).
Definition opkt_eqb (a b : opkt) : bool :=
  let '(a1, a2, a3, a4) := a in let '(b1, b2, b3, b4) := b in
  z3_eqb a1 b1 && z4_eqb a2 b2 && (a3 =? b3) && list_eqb z2_eqb a4 b4.

Inductive oout :=
| OoDeliver (p : opkt)
| OoDrop (f : Z * Z * Z * Z) (dev : Z)
| OoNone
| OoErr (e : Z).
Definition obs_out (o : out Z) : oout :=
  match o with
  | ODeliver p => OoDeliver (obs_pkt p)
  | ODrop f d => OoDrop (oflags f) d
  | ONone => OoNone
  | OErr e => OoErr e
  end.
Definition oout_eqb (a b : oout) : bool :=
  match a, b with
  | OoDeliver p, OoDeliver q => opkt_eqb p q
  | OoDrop f d, OoDrop f' d' => z4_eqb f f' && (d =? d')
  | OoNone, OoNone => true
  | OoErr e, OoErr e' => e =? e'
  | _, _ => false
  end.

(* one call of write: the packet (id, job, dev, flag bits, tags, payload = gen seed len), the
   arguments, the observed group id, and what the implementation did *)
Record send := mkSend {
  s_local : Z; s_wait : bool; s_qlen : Z; s_group : Z;
  s_id : Z; s_job : Z; s_dev : Z; s_bits : Z; s_tags : Z; s_seed : Z; s_plen : Z;
  s_err : Z; s_obs : list opkt }.
Definition send_packet (s : send) : packet Z :=
  mkPacket (s_id s) (s_job s) (s_dev s) (mkFlags 0 0 0 (s_bits s)) (s_tags s)
           (gen (Z.to_nat (s_plen s)) (s_seed s)).

(* arrival of fragment k of send s at the receiver, or one wake-up sweep; IFragB: the fragment arrives with
   the low flag bits x OR-ed in by a hop on its way (session() / channelWrite set FlagChannel and
   FlagChannelEnd on whatever packet goes out next, a proxy sets FlagProxy); IMulti: the fragments arrive
   inside ONE Multi container, which receive() unpacks and handles one after the other *)
Inductive item := IFrag (s k : Z) | ISweep | IFragB (s k x : Z) | IMulti (l : list (Z * Z)).
Definition or_bits {A} (x : Z) (p : packet A) : packet A :=
  with_flags (mkFlags (f_len (p_flags p)) (f_pos (p_flags p)) (f_group (p_flags p)) (Z.lor (f_bits (p_flags p)) x)) p.

(* observed residue: (group, (max, e, c, number of stored fragments)) *)
Definition ocluster : Type := Z * (Z * Z * Z * Z).

(* one wake-up of a client whose REAL listen loop is run: refused connect, lost exchange, or the
   exchange that brings fragment k of send s; sw = what Profile.Switch returned in that pass *)
Inductive litem := LIRefused (sw : bool) | LILost (sw : bool) | LIFrag (sw : bool) (s k : Z).

Inductive case :=
| CHist (F cap : Z) (sends : list send) (self : Z) (sched : list item)
        (outs : list oout) (final : list ocluster)
(* outs: the reaction to every arriving packet; errs: s.errors after every pass; stopped: the loop ended *)
| CListen (F cap : Z) (sends : list send) (self : Z) (wakes : list litem)
          (outs : list oout) (errs : list Z) (stopped : bool) (final : list ocluster).

Definition frag_at (frs : list (list (packet Z))) (s k : Z) : option (packet Z) :=
  if (s <? 0) || (k <? 0) then None else
  match nth_error frs (Z.to_nat s) with
  | Some fr => nth_error fr (Z.to_nat k)
  | None => None
  end.
Fixpoint multi_events (frs : list (list (packet Z))) (l : list (Z * Z)) : option (list (ev Z)) :=
  match l with
  | [] => Some []
  | (s, k) :: r => match frag_at frs s k, multi_events frs r with
                   | Some p, Some t => Some (EvPkt p :: t)
                   | _, _ => None
                   end
  end.
Fixpoint build_events (frs : list (list (packet Z))) (sched : list item) : option (list (ev Z)) :=
  match sched with
  | [] => Some []
  | ISweep :: r => match build_events frs r with Some l => Some (EvSweep :: l) | None => None end
  | IFrag s k :: r =>
    match frag_at frs s k, build_events frs r with
    | Some p, Some l => Some (EvPkt p :: l)
    | _, _ => None
    end
  | IFragB s k x :: r =>
    match frag_at frs s k, build_events frs r with
    | Some p, Some l => Some (EvPkt (or_bits x p) :: l)
    | _, _ => None
    end
  | IMulti m :: r =>
    match multi_events frs m, build_events frs r with
    | Some t, Some l => Some (t ++ l)
    | _, _ => None
    end
  end.

Definition final_ok (st : state Z) (final : list ocluster) : bool :=
  (len st =? len final) &&
  forallb (fun gc : ocluster =>
             match lookup (fst gc) st with
             | Some c => z4_eqb (c_max c, c_e c, c_c c, len (c_data c)) (snd gc)
             | None => false
             end) final.

Fixpoint all2 {X Y} (f : X -> Y -> bool) (a : list X) (b : list Y) : bool :=
  match a, b with
  | [], [] => true
  | x :: a', y :: b' => f x y && all2 f a' b'
  | _, _ => false
  end.

Fixpoint build_wakes (frs : list (list (packet Z))) (ws : list litem) : option (list (lwake Z)) :=
  match ws with
  | [] => Some []
  | LIRefused sw :: r => match build_wakes frs r with Some l => Some (LRefused sw :: l) | None => None end
  | LILost sw :: r => match build_wakes frs r with Some l => Some (LLost sw :: l) | None => None end
  | LIFrag sw s k :: r =>
    if (s <? 0) || (k <? 0) then None else
    match nth_error frs (Z.to_nat s) with
    | Some fr => match nth_error fr (Z.to_nat k) with
                 | Some p => match build_wakes frs r with Some l => Some (LPkt sw p :: l) | None => None end
                 | None => None
                 end
    | None => None
    end
  end.

(* the reactions at the packet arrivals of a history *)
Fixpoint pkt_outs {A} (evs : list (ev A)) (os : list (out A)) : list (out A) :=
  match evs, os with
  | EvPkt _ :: r, o :: os' => o :: pkt_outs r os'
  | EvSweep :: r, _ :: os' => pkt_outs r os'
  | _, _ => []
  end.

Definition sends_ok (F cap : Z) (sends : list send) : list (Z * list (packet Z)) * bool :=
  let ws := map (fun s => write F cap (s_wait s) (s_local s) (s_qlen s) (s_group s) (send_packet s)) sends in
  (ws, all2 (fun (w : Z * list (packet Z)) (s : send) =>
                (fst w =? s_err s) && list_eqb opkt_eqb (map obs_pkt (snd w)) (s_obs s)) ws sends).

Definition check (c : case) : bool :=
  match c with
  | CHist F cap sends self sched outs final =>
    let '(ws, ok) := sends_ok F cap sends in
    ok
    && match build_events (map snd ws) sched with
       | None => false
       | Some evs =>
         let '(st, os) := run self [] evs in
         list_eqb oout_eqb (map obs_out os) outs && final_ok st final
       end
  | CListen F cap sends self wakes outs errs stopped final =>
    let '(ws, ok) := sends_ok F cap sends in
    ok
    && match build_wakes (map snd ws) wakes with
       | None => false
       | Some lws =>
         let '(evs, el, sp) := listen_sim self 0 [] lws in
         let '(st, os) := run self [] evs in
         (* the error of receive() is not observable through the loop, only that there was one; the table
            is read while the loop is parked in the NEXT pass, after that pass's sweep (if it sweeps) *)
         let oo := map (fun o => match o with OErr _ => OoErr 0 | _ => obs_out o end) (pkt_outs evs os) in
         let stf := if sp then st else if last el 0 =? 0 then sweep st else st in
         list_eqb oout_eqb oo outs
         && list_eqb Z.eqb el errs && Bool.eqb sp stopped && final_ok stf final
       end
  end.

(* ---- vocabulary of the property statements (Props/C02.v) ------------------
   Histories are lists of events; a packet event belongs to group g when its flag word carries g. *)
Section Spec.
  Context {A : Type}.

  (* the number of fragments Session.write builds for n *)
  Definition nfrag (F : Z) (n : packet A) : Z := size n / F + 1.

  Definition is_own (g : Z) (e : ev A) : bool :=
    match e with EvPkt p => f_group (p_flags p) =? g | EvSweep => false end.
  (* the packets of group g in arrival order *)
  Fixpoint own_pkts (g : Z) (evs : list (ev A)) : list (packet A) :=
    match evs with
    | [] => []
    | EvPkt p :: r => if f_group (p_flags p) =? g then p :: own_pkts g r else own_pkts g r
    | EvSweep :: r => own_pkts g r
    end.
  (* what the receiver did at exactly those arrivals *)
  Fixpoint own_outs (g : Z) (evs : list (ev A)) (os : list (out A)) : list (out A) :=
    match evs, os with
    | e :: r, o :: os' => if is_own g e then o :: own_outs g r os' else own_outs g r os'
    | _, _ => []
    end.

  (* pacing: between two successive arrivals of group g there are fewer than fragMaxMisses wake-ups
     (c = wake-ups since the last arrival of g); wake-ups before the first and after the last
     arrival of g are free *)
  Fixpoint paced_from (g c : Z) (evs : list (ev A)) : bool :=
    match evs with
    | [] => true
    | EvPkt p :: r => if f_group (p_flags p) =? g then paced_from g 0 r else paced_from g c r
    | EvSweep :: r => if existsb (is_own g) r then (c + 1 <? fragMaxMisses) && paced_from g (c + 1) r else true
    end.
  Fixpoint paced (g : Z) (evs : list (ev A)) : bool :=
    match evs with
    | [] => true
    | EvPkt p :: r => if f_group (p_flags p) =? g then paced_from g 0 r else paced g r
    | EvSweep :: r => paced g r
    end.

  (* what reaches the handler: the original with the three 16-bit fields of the flag word zero,
     FlagFrag cleared (Flag.Clear) and without tags (fragments never carry the tags of the original) *)
  Definition reassembled (n : packet A) : packet A :=
    mkPacket (p_id n) (p_job n) (p_dev n) (mkFlags 0 0 0 (Z.lxor (Z.lor (f_bits (p_flags n)) 1) 1)) 0 (p_data n).

  (* n is an ordinary packet for the Session `self`: addressed to it, not a system packet
     (ID >= MvRefresh) and not a Multi container *)
  Definition addressed (self : Z) (n : packet A) : Prop :=
    p_dev n = self /\ self <> 0 /\ MvRefresh <= p_id n /\ has_multi (p_flags n) = false.

  Definition is_deliver (o : out A) : bool := match o with ODeliver _ => true | _ => false end.

  (* every cluster was touched at most fragMaxMisses wake-ups ago (holds in every reachable state) *)
  Definition counters_ok (st : state A) : Prop :=
    Forall (fun kc : Z * cluster A => 1 <= c_c (snd kc) <= fragMaxMisses) st.
End Spec.

(* ---- vocabulary for the listen-loop statements --------------------------------------------------- *)
Section SpecListen.
  Context {A : Type}.
  (* no two wake-up sweeps without an arrival between them (pending = a sweep since the last arrival) *)
  Fixpoint sparse (pending : bool) (evs : list (ev A)) : bool :=
    match evs with
    | [] => true
    | EvSweep :: r => negb pending && sparse true r
    | EvPkt _ :: r => sparse false r
    end.
  (* fewer than 4 arrivals of other packets between two successive arrivals of group g (f = so far) *)
  Fixpoint fgap_from (g f : Z) (evs : list (ev A)) : bool :=
    match evs with
    | [] => true
    | EvSweep :: r => fgap_from g f r
    | EvPkt p :: r =>
      if f_group (p_flags p) =? g then fgap_from g 0 r
      else if existsb (is_own g) r then (f + 1 <? 4) && fgap_from g (f + 1) r else true
    end.
  Fixpoint fgap (g : Z) (evs : list (ev A)) : bool :=
    match evs with
    | [] => true
    | EvSweep :: r => fgap g r
    | EvPkt p :: r => if f_group (p_flags p) =? g then fgap_from g 0 r else fgap g r
    end.
  (* Profile.Switch never reports a switch (Static profiles; a Group with a single entry) *)
  Definition no_switch (ws : list (lwake A)) : bool := forallb (fun w => negb (lw_sw w)) ws.
End SpecListen.

(* ---- fragments whose low flag bits differ (set by hops on the way) ------------------------------------ *)
Section SpecHop.
  Context {A : Type}.
  (* fragment j of the list arrives with the extra low bits xb j *)
  Fixpoint hop_from (xb : nat -> Z) (j : nat) (fs : list (packet A)) : list (packet A) :=
    match fs with [] => [] | f :: r => or_bits (xb j) f :: hop_from xb (S j) r end.
  Definition hop (xb : nat -> Z) (fs : list (packet A)) : list (packet A) := hop_from xb 0 fs.
  (* what cluster.done (Add ORs the low bits of every non-empty fragment into the first) and Flag.Clear make
     of the fragments fs (in position order) of n *)
  Definition delivered_of (fs : list (packet A)) (n : packet A) : packet A :=
    mkPacket (p_id n) (p_job n) (p_dev n)
      (mkFlags 0 0 0 (Z.lxor (fold_left Z.lor
                                (map (fun f => f_bits (p_flags f)) (filter (fun f => negb (is_nil (p_data f))) (tl fs)))
                                (f_bits (p_flags (hd n fs)))) 1))
      0 (p_data n).
End SpecHop.
